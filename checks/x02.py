"""X02 (extension) -- the client request loop: retries and redirects (pkg/app/client, pkg/protocol/client,
pkg/protocol/http1/client.go HostClient.Do, pkg/app/client/retry).

spec/ClientLoop.tla (the attempt loop and the redirect loop as explicit actions, a scripted peer) is model-checked
(the as-written variant must FAIL DefaultApplied); spec/ClientLoopGen.tla enumerates client configurations + peer
scripts and questions to the delay functions; seeded random scripts are added; harness/drivers/x02 runs every case on
the REAL client against an in-memory scripted peer and records what the peer saw, the callbacks (middleware, RetryIf,
delay policy) and the result; spec/ClientLoopTrace.tla validates every line.  notes/X02.md has the details.
"""
import concurrent.futures, glob, json, os, random, re
from . import lib

M, C = "ClientLoopTrace", "ClientLoopTrace.cfg"
IDEM = {"GET", "HEAD", "PUT", "DELETE", "OPTIONS", "TRACE"}
NOLOC = {"k": "none", "sch": "", "host": "", "port": "", "path": [], "q": "", "up": 0}
QSS = "n=http://a.test/d"
U0 = {"sch": "http", "host": "a.test", "port": "", "path": ["d", "f"], "q": "x=1"}
D0 = {"pol": [], "comb": False, "via": "delay", "unit": "ns", "delay": 0, "maxDelay": 0, "maxJitter": 0, "k": 0, "n": 1}


def L(k, sch="", host="", port="", path=(), q="", up=0):
    return {"k": k, "sch": sch, "host": host, "port": port, "path": list(path), "q": q, "up": up}


def R(status, ka="close", loc=None):
    return {"b": "resp", "status": status, "ka": ka, "loc": loc or dict(NOLOC)}


def B(b):
    return {"b": b, "status": 0, "ka": "close", "loc": dict(NOLOC)}


def sig_of(c):
    """The structural marks of ClientLoopGen!SigOf (only used to match known findings, never to judge)."""
    api = c["api"]
    m = "GET" if api in ("get", "gettimeout", "getdeadline") else "POST" if api == "post" else c["method"]
    body = "none" if api in ("get", "gettimeout", "getdeadline") else "form" if api == "post" else c["body"]
    s = c["script"]
    redir = api in ("redirects", "get", "post", "gettimeout", "getdeadline")
    return {"dr": c["retryIf"] == "default" and c["rc"] and c["maxAttempts"] >= 2 and m in IDEM and body != "stream"
                  and any(e["b"] != "resp" for e in s),
            "sb": body == "stream" and m in IDEM and c["warm"] != "none",
            "p303": redir and m not in ("GET", "HEAD") and any(e["b"] == "resp" and e["status"] == 303 and e["loc"]["k"] != "none" for e in s),
            "ss": redir and any(e["b"] == "resp" and e["loc"]["k"] in ("path", "rel", "query") and e["loc"]["q"] == QSS for e in s),
            "dd": c["delayMs"] >= 1000 and c["timeoutMs"] > 0, "bo": False}


RLOCS = [L("abs", "http", "b.test", "", ["p"], "q=2"), L("abs", "https", "b.test", "8443", ["p", ""]), L("abs", "http", "a.test", "", ["x", "y"]),
         L("schrel", host="b.test", path=["p"]), L("schrel", host="a.test", port="81", path=["p", "q"], q="z=3"),
         L("path", path=["p", "q"], q="z=3"), L("path"), L("path", path=["p"], q=QSS), L("rel", path=["r"]),
         L("rel", path=["r", "s"], q="y=2"), L("rel", path=["r"], up=1), L("rel", path=["t", ""], up=2), L("query", q="q=9"),
         L("frag"), dict(NOLOC)]


def rand_case(rng, cid):
    """One seeded random case over the generator's vocabulary, beyond its bounds (scripts up to 7 exchanges mixing
    failures, keep-alive states and redirects; every API).  Well-formed by construction: the dialer refuses only when
    the client is certain to dial (no idle connection was ever left open), the peer stalls only under a timeout."""
    api = rng.choice(["do"] * 3 + ["redirects"] * 4 + ["get", "post", "reqtimeout", "dotimeout", "dodeadline"])
    method = rng.choice(["GET", "GET", "HEAD", "PUT", "DELETE", "OPTIONS", "TRACE", "POST", "POST", "PATCH"])
    body = "none" if method in ("GET", "HEAD", "DELETE", "OPTIONS", "TRACE") else "bytes"
    rif = rng.choice(["default", "always", "never", "err", "s5xx", "cancel"])
    if api == "do" and method in ("PUT", "POST") and rif in ("default", "never") and rng.random() < 0.3:
        body = "stream"
    ma = rng.choice([0, 1, 2, 2, 3, 3])
    timed = api in ("reqtimeout", "dotimeout", "dodeadline")
    rt = rng.choice([0, 0, 25]) if (timed or api == "do") else 0
    warm = rng.choice(["none", "none", "live", "stale"])
    u = rng.choice([U0, dict(U0, path=[], q=""), dict(U0, path=["d", ""], q=""),
                    {"sch": "https", "host": "a.test", "port": "8443", "path": ["d", "e", "f"], "q": "x=1"}])
    script, open_seen, stalled = [], warm == "live", False
    for _ in range(rng.randint(1, 7)):
        r = rng.random()
        ka = rng.choice(["close", "close", "live", "stale"])
        if r < 0.30 and api in ("redirects", "get", "post"):
            e = R(rng.choice([301, 302, 303, 307, 308]), ka, dict(rng.choice(RLOCS)))
        elif r < 0.45:
            e = R(rng.choice([200, 200, 502, 404]), ka)
        elif r < 0.55 and not open_seen:
            e = B("dialerr")
        elif r < 0.70:
            e = B("closeBefore")
        elif r < 0.85:
            e = B("closePartial")
        elif r < 0.92 and (timed or rt > 0) and not stalled:
            e, stalled = B("stall"), True
        else:
            e = R(200, ka)
        if e["b"] == "resp" and e["ka"] == "live":
            open_seen = True
        script.append(e)
    script += [R(200), R(200), R(200)]
    c = {"kind": "loop", "fam": "random", "api": api, "method": method, "body": body, "u": u, "rc": ma > 0, "maxAttempts": ma,
         "policy": rng.choice(["rec", "rec", "nil"]), "retryIf": rif, "ctx": "live", "maxRedirects": rng.randint(0, 3),
         "timeoutMs": 400 if timed else 0, "readTimeoutMs": rt, "delayMs": 0, "warm": warm, "mw": rng.randint(1, 3),
         "script": script, "d": dict(D0)}
    c["sig"] = sig_of(c)
    c["id"] = cid
    return c


def run_cases(drv, cases, outdir, chunks, par=16, timeout=900):
    os.makedirs(outdir, exist_ok=True)
    for old in glob.glob(os.path.join(outdir, "trace_*.ndjson")):
        os.remove(old)
    cf = os.path.join(outdir, "cases.ndjson")
    with open(cf, "w") as f:
        for c in cases:
            f.write(json.dumps(c, separators=(",", ":")) + "\n")
    lib.run_driver(drv, ["-cases", cf, "-out", outdir, "-chunks", chunks, "-par", par], timeout=timeout)
    return sorted(glob.glob(os.path.join(outdir, "trace_*.ndjson")))


def rerun(ctx, case_lines):
    """Run ONE case alone on the real client and validate it; True = rejected again.  Cases with a timeout involve
    the wall clock: they are run three times and must be rejected at least twice."""
    drv = lib.go_build("x02")
    c = json.loads(case_lines[0])
    c.pop("ev", None)
    reps = 3 if c.get("timeoutMs", 0) > 0 else 1
    d = ctx.sub("rerun_%d" % len(os.listdir(ctx.scratch)))
    again = 0
    for rep in range(reps):
        traces = run_cases(drv, [c], os.path.join(d, "r%d" % rep), 1, par=1)
        r = lib.validate(ctx, M, C, traces, count=False)
        again += 1 if r[0][1] else 0
    return again * 2 > reps


def spec_checks(ctx, q):
    jobs = [("ClientLoop", "ClientLoop_mc.cfg" if q else "ClientLoop_mc_thorough.cfg",
             "every peer behaviour sequence of length <= %d over the entry vocabulary x 3 APIs x GET/POST x MaxAttemptTimes 1..3 x "
             "RetryIf x idle connection none/open/closed x redirect limit 0..2" % (3 if q else 4))]
    with concurrent.futures.ThreadPoolExecutor(max_workers=2) as ex:
        futs = [ex.submit(lib.spec_check, ctx, m, c, 4 if q else 8, 1500, None, 1000, None, n) for m, c, n in jobs]
        neg = ex.submit(lib.tlc, ctx, "ClientLoop", "ClientLoop_asis.cfg", 1, 600)
        for f in futs:
            f.result()
        r = neg.result()
        if not re.search(r"Invariant DefaultApplied is violated", r.out):
            raise lib.Infra("ClientLoop_asis.cfg: expected a counterexample to DefaultApplied\n%s" % r.tail(20))
        ctx.cov["spec_checks"].append({"module": "ClientLoop", "cfg": "ClientLoop_asis.cfg", "distinct_states": r.distinct,
                                       "note": "HostClient.Do AS WRITTEN (the default RetryIf never retries): TLC refutes DefaultApplied, "
                                               "as required (known finding X02-default-retryif-never-retries)"})


def summarize(recs):
    """marks of a non-trivial history, from its recorded events (measured, for the evidence)"""
    sent = sum(1 for r in recs if r["ev"] in ("Req", "Stale") and r.get("x", 1) == 1) + sum(1 for r in recs if r["ev"] == "Dial" and not r["ok"])
    hops = sum(1 for r in recs if r["ev"] == "MwIn" and r["i"] == 1)
    marks = set()
    if sent >= 2:
        marks.add("several_attempts")
    if hops >= 2:
        marks.add("redirect_followed")
    if any(r["ev"] == "Stale" for r in recs):
        marks.add("stale_connection")
    if any(r["ev"] == "RetryIf" for r in recs):
        marks.add("retryif_consulted")
    if any(r["ev"] == "Result" and r["errc"] != "none" for r in recs):
        marks.add("error_result")
    return marks


def describe_unknown(ctx, res):
    """log the rejected cases that no known finding explains (diagnosis of violations and of flaky cases)"""
    known = lib.load_known(ctx.pid)
    shown = 0
    for trace, bad in res:
        if not bad or shown >= 5:
            continue
        lines = lib.read_lines(trace)
        for ln in bad:
            s, e = lib.case_at(lines, ln)
            c = json.loads(lines[s - 1])
            ev = json.loads(lines[ln - 1]) if ln - 1 < len(lines) else {"ev": "EOF"}
            if lib.match_known(known, c, ev) or shown >= 5:
                continue
            shown += 1
            lib.log("unexplained rejection: case %s fam=%s api=%s %s/%s retryIf=%s max=%s warm=%s T=%s R=%s script=%s at %s" % (
                c.get("id"), c.get("fam"), c.get("api"), c.get("method"), c.get("body"), c.get("retryIf"), c.get("maxAttempts"),
                c.get("warm"), c.get("timeoutMs"), c.get("readTimeoutMs"),
                [x["b"] if x["b"] != "resp" else "%d/%s/%s" % (x["status"], x["ka"], x["loc"]["k"]) for x in c.get("script", [])][:8],
                json.dumps(ev)[:200]))


def run(ctx):
    drv = lib.go_build("x02")
    q = ctx.quick
    if not os.environ.get("VERIF_X02_NOSPEC"):     # development switch for mutation runs
        spec_checks(ctx, q)

    gen, n = lib.gen_cases(ctx, "ClientLoopGen", "ClientLoopGen_quick.cfg" if q else "ClientLoopGen_thorough.cfg", timeout=1800)
    cases = [json.loads(l) for l in open(gen)]
    rng = random.Random(ctx.seed * 104729 + (0 if q else 17))
    nrand = 1500 if q else 30000
    cases += [rand_case(rng, n + 1 + i) for i in range(nrand)]

    chunks = 4 if q else min(lib.NCPU, 12)
    # cases that involve the clock (request/read timeouts, sleeping peers) run after the others, on an otherwise idle
    # process: a stall of a busy scheduler must not eat a 400 ms request timeout
    timed = [c for c in cases if c["kind"] == "loop" and (c["timeoutMs"] != 0 or c["readTimeoutMs"] != 0)]
    plain = [c for c in cases if not (c["kind"] == "loop" and (c["timeoutMs"] != 0 or c["readTimeoutMs"] != 0))]
    traces = run_cases(drv, plain, ctx.sub("traces"), chunks, par=16, timeout=900 if q else 3000)
    traces += run_cases(drv, timed, ctx.sub("traces_timed"), 2 if q else 4, par=24, timeout=900 if q else 3000)
    nrun = sum(lib.count_cases(t) for t in traces)
    if nrun != len(cases):
        raise lib.Infra("driver ran %d cases of %d" % (nrun, len(cases)))

    res = lib.validate(ctx, M, C, traces, timeout=1500, par=chunks)
    describe_unknown(ctx, res)
    lib.handle_rejections(ctx, res, lambda cl: rerun(ctx, cl))
    if ctx.violations:
        return
    self_tests(ctx, traces)
    evidence(ctx, cases, traces, n, q)


def self_tests(ctx, traces):
    """Binding self-tests: corrupt ONE recorded case that the specification accepts (no known-finding mark); the trace
    specification must reject the corrupted copy while it accepts the original.  (lib.self_test would count the
    rejections of known-finding cases in the same file as success, so the files here hold the chosen case only.)"""
    clean = []
    for t in traces:
        cur = None
        for line in open(t):
            r = json.loads(line)
            if r["ev"] == "Case":
                cur = [r]
            elif cur is not None:
                cur.append(r)
                if r["ev"] == "End":
                    if not any(cur[0]["sig"].values()):
                        clean.append(cur)
                    cur = None

    def idx(recs, ev, **kw):
        return [i for i, r in enumerate(recs) if r["ev"] == ev and all(r.get(k) == v for k, v in kw.items())]

    def extra_attempt(recs):   # one more request after the last allowed attempt (AttemptBound)
        c = recs[0]
        reqs, outs = idx(recs, "Req"), idx(recs, "MwOut")
        if c["kind"] == "loop" and c["retryIf"] == "always" and c["maxAttempts"] == 2 and c["api"] == "do" and c["warm"] == "none" \
                and len(reqs) == 2 and outs and recs[reqs[-1] - 1]["ev"] == "Dial":
            recs[outs[0]:outs[0]] = [dict(recs[reqs[-1] - 1], conn=9), dict(recs[reqs[-1]], conn=9)]
            return recs

    def resend_post(recs):     # a POST written to a closed idle connection is sent again (default RetryIf)
        c = recs[0]
        st = idx(recs, "Stale")
        if c["kind"] == "loop" and c["retryIf"] == "default" and c["method"] == "POST" and c["warm"] == "stale" and c["api"] == "do" and st:
            i = st[0]
            recs[i + 1:i + 1] = [{"ev": "Dial", "x": 1, "conn": 2, "addr": "a.test:80", "tls": False, "ok": True, "si": 0},
                                 {"ev": "Req", "x": 1, "conn": 2, "reused": False, "method": "POST", "target": recs[i]["target"],
                                  "host": "a.test", "body": "B1", "ok": True, "ctype": "", "si": 1}]
            return recs

    def wrong_hop(recs):       # the follow-up hop asks the wrong host (Location resolution)
        c = recs[0]
        reqs = idx(recs, "Req")
        if c["fam"] == "redirect" and c["script"][0]["loc"]["k"] == "schrel" and c["script"][0]["loc"]["host"] == "b.test" and len(reqs) >= 2:
            recs[reqs[1]]["host"] = "a.test"
            return recs

    def method_changed(recs):  # a 307 turns PUT into GET (RedirectMethodBody)
        c = recs[0]
        ins = idx(recs, "MwIn", i=1)
        if c["fam"] == "redirect" and c["method"] == "PUT" and c["script"][0]["status"] == 307 and len(ins) >= 2:
            for r in recs[ins[1]:]:
                if r["ev"] in ("MwIn", "Req"):
                    r["method"] = "GET"
                    if r["ev"] == "Req":
                        r["body"] = ""
            return recs

    def sent_late(recs):       # a request goes out after the request deadline has passed (DeadlineBound)
        c = recs[0]
        dials, reqs, outs = idx(recs, "Dial", ok=True, x=1), idx(recs, "Req", x=1), idx(recs, "MwOut")
        if c["fam"] == "deadline" and c["timeoutMs"] > 0 and c["readTimeoutMs"] == 0 and c["script"][0]["b"] == "stall" and c["warm"] == "none" \
                and c["retryIf"] in ("err", "always") and c["maxAttempts"] == 3 and c["policy"] == "rec" and len(reqs) == 1 and outs:
            late = dict(recs[reqs[0]], reused=False)
            if len(dials) >= 2:     # the client still dialled after the deadline: the request follows that dial
                recs.insert(dials[-1] + 1, dict(late, conn=recs[dials[-1]]["conn"]))
            else:                   # it gave up at once: a complete further attempt, allowed but for the request itself
                recs[outs[0]:outs[0]] = [{"ev": "Delay", "k": 1, "errc": "timeout"}, dict(recs[dials[0]], conn=2), dict(late, conn=2)]
            return recs

    def wrong_result(recs):    # the call returns the body of an earlier attempt (ResultIsLast)
        c = recs[0]
        res = idx(recs, "Result")
        if c["kind"] == "loop" and c["retryIf"] == "always" and c["maxAttempts"] == 3 and c["api"] == "do" and res and recs[res[0]]["rbody"] == "r3":
            recs[res[0]]["rbody"] = "r1"
            return recs

    def delay_arg(recs):       # the delay policy is asked with the wrong attempt number
        d = idx(recs, "Delay", k=2)
        if d:
            recs[d[0]]["k"] = 1
            return recs

    def too_many_hops(recs):   # one more hop than maxRedirectsCount allows (RedirectBound)
        c = recs[0]
        res = idx(recs, "Result", errc="toomany")
        ins = idx(recs, "MwIn", i=1)
        if c["fam"] == "redirect" and c["maxRedirects"] == 0 and c["mw"] == 3 and c["method"] == "GET" and res and len(ins) == 1 \
                and c["script"][0]["loc"]["k"] == "path" and c["script"][0]["ka"] == "close":
            hop = [dict(r) for r in recs[ins[0]:res[0]]]
            recs[res[0]:res[0]] = hop
            return recs

    def delay_over_cap(recs):  # retry.Delay exceeds MaxDelay
        c = recs[0]
        if c["kind"] == "delay" and c["d"]["via"] == "delay" and c["d"]["maxDelay"] == 5 and recs[1]["max"] == 5:
            recs[1]["max"] = 6
            return recs

    def no_spread(recs):       # the random policy always answers the same
        c = recs[0]
        if c["kind"] == "delay" and c["d"]["pol"] == ["random"] and c["d"]["maxJitter"] == 1000 and c["d"]["maxDelay"] == 0:
            recs[1]["max"] = recs[1]["min"]
            return recs

    tests = [("a third request although MaxAttemptTimes is 2", extra_attempt),
             ("a POST is re-sent after a closed idle connection", resend_post),
             ("the hop after a scheme-relative Location goes to the old host", wrong_hop),
             ("307 followed with GET instead of PUT", method_changed),
             ("a request is sent after the deadline", sent_late),
             ("the result carries the body of the first attempt", wrong_result),
             ("delay policy asked with attempts=1 before the third attempt", delay_arg),
             ("a redirect is followed although maxRedirectsCount is 0", too_many_hops),
             ("retry.Delay returns more than MaxDelay", delay_over_cap),
             ("RandomDelayPolicy never varies", no_spread)]
    import copy
    d = ctx.sub("selftest")
    files, base = [], []
    for k, (name, f) in enumerate(tests):
        for recs in clean:
            mut = f(copy.deepcopy(recs))
            if mut is not None and mut != recs:
                base += recs
                p = os.path.join(d, "mut_%02d.ndjson" % k)
                with open(p, "w") as fh:
                    for r in mut:
                        fh.write(json.dumps(r, separators=(",", ":")) + "\n")
                files.append(p)
                break
        else:
            raise lib.Infra("self-test '%s': no recorded case to corrupt" % name)
    bp = os.path.join(d, "base.ndjson")
    with open(bp, "w") as fh:
        for r in base:
            fh.write(json.dumps(r, separators=(",", ":")) + "\n")
    res = lib.validate(ctx, M, C, [bp] + files, count=False, par=4)
    if res[0][1]:
        raise lib.Infra("self-test: the uncorrupted cases are not accepted (lines %s)" % res[0][1][:5])
    for (name, _), (_, bad) in zip(tests, res[1:]):
        ctx.cov["self_test"].append({"name": name, "rejected_lines": bad[:5], "rejected": bool(bad)})
        if not bad:
            raise lib.Infra("binding self-test '%s' was NOT rejected by %s: the trace specification does not constrain "
                            "the recorded behaviour" % (name, M))
        lib.log("self-test '%s': rejected as required (line %s of the case)" % (name, bad[0]))


def evidence(ctx, cases, traces, n_enum, q):
    per_ev, fams, nontrivial = {}, {}, 0
    sample_trace = None
    for t in traces:
        cur, rec = None, []
        for line in open(t):
            r = json.loads(line)
            per_ev[r["ev"]] = per_ev.get(r["ev"], 0) + 1
            if r["ev"] == "Case":
                cur, rec = r, []
            elif r["ev"] == "End":
                fams[cur["fam"]] = fams.get(cur["fam"], 0) + 1
                if cur["kind"] == "delay":
                    nontrivial += 1 if len(cur["d"]["pol"]) >= 2 or cur["d"]["k"] >= 2 else 0
                else:
                    m = summarize(rec)
                    nontrivial += 1 if len(m) >= 2 else 0
                    if sample_trace is None and cur["fam"] == "chain" and len(m) >= 3 and len(rec) < 40 and not any(cur["sig"].values()):
                        sample_trace = [cur] + rec
            else:
                rec.append(r)
    ctx.cov.update({
        "evaluations": len(cases), "distinct_nontrivial": nontrivial, "exhaustive": False,
        "traces_validated_against_impl": len(cases), "events_per_kind": per_ev, "cases_per_family": fams,
        "samples": [cases[0], cases[n_enum // 2], cases[n_enum + 1], {"recorded_trace": sample_trace}],
        "rule": "TLC (ClientLoopGen) enumerates: retry family = methods x body kinds x 6 RetryIf functions x MaxAttemptTimes 0..3 x idle "
                "connection none/open/closed-by-peer x every sequence of <= %d failing exchanges (dial refused, close before a byte, "
                "close inside the head, 502, 200 kept alive then closed) followed by 200s; deadline family = DoTimeout/DoDeadline/"
                "WithRequestTimeout x stall scripts x read timeout x RetryIf x attempts, expired deadlines, GetTimeout/GetDeadline, a "
                "retry delay longer than the timeout; redirect family = 5 methods x base URLs x limit 0/1 x 5 status codes x 3 "
                "keep-alive states x 16 Location forms (absolute, scheme-relative, absolute path, relative, ../, query only, "
                "fragment, '//' inside, none); chain family = sequences of %d redirects x limit 1..3, hops that fail and are retried, "
                "Get/Post with 1/15/16/17 redirects, missing Location; delay kind = 14 policy combinations x Delay x MaxDelay x "
                "MaxJitter x attempts through retry.Delay and the policy functions (64 samples for random parts), Delay<<k for k up "
                "to 100.  %d seeded random cases (scripts up to 7 exchanges mixing all of it) are added.  Every case runs on the real "
                "pkg/app/client against the in-memory scripted peer.  Non-trivial loop case = its recorded history shows at least "
                "two of: several attempts, a redirect followed, a closed idle connection met, RetryIf consulted, an error result; "
                "non-trivial delay case = >= 2 policies combined or attempts >= 2." % (2 if q else 3, 2 if q else 3, len(cases) - n_enum),
    })
    ctx.assumptions += [
        "the peer is an in-memory net.Conn behind the production buffered standard.Conn (hook H1 NewConnForVerif): one goroutine, "
        "no TCP; TLS hops are observed as 'the dialer was given a TLS config', no handshake is made",
        "an idle connection is reused when there is one for the address (the connection pool is C10's subject); the vocabulary "
        "never reaches one address under two schemes",
        "wall clock, generous (DESIGN 2.4): a call with request timeout T=400 ms returns within T+1500 ms and not before T-1 ms when "
        "the peer said nothing; a case with a timeout must be rejected in 2 of 3 solitary re-runs to count as a violation",
        "after the request deadline the specification only demands: nothing is sent, the result is a timeout (or the error of a "
        "dial made after the deadline); whether the client still dials or still asks RetryIf is left open",
        "the Request object after DoRedirects is compared with the last URL requested (what the code does; undocumented)",
        "TLC and the CommunityModules Json reader are trusted",
    ]
