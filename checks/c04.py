"""C04 -- every response put on the wire is one well-formed, correctly framed message.  DESIGN.md 4/C04."""
import json, os
from . import lib, h1common


def rerun(ctx, case_lines):
    return h1common.rerun_h1srv(ctx, case_lines)


def rerun_hist(ctx, seq):
    return h1common.rerun_h1srv_hist(ctx, seq)


def run(ctx):
    drv = lib.go_build("h1srv")
    h1common.spec_h1server(ctx)
    cases, n = lib.gen_cases(ctx, "H1RespGen", "H1RespGen_quick.cfg" if ctx.quick else "H1RespGen_thorough.cfg",
                             out_name="resp.ndjson", timeout=1800)
    out = ctx.sub("traces")
    traces, ncases = h1common.run_h1srv(ctx, drv, cases, out, modes="buffered" if ctx.quick else "buffered,streaming", cuts="whole")
    res = lib.validate(ctx, "H1ServerTrace", "H1ServerTrace.cfg", traces, timeout=1800)
    lib.handle_rejections(ctx, res, lambda cl: rerun(ctx, cl), rerun_hist=lambda seq: h1common.rerun_h1srv_hist(ctx, seq))

    def pick(recs, pred):
        for r in recs:
            if r["ev"] == "Response" and pred(r):
                return r
        return None
    def body_short(recs):
        r = pick(recs, lambda r: r["bodyLen"] > 1 and r["runs"])
        if r:
            r["runs"][0][2] -= 1; r["bodyLen"] -= 1
        return recs
    def cl_mismatch(recs):
        r = pick(recs, lambda r: r["cl"] > 0 and r["bodyLen"] == r["cl"])
        if r:
            r["cl"] += 1
        return recs
    def head_with_body(recs):
        method = None
        for r in recs:
            if r["ev"] == "Handle":
                method = r["method"]
            if r["ev"] == "Response" and method == "HEAD" and r["status"] == 200:
                r["bodyLen"] = 1; r["runs"] = [[33, 0, 1]]
                return recs
        return recs
    def chunked_204(recs):
        r = pick(recs, lambda r: r["status"] == 204)
        if r:
            r["chunked"] = True
        return recs
    def lost_header(recs):
        r = pick(recs, lambda r: len(r["hdrs"]) >= 2)
        if r:
            r["hdrs"].pop()
        return recs
    def next_starts_inside(recs):
        # the following response starts inside this one: the stream decoder reports garbage
        for i, r in enumerate(recs):
            if r["ev"] == "Response" and r["bodyLen"] > 4:
                recs.insert(i + 1, {"ev": "Garbage", "err": "malformed HTTP response", "at": 10})
                return recs
        return recs
    big = sorted(traces, key=os.path.getsize, reverse=True)
    for f, name in ((body_short, "body one byte short"), (cl_mismatch, "Content-Length does not match the bytes sent"),
                    (head_with_body, "HEAD response with body bytes"), (chunked_204, "chunked framing on a 204"),
                    (lost_header, "an application header lost"), (next_starts_inside, "bytes between two responses that are not a response")):
        lib.self_test(ctx, "H1ServerTrace", "H1ServerTrace.cfg", big, f, name=name, ncases=2000)

    kinds = {}
    seqs = 0
    with open(cases) as f:
        for line in f:
            c = json.loads(line)
            if len(c["script"]) > 1:
                seqs += 1
            for p, rq in zip(c["resps"], c["script"]):
                kinds[(p["body"]["kind"], p["status"], rq["method"])] = 1
    tl = lib.read_lines(traces[0])
    s, e = lib.case_at(tl, 3)
    ctx.cov.update({
        "evaluations": ncases, "distinct_nontrivial": len(kinds), "exhaustive": False, "traces_validated_against_impl": ncases,
        "programs": n, "sequences_of_3": seqs,
        "samples": [{"recorded_trace": [json.loads(x) for x in tl[s - 1:e]][:12]}],
        "rule": "H1RespGen (TLC): status x application header set x body program {none, SetBody, AppendBody+Write, SetBodyStream declared/-1, LimitedReader, "
                "ctx.File, hijacked chunked writer with 6 write/flush patterns} x sizes x request {GET, HEAD, POST, GET+close, HTTP/1.0 keep-alive} x handler "
                "close; every valid combination alone plus every %s-th as a sequence of three on one connection; handlers execute the programs through the "
                "public APIs on the real server; the output stream is decoded incrementally by net/http and every response (status, headers, body provenance, "
                "Content-Length, chunking, bodiless rules, nothing between messages) is validated by TLC. Non-trivial = distinct (body kind, status, method) "
                "combinations." % ("3rd" if ctx.quick else "2nd"),
    })
    ctx.assumptions += ["documented exclusion encoded in the generator: the hijacked chunked writer is not combined with bodiless responses; ctx.File only with status 200",
                        "whether Connection: close / keep-alive is announced is not judged (the property does not state it); that the connection closes when asked is",
                        "net/http.ReadResponse is the independent decoder; same trusted base as C01"]
