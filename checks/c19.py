"""C19 -- tracer start/finish calls pair up exactly once per request, in causal order.  DESIGN.md 4/C19."""
import json, os
from . import lib, h1common


def rerun(ctx, case_lines):
    return h1common.rerun_h1srv(ctx, case_lines)


def rerun_hist(ctx, seq):
    return h1common.rerun_h1srv_hist(ctx, seq)


def run(ctx):
    drv = lib.go_build("h1srv")
    h1common.spec_h1server(ctx)
    cases, n = lib.gen_cases(ctx, "H1TraceGen", "H1TraceGen_quick.cfg" if ctx.quick else "H1TraceGen_thorough.cfg",
                             out_name="hist.ndjson", timeout=1800)
    out = ctx.sub("traces")
    traces, ncases = h1common.run_h1srv(ctx, drv, cases, out, modes="buffered" if ctx.quick else "buffered,streaming",
                                        cuts="whole" if ctx.quick else "whole,rand1x4", extra=["-trace", "detailed,base,disabled"])
    res = lib.validate(ctx, "H1ServerTrace", "H1ServerTrace.cfg", traces, timeout=1800)
    lib.handle_rejections(ctx, res, lambda cl: rerun(ctx, cl), rerun_hist=lambda seq: h1common.rerun_h1srv_hist(ctx, seq))

    def extra_finish(recs):
        for i, r in enumerate(recs):
            if r["ev"] == "TFinish":
                recs.insert(i + 1, dict(r))
                return recs
        return recs
    def drop_start(recs):
        seen = 0
        for i, r in enumerate(recs):
            if r["ev"] == "TStart":
                seen += 1
                if seen == 2:
                    del recs[i]
                    return recs
        return recs
    def wrong_request(recs):
        for r in recs:
            if r["ev"] == "TFinish" and r["target"].startswith("/") and r["status"] == 200:
                r["target"] = "/previous"
                return recs
        return recs
    def stage_disorder(recs):
        for r in recs:
            if r["ev"] == "TFinish" and min(r["stages"]) >= 0:
                r["stages"][6], r["stages"][7] = r["stages"][7] + 5, r["stages"][6]   # handle finishes after write starts
                return recs
        return recs
    def unfinished_stage(recs):
        for r in recs:
            if r["ev"] == "TFinish" and min(r["stages"]) >= 0:
                r["stages"][8] = -1    # write started but never finished
                return recs
        return recs
    big = sorted(traces, key=os.path.getsize, reverse=True)
    for f, name in ((extra_finish, "a finish without a start"), (drop_start, "second request handled without a start"),
                    (wrong_request, "finish carries another request's data"), (stage_disorder, "stage events out of order"),
                    (unfinished_stage, "a started stage never finished")):
        lib.self_test(ctx, "H1ServerTrace", "H1ServerTrace.cfg", big, f, name=name, ncases=60)

    cnt = h1common.event_counts(traces, ["TStart", "TFinish", "Handle", "WriteFailed"])
    kinds = {}
    with open(cases) as f:
        for line in f:
            c = json.loads(line)
            key = ",".join(c["hist"]) + ("|cut" if c["fault"]["truncate"] else "") + ("|wfail" if c["fault"]["wfail"] else "")
            kinds[key] = kinds.get(key, 0) + 1
    tl = lib.read_lines(traces[0])
    s, e = lib.case_at(tl, 3)
    ctx.cov.update({
        "evaluations": ncases, "distinct_nontrivial": len([k for k in kinds if "," in k or "|" in k or k.startswith("bad") or k == "big" or k == "panic"]),
        "exhaustive": True, "traces_validated_against_impl": ncases, "histories": n, "tracer_starts": cnt["TStart"], "tracer_finishes": cnt["TFinish"],
        "handled_requests": cnt["Handle"], "write_faults_hit": cnt["WriteFailed"],
        "samples": [{"recorded_trace": [json.loads(x) for x in tl[s - 1:e]][:16]}, {"history_kinds": sorted(kinds)[:12]}],
        "rule": "H1TraceGen (TLC) enumerates every connection history of 1..%d requests with outcome per request in {GET ok, POST ok, chunked PUT ok, "
                "handler panic under the recovery middleware} and a last request that may also be malformed (3 forms) or over the body limit, crossed with the "
                "end of the connection: peer close, Connection: close, peer closing inside the last head / body, failing write of each response; each history "
                "runs with the recording tracer at level detailed and base, in-loop and poller idle handling. Non-trivial = distinct history shapes with more than "
                "one request or an error/fault outcome." % (2 if ctx.quick else 3),
    })
    ctx.assumptions += ["stage times are compared as recorded by hertz (monotonic clock readings of one goroutine)",
                        "hijacked connections and the netpoll transport itself are not exercised; idle time-out is represented by the peer closing",
                        "same trusted base as C01"]
