"""C12 -- middleware chains run in onion order; Abort stops what has not started.  DESIGN.md 4/C12."""
import glob, json, os
from . import lib


def rerun(ctx, case_lines):
    """Run one case alone on the real code and validate it; True if rejected again."""
    drv = lib.go_build("c12")
    c = json.loads(case_lines[0])
    module = "ChainBuildTrace" if c.get("kind") == "build" else "ChainTrace"
    d = ctx.sub("rerun")
    cf = os.path.join(d, "case.ndjson")
    with open(cf, "w") as f:
        f.write(json.dumps(c) + "\n")
    for old in glob.glob(os.path.join(d, "trace_*.ndjson")):
        os.remove(old)
    lib.run_driver(drv, ["-cases", cf, "-out", d, "-chunks", 1])
    r = lib.validate(ctx, module, module + ".cfg", glob.glob(os.path.join(d, "trace_*.ndjson")), count=False)
    return bool(r[0][1])


def run(ctx):
    drv = lib.go_build("c12")
    q = ctx.quick
    # 1. the specification satisfies the property (exhaustive, all chains up to MaxLen)
    lib.spec_check(ctx, "Chain", "Chain_mc.cfg", workers=8, note="all chains of length 1..5 over 7 behaviours, all interpreter states")
    lib.spec_check(ctx, "ChainBuild", "ChainBuild_mc.cfg", workers=8, note="all builder programs within bounds")
    # 2. cases enumerated by TLC
    cases, n = lib.gen_cases(ctx, "ChainGen", "ChainGen_quick.cfg" if q else "ChainGen_thorough.cfg", out_name="chains.ndjson", timeout=1800)
    bcases, bn = lib.gen_cases(ctx, "ChainBuildGen", "ChainBuildGen_quick.cfg" if q else "ChainBuildGen_thorough.cfg", out_name="builds.ndjson", timeout=1800)
    # 3. run on the real engine
    out = ctx.sub("traces")
    bout = ctx.sub("btraces")
    lib.run_driver(drv, ["-cases", cases, "-out", out, "-chunks", lib.NCPU])
    lib.run_driver(drv, ["-cases", bcases, "-out", bout, "-chunks", lib.NCPU])
    traces = sorted(glob.glob(os.path.join(out, "*.ndjson")))
    btraces = sorted(glob.glob(os.path.join(bout, "*.ndjson")))
    ncases = sum(lib.count_cases(t) for t in traces)
    nb = sum(lib.count_cases(t) for t in btraces)
    if ncases != n or nb != bn:
        raise lib.Infra("driver ran %d+%d cases, TLC generated %d+%d" % (ncases, nb, n, bn))
    # 4. validate
    res = lib.validate(ctx, "ChainTrace", "ChainTrace.cfg", traces)
    bres = lib.validate(ctx, "ChainBuildTrace", "ChainBuildTrace.cfg", btraces)

    lib.handle_rejections(ctx, res, lambda cl: rerun(ctx, cl))
    lib.handle_rejections(ctx, bres, lambda cl: rerun(ctx, cl))

    # 5. binding self-tests: swap two adjacent events / drop an Exit / move a middleware
    def swap(recs):
        for i in range(len(recs) - 1):
            if recs[i]["ev"] == "Exit" and recs[i + 1]["ev"] in ("Enter", "Exit", "Resume"):
                recs[i], recs[i + 1] = recs[i + 1], recs[i]
                return recs
        return recs
    lib.self_test(ctx, "ChainTrace", "ChainTrace.cfg", traces[0], swap, name="swap an Exit with the following event", ncases=200)

    def extra_enter(recs):
        for i in range(len(recs)):
            if recs[i]["ev"] == "Abort":
                recs.insert(i + 1, {"ev": "Enter", "h": recs[i]["h"] + 1})
                return recs
        return recs
    lib.self_test(ctx, "ChainTrace", "ChainTrace.cfg", traces[len(traces)//2], extra_enter, name="a handler entered after Abort", ncases=200)

    def drop_mw(recs):
        for i in range(len(recs)):
            if recs[i]["ev"] == "Mw":
                del recs[i]
                return recs
        return recs
    lib.self_test(ctx, "ChainBuildTrace", "ChainBuildTrace.cfg", btraces[-1], drop_mw, name="drop one recorded middleware run", ncases=200)

    # evidence
    nontriv = 0
    samples = []
    with open(cases) as f:
        for line in f:
            c = json.loads(line)
            if any(b != "Ret" and b != "NextRet" for b in c["chain"]) and len(c["chain"]) >= 2:
                nontriv += 1
                if len(samples) < 3 and len(c["chain"]) >= 4:
                    samples.append(c)
    with open(bcases) as f:
        for i, line in enumerate(f):
            if i in (10, bn // 2):
                samples.append(json.loads(line))
    tl = lib.read_lines(traces[0])
    s, e = lib.case_at(tl, min(len(tl), 200))
    samples.append({"recorded_trace": [json.loads(x) for x in tl[s - 1:e]]})
    ctx.cov.update({
        "evaluations": n + bn, "distinct_nontrivial": nontriv + bn, "exhaustive": True,
        "traces_validated_against_impl": n + bn, "samples": samples,
        "rule": "TLC enumerates every chain of length 1..%d over the 7 handler behaviours and every builder program "
                "within ChainBuildGen's bounds; each is run on the real route.Engine and its recorded event log is "
                "validated step by step against Chain / ChainBuild. Non-trivial chain = length>=2 with at least one "
                "Abort/NextAbort/AbortNext/NextNext/AbortWithStatus handler; every builder program counts (each has "
                ">=1 route plus the 404 and 405 probes)." % (5 if q else 7),
    })
    ctx.assumptions += ["handlers are instrumented closures executing the behaviour named in the case",
                        "TLC 1.8.0 and the CommunityModules Json reader are trusted",
                        "middleware-order obligation for builder programs is the property's (required middleware is an "
                        "ordered subsequence, handlers last); exact snapshot semantics is not judged"]
