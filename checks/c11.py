"""C11 -- client requests reach the server intact and responses come back intact (DESIGN.md 4/C11), plus the client
direction of C02 (run_client_cuts: the same response bytes under many fragmentations give the same validated outcome).

spec/H1Client.tla (+RespWire.tla)  request programs, ExpectedRequest / ExpectedResponse, connection state machine
spec/H1ClientMC.tla                 exhaustive check of the state machine (all Deliver interleavings)
spec/H1ClientGen.tla                TLC enumerates programs x scripts x configurations, sequences of <= 3 exchanges
harness/drivers/c11                 real client.Client / http1.HostClient against a scripted peer; wire decoded by net/http
                                    and by the real hertz server
spec/H1ClientTrace.tla              trace validation
"""
import glob, json, os
from . import lib

TRACE = ("H1ClientTrace", "H1ClientTrace.cfg")


def _drive(ctx, drv, cases, outdir, extra=None, chunks=None, timeout=1500):
    for old in glob.glob(os.path.join(outdir, "trace_*.ndjson")):
        os.remove(old)
    args = ["-cases", cases, "-out", outdir, "-chunks", chunks or lib.NCPU, "-seed", ctx.seed]
    if extra:
        args += extra
    out = lib.run_driver(drv, args, timeout=timeout)
    info = json.loads(out.strip().splitlines()[-1])
    return sorted(glob.glob(os.path.join(outdir, "trace_*.ndjson"))), info["cases"]


def rerun(ctx, case_lines):
    """Run ONE case alone (same fragmentation) on the real client and validate it; True = rejected again."""
    drv = lib.go_build("c11")
    c = json.loads(case_lines[0])
    c.pop("ev", None)
    d = ctx.sub("rerun")
    cf = os.path.join(d, "case.ndjson")
    with open(cf, "w") as f:
        f.write(json.dumps(c) + "\n")
    traces, _ = _drive(ctx, drv, cf, d, chunks=1)
    r = lib.validate(ctx, TRACE[0], TRACE[1], traces, count=False)
    return bool(r[0][1])


def rerun_hist(ctx, seq):
    """Re-run a sequence of recorded cases (each a list of trace lines, first line = Case) in order in one driver process
    (one worker: the pooled Request / Response objects and body buffers are carried from case to case) and validate;
    True = rejected again."""
    drv = lib.go_build("c11")
    d = ctx.sub("rerun_hist")
    cf = os.path.join(d, "cases.ndjson")
    with open(cf, "w") as f:
        for cl in seq:
            c = json.loads(cl[0])
            c.pop("ev", None)
            f.write(json.dumps(c) + "\n")
    traces, _ = _drive(ctx, drv, cf, d, chunks=1)
    r = lib.validate(ctx, TRACE[0], TRACE[1], traces, count=False)
    return bool(r[0][1])


def _event_counts(traces, names):
    cnt = {n: 0 for n in names}
    for t in traces:
        with open(t) as f:
            for line in f:
                for n in names:
                    if '"ev":"%s"' % n in line:
                        cnt[n] += 1
                        break
    return cnt


def _cut_runs(ctx, drv, quick_stride, tag):
    """The cut-heavy subset: small scripts under EVERY 2-way cut / byte-wise / boundary / seeded k-way cuts, and scripts
    with bodies at the buffer boundaries and heads longer than the read buffer under boundary and seeded cuts."""
    q = ctx.quick
    env = {}
    small, ns = lib.gen_cases(ctx, "H1ClientGen", "H1ClientGen_cuts.cfg", out_name="cuts_small_%s.ndjson" % tag, timeout=900)
    big, nb = lib.gen_cases(ctx, "H1ClientGen", "H1ClientGen_cutsbig.cfg", out_name="cuts_big_%s.ndjson" % tag, timeout=900)
    # stride over the generated scripts (quick tiers); seed shifts the phase so that different seeds take different scripts
    def thin(path, stride, name):
        if stride <= 1:
            return path, sum(1 for _ in open(path))
        out = os.path.join(ctx.scratch, name)
        n = 0
        with open(path) as f, open(out, "w") as g:
            for i, line in enumerate(f):
                if (i + ctx.seed) % stride == 0:
                    g.write(line); n += 1
        return out, n
    small_t, ns_t = thin(small, quick_stride, "cuts_small_thin_%s.ndjson" % tag)
    big_t, nb_t = thin(big, max(1, quick_stride // 2), "cuts_big_thin_%s.ndjson" % tag)
    o1, o2 = ctx.sub("cut_small_" + tag), ctx.sub("cut_big_" + tag)
    # (few, larger trace files in the quick tier: one TLC process per file, and the box is shared)
    t1, n1 = _drive(ctx, drv, small_t, o1, chunks=8 if q else lib.NCPU,
                    extra=["-cuts", "every,bytewise,bounds,rand2x8" if q else "every,bytewise,bounds,rand6x8"])
    t2, n2 = _drive(ctx, drv, big_t, o2, chunks=2 if q else lib.NCPU,
                    extra=["-cuts", "bounds,rand3x8"] if q else ["-cuts", "bounds,rand6x8,bytewise", "-maxwire", "14000"])
    res = lib.validate(ctx, TRACE[0], TRACE[1], t1 + t2, timeout=1800)
    return {"traces": t1 + t2, "res": res, "scripts_small": ns_t, "scripts_big": nb_t, "cases": n1 + n2,
            "generated_small": ns, "generated_big": nb}


def run_client_cuts(ctx):
    """Client direction of C02, callable from checks/c02.py: every response script of the cut families is delivered to
    the real client under several fragmentations (whole is part of C11's grid; here: every 2-way cut of the head and of
    whole small messages, cuts at b-1/b/b+1 of every structural boundary, byte-wise, seeded k-way); each (script,
    fragmentation) pair is one trace with its Deliver events, validated against the cut-free expectation of
    H1Client+RespWire.  Rejections are confirmed / reported through lib.handle_rejections with this module's rerun.
    Returns counts."""
    drv = lib.go_build("c11")
    r = _cut_runs(ctx, drv, 2 if ctx.quick else 1, "c02")
    lib.handle_rejections(ctx, r["res"], lambda cl: rerun(ctx, cl), rerun_hist=lambda seq: rerun_hist(ctx, seq))

    def differs_under_cut(recs):
        # what a split-dependent parse looks like: one fragmentation returns a different header value
        k = 0
        for x in recs:
            if x["ev"] == "Case":
                k += 1
            if k >= 3 and x["ev"] == "Returned" and x["err"] == "" and x["fields"]:
                x["fields"][-1]["value"] += "x"
                return recs
        return recs
    big = max(r["traces"], key=os.path.getsize)
    lib.self_test(ctx, TRACE[0], TRACE[1], big, differs_under_cut, name="client: header value differs under one fragmentation", ncases=40)
    cnt = _event_counts(r["traces"], ["Deliver", "Returned"])
    return {"cases": r["cases"], "client_cases": r["cases"], "client_scripts_small": r["scripts_small"], "client_scripts_big": r["scripts_big"],
            "client_socket_reads": cnt["Deliver"], "client_returns": cnt["Returned"],
            "rejected": sum(len(b) for _, b in r["res"])}


def run(ctx):
    drv = lib.go_build("c11")
    q = ctx.quick
    # 1. the state machine satisfies its properties under every interleaving of Deliver with the client steps
    inv = ("invariants CleanReuse NoReuseAfterClose ClosedNotUsable DirtyIsGivenUp UntilCloseSawEof OneReplyPerRequest "
           "FinalIndependent NoOverread")
    lib.spec_check(ctx, "H1ClientMC", "H1ClientMC.cfg", workers=4 if q else 8, timeout=1700,
                   note="H1Client: every sequence of <=2 abstract exchanges (body / no body, response or request ends the connection, "
                        "read-until-close, over the limit) x buffered/streaming x every interleaving of Dial/Send/PeerReply/Deliver(1..3)/"
                        "PeerEof/Close/Return; " + inv)
    if not q:
        lib.spec_check(ctx, "H1ClientMC", "H1ClientMC_thorough.cfg", workers=12, timeout=1700,
                       note="H1Client: every sequence of <=3 exchanges over the five core shapes, same interleavings; " + inv)
    # 2. cases
    cases, n = lib.gen_cases(ctx, "H1ClientGen", "H1ClientGen_quick.cfg" if q else "H1ClientGen_thorough.cfg", out_name="grid.ndjson", timeout=1700)
    # 3. run
    out = ctx.sub("traces")
    traces, ncases = _drive(ctx, drv, cases, out, chunks=min(lib.NCPU, 8))
    if ncases != n:
        raise lib.Infra("driver ran %d cases, TLC generated %d" % (ncases, n))
    # 4. validate
    res = lib.validate(ctx, TRACE[0], TRACE[1], traces, timeout=1700)
    lib.handle_rejections(ctx, res, lambda cl: rerun(ctx, cl), rerun_hist=lambda seq: rerun_hist(ctx, seq))
    # 5. fragmentations (client direction of C02; the full set runs under C02)
    cut = _cut_runs(ctx, drv, 6 if q else 2, "c11")
    lib.handle_rejections(ctx, cut["res"], lambda cl: rerun(ctx, cl), rerun_hist=lambda seq: rerun_hist(ctx, seq))

    # 6. binding self-tests
    def wrong_target(recs):
        for r in recs:
            if r["ev"] == "OnWire" and r["by"] == "hertz":
                r["target"] += "x"
                return recs
        return recs
    def decoders_disagree_on_body(recs):
        for r in recs:
            if r["ev"] == "OnWire" and r["by"] == "nethttp" and r["bodyLen"] > 1 and len(r["bodyRuns"]) == 1 and r["bodyRuns"][0][0] != 0:
                i, a, b = r["bodyRuns"][0]
                r["bodyRuns"] = [[i, a, b - 1]]; r["bodyLen"] -= 1
                return recs
        return recs
    def lost_response_byte(recs):
        for r in recs:
            if r["ev"] == "Returned" and r["err"] == "" and r["bodyLen"] > 2:
                i, a, b = r["bodyRuns"][0]
                r["bodyRuns"] = [[i, a, a + 1], [i, a + 2, b]]; r["bodyLen"] -= 1
                return recs
        return recs
    def body_of_other_exchange(recs):
        for r in recs:
            if r["ev"] == "Returned" and r["err"] == "" and r["x"] == 2 and r["bodyLen"] > 0:
                i, a, b = r["bodyRuns"][0]
                r["bodyRuns"] = [[i - 1, a, b]]
                return recs
        return recs
    def lost_trailer(recs):
        for r in recs:
            if r["ev"] == "Returned" and r["trailers"]:
                r["trailers"] = []
                return recs
        return recs
    def limit_not_enforced(recs):
        for i, r in enumerate(recs):
            if r["ev"] == "Returned" and r["err"] == "tooLarge" and not r["streamed"]:
                r["err"] = ""; r["status"] = 200
                return recs
        return recs
    def unanswered_request(recs):
        for i, r in enumerate(recs):
            if r["ev"] == "PeerReply":
                del recs[i]
                return recs
        return recs
    def stale_bytes_left(recs):
        for r in recs:
            if r["ev"] == "Returned" and r["err"] == "" and r["buffered"] == 0:
                r["buffered"] = 2
                return recs
        return recs
    big = sorted(traces, key=os.path.getsize, reverse=True)   # the first file a corruption applies to is used
    tests = [(wrong_target, "the hertz server decodes a different request target", 20),
             (decoders_disagree_on_body, "net/http reads one body byte less than was sent", 200),
             (lost_response_byte, "one response body byte lost", 60),
             (body_of_other_exchange, "response body taken from the previous exchange", 200),
             (lost_trailer, "response trailer lost", 600),
             (limit_not_enforced, "over-limit body returned in buffered mode", 1500),
             (unanswered_request, "a response returned although the peer never replied", 20),
             (stale_bytes_left, "unread bytes left on a connection that is kept for reuse", 60)]
    # (the self-tests prove that a clean run is not vacuous; when the run has already produced violations the traces no
    # longer have the shape the corruptions look for, and the verdict is exit 1 anyway)
    if not ctx.violations:
        for fn, name, nc in tests:
            lib.self_test(ctx, TRACE[0], TRACE[1], big, fn, name=name, ncases=nc)

    # 7. evidence
    progs, scripts, exch, multi, nontriv = set(), set(), 0, 0, 0
    samples = []
    with open(cases) as f:
        for line in f:
            c = json.loads(line)
            exch += len(c["xs"])
            if len(c["xs"]) >= 2:
                multi += 1
            for e in c["xs"]:
                p = e["prog"]
                progs.add((p["method"], p["url"], json.dumps(p["hdrs"]), json.dumps({k: v for k, v in p["body"].items() if k != "i" and k != "files"}),
                           len(p["body"]["files"]), json.dumps(p["opts"]), c["cfg"]["noNormHdr"], c["cfg"]["noNormPath"], c["cfg"]["proxy"]))
                s = dict(e["script"]); s["i"] = 0; s["padI"] = 0
                scripts.add(json.dumps(s, sort_keys=True))
                if p["body"]["kind"] != "none" or e["script"]["bodyLen"] > 0:
                    nontriv += 1
            if len(samples) < 2 and len(c["xs"]) == 2 and all(x["wireLen"] < 400 for x in c["xs"]):
                samples.append({"id": c["id"], "cfg": c["cfg"], "xs": [{"prog": x["prog"], "wire": x["wire"]} for x in c["xs"]]})
    tl = lib.read_lines(traces[0])
    s_, e_ = lib.case_at(tl, 2)
    samples.append({"recorded_trace": [{k: v for k, v in json.loads(x).items() if k != "xs"} for x in tl[s_ - 1:e_]][:16]})
    cnt = _event_counts(traces + cut["traces"], ["OnWire", "Returned", "Deliver", "Dial", "ConnClosed"])
    ctx.cov.update({
        "evaluations": exch + cut["cases"], "distinct_nontrivial": nontriv, "exhaustive": False,
        "traces_validated_against_impl": ncases + cut["cases"], "samples": samples,
        "cases_grid": ncases, "exchanges_grid": exch, "sequences_of_2_or_3": multi, "request_programs": len(progs),
        "response_scripts": len(scripts), "cut_cases": cut["cases"], "cut_scripts": cut["scripts_small"] + cut["scripts_big"],
        "requests_decoded": cnt["OnWire"], "responses_returned": cnt["Returned"], "socket_reads": cnt["Deliver"],
        "connections_dialed": cnt["Dial"],
        "rule": "H1ClientGen (TLC) enumerates request programs = body shape (none / bytes / stream of known / unknown length with sizes "
                "0,1,17 and the buffer boundaries / 3 url-encoded forms / 3 multipart shapes) x 4 header sets x (header-name normalisation, path "
                "normalisation, proxy form) with method, host, path, query, fragment, userinfo, Connection: close and Host override cycling; and "
                "response scripts = body shape (Content-Length / chunked / until-close with the same sizes, chunk patterns, 204 / 304 / HEAD) x 4 "
                "header sets (mixed case, repeated, folded, near-miss framing names, head longer than the read buffer) x interim 100, with hex case, "
                "chunk extensions, trailers, Connection: close, HTTP/1.0, reason phrase cycling; every program runs once per request "
                "configuration, every script starts one sequence of 1..3 exchanges per (buffered | streaming) x (limit unset | body length - 1 | "
                "body length); every case runs on the real client.Client against a scripted peer and its trace is validated against "
                "H1Client+RespWire. Non-trivial = exchanges with a request body or a response body. The cut families (every 2-way cut, byte-wise, "
                "boundary, seeded) run on a stride here and in full under C02 (run_client_cuts).",
    })
    ctx.assumptions += [
        "response wires are well-formed by construction (RespWire.REncode); body bytes are a provenance pattern mapped back to runs by the harness",
        "the independent request decoder is net/http.ReadRequest (+ mime/multipart, net/url); the hertz-side decoder is the production "
        "route.Engine.Serve path with a recording handler; both are given exactly the bytes the client wrote on the scripted connection",
        "the scripted peer answers when the client starts reading after writing (the client flushes the whole request before it reads); "
        "TLS, CONNECT tunnels, retries, redirects and timeouts are outside this check",
        "header-name case is compared only for application (x-) names; framing/connection fields and defaulted fields are not compared",
    ]
