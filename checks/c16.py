"""C16 -- hz-generated router code registers exactly the routes declared in the IDL.  DESIGN.md 4/C16.

Translation validation driven by a TLA+ specification (spec/HzRouterGen*.tla):
  HzRouterGen      obligations on the compiled+executed output, and a model of the generator's tree algorithm that
                   TLC checks against those obligations on every declaration within small bounds;
  HzRouterGenGen   TLC writes the cases (declarations x generator options);
  harness_hz/drivers/c16   runs the real generator (fresh process per case), compiles all generated routers of a
                   batch as packages of one scratch Go module against the repository under test, registers each on a
                   server.Hertz, dumps Engine.Routes(), serves one request per route and records what ran;
  HzRouterGenTrace TLC validates every recorded case.
"""
import glob, json, os, re, shutil
from . import lib

HZ = os.path.join(lib.ROOT, "harness_hz")
MOD, CFG = "HzRouterGenTrace", "HzRouterGenTrace.cfg"


def _build():
    return lib.go_build("c16", moddir=HZ, pkg="./drivers/c16")


def _scratch(ctx, name):
    """Scratch directory for the generated Go modules: must be outside /repo and /verif."""
    d = ctx.sub(name)
    real = os.path.realpath(d)
    for forbidden in ("/repo", lib.ROOT, os.path.realpath(lib.REPO)):
        if real == forbidden or real.startswith(forbidden + os.sep):
            raise lib.Infra("scratch directory %s is inside %s; set TMPDIR to a directory outside" % (real, forbidden))
    return d


def _drive(ctx, drv, cases, out, name, chunks, batch, timeout):
    scratch = _scratch(ctx, name)
    try:
        lib.run_driver(drv, ["-cases", cases, "-out", out, "-scratch", scratch, "-repo", os.path.realpath(lib.REPO),
                             "-chunks", chunks, "-batch", batch, "-j", min(8, lib.NCPU)], timeout=timeout)
    finally:
        shutil.rmtree(scratch, ignore_errors=True)
    return sorted(glob.glob(os.path.join(out, "trace_*.ndjson")))


def rerun(ctx, case_lines):
    """Generate, compile and run ONE case alone and validate it; True if rejected again."""
    drv = _build()
    c = json.loads(case_lines[0])
    c.pop("ev", None)
    d = ctx.sub("rerun")
    for old in glob.glob(os.path.join(d, "trace_*.ndjson")):
        os.remove(old)
    cf = os.path.join(d, "case.ndjson")
    with open(cf, "w") as f:
        f.write(json.dumps(c) + "\n")
    traces = _drive(ctx, drv, cf, d, "rerun_mod", 1, 1, 900)
    r = lib.validate(ctx, MOD, CFG, traces, count=False)
    return bool(r[0][1])


def _cases_of(trace):
    """Yield (case_record, [event records]) per case of a trace file."""
    cur = None
    with open(trace) as f:
        for line in f:
            r = json.loads(line)
            if r["ev"] == "Case":
                cur = (r, [])
            elif cur is not None:
                cur[1].append(r)
                if r["ev"] == "End":
                    yield cur
                    cur = None


def _self_tests(ctx, clean):
    # 5. binding self-tests on a trace of accepted cases only (so that a rejection is the corruption's)
    st = os.path.join(ctx.scratch, "selftest_base.ndjson")
    with open(st, "w") as f:
        for c, evs in clean:
            for r in [c] + evs:
                f.write(json.dumps(r, separators=(",", ":")) + "\n")
    base = lib.validate(ctx, MOD, CFG, [st], count=False)
    if base[0][1]:
        raise lib.Infra("self-test base trace (accepted cases) is rejected when validated alone: %s" % base[0][1][:5])

    def first_route(recs, pred):
        for r in recs:
            if r["ev"] == "Route" and pred(r):
                return r
        return None

    def parent_mw_in_child_place(recs):     # a group's middleware function replaced by its parent's
        r = first_route(recs, lambda r: len(r["log"]) >= 4)
        if r:
            r["log"] = [dict(e) for e in r["log"]]
            r["log"][1]["n"] = r["log"][0]["n"]
        return recs
    lib.self_test(ctx, MOD, CFG, st, parent_mw_in_child_place, name="group middleware replaced by the parent's function")

    def drop_group_mw(recs):
        r = first_route(recs, lambda r: len(r["log"]) >= 4)
        if r:
            r["log"] = [dict(e) for e in r["log"]]
            del r["log"][1]
        return recs
    lib.self_test(ctx, MOD, CFG, st, drop_group_mw, name="one group's middleware missing from a route's chain")

    def drop_route(recs):
        for i, r in enumerate(recs):
            if r["ev"] == "Route":
                del recs[i]
                break
        return recs
    lib.self_test(ctx, MOD, CFG, st, drop_route, name="one registered route missing")

    def wrong_handler(recs):
        r = first_route(recs, lambda r: len(r["log"]) >= 1)
        if r:
            r["log"] = [dict(e) for e in r["log"]]
            r["log"][-1]["n"] += "x"
        return recs
    lib.self_test(ctx, MOD, CFG, st, wrong_handler, name="route bound to another handler")

    def trailing_slash_dropped(recs):
        r = first_route(recs, lambda r: True)
        if r:
            r["path"] = r["path"][:-1] if r["path"].endswith("/") and len(r["path"]) > 1 else r["path"] + "/"
            r["served"] = r["direct"] = r["path"]
        return recs
    lib.self_test(ctx, MOD, CFG, st, trailing_slash_dropped, name="registered path differs by a trailing slash")


def run(ctx):
    ctx.level = "translation_validation"
    q = ctx.quick
    drv = _build()
    # 1. the design (tree algorithm + template, naming abstracted) meets the obligations; obligations not vacuous
    lib.spec_check(ctx, "HzRouterGen", "HzRouterGen_mc.cfg", workers=8, timeout=1200,
                   note="every declaration of 1..2 methods, depth<=3, verbs {GET, Any}, sort on/off")
    lib.spec_check(ctx, "HzRouterGen", "HzRouterGen_mc3.cfg" if q else "HzRouterGen_mc3t.cfg", workers=8, timeout=2400,
                   note="every declaration of 1..3 methods (insertion order), verbs {GET, POST}, sort on/off")
    # 2. cases written by TLC
    cases, n = lib.gen_cases(ctx, "HzRouterGenGen", "HzRouterGenGen_quick.cfg" if q else "HzRouterGenGen_thorough.cfg",
                             timeout=1800)
    # 3. generate -> compile -> register -> probe, against the real generator and the real hertz
    out = ctx.sub("traces")
    traces = _drive(ctx, drv, cases, out, "gomod", 4 if q else lib.NCPU, 400, 900 if q else 3600)
    ncases = sum(lib.count_cases(t) for t in traces)
    if ncases != n:
        raise lib.Infra("driver ran %d cases, TLC generated %d" % (ncases, n))
    # 4. validate
    res = lib.validate(ctx, MOD, CFG, traces, timeout=1800)
    lib.handle_rejections(ctx, res, lambda cl: rerun(ctx, cl))

    # measured coverage
    rejected = {}
    for t, bad in res:
        lines = lib.read_lines(t) if bad else []
        for ln in bad:
            s, _ = lib.case_at(lines, ln)
            rejected[json.loads(lines[s - 1])["id"]] = ln
    distinct, nontrivial, programs, routes_checked, unjudged, unobservable = set(), set(), 0, 0, 0, 0
    stage = {"generated_ok": 0, "compiled_ok": 0, "registered_ok": 0}
    by_opts = {}
    clean = []          # accepted cases usable for the self-tests
    samples = []
    for t in traces:
        for c, evs in _cases_of(t):
            key = json.dumps([c["opts"], c["methods"]], sort_keys=True)
            distinct.add(key)
            ev = {e["ev"]: e for e in evs if e["ev"] != "Route"}
            routes = [e for e in evs if e["ev"] == "Route"]
            judged = ev.get("Direct", {}).get("outcome") == "ok"
            unjudged += 0 if judged else 1
            stage["generated_ok"] += ev.get("Generated", {}).get("outcome") == "ok"
            stage["compiled_ok"] += ev.get("Compiled", {}).get("outcome") == "ok"
            stage["registered_ok"] += ev.get("Registered", {}).get("outcome") == "ok"
            if ev.get("Registered", {}).get("outcome") == "ok":
                programs += 1
                o = c["opts"]
                k = "sort=%d snake=%d byMethod=%d" % (o["sort"], o["snake"], o["byMethod"])
                by_opts[k] = by_opts.get(k, 0) + 1
            if judged:
                routes_checked += len(routes)
                unobservable += sum(1 for r in routes if r["direct"] != r["path"])
            deep = any(len(r["log"]) >= 4 for r in routes)      # root mw, >= 1 group mw, own mw, handler
            if judged and routes and deep and c["id"] not in rejected:
                nontrivial.add(key)
                if len(clean) < 30 and len(c["methods"]) >= 2:
                    clean.append((c, evs))
                if len(samples) < 2 and len(c["methods"]) >= 3:
                    samples.append({"case": {k: v for k, v in c.items() if k != "ev"}, "recorded_trace": evs})
    if unjudged > max(2, n // 50):
        raise lib.Infra("hertz refused %d of %d declared sets the specification calls Legal" % (unjudged, n))
    if clean:
        _self_tests(ctx, clean)
    elif ctx.violations:
        lib.log("every case with a group on a path was rejected (violations confirmed): binding self-tests skipped")
    else:
        raise lib.Infra("no accepted multi-method case with a group on a path: nothing to run the self-tests on")

    with open(cases) as f:
        first = [json.loads(next(f)) for _ in range(2)]
    with open(os.path.join(lib.SPEC, "HzRouterGenGen_quick.cfg" if q else "HzRouterGenGen_thorough.cfg")) as f:
        k = dict(re.findall(r"^\s*(\w+)\s*=\s*(\w+)\s*$", f.read(), re.M))
    ctx.cov.update({
        "programs": programs,
        "disagreements_checked": routes_checked,
        "evaluations": n,
        "distinct_nontrivial": len(nontrivial),
        "distinct_cases": len(distinct),
        "traces_validated_against_impl": n,
        "exhaustive": False,
        "stages": stage,
        "programs_by_options": by_opts,
        "rejected_cases": len(rejected),
        "declared_sets_refused_by_hertz": unjudged,
        "routes_whose_probe_the_reference_engine_dispatches_elsewhere": unobservable,
        "samples": first + samples,
        "rule": "TLC (HzRouterGenGen) writes the cases: fixed regression shapes, EVERY one-method declaration with path "
                "depth <= %s x {GET, POST, Any}%s, and %s seeded pseudo-random declarations of 2..%d methods (depth <= 3 "
                "over {a, b, a-b, a_b, :id, *rest, ''}, handler-name repeats, colliding handler_path base names) x the 8 "
                "option combinations. programs = generated routers that compiled and registered on a server.Hertz; "
                "disagreements_checked = Engine.Routes() entries of judged cases, each compared with the declaration "
                "(verb, path, handler run, middleware functions run, in order). Non-trivial = distinct accepted case "
                "whose program registered at least one route below a group (>= 4 functions ran for its probe: root middleware, group middleware, own middleware, handler)."
                % (k["SingleDepth"], ", every ordered pair over an 11-path collision core x {GET, Any}" if k["WithPairs"] == "TRUE" else "",
                   k["NSample"], int(k["MaxMethods"])),
    })
    ctx.assumptions += [
        "the harness replaces the BODIES of the generated ...Mw() functions (found with go/parser: every niladic "
        "top-level function of middleware.go) by a recording middleware and supplies stub handler packages; the "
        "generated handler files are not compiled",
        "one request per registered route with parameter value 'v1' and catch-all value 'r/s/t/u' (or 'r', 'r/s' when the "
        "reference engine dispatches that elsewhere); a route is judged by "
        "request only if the reference engine (declared set registered directly) dispatches that probe to it",
        "the generator is driven through generator.HttpPackageGenerator (CmdType new) with hand-built HttpPackage "
        "values shaped like the thrift/protobuf plugins build them; IDL parsing and 'update' of existing files are out of scope",
        "go vet/go build of the local toolchain decide 'valid Go'; TLC and the CommunityModules Json reader are trusted",
    ]
