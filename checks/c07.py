"""C07 -- normalised request paths cannot climb out of the root.  DESIGN.md 4/C07, notes/C07.md.

spec/PathNorm.tla      Decode, Ref (decode once + segment stack), Contained, Impl (normalizePath transcribed),
                       CleanImpl/CleanRef; TLC: Impl = Ref and containment for ALL token strings <= MaxLen
spec/PathNormGen.tla   writes the description of the case space (alphabet, MaxLen, Total) from the cfg constants
harness/drivers/c07    enumerates that space in the spec's shortlex order against the real URI parser, CleanPath
                       and the app.FS handler (sandbox with sentinels outside the root); + seeded random longer ones
spec/PathNormTrace.tla every recorded line: out = Ref(in), Contained, ~sentinel; enumeration complete and in order
"""
import glob, json, os
from . import lib

MODULE = "PathNormTrace"
CFG = "PathNormTrace.cfg"


def _w(path, recs):
    with open(path, "w") as f:
        for r in recs:
            f.write(json.dumps(r, separators=(",", ":")) + "\n")


def rerun(ctx, case_lines):
    """Run ONE target alone on the real code and validate it; True if rejected again."""
    drv = lib.go_build("c07")
    c = json.loads(case_lines[0])
    if c.get("ev") != "Case" or "in" not in c:
        return None
    d = ctx.sub("rerun")
    for old in glob.glob(os.path.join(d, "*.ndjson")):
        os.remove(old)
    cf = os.path.join(d, "case.json")
    _w(cf, [{"ev": "Case", "in": c["in"]}])
    fs = any('"ev":"Served"' in l or '"where":"FS"' in l for l in case_lines)
    lib.run_driver(drv, ["-case", cf, "-out", d, "-fsmax", 99 if fs else -1])
    r = lib.validate(ctx, MODULE, CFG, [os.path.join(d, "trace_000.ndjson")], count=False)
    return bool(r[0][1])


def _headers(files):
    out = []
    for t in files:
        with open(t) as f:
            h = json.loads(f.readline())
        if h.get("ev") != "Chunk":
            raise lib.Infra("trace file %s does not start with a Chunk line" % t)
        out.append(h)
    return out


SPACES = {   # tier -> [(name, alphabet size, MaxLen, mc cfg, gen cfg, trace cfg, fsmax, chunks)]
    "quick": [("wide", 7, 5, "PathNorm_mc.cfg", "PathNormGen_quick.cfg", "PathNormTrace.cfg", 4, 4),
              ("deep", 3, 10, "PathNorm_mc_deep.cfg", "PathNormGen_quick_deep.cfg", "PathNormTrace_deep.cfg", 7, 8)],
    "thorough": [("wide", 7, 8, "PathNorm_mc_thorough.cfg", "PathNormGen_thorough.cfg", "PathNormTrace.cfg", 8, 96),
                 ("deep", 3, 13, "PathNorm_mc_deep_thorough.cfg", "PathNormGen_thorough_deep.cfg",
                  "PathNormTrace_deep.cfg", 13, 48)],
}
GCENV = {"_JAVA_OPTIONS": "-XX:ParallelGCThreads=4"}   # the machine is shared: no 16-thread GC storms per TLC


def run(ctx):
    q = ctx.quick
    drv = lib.go_build("c07")
    spaces = SPACES["quick" if q else "thorough"]
    nrand = 2000 if q else 100000
    stats = {}
    enum_all, rnd, res, total_enum, bounds_all = [], [], [], 0, []
    total_pad, pad_all = 0, []

    for name, nalpha, maxlen, mc_cfg, gen_cfg, trace_cfg, fsmax, nchunks in spaces:
        # 1. the specification: Impl = Ref, containment, CleanImpl = CleanRef for every token string <= MaxLen
        total = sum(nalpha ** i for i in range(maxlen + 1))
        r = lib.spec_check(ctx, "PathNorm", mc_cfg, workers=4 if q else lib.NCPU, timeout=600 if q else 3000,
                           expect_min_states=total, heap="8g", env=GCENV,
                           note="%s space: every token string of length <= %d over the %d-token alphabet, stepped through "
                                "with Succ in blocks; invariants TypeOK, AllInOne (= ImplIsRef, RefContained, "
                                "CleanImplIsRef, CleanContained), RankOK" % (name, maxlen, nalpha))
        if r.distinct != total:
            raise lib.Infra("PathNorm enumeration visited %d states, the space has %d strings" % (r.distinct, total))

        # 2. the case space, from the spec's constants
        bounds, _ = lib.gen_cases(ctx, "PathNormGen", gen_cfg, out_name="bounds_%s.json" % name)
        b = json.loads(open(bounds).readline())
        if b["maxlen"] != maxlen or b["total"] != total or len(b["alphabet"]) != nalpha:
            raise lib.Infra("bounds %s do not match the model-checked configuration (%d, %d)" % (b, maxlen, total))
        bounds_all.append(dict(b, space=name, fsmax=fsmax))

        # 3. the real code
        out = ctx.sub("traces_" + name)
        nr = nrand if name == "wide" else 0
        lib.run_driver(drv, ["-bounds", bounds, "-out", out, "-chunks", nchunks, "-rand", nr, "-seed", ctx.seed,
                             "-fsmax", fsmax, "-randper", 500 if q else 2500, "-par", 4 if q else 16,
                             "-padchunks", 2 if q else 8], timeout=1800)
        enum = sorted(glob.glob(os.path.join(out, "trace_*.ndjson")))
        # padded targets (> 128 bytes): per pad, the chunks tile the cores 0 .. padTotal-1
        pads = sorted(glob.glob(os.path.join(out, "pad_*.ndjson")))
        npad = 0
        for pi, pad in enumerate(b["pads"] if b["padTotal"] > 0 else []):
            at = 0
            for h in _headers([t for t in pads if os.path.basename(t).startswith("pad_%d_" % pi)]):
                if h["mode"] != "pad" or h["rank"] != at or h["pre"] != pad["pre"] or h["post"] != pad["post"]:
                    raise lib.Infra("pad chunks do not tile the cores: %s at rank %d" % (str(h)[:200], at))
                at += h["n"]
            if at != b["padTotal"]:
                raise lib.Infra("pad %d chunks cover %d of %d cores" % (pi, at, b["padTotal"]))
            npad += at
        if b["padTotal"] <= 0 and pads:
            raise lib.Infra("unexpected pad files")
        if b["padTotal"] > 0 and (len(b["pads"]) < 4 or min(sum(len(t) for t in x["pre"] + x["post"]) for x in b["pads"]) < 126):
            raise lib.Infra("pads of the specification are not long enough to leave CleanPath's stack buffer")
        total_pad += npad
        rn = sorted(glob.glob(os.path.join(out, "rand_*.ndjson")))
        st = json.load(open(os.path.join(out, "stats.json")))
        # the chunks tile the enumeration 0 .. Total-1 (inside a chunk the trace spec checks in' = Succ(in))
        at = 0
        for h in _headers(enum):
            if h["mode"] != "enum" or h["rank"] != at or h["fsmax"] != fsmax:
                raise lib.Infra("enumeration chunks do not tile the space: %s at rank %d" % (h, at))
            at += h["n"]
        if at != total:
            raise lib.Infra("enumeration chunks cover %d of %d strings" % (at, total))
        hr = _headers(rn)
        if sum(h["n"] for h in hr) != nr or any(h["mode"] != "free" or h["fsmax"] != fsmax for h in hr):
            raise lib.Infra("random chunks do not hold the %d requested targets" % nr)
        if st["VHost"] == 0:
            raise lib.Infra("no request went through the vhost-rewriting file handler")
        if st["Cases"] + st["Panics"] < total + nr + npad:
            raise lib.Infra("driver ran %d cases, expected %d" % (st["Cases"], total + nr + npad))
        for k2, v in st.items():
            stats[k2] = stats.get(k2, 0) + v
        total_enum += total

        # 4. validate every recorded line
        res += lib.validate(ctx, MODULE, trace_cfg, enum + rn + pads, timeout=3000, par=lib.NCPU)
        pad_all += pads
        enum_all += enum
        rnd += rn

    lib.spec_check(ctx, "PathNorm", "PathNorm_mc_win.cfg", workers=4, timeout=600, env=GCENV,
                   note="BackslashSep = TRUE (Windows build), strings <= 5")
    enum = enum_all
    b = {"spaces": bounds_all, "total": total_enum, "padded": total_pad, "pad_files": pad_all, "randMin": bounds_all[0]["randMin"], "randMax": bounds_all[0]["randMax"]}
    maxlen = "/".join(str(x["maxlen"]) for x in bounds_all)
    fsmax = "/".join(str(x["fsmax"]) for x in bounds_all)

    lib.handle_rejections(ctx, res, lambda cl: rerun(ctx, cl))

    # 5. binding self-tests on a recorded prefix (header and End fixed up so that only the corruption is wrong)
    def prefix(recs):
        recs = [r for r in recs]
        recs[0] = dict(recs[0], n=sum(1 for r in recs if r["ev"] == "Case"))
        return recs + [{"ev": "End"}]

    # (taken from a recorded enumeration file without rejected lines; with confirmed violations the verdict is
    # already exit 1 and the recording is not a usable baseline)
    if ctx.violations:
        lib.log("violations confirmed; binding self-tests skipped")
        return _evidence(ctx, b, stats, enum, rnd, maxlen, nrand, fsmax)
    clean = [t for t, bad in res if not bad and os.path.basename(t) == "trace_000.ndjson" and "traces_wide" in t] + \
            [t for t, bad in res if not bad and os.path.basename(t).startswith("trace_") and "traces_wide" in t]
    if not clean:
        raise lib.Infra("no enumeration trace file without rejected lines to run the binding self-tests on")
    st_file = clean[0]
    base_lines = lib.read_lines(st_file)
    idx = [i for i, l in enumerate(base_lines) if '"ev":"Case"' in l]
    ncase = min(300, len(idx) - 1)
    base = prefix([json.loads(l) for l in base_lines[:idx[ncase]]])
    okf = os.path.join(ctx.scratch, "selftest_base.ndjson")
    _w(okf, base)
    if lib.validate(ctx, MODULE, CFG, [okf], count=False)[0][1]:
        raise lib.Infra("self-test base (uncorrupted recorded prefix) was rejected")

    def nth(recs, ev, pred=lambda r: True, n=0):
        c = [i for i, r in enumerate(recs) if r["ev"] == ev and pred(r)]
        return c[min(n, len(c) - 1)]

    def undecoded(recs):      # the parser "forgot" to resolve: Path() reported as the raw target
        recs = prefix(recs)
        i = nth(recs, "Case", lambda r: "." in r["in"] and "/" in r["in"] and len(r["in"]) >= 3, 5)
        raw = [ch for t in recs[i]["in"] for ch in t]
        recs[i + 1] = dict(recs[i + 1], out=(["/"] if raw[:1] != ["/"] else []) + raw)
        return recs

    def drop_case(recs):      # one enumerated target missing from the recording
        recs = prefix(recs)
        i = nth(recs, "Case", n=40)
        j = nth(recs[i + 1:], "Case") + i + 1
        del recs[i:j]
        recs[0] = dict(recs[0], n=recs[0]["n"] - 1)
        return recs

    def sentinel(recs):       # the file handler served a file from outside the root
        recs = prefix(recs)
        if not any(r["ev"] == "Served" for r in recs):
            # chunk recorded without FS requests: declare them owed and add an innocent one per case, so that the
            # single corrupted line below is the only thing wrong
            out, norm = [dict(recs[0], fsmax=99)], None
            for r in recs[1:]:
                out.append(r)
                if r["ev"] == "Norm":
                    norm = r["out"]
                if r["ev"] == "Clean":
                    out.append({"ev": "Served", "path": norm, "status": 404, "sentinel": False, "vh": []})
            recs = out
        i = nth(recs, "Served", n=25)
        recs[i] = dict(recs[i], sentinel=True)
        return recs

    def vhost_sentinel(recs):  # ... or through the handler behind NewVHostPathRewriter with Host ".."
        recs = prefix(recs)
        i = nth(recs, "Served", lambda r: len(r["vh"]) > 0, 3)
        recs[i] = dict(recs[i], vh=[True] + recs[i]["vh"][1:])
        return recs

    def clean_escapes(recs):  # CleanPath returned a path that climbs
        recs = prefix(recs)
        i = nth(recs, "Clean", n=30)
        recs[i] = dict(recs[i], out=["/", ".", ".", "/", "a"])
        return recs

    for name, m in (("URI.Path() reported unresolved for one target", undecoded),
                    ("one enumerated target dropped from the recording", drop_case),
                    ("sentinel outside the root served once", sentinel),
                    ("sentinel served once through the vhost-rewriting handler", vhost_sentinel),
                    ("CleanPath result with a '..' segment", clean_escapes)):
        lib.self_test(ctx, MODULE, CFG, st_file, m, ncases=ncase, name=name)

    # ... and on a padded (> 128 bytes) recording: CleanPath lost the prefix it had already accepted
    cpad = [t for t, bad in res if not bad and os.path.basename(t).startswith("pad_0_")]
    if b["padded"] and not cpad:
        raise lib.Infra("no padded trace file without rejected lines to run the binding self-test on")
    if cpad:
        def lost_prefix(recs):
            recs = prefix(recs)
            i = nth(recs, "Clean", lambda r: len(r["out"]) > 128, 3)
            recs[i] = dict(recs[i], out=["<00>"] * 20 + recs[i]["out"][20:])
            return recs
        pl = lib.read_lines(cpad[0])
        pidx = [i for i, l in enumerate(pl) if '"ev":"Case"' in l]
        pn = min(60, len(pidx) - 1)
        okp = os.path.join(ctx.scratch, "selftest_padbase.ndjson")
        _w(okp, prefix([json.loads(l) for l in pl[:pidx[pn]]]))
        if lib.validate(ctx, MODULE, "PathNormTrace_deep.cfg", [okp], count=False)[0][1]:
            raise lib.Infra("self-test base (uncorrupted padded prefix) was rejected")
        lib.self_test(ctx, MODULE, "PathNormTrace_deep.cfg", cpad[0], lost_prefix, ncases=pn,
                      name="CleanPath result of a >128-byte target starts with NUL bytes")

    _evidence(ctx, b, stats, enum, rnd, maxlen, nrand, fsmax)


def _evidence(ctx, b, stats, enum, rnd, maxlen, nrand, fsmax):
    samples = []
    for t in [enum[len(enum) // 3], enum[-1]] + rnd[:1] + b["pad_files"][-1:]:
        tl = lib.read_lines(t)
        s, e = lib.case_at(tl, min(len(tl) - 1, 2000))
        samples.append({"file": os.path.basename(os.path.dirname(t)) + "/" + os.path.basename(t),
                        "recorded_trace": [json.loads(x) for x in tl[s - 1:e]]})
    samples.append({"chunk_header": json.loads(lib.read_lines(enum[-1])[0])})
    sp = b["spaces"]
    ctx.cov.update({
        "evaluations": stats["Cases"],
        "distinct_nontrivial": stats["Resolved"],
        "path_differs_from_target": stats["Changed"],
        "exhaustive": True,
        "traces_validated_against_impl": stats["Cases"],
        "samples": samples,
        "fs_vhost_rewriter_requests": stats["VHost"],
        "fs_requests": stats["Served"], "fs_200": stats["Served200"], "fs_sentinel_served": stats["Sentinel"],
        "enumerated": b["total"], "random": nrand, "padded_over_128_bytes": b["padded"],
        "spaces": [{"space": x["space"], "alphabet": x["alphabet"], "max_tokens": x["maxlen"], "strings": x["total"],
                    "fs_for_len_le": x["fsmax"]} for x in sp],
        "rule": "Two spaces are enumerated completely, in shortlex order, by the driver (the trace spec re-derives the "
                "order with Succ/Rank per chunk and python checks that the chunks tile 0..Total-1): " +
                "; ".join("%s = every token string of length 0..%d over %s (%d strings)" %
                          (x["space"], x["maxlen"], " ".join(x["alphabet"]), x["total"]) for x in sp) +
                "; plus every string of the deep space up to %d tokens wrapped in each of the 4 long pads of PathNorm!Pads "
                "(targets of 126..140 bytes, i.e. beyond CleanPath's 128-byte stack buffer, with the modification point "
                "behind, before and around byte 128; %d targets, order and completeness checked per pad)"
                "; plus %d seeded random strings of %d..%d tokens over the 10-token alphabet (adds %%2E %%252e %%2F; every "
                "other one over a random 2..5-token sub-alphabet). Each target is run through URI.Parse(host,target)"
                ".Path() (pooled URI with host / fresh URI without), utils.CleanPath and (enumerated strings up to %s "
                "tokens and all random ones) the app.FS handler on a sandbox tree with sentinels outside the root; every "
                "recorded line is validated by TLC against PathNorm (out = Ref(in), Contained, sentinel not served). "
                "Cases of the two spaces overlap only in the strings over {/ . a} of length <= %d. Non-trivial = the "
                "driver measured that Path() has fewer '/' than the target has slashes (raw or written %%2f/%%2F), i.e. "
                "the normaliser dropped or popped at least one segment (path_differs_from_target counts the weaker "
                "'anything was decoded or removed')."
                % (sp[-1]["padMax"], b["padded"], nrand, b["randMin"], b["randMax"], fsmax, sp[0]["maxlen"]),
    })
    ctx.assumptions += [
        "unix build (filepath.Separator = '/'): a backslash is an ordinary byte; the Windows branch is model-checked in "
        "the spec (BackslashSep = TRUE) but not run",
        "a final '.' segment is left in place by Ref (the property allows '.' as last segment; DESIGN 4/C07)",
        "for utils.CleanPath only containment is judged (the property claims nothing else about it); CleanImpl = CleanRef "
        "is proved on the transcription only",
        "exhaustive bounds are %s tokens (wide/deep); 7^9+ strings are beyond the TLC budget, longer strings are sampled"
        % maxlen,
        "TLC and the CommunityModules Json reader are trusted",
    ]
