"""C05 -- header-setting APIs cannot be used to inject lines into a message.  DESIGN.md 4/C05, notes/C05.md.

spec/HeaderWrite.tla      entry-point table, strict line reader Lines, the obligation MessageOK, reference serialiser
spec/HeaderWriteGen.tla   TLC enumerates the API programs (every entry point x every slot x every string <= 3 (4))
harness/drivers/c05       runs each program on the real protocol.Request/Response/app.RequestContext, records bytes
spec/HeaderWriteTrace.tla TLC re-reads the recorded bytes with Lines and evaluates MessageOK
"""
import concurrent.futures, glob, json, os
from . import lib

TRACE = "HeaderWriteTrace"


def _case_of(line):
    c = json.loads(line)
    c.pop("ev", None)
    return c


def rerun(ctx, case_lines):
    """Run one case alone on the real code and validate it; True if rejected again."""
    drv = lib.go_build("c05")
    d = ctx.sub("rerun")
    cf = os.path.join(d, "case.ndjson")
    with open(cf, "w") as f:
        f.write(json.dumps(_case_of(case_lines[0])) + "\n")
    for old in glob.glob(os.path.join(d, "trace_*.ndjson")):
        os.remove(old)
    lib.run_driver(drv, ["-cases", cf, "-out", d, "-chunks", 1])
    r = lib.validate(ctx, TRACE, TRACE + ".cfg", glob.glob(os.path.join(d, "trace_*.ndjson")), count=False)
    return bool(r[0][1])


def _negative(ctx, cfg, what):
    """A serialiser that must NOT satisfy the obligation: TLC has to report Safe violated (non-vacuity)."""
    r = lib.tlc(ctx, "HeaderWrite", cfg, workers=2, timeout=600)
    v = r.violated()
    if not v or "Safe" not in v:
        raise lib.Infra("negative configuration %s (%s) did not violate invariant Safe: the obligation is vacuous or "
                        "TLC failed (rc=%d)\n%s" % (cfg, what, r.rc, r.tail(30)))
    ctx.cov["spec_checks"].append({"module": "HeaderWrite", "cfg": cfg, "distinct_states": r.distinct,
                                   "states_generated": r.generated, "wall_s": round(r.wall, 1),
                                   "note": "NEGATIVE: %s -- invariant Safe violated as required" % what})
    lib.log("spec HeaderWrite/%s: Safe violated as required (%s), %.1fs" % (cfg, what, r.wall))


def _spec_checks(ctx):
    t = "" if ctx.quick else "T"      # thorough: larger argument pools (Profile "single"/"pair")
    jobs = [
        lambda: lib.spec_check(ctx, "HeaderWrite", "HeaderWrite_mc%s.cfg" % t, workers=4,
                               note="reference serialiser, every single call with names <= %d / values <= 2 tokens + hostile strings, 3 observations" % (1 if ctx.quick else 2)),
        lambda: lib.spec_check(ctx, "HeaderWrite", "HeaderWrite_mc2%s.cfg" % t, workers=4,
                               note="reference serialiser, every pair of calls over the hostile pool, 3 observations"),
        lambda: _negative(ctx, "HeaderWrite_naive.cfg", "serialiser writing names and values as given"),
        lambda: _negative(ctx, "HeaderWrite_cookieraw.cfg", "sanitising serialiser except the request Cookie line (hertz as written)"),
    ]
    with concurrent.futures.ThreadPoolExecutor(max_workers=4) as ex:
        for f in [ex.submit(j) for j in jobs]:
            f.result()


def run(ctx):
    drv = lib.go_build("c05")
    q = ctx.quick
    # 1. the specification: reference serialiser meets the obligation, raw serialisers violate it
    _spec_checks(ctx)
    # 2. cases enumerated by TLC
    cases, n = lib.gen_cases(ctx, "HeaderWriteGen", "HeaderWriteGen_quick.cfg" if q else "HeaderWriteGen_thorough.cfg",
                             timeout=1800)
    # 3. run on the real objects
    out = ctx.sub("traces")
    lib.run_driver(drv, ["-cases", cases, "-out", out, "-chunks", 16 if q else 48], timeout=1200)
    traces = sorted(glob.glob(os.path.join(out, "*.ndjson")))
    ncases = sum(lib.count_cases(t) for t in traces)
    if ncases != n:
        raise lib.Infra("driver ran %d cases, TLC generated %d" % (ncases, n))
    # 4. validate: Lines + MessageOK on every recorded serialisation
    res = lib.validate(ctx, TRACE, TRACE + ".cfg", traces, timeout=1800)
    rejected = lib.handle_rejections(ctx, res, lambda cl: rerun(ctx, cl))

    # 5. binding self-tests (first cases of chunk 0 are the all-benign programs: accepted unmodified)
    def first(recs, obs):
        for i, r in enumerate(recs):
            if r["ev"] == "Serialized" and r["obs"] == obs and not r["err"] and len(r["bytes"]) > 20:
                return i
        raise lib.Infra("self-test: no %s observation in the trace prefix" % obs)

    def inject(recs):
        i = first(recs, "message")
        b = recs[i]["bytes"]
        k = b.index(10) + 1
        recs[i]["bytes"] = b[:k] + [118, 58, 32, 118, 13, 10] + b[k:]      # "v: v\r\n" after the start line
        return recs
    lib.self_test(ctx, TRACE, TRACE + ".cfg", traces[0], inject, name="extra field line 'v: v' inserted into a recorded message")

    def unterminated(recs):
        i = first(recs, "header")
        recs[i]["bytes"] = recs[i]["bytes"][:-2]
        return recs
    lib.self_test(ctx, TRACE, TRACE + ".cfg", traces[0], unterminated, name="terminating empty line removed from a recorded header")

    def bare_cr(recs):
        i = first(recs, "message")
        b = recs[i]["bytes"]
        k = len(b) - 1 - b[::-1].index(58)                                  # last colon: inside a field line
        recs[i]["bytes"] = b[:k + 1] + [13] + b[k + 1:]
        return recs
    lib.self_test(ctx, TRACE, TRACE + ".cfg", traces[0], bare_cr, name="bare CR inserted into a recorded field value")

    def drop_obs(recs):
        i = first(recs, "trailer") if any(r["ev"] == "Serialized" and r["obs"] == "trailer" and len(r["bytes"]) > 20 for r in recs) else None
        if i is None:
            i = next(k for k, r in enumerate(recs) if r["ev"] == "Serialized" and r["obs"] == "trailer")
        del recs[i]
        return recs
    lib.self_test(ctx, TRACE, TRACE + ".cfg", traces[0], drop_obs, name="one Serialized observation dropped")

    # 6. evidence
    nontriv, hostile_by_tgt, samples, entries = 0, {}, [], set()
    with open(cases) as f:
        for line in f:
            c = json.loads(line)
            hot = any(13 in a or 10 in a for cl in c["calls"] for a in cl["a"])
            for cl in c["calls"]:
                entries.add(cl["e"])
            if hot:
                nontriv += 1
                hostile_by_tgt[c["tgt"]] = hostile_by_tgt.get(c["tgt"], 0) + 1
                if len(samples) < 4 and (nontriv % 4001) == 1:
                    samples.append(c)
    tl = lib.read_lines(traces[len(traces) // 2])
    s, e = lib.case_at(tl, min(len(tl), 300))
    samples.append({"recorded_trace": [json.loads(x) for x in tl[s - 1:e]]})
    ctx.cov.update({
        "evaluations": n, "distinct_nontrivial": nontriv, "exhaustive": True,
        "traces_validated_against_impl": n, "samples": samples,
        "entry_points_exercised": len(entries), "cases_with_crlf_by_target": hostile_by_tgt,
        "serialisations_checked": 3 * n,
        "rule": "TLC enumerates every entry point of the table (%d exercised) x every string argument slot x every "
                "string of length <= %d over {letter, ':', SP, CR, LF, NUL} (other slots benign), special field names x "
                "value strings, no-body variants and pairs of calls; each program is executed on the real "
                "protocol.Request / protocol.Response / app.RequestContext and Header(), Trailer().Header() and the "
                "message written by req.Write / resp.Write are recorded; TLC splits the recorded bytes with the strict "
                "reader Lines and evaluates MessageOK. Non-trivial = at least one argument contains CR or LF."
                % (len(entries), 3 if q else 4),
    })
    ctx.assumptions += [
        "messages are written through http1/req.Write and http1/resp.Write into an in-memory network.Writer (the functions "
        "the client and the server call); the connection loop around them is not part of this check",
        "body framing after the header block is fixed by the case: no body, or a one-byte body stream sent chunked "
        "('1','B','0') followed by the trailer block",
        "field names are identified by their letters and digits, case-folded (Canon); an empty field name written as "
        "': v' counts as the field the application named with the empty string",
        "request-line setters (SetMethod, SetRequestURI) are outside the property's list and not exercised",
        "TLC 1.8.0 and the CommunityModules Json reader are trusted",
    ]
