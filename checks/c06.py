"""C06 -- the router dispatches to the route the documented priority selects.  DESIGN.md 4/C06, notes/C06.md.

spec/Router.tla        Valid / Parse / Accepts / Match (priority depth-first search with backtracking over the
                       character-level structure of the patterns) + the declarative reading (FitSet/Beats) + state
                       machine Register* ; Lookup with PriorityRule, ParamsAreSubstrings, NoMatchNoHandler,
                       OrderIndependent, AcceptedSetsOnly          (Router_mc.cfg / Router_mc_thorough.cfg)
spec/RouterGen.tla     route sets x registration orders x lookup paths   (RouterGen_quick.cfg / _thorough.cfg)
harness/drivers/c06    one real route.Engine per (set, order); Register / Lookup events
spec/RouterTrace.tla   every Register outcome against AcceptsAdd, every Lookup against Match
"""
import glob, json, os
from . import lib

TRACE, TCFG = "RouterTrace", "RouterTrace.cfg"


def _env(specinv):
    return {"VERIF_SPECINV": "1" if specinv else "0"}


def rerun(ctx, case_lines):
    """Run one case alone on the real code and validate it; True if rejected again."""
    drv = lib.go_build("c06")
    c = json.loads(case_lines[0])
    c.pop("ev", None)
    d = ctx.sub("rerun")
    cf = os.path.join(d, "case.ndjson")
    with open(cf, "w") as f:
        f.write(json.dumps(c) + "\n")
    for old in glob.glob(os.path.join(d, "trace_*.ndjson")):
        os.remove(old)
    lib.run_driver(drv, ["-cases", cf, "-out", d, "-chunks", 1])
    r = lib.validate(ctx, TRACE, TCFG, glob.glob(os.path.join(d, "trace_*.ndjson")), env=_env(False), count=False)
    return bool(r[0][1])


def _first_case_with(recs, pred):
    """index range [s, e) of the first case (Case .. End) of recs satisfying pred(case_records)."""
    s = None
    for i, r in enumerate(recs):
        if r["ev"] == "Case":
            s = i
        elif r["ev"] == "End" and s is not None:
            if pred(recs[s:i + 1]):
                return s, i + 1
            s = None
    return None


def run(ctx):
    drv = lib.go_build("c06")
    q = ctx.quick
    # 1. the specification satisfies the property: Match = declarative priority rule, parameters are substrings,
    #    no match => no handler, result independent of registration order, for every reachable registration sequence
    if q:
        lib.spec_check(ctx, "Router", "Router_mc.cfg", workers=8, timeout=600,
                       note="all registration sequences <= 3 over 13 GET + 2 POST patterns (valid, invalid, same-shape), "
                            "each followed by every lookup of 2 methods x 14 paths")
        lib.spec_check(ctx, "RadixTree", "RadixTree_mc.cfg", workers=4, timeout=600,
                       note="stage 2: transcription of router.addRoute/insert/find; TreeFind(tree) = Match(set) for 18 "
                            "paths after every insertion of every registration sequence <= 3 over 18 patterns")
    else:
        lib.spec_check(ctx, "Router", "Router_mc_thorough.cfg", workers=lib.NCPU, timeout=3000,
                       note="all registration sequences <= 4 over 13 GET + 2 POST patterns, each followed by every lookup "
                            "of 2 methods x 14 paths")
        lib.spec_check(ctx, "RadixTree", "RadixTree_mc_thorough.cfg", workers=lib.NCPU, timeout=3000,
                       note="stage 2: transcription of router.addRoute/insert/find; TreeFind(tree) = Match(set) for 18 "
                            "paths after every insertion of every registration sequence <= 4 over 18 patterns")
    # 2. cases enumerated by TLC (route sets x orders x lookups); the seed picks the sampled families
    cases, n = lib.gen_cases(ctx, "RouterGen", "RouterGen_quick.cfg" if q else "RouterGen_thorough.cfg",
                             out_name="cases.ndjson", timeout=3000)
    # 3. run on the real engine.  Cases labelled esc (lookups that can show known finding C06-rawpath-backtrack) get
    #    trace files of their own, so that their rejections cannot exhaust the per-file rejection budget of the rest.
    main_cases, esc_cases = os.path.join(ctx.scratch, "cases_main.ndjson"), os.path.join(ctx.scratch, "cases_esc.ndjson")
    n_esc = 0
    with open(cases) as f, open(main_cases, "w") as fm, open(esc_cases, "w") as fe:
        for line in f:
            if json.loads(line).get("esc"):
                fe.write(line); n_esc += 1
            else:
                fm.write(line)
    out = ctx.sub("traces")
    nchunks = lib.NCPU if q else 4 * lib.NCPU
    info = json.loads(lib.run_driver(drv, ["-cases", main_cases, "-out", out, "-chunks", nchunks], timeout=1800).strip().splitlines()[-1])
    traces = sorted(glob.glob(os.path.join(out, "*.ndjson")))
    etraces = []
    if n_esc:
        eout = ctx.sub("traces_esc")
        einfo = json.loads(lib.run_driver(drv, ["-cases", esc_cases, "-out", eout, "-chunks", 2 if q else lib.NCPU]).strip().splitlines()[-1])
        info["events"] += einfo["events"]
        etraces = sorted(glob.glob(os.path.join(eout, "*.ndjson")))
    ncases = sum(lib.count_cases(t) for t in traces + etraces)
    if ncases != n:
        raise lib.Infra("driver ran %d cases, TLC generated %d" % (ncases, n))
    # 4. validate.  Router's own invariants are evaluated on the recorded first-order lookups of a quarter of the files
    #    in the quick tier and of half of the files in the thorough tier.
    nspec = max(1, len(traces) // 4) if q else len(traces) // 2
    par = min(lib.NCPU, 8) if q else min(lib.NCPU, 12)
    res = lib.validate(ctx, TRACE, TCFG, traces[nspec:], env=_env(False), timeout=3000, par=par) if traces[nspec:] else []
    res += lib.validate(ctx, TRACE, TCFG, traces[:nspec], env=_env(True), timeout=3000, par=par)
    if etraces:
        res += lib.validate(ctx, TRACE, TCFG, etraces, env=_env(False), timeout=3000, par=par)
    lib.handle_rejections(ctx, res, lambda cl: rerun(ctx, cl))

    # 5. binding self-tests: the trace specification must reject a corrupted recording
    def two_routes_hit(case):
        return (len(case[0]["routes"]) >= 2 and not case[0]["raw"]
                and any(r["ev"] == "Lookup" and r["ran"] and r["params"] for r in case))

    def corrupt(fn, pred=two_routes_hit):
        def mutate(recs):
            rng = _first_case_with(recs, pred)
            if not rng:
                return recs
            s, e = rng
            case = recs[s:e]
            fn(case)
            return case           # validate the corrupted case alone
        return mutate

    def wrong_param(case):
        for r in case:
            if r["ev"] == "Lookup" and r["params"]:
                r["params"] = [dict(p) for p in r["params"]]
                r["params"][-1]["v"] += "x"
                return

    def wrong_route(case):
        k = len(case[0]["routes"])
        for r in case:
            if r["ev"] == "Lookup" and r["ran"]:
                r["ran"] = [r["ran"][0] % k + 1]
                return

    def handler_on_miss(case):
        for r in case:
            if r["ev"] == "Lookup" and not r["ran"]:
                r["ran"] = [1]
                return

    def wrong_mw(case):
        for r in case:
            if r["ev"] == "Lookup" and r["ran"]:
                r["mw"] += 1
                return

    def refused(case):
        for r in case:
            if r["ev"] == "Register":
                r["outcome"] = "panic"
                return

    def dropped_lookup(case):
        for i, r in enumerate(case):
            if r["ev"] == "Lookup":
                del case[i]
                return

    def dropped_order(case):
        idx = [i for i, r in enumerate(case) if r["ev"] == "Order"]
        del case[idx[-1]:-1]

    src = traces[-1]
    # (skipped when the recording has already been rejected and confirmed: the verdict is exit 1, and a recording of a
    # broken router need not contain the shapes the self-tests corrupt)
    for name, fn, pred in [] if ctx.violations else [
        ("one parameter value altered", wrong_param, two_routes_hit),
        ("another route's handler recorded", wrong_route, two_routes_hit),
        ("a route handler recorded where nothing matches", handler_on_miss,
         lambda c: not c[0]["raw"] and any(r["ev"] == "Lookup" and not r["ran"] for r in c)),
        ("one middleware run too many in front of the route handler", wrong_mw, two_routes_hit),
        ("an accepted registration recorded as refused", refused, two_routes_hit),
        ("one lookup missing from the recording", dropped_lookup, two_routes_hit),
        ("one registration order missing from the recording", dropped_order,
         lambda c: len(c[0]["orders"]) >= 2 and not c[0]["raw"]),
    ]:
        lib.self_test(ctx, TRACE, TCFG, src, corrupt(fn, pred), env=_env(False), ncases=400, name=name)

    # 6. evidence (all numbers measured from the recorded traces)
    fam, orders, lookups_total, hits, nontriv, backtrackish, panics = {}, 0, 0, 0, 0, 0, 0
    samples = []
    for t in traces + etraces:
        cur, first = None, False
        with open(t) as f:
            for line in f:
                if '"ev":"Case"' in line:
                    cur = json.loads(line)
                    fam[cur["fam"]] = fam.get(cur["fam"], 0) + 1
                    orders += len(cur["orders"])
                elif '"ev":"Order"' in line:
                    first = '"o":1,' in line or line.rstrip().endswith('"o":1}')
                elif '"ev":"Lookup"' in line:
                    lookups_total += 1
                    if first:
                        r = json.loads(line)
                        if r["ran"]:
                            hits += 1
                            same_m = sum(1 for x in cur["routes"] if x["m"] == r["m"])
                            if same_m >= 2:
                                nontriv += 1
                elif '"outcome":"panic"' in line:
                    panics += 1
    with open(cases) as f:
        for i, line in enumerate(f):
            if i in (5, n // 3, n - 200 if n > 400 else n - 1):
                c = json.loads(line)
                c["lookups"] = c["lookups"][:8] + ([{"...": "%d more" % (len(c["lookups"]) - 8)}] if len(c["lookups"]) > 8 else [])
                samples.append(c)
    tl = lib.read_lines(traces[-1])
    s, e = lib.case_at(tl, len(tl) // 2)
    rec = [json.loads(x) for x in tl[s - 1:e]]
    samples.append({"recorded_trace": rec[:24] + ([{"...": "%d more events" % (len(rec) - 24)}] if len(rec) > 24 else [])})
    ctx.cov.update({
        "evaluations": info["events"], "distinct_nontrivial": nontriv, "exhaustive": not q,
        "traces_validated_against_impl": n, "samples": samples,
        "cases_by_family": fam, "engines_built": orders, "lookups_run": lookups_total,
        "first_order_lookups_with_a_handler": hits, "refused_registrations": panics,
        "rule": "TLC (RouterGen) enumerates route sets over the pattern universe of the cfg (segments lit/:p/lit:p, depth "
                "<= 2, plain / trailing slash / catch-all tails): every single pattern, every pattern next to its renamed twin "
                "(must be refused), every pair, %s, GET+POST pairs, invalid patterns, seeded larger sets (4..7/8 routes, "
                "depth <= 3) and UseRawPath sets; every second route of a set uses other parameter names; every set with all "
                "registration orders (6 seeded orders above 4 routes) and lookups = every pattern instantiated with "
                "all parameter values of the cfg plus extra-slash / missing-slash / extra-segment neighbours. "
                "evaluations = recorded events (Register + Lookup + framing) validated by TLC. distinct_nontrivial = "
                "distinct (route set, method, path) lookups, counted in the first registration order only, in which a "
                "handler ran and the method's tree held >= 2 routes (a choice between patterns was made); the other "
                "orders re-run the same lookups on differently built trees and are not counted again."
                % ("%d seeded triples" % fam.get("triple", 0) if q else "every triple"),
    })
    ctx.assumptions += [
        "requests are served through Engine.ServeHTTP on a RequestContext reset between requests (no network, no "
        "middleware); RedirectTrailingSlash, RedirectFixedPath and HandleMethodNotAllowed are off so that 'no match' "
        "is observable",
        "paths and patterns the engine or RouterGroup would rewrite before the tree sees them (//, dot segments, "
        "escapes with UseRawPath off) are out of scope (InScopePath / InScopePat)",
        "a parameter edge needs non-empty remaining input but may match an empty run; a catch-all matches the empty "
        "remainder (taken from the real router, the property does not fix them)",
        "after a registration panic the engine is abandoned (no lookups on a partially registered engine)",
        "TLC 2026.09 and the CommunityModules Json reader are trusted",
    ]
