"""C08 -- static file responses return exactly the requested bytes of files under the root.  DESIGN.md 4/C08.

spec/FileServe.tla (vocabulary, RangeSem, obligation, design state machine), FileServeGen.tla (cases),
FileServeTrace.tla (validation of every recorded answer), harness/drivers/c08 (real Engine + app.FS / ctx.File over a
temporary tree with a sentinel outside the root)."""
import glob, json, os, collections, copy
from . import lib

TRACE = ("FileServeTrace", "FileServeTrace.cfg")


def _drive(ctx, drv, cases, out, chunks):
    for old in glob.glob(os.path.join(out, "trace_*.ndjson")):
        os.remove(old)
    lib.run_driver(drv, ["-cases", cases, "-out", out, "-chunks", chunks, "-scratch", ctx.sub("fs")], timeout=1500)
    left = glob.glob(os.path.join(ctx.sub("fs"), "c08tree_*"))
    if left:
        raise lib.Infra("driver left its temporary tree behind: %s" % left)
    return sorted(glob.glob(os.path.join(out, "trace_*.ndjson")))


def _unknown_bad(ctx, trace, bad):
    """bad line numbers of a trace file that do not match a known finding"""
    known = lib.load_known(ctx.pid)
    lines = lib.read_lines(trace)
    out = []
    for ln in bad:
        if ln - 1 >= len(lines):
            out.append(ln)
            continue
        s, e = lib.case_at(lines, ln)
        if not lib.match_known(known, json.loads(lines[s - 1]), json.loads(lines[ln - 1])):
            out.append(ln)
    return out


def rerun(ctx, case_lines):
    """Run one case alone on the real code and validate it; True if an answer is rejected again (known findings
    excluded: they are reported as KNOWN-FINDING, never as a violation)."""
    drv = lib.go_build("c08")
    c = json.loads(case_lines[0])
    c.pop("ev", None)
    d = ctx.sub("rerun")
    cf = os.path.join(d, "case.ndjson")
    with open(cf, "w") as f:
        f.write(json.dumps(c) + "\n")
    traces = _drive(ctx, drv, cf, d, 1)
    r = lib.validate(ctx, TRACE[0], TRACE[1], traces, count=False)
    return bool(_unknown_bad(ctx, r[0][0], r[0][1]))


def _clean_prefix(ctx, trace, bad, ncases, name):
    """up to ncases cases of `trace`, evenly spread over the file, that contain no rejected line -> new file (self-tests
    need an accepted baseline that contains every kind of answer)"""
    lines = lib.read_lines(trace)
    badset = set(bad)
    clean, i = [], 0
    while i < len(lines):
        s, e = lib.case_at(lines, i + 1)
        if not any(ln in badset for ln in range(s, e + 1)):
            clean.append((s, e))
        i = e
    stride = max(1, len(clean) // ncases)
    out = []
    for s, e in clean[::stride][:ncases]:
        out += lines[s - 1:e]
    p = os.path.join(ctx.scratch, name)
    with open(p, "w") as f:
        f.write("".join(x + "\n" for x in out))
    return p


def _self_test(ctx, base, pick, change, name):
    """corrupt the first Served line selected by pick(rec) with change(rec); the validator must reject exactly it"""
    hit = {}

    def mutate(recs):
        for i, r in enumerate(recs):
            if r["ev"] == "Served" and pick(r):
                r = recs[i] = copy.deepcopy(r)     # lib.self_test compares with a shallow copy
                change(r)
                hit["line"] = i + 1
                return recs
        return recs
    try:
        lib.self_test(ctx, TRACE[0], TRACE[1], base, mutate, ncases=10 ** 6, name=name)
        got = ctx.cov["self_test"][-1]["rejected_lines"]
        if got != [hit.get("line")]:
            raise lib.Infra("self-test '%s': corrupted line %s, validator rejected %s" % (name, hit.get("line"), got))
    except lib.Infra as e:
        if not ctx.violations:
            raise
        # the tree under test already violates the property (exit 1): the accepted slice of the recording may simply
        # not contain an answer of the kind this self-test corrupts
        lib.log("self-test '%s' not conclusive on a violating tree: %s" % (name, str(e)[:200]))


def run(ctx):
    drv = lib.go_build("c08")
    q = ctx.quick
    # 1. the design meets the obligation (exhaustive on small bounds)
    lib.spec_check(ctx, "FileServe", "FileServe_mc.cfg" if q else "FileServe_mc_thorough.cfg", workers=8 if q else None,
                   timeout=1500, heap=None if q else "24g",
                   note="design of fsHandler.handleRequest (cache, pooled small/big readers, ParseByteRange with the proposed "
                        "repairs) x all request pairs: Oblig, window inside file, CL = body bytes, pools clean, repeat equal")
    # 2. cases enumerated by TLC from the grammar
    cases, n = lib.gen_cases(ctx, "FileServeGen", "FileServeGen_quick.cfg" if q else "FileServeGen_thorough.cfg",
                             out_name="cases.ndjson", timeout=1500)
    # 3. run on the real engine + file handler
    traces = _drive(ctx, drv, cases, ctx.sub("traces"), lib.NCPU)
    ncases = sum(lib.count_cases(t) for t in traces)
    if ncases != n:
        raise lib.Infra("driver ran %d cases, TLC generated %d" % (ncases, n))
    # 4. validate every answer
    res = lib.validate(ctx, TRACE[0], TRACE[1], traces, timeout=1500)
    unk = collections.Counter()
    for t, bad in res:
        tl = lib.read_lines(t)
        for ln in _unknown_bad(ctx, t, bad):
            r = json.loads(tl[ln - 1]) if ln - 1 < len(tl) else {"ev": "EOF"}
            unk[(r["ev"], r.get("tgt"), r.get("rkind"), r.get("method"), r.get("status"))] += 1
    if any(k[0] == "Case" for k in unk):
        raise lib.Infra("the trace specification refuses %d generated case(s) as malformed (FileServeTrace!WellFormedCase): "
                        "defect of the generator, not of the code" % sum(v for k, v in unk.items() if k[0] == "Case"))
    if unk:
        lib.log("rejected answers not matching a known finding, by (event, target, range kind, method, status): %s" % dict(unk))
    lib.handle_rejections(ctx, res, lambda cl: rerun(ctx, cl))

    # 5. binding self-tests on an accepted slice of the recording
    parts = [_clean_prefix(ctx, t, bad, max(40, 900 // len(res)), "selftest_part_%d.ndjson" % i) for i, (t, bad) in enumerate(res)]
    base = os.path.join(ctx.scratch, "selftest_base.ndjson")
    with open(base, "w") as f:
        for p in parts:
            f.write(open(p).read())
    is206 = lambda r: r["status"] == 206 and r["method"] == "GET" and r["runs"] and r["flen"] > 0   # a plain file target

    def shift(r):
        r["runs"][0]["from"] += 1; r["runs"][0]["to"] += 1
    _self_test(ctx, base, is206, shift, "206 body shifted by one byte")

    def cr(r):
        r["cr"] = r["cr"].replace("/", "/1")
    _self_test(ctx, base, is206, cr, "Content-Range with a wrong complete-length")

    def cl(r):
        r["cl"] += 1
    _self_test(ctx, base, lambda r: r["status"] == 200 and r["method"] == "GET" and r["tgt"].startswith("f"), cl,
               "Content-Length one more than the body")

    def headbody(r):
        r["runs"] = [{"f": r["tgt"], "from": 0, "to": 0}]; r["blen"] = 1
    _self_test(ctx, base, lambda r: r["method"] == "HEAD" and r["status"] in (200, 206) and r["flen"] > 0, headbody,
               "HEAD answer carrying a body byte")

    def outside(r):
        r["runs"] = [{"f": "OUT", "from": 0, "to": 0}]; r["blen"] = 1
    _self_test(ctx, base, lambda r: r["status"] == 404, outside, "404 body containing a byte of the sentinel outside the root")

    def s416(r):
        r["status"] = 200
    _self_test(ctx, base, lambda r: r["status"] == 416 and r["rkind"] == "a-", s416, "unsatisfiable range answered 200")

    # evidence
    st = collections.Counter()
    nontriv = 0
    reqs = 0
    samples = []
    for t in traces:
        interesting = False
        for line in open(t):
            r = json.loads(line)
            if r["ev"] == "Case":
                if interesting:
                    nontriv += 1
                interesting = False
                if len(samples) < 3 and r["id"] % 997 == 1:
                    samples.append({k: v for k, v in r.items() if k != "ev"})
            elif r["ev"] in ("Served", "Panic"):
                reqs += 1
                key = r["ev"] if r["ev"] == "Panic" else str(r["status"])
                st[key] += 1
                if r["ev"] == "Panic" or r["status"] in (206, 416) or r["tgt"] in ("none", "any", "dir"):
                    interesting = True
        if interesting:
            nontriv += 1
    tl = lib.read_lines(base)
    s, e = lib.case_at(tl, min(len(tl), 40))
    samples.append({"recorded_trace": [json.loads(x) for x in tl[s - 1:e]]})
    ctx.cov.update({
        "evaluations": reqs, "distinct_nontrivial": nontriv, "exhaustive": True, "cases": n,
        "traces_validated_against_impl": n, "samples": samples, "answers_by_status": dict(st),
        "rule": "TLC enumerates every case of FileServeGen (%s tier): every file length x every Range value of the token "
                "grammar x method orders x AcceptByteRange, range sequences on one handler, files around MaxSmallFileSize, "
                "missing files / directories / traversal paths, option and route cross products; each case is served by a "
                "fresh real route.Engine + app.FS handler (or ctx.File) over a temporary tree and every recorded answer is "
                "validated against FileServe!Oblig and against earlier answers to the same request. evaluations = answers "
                "validated; non-trivial case = at least one answer with status 206/416 or a panic, or a request for a "
                "missing file, a directory or a non-plain (traversal) path." % ctx.tier,
    })
    ctx.assumptions += [
        "observed at the handler boundary (engine.ServeHTTP in process): status, Content-Length and Content-Range of "
        "ctx.Response, body = all bytes the response body stream yields (Read, or WriteTo when via=writeto) unless "
        "SkipBody; the http1 response writer (which also forces SkipBody for HEAD and caps the stream at "
        "Content-Length) is not in the loop",
        "body bytes are mapped to runs by the driver from provenance patterns; a fragment of a long file shorter than 4 "
        "bytes is attributed to the offset announced by the response's own Content-Range when it matches there",
        "every case has its own FS handler with CacheDuration 400 ms (bounds open files); the cache/pool reuse exercised "
        "is the one between the 2-3 requests of a case; ctx.File uses the process-global rootFS handler",
        "no Accept-Encoding is sent (Compress on only exercises the option), no If-Modified-Since",
        "TLC 1.8.0 and the CommunityModules Json reader are trusted",
    ]
