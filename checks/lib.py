"""Shared machinery for all checks: build drivers, run TLC (model check / generate / validate traces),
confirm violations, known findings, evidence.  See DESIGN.md section 2.

Verdict rules (DESIGN 2.3):
  exit 0  everything explored held (KNOWN-FINDING lines possible)
  exit 1  + "VIOLATION property=<id> replay=<path>" : a trace recorded from the real code was rejected by the
          specification and the single case, re-run on its own, was rejected again
  exit 2  infrastructure problem (build failure, TLC crash/timeout, spec counterexample, dead driver,
          self-test not rejected, flaky case) -- never a violation
"""
import copy, json, os, re, shutil, subprocess, sys, tempfile, time, concurrent.futures, hashlib

ROOT = os.path.dirname(os.path.dirname(os.path.abspath(__file__)))
SPEC = os.path.join(ROOT, "spec")
HARNESS = os.path.join(ROOT, "harness")
BUILD = os.path.join(ROOT, ".build")
EVID = os.path.join(ROOT, "evidence")
REPLAYS = os.path.join(ROOT, "replays")
REPO = os.environ.get("VERIF_REPO", "/repo")
NCPU = int(os.environ.get("VERIF_NCPU", "0")) or os.cpu_count() or 4     # VERIF_NCPU: use fewer cores (shared machine)

GOENV = dict(os.environ, GOFLAGS="-mod=mod", GOPROXY="off", GOSUMDB="off", GOTOOLCHAIN="local",
             CGO_ENABLED=os.environ.get("CGO_ENABLED", "1"))


class Infra(Exception):
    """Infrastructure failure -> exit 2."""


def log(*a):
    print("[vcheck]", *a, file=sys.stderr, flush=True)


class Ctx:
    def __init__(self, pid, tier, seed, replay=None):
        self.pid, self.tier, self.seed, self.replay = pid, tier, seed, replay
        self.t0 = time.time()
        base = os.environ.get("TMPDIR", "/tmp")
        self.scratch = tempfile.mkdtemp(prefix="vcheck_%s_" % pid, dir=base)
        self.cov = {"states": 0, "transitions": 0, "traces_validated_against_impl": 0, "samples": [],
                    "evaluations": 0, "distinct_nontrivial": 0, "rule": "", "exhaustive": False,
                    "spec_checks": [], "events_validated": 0, "self_test": []}
        self.assumptions = []
        self.violations = []   # list of (replay_path, summary)
        self.known = []        # list of strings
        self.level = "model_checking"
        self.quick = tier == "quick"

    def sub(self, name):
        d = os.path.join(self.scratch, name)
        os.makedirs(d, exist_ok=True)
        return d

    def cleanup(self):
        shutil.rmtree(self.scratch, ignore_errors=True)


# ---------------------------------------------------------------- Go

def _atomic_write(path, text):
    """write a file that concurrent checks read: same content every time, replaced atomically"""
    try:
        with open(path) as f:
            if f.read() == text:
                return
    except OSError:
        pass
    tmp = "%s.%d" % (path, os.getpid())
    with open(tmp, "w") as f:
        f.write(text)
    os.replace(tmp, path)


def go_build(driver, tags="verif", race=False, moddir=None, pkg=None):
    """Build ./drivers/<driver> of the harness against the repository working tree ($VERIF_REPO, default /repo).
    A scratch go.mod (-modfile) carries the replace directive so a scratch worktree can be checked without
    touching /repo. Returns the binary path."""
    moddir = moddir or HARNESS
    key = "" if REPO == "/repo" else "_" + hashlib.sha1(REPO.encode()).hexdigest()[:8]
    bdir = BUILD + key
    os.makedirs(bdir, exist_ok=True)
    modname = os.path.basename(moddir)
    modfile = os.path.join(bdir, modname + ".go.mod")
    with open(os.path.join(moddir, "go.mod")) as f:
        gm = f.read()
    gm = gm.replace("=> /repo", "=> " + REPO)
    _atomic_write(modfile, gm)
    sums = ""
    for p in (os.path.join(REPO, "go.sum"), os.path.join(REPO, "cmd/hz/go.sum"), os.path.join(moddir, "go.sum")):
        if os.path.exists(p):
            sums += open(p).read()
    _atomic_write(os.path.join(bdir, modname + ".go.sum"), "".join(sorted(set(sums.splitlines(True)))))
    out = os.path.join(bdir, driver + ("_race" if race else ""))
    tmp_out = "%s.%d" % (out, os.getpid())      # checks may run concurrently: never write the shared binary in place
    cmd = ["go", "build", "-modfile", modfile, "-tags", tags, "-o", tmp_out]
    if race:
        cmd.append("-race")
    cmd.append(pkg or "./drivers/" + driver)
    t = time.time()
    p = subprocess.run(cmd, cwd=moddir, env=GOENV, capture_output=True, text=True)
    if p.returncode != 0:
        raise Infra("go build %s failed:\n%s%s" % (driver, p.stdout, p.stderr))
    os.replace(tmp_out, out)
    log("built %s against %s in %.1fs" % (driver, REPO, time.time() - t))
    return out


def run_driver(binary, args, timeout=600, env=None, cwd=None):
    e = dict(GOENV)
    if env:
        e.update(env)
    t = time.time()
    try:
        p = subprocess.run([binary] + [str(a) for a in args], capture_output=True, text=True, timeout=timeout,
                           env=e, cwd=cwd)
    except subprocess.TimeoutExpired:
        raise Infra("driver %s timed out after %ss" % (binary, timeout))
    if p.returncode != 0:
        raise Infra("driver %s %s exited %d:\n%s\n%s" % (binary, args, p.returncode, p.stdout[-4000:], p.stderr[-4000:]))
    log("driver %s done in %.1fs" % (os.path.basename(binary), time.time() - t))
    return p.stdout


# ---------------------------------------------------------------- TLC

_TLC_CP = "/opt/veriftools/tla/tla2tools.jar:/opt/veriftools/tla/CommunityModules-deps.jar"
_stat_re = re.compile(r"(\d+) states generated, (\d+) distinct states found, (\d+) states left on queue")


class TlcResult:
    def __init__(self, rc, out):
        self.rc, self.out = rc, out
        m = _stat_re.findall(out)
        self.generated, self.distinct, self.left = (int(x) for x in m[-1]) if m else (0, 0, 0)
        self.prints = []   # decoded @@ lines

    @property
    def ok(self):
        return self.rc == 0

    def violated(self):
        m = re.search(r"Invariant (\S+) is violated|Action property (\S+) is violated|Temporal properties were violated|"
                      r"Deadlock reached|Assumption .* is false", self.out)
        return m.group(0) if m else None

    def tail(self, n=60):
        return "\n".join(self.out.splitlines()[-n:])


def _stage_spec(dst, modules=None):
    """Copy spec/*.tla and *.cfg into dst (TLC litters its working directory)."""
    for f in os.listdir(SPEC):
        if f.endswith(".tla") or f.endswith(".cfg"):
            shutil.copyfile(os.path.join(SPEC, f), os.path.join(dst, f))


def tlc(ctx, module, cfg, workers=None, timeout=900, env=None, extra=None, tag=None, heap=None, simulate=None,
        depth=None, deadlock=False, short=False):
    """Run TLC on spec/<module>.tla with spec/<cfg>. Returns TlcResult. Never raises on violation."""
    d = ctx.sub("tlc_" + (tag or module + "_" + cfg.replace(".cfg", "")))
    _stage_spec(d)
    if short:   # many short single-worker runs side by side: no GC/JIT thread storms (measured 4x faster)
        cmd = ["java", "-XX:+UseSerialGC", "-XX:TieredStopAtLevel=1", "-Xss64m", "-Xmx" + (heap or "3g")]
    else:
        cmd = ["java", "-XX:+UseParallelGC", "-Xss64m"]
        if heap:
            cmd.append("-Xmx" + heap)
    tmpd = os.path.join(d, "jtmp")          # TLC leaves a tlc-<n> directory per run in java.io.tmpdir: keep it in the scratch
    os.makedirs(tmpd, exist_ok=True)
    cmd.append("-Djava.io.tmpdir=" + tmpd)
    cmd += ["-cp", _TLC_CP, "tlc2.TLC", "-metadir", os.path.join(d, "meta"), "-config", cfg,
            "-workers", str(min(int(workers), NCPU) if workers else ("auto" if "VERIF_NCPU" not in os.environ else NCPU))]
    if simulate:
        cmd += ["-simulate", simulate]
    if depth:
        cmd += ["-depth", str(depth)]
    if not deadlock:
        cmd += ["-deadlock"]  # -deadlock = do NOT check for deadlock
    cmd += ["-seed", str(ctx.seed)] if simulate else []
    if extra:
        cmd += extra
    cmd.append(module + ".tla")
    e = dict(os.environ)
    e.pop("JAVA_TOOL_OPTIONS", None)
    if env:
        e.update({k: str(v) for k, v in env.items()})
    t = time.time()
    try:
        p = subprocess.run(cmd, cwd=d, env=e, capture_output=True, text=True, timeout=timeout)
        rc, out = p.returncode, p.stdout + p.stderr
    except subprocess.TimeoutExpired as ex:
        raise Infra("TLC %s/%s timed out after %ss" % (module, cfg, timeout))
    r = TlcResult(rc, out)
    r.wall = time.time() - t
    r.dir = d
    return r


def spec_check(ctx, module, cfg, workers=None, timeout=900, env=None, expect_min_states=2, heap=None, note=""):
    """Exhaustive model check of the specification itself; a counterexample of the spec is exit 2 (spec bug)."""
    try:
        # a quick-tier model check takes well under a minute; TLC was seen (once in several hundred runs, on a loaded
        # machine) to sit idle for ever: give up early and try once more before reporting an infrastructure error
        r = tlc(ctx, module, cfg, workers=workers, timeout=min(timeout, 420) if ctx.quick else timeout, env=env, heap=heap)
    except Infra as ex:
        if "timed out" not in str(ex):
            raise
        log("TLC %s/%s did not finish; second attempt" % (module, cfg))
        r = tlc(ctx, module, cfg, workers=workers, timeout=timeout, env=env, heap=heap, tag="retry_" + module + "_" + cfg.replace(".cfg", ""))
    if not r.ok:
        raise Infra("specification %s/%s does not satisfy its properties or TLC failed (rc=%d):\n%s" %
                    (module, cfg, r.rc, r.tail(80)))
    if r.distinct < expect_min_states:
        raise Infra("specification %s/%s explored only %d states" % (module, cfg, r.distinct))
    ctx.cov["states"] += r.distinct
    ctx.cov["transitions"] += r.generated
    ctx.cov["spec_checks"].append({"module": module, "cfg": cfg, "distinct_states": r.distinct,
                                   "states_generated": r.generated, "wall_s": round(r.wall, 1), "note": note})
    log("spec %s/%s: %d distinct states, %d generated, %.1fs" % (module, cfg, r.distinct, r.generated, r.wall))
    return r


def tla_unquote(s):
    """Decode a TLA+ string literal body as printed by TLC (escapes \\\\ \\" \\n \\t \\r \\f)."""
    out, i = [], 0
    while i < len(s):
        c = s[i]
        if c == "\\" and i + 1 < len(s):
            n = s[i + 1]
            out.append({"n": "\n", "t": "\t", "r": "\r", "f": "\f", '"': '"', "\\": "\\"}.get(n, "\\" + n))
            i += 2
        else:
            out.append(c)
            i += 1
    return "".join(out)


def gen_cases(ctx, module, cfg, out_name="cases.ndjson", env=None, timeout=900, workers=1, simulate=None, depth=None):
    """Run a generator spec that writes cases with ndJsonSerialize(IOEnv.VERIF_OUT, ...) . Returns path, n."""
    out = os.path.join(ctx.scratch, out_name)
    e = {"VERIF_OUT": out, "VERIF_TIER": ctx.tier, "VERIF_SEED": ctx.seed}
    if env:
        e.update(env)
    r = tlc(ctx, module, cfg, workers=workers, timeout=timeout, env=e, simulate=simulate, depth=depth,
            tag="gen_" + module + "_" + cfg.replace(".cfg", ""))
    if not r.ok or not os.path.exists(out):
        raise Infra("case generation %s/%s failed (rc=%d):\n%s" % (module, cfg, r.rc, r.tail(60)))
    n = sum(1 for _ in open(out))
    if n == 0:
        raise Infra("case generation %s/%s produced no cases" % (module, cfg))
    log("generated %d cases with %s/%s in %.1fs" % (n, module, cfg, r.wall))
    return out, n


_bad_re = re.compile(r'<<\s*"@@BAD",\s*(<<.*?>>),\s*(\d+),\s*(\d+)\s*>>', re.S)


def _validate_one(args):
    ctx, module, cfg, trace, env, timeout, idx = args
    e = {"VERIF_TRACE": trace}
    if env:
        e.update(env)
    r = tlc(ctx, module, cfg, workers=1, timeout=timeout, env=e, tag="val_%s_%d" % (module, idx), short=True)
    m = _bad_re.search(r.out)
    if not m:
        return {"trace": trace, "ok": False, "error": r.tail(40), "bad": [], "rc": r.rc, "wall": r.wall,
                "distinct": r.distinct}
    bad = [int(x) for x in re.findall(r"\d+", m.group(1))]
    consumed, total = int(m.group(2)), int(m.group(3))
    shutil.rmtree(r.dir, ignore_errors=True)
    return {"trace": trace, "ok": True, "bad": bad, "consumed": consumed, "total": total, "wall": r.wall,
            "distinct": r.distinct, "generated": r.generated}


def validate(ctx, module, cfg, traces, env=None, timeout=900, count=True, par=None):
    """Validate ndjson trace files against spec/<module>.tla (a *Trace module). One TLC process per file.
    The trace module must print <<"@@BAD", bad, consumedLines, totalLines>> when it has consumed every line.
    Returns list of (trace_file, bad_line_numbers)."""
    traces = [t for t in traces if os.path.getsize(t) > 0]
    if not traces:
        raise Infra("no traces to validate (dead driver)")
    t0 = time.time()
    res = []
    with concurrent.futures.ThreadPoolExecutor(max_workers=par or min(NCPU, len(traces))) as ex:
        for r in ex.map(_validate_one, [(ctx, module, cfg, t, env, timeout, i) for i, t in enumerate(traces)]):
            res.append(r)
    out = []
    for r in res:
        if not r["ok"]:
            raise Infra("trace validation of %s with %s did not complete (rc=%s):\n%s" %
                        (r["trace"], module, r["rc"], r["error"]))
        if r["consumed"] != r["total"]:
            raise Infra("trace validation consumed %d of %d lines of %s" % (r["consumed"], r["total"], r["trace"]))
        out.append((r["trace"], r["bad"]))
        if count:
            ctx.cov["events_validated"] += r["total"]
            ctx.cov["transitions"] += r.get("generated", 0)
    log("validated %d trace file(s) with %s in %.1fs; rejected lines: %d" %
        (len(traces), module, time.time() - t0, sum(len(b) for _, b in out)))
    return out


# ---------------------------------------------------------------- traces, cases, replay

def read_lines(path):
    with open(path) as f:
        return [l.rstrip("\n") for l in f]


def case_at(lines, lineno):
    """lines: list of ndjson strings; lineno 1-based. Returns (start, end) 1-based inclusive of the enclosing case."""
    s = lineno
    while s > 1 and '"ev":"Case"' not in lines[s - 1]:
        s -= 1
    e = s
    while e < len(lines) and '"ev":"Case"' not in lines[e]:
        e += 1
    return s, e


def count_cases(path):
    n = 0
    with open(path) as f:
        for l in f:
            if '"ev":"Case"' in l:
                n += 1
    return n


def split_cases(lines):
    """split trace lines into per-case lists (each starting with its Case line)"""
    out = []
    for l in lines:
        if '"ev":"Case"' in l or not out:
            out.append([])
        out[-1].append(l)
    return out


def write_replay(ctx, case_lines, bad_line, trace_file, note=""):
    os.makedirs(REPLAYS, exist_ok=True)
    h = hashlib.sha1("\n".join(case_lines).encode()).hexdigest()[:10]
    p = os.path.join(REPLAYS, "%s_%s.json" % (ctx.pid, h))
    with open(p, "w") as f:
        json.dump({"property": ctx.pid, "tier": ctx.tier, "seed": ctx.seed, "note": note,
                   "rejected_at_line_of_case": bad_line, "trace": [json.loads(l) for l in case_lines]}, f, indent=1)
    return p


# ---------------------------------------------------------------- known findings

def load_known(pid):
    """known findings: /verif/known_findings.json (+ fragments known/<ID>.json while a check is being built)."""
    out = []
    for p in [os.path.join(ROOT, "known_findings.json"), os.path.join(ROOT, "known", pid + ".json")]:
        if os.path.exists(p):
            with open(p) as f:
                out += [k for k in json.load(f).get("findings", []) if k.get("property") == pid and k.get("status") == "known"]
    seen, uniq = set(), []
    for k in out:
        if k["id"] not in seen:
            seen.add(k["id"]); uniq.append(k)
    return uniq


def match_known(known, case_rec, bad_event):
    """A known finding matches when every key of its 'when' equals the value in the case record (dotted keys go
    into nested records) and, if given, 'rejected_at' equals the event name of the rejected line."""
    def get(rec, key):
        cur = rec
        for part in key.split("."):
            if isinstance(cur, dict) and part in cur:
                cur = cur[part]
            else:
                return None
        return cur
    for k in known:
        if k.get("rejected_at") and bad_event is not None and k["rejected_at"] != bad_event.get("ev"):
            continue
        ok = True
        for key, val in k.get("when", {}).items():
            src = bad_event if key.startswith("event.") else case_rec
            kk = key[6:] if key.startswith("event.") else key
            if get(src, kk) != val:
                ok = False
                break
        if ok:
            return k
    return None


# ---------------------------------------------------------------- verdict

def handle_rejections(ctx, results, rerun, self_desc=None, rerun_hist=None):
    """results: [(trace_file, [bad lines])]. rerun(case_lines) -> True if the single case is rejected again
    (runs the driver on the case alone and validates).  Classifies into known findings / violations / flaky.
    rerun_hist(list of case_lines) -> True if the sequence of cases, run in order in one process, is rejected
    again: used when the case alone is accepted, because the failure may need the cases that ran before it
    (state carried over in pooled objects); the replay then records the whole sequence."""
    known = load_known(ctx.pid)
    reproduced = set()
    flaky = 0
    seen = 0
    for trace, bad in results:
        if not bad:
            continue
        lines = read_lines(trace)
        for ln in bad:
            s, e = case_at(lines, ln)
            case_lines = lines[s - 1:e]
            case_rec = json.loads(case_lines[0]) if case_lines else {}
            bad_ev = json.loads(lines[ln - 1]) if ln - 1 < len(lines) else None
            k = match_known(known, case_rec, bad_ev)
            if k:
                reproduced.add(k["id"])
                continue
            seen += 1
            if seen > 5:       # enough detail; everything beyond is counted only
                continue
            again = rerun(case_lines)
            if again is None:
                raise Infra("could not re-run rejected case: %s" % case_lines[0][:300])
            if again:
                p = write_replay(ctx, case_lines, ln - s + 1, trace)
                ctx.violations.append((p, "rejected at event %s" % (json.dumps(bad_ev)[:300],)))
                continue
            hist_ok = False
            if rerun_hist is not None:
                starts = [i for i in range(s - 1) if '"ev":"Case"' in lines[i]]
                for depth in (3, 40, len(starts)):
                    first = starts[-depth] if depth <= len(starts) and depth > 0 else (starts[0] if starts else s - 1)
                    seq = split_cases(lines[first:e])
                    if len(seq) < 2:
                        break
                    if rerun_hist(seq):
                        p = write_replay(ctx, lines[first:e], ln - first, trace,
                                         note="needs the %d preceding case(s) of the run: state is carried over between cases" % (len(seq) - 1))
                        ctx.violations.append((p, "rejected at event %s (only after the %d preceding case(s))" % (json.dumps(bad_ev)[:300], len(seq) - 1)))
                        hist_ok = True
                        break
                    if depth >= len(starts):
                        break
            if not hist_ok:
                flaky += 1
    if not hasattr(ctx, "known_status"):
        ctx.known_status = {}
    for k in known:
        prev = ctx.known_status.get(k["id"], (k, False))
        ctx.known_status[k["id"]] = (k, prev[1] or k["id"] in reproduced)
    ctx.known = ["KNOWN-FINDING: property=%s %s: %s (reproduced=%s in this run)" %
                 (ctx.pid, k["id"], k["what"], "yes" if rep else "no") for k, rep in ctx.known_status.values()]
    if flaky and not ctx.violations:
        raise Infra("%d rejected case(s) were accepted when re-run alone (flaky); not reported as violations" % flaky)
    ctx.cov["rejected_total"] = seen
    return seen


def self_test(ctx, module, cfg, trace_file, mutate, env=None, ncases=40, name="corrupt one recorded field", tail=False):
    """Binding self-test: take the first cases of a recorded trace, corrupt it with mutate(list of dict)->list
    of dict (must really change something) and require that validation rejects it.  trace_file may be a list of
    files: the first one the mutation applies to is used."""
    files = trace_file if isinstance(trace_file, (list, tuple)) else [trace_file]
    mut = recs = None
    for tf in files:
        lines = read_lines(tf)
        idx = [i for i, l in enumerate(lines) if '"ev":"Case"' in l]
        if tail and len(idx) > ncases:      # the last ncases cases of the file instead of the first
            recs = [json.loads(l) for l in lines[idx[-ncases]:]]
        else:
            end = idx[ncases] if len(idx) > ncases else len(lines)
            recs = [json.loads(l) for l in lines[:end]]
        mut = mutate(copy.deepcopy(recs))
        if mut != recs:
            break
    if mut == recs:
        raise Infra("self-test mutation '%s' changed nothing" % name)
    p = os.path.join(ctx.scratch, "selftest_%d.ndjson" % len(ctx.cov["self_test"]))
    with open(p, "w") as f:
        for r in mut:
            f.write(json.dumps(r, separators=(",", ":")) + "\n")
    res = validate(ctx, module, cfg, [p], env=env, count=False)
    bad = res[0][1]
    # and the uncorrupted prefix must be accepted
    ctx.cov["self_test"].append({"name": name, "rejected_lines": bad[:5], "rejected": bool(bad)})
    if not bad:
        raise Infra("binding self-test '%s' was NOT rejected by %s: the trace specification does not constrain "
                    "the recorded behaviour" % (name, module))
    log("self-test '%s': rejected as required (line %s)" % (name, bad[0]))


def finish(ctx):
    os.makedirs(EVID, exist_ok=True)
    ev = {"property_id": ctx.pid, "tier": ctx.tier, "seed": ctx.seed, "level": ctx.level,
          "coverage": ctx.cov, "assumptions": ctx.assumptions, "wall_s": round(time.time() - ctx.t0, 1),
          "violations": len(ctx.violations), "known_findings": ctx.known}
    # evidence/<id>.json describes runs against /repo itself; runs on a scratch worktree ($VERIF_REPO) write elsewhere
    evdir = EVID if REPO == "/repo" else os.path.join(ROOT, ".scratch_evidence")
    os.makedirs(evdir, exist_ok=True)
    with open(os.path.join(evdir, ctx.pid + ".json"), "w") as f:
        json.dump(ev, f, indent=1)
    for k in ctx.known:
        print(k)
    for p, s in ctx.violations:
        print("VIOLATION property=%s replay=%s" % (ctx.pid, p))
        print("  " + s)
    sys.stdout.flush()
    return 1 if ctx.violations else 0


def split_evenly(items, n):
    n = max(1, min(n, len(items)))
    k, m = divmod(len(items), n)
    out, i = [], 0
    for j in range(n):
        sz = k + (1 if j < m else 0)
        out.append(items[i:i + sz])
        i += sz
    return out
