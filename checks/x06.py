"""X06 (extension) -- RequestContext.Copy() gives an independent, complete copy; the key/value store is linearizable.

spec/CtxCopy.tla (model: original and copy as component -> abstract value, Copy() field by field, mutators, recycling;
invariants IndependentCopy / IndependentOrig / Complete / Detached / NoNextInCopy), spec/CtxCopyKeys.tla (Set/Get/
ForEachKey/Copy under the RWMutex: Linearizable, NoTornRead, Snapshot), spec/CtxCopyGen.tla (cases),
spec/CtxCopyTrace.tla (validation), harness/drivers/x06 (real Engine + recovery middleware over scripted connections,
as C09; copies taken inside handlers; sentinel requests recycle the original; concurrent cases under the race detector).

Rejected CopyDiff / Race lines are local (printed as @@LOCAL, validation goes on); every other rejected line drops its
case.  Race / Fatal lines are added to the recording by this module from the race detector's log / a crash of the
driver process (one driver process per concurrent case, so the attribution is exact)."""
import collections, concurrent.futures, copy, glob, itertools, json, os, re, shutil, subprocess, time
from . import lib

TRACE = ("CtxCopyTrace", "CtxCopyTrace.cfg")
_local_re = re.compile(r'<<\s*"@@LOCAL",\s*(\d+)\s*>>')
_nl_re = re.compile(r'<<\s*"@@NLOCAL",\s*(\d+)\s*>>')
CONC = ('"kind":"bg"', '"kind":"keys"')


def _validate_one(args):
    ctx, trace, timeout, idx = args
    r = lib.tlc(ctx, TRACE[0], TRACE[1], workers=1, timeout=timeout, env={"VERIF_TRACE": trace}, tag="val_x06_%d" % idx, short=True)
    m = lib._bad_re.search(r.out)
    nl = _nl_re.search(r.out)
    if not m or not nl:
        return {"trace": trace, "ok": False, "error": "\n".join(x[:300] for x in r.tail(40).splitlines()), "rc": r.rc}
    bad = [int(x) for x in re.findall(r"\d+", m.group(1))]
    local = [int(x) for x in _local_re.findall(r.out)]
    if len(local) != int(nl.group(1)):
        return {"trace": trace, "ok": False, "error": "%d @@LOCAL lines printed, specification counted %s" % (len(local), nl.group(1)), "rc": r.rc}
    shutil.rmtree(r.dir, ignore_errors=True)
    return {"trace": trace, "ok": True, "bad": sorted(set(bad + local)), "consumed": int(m.group(2)), "total": int(m.group(3)),
            "generated": r.generated, "distinct": r.distinct}


def _validate(ctx, traces, timeout=2400, count=True, par=None):
    """lib.validate for CtxCopyTrace: locally rejected lines are printed one by one (<<"@@LOCAL", line>>) instead of
    being accumulated in `bad`; both kinds are returned together."""
    traces = [t for t in traces if os.path.getsize(t) > 0]
    if not traces:
        raise lib.Infra("no traces to validate (dead driver)")
    t0 = time.time()
    with concurrent.futures.ThreadPoolExecutor(max_workers=par or min(lib.NCPU, len(traces))) as ex:
        res = list(ex.map(_validate_one, [(ctx, t, timeout, next(_validate.n)) for t in traces]))     # next(): self-tests validate side by side
    out = []
    for r in res:
        if not r["ok"]:
            raise lib.Infra("trace validation of %s with %s did not complete (rc=%s):\n%s" % (r["trace"], TRACE[0], r["rc"], r["error"]))
        if r["consumed"] != r["total"]:
            raise lib.Infra("trace validation consumed %d of %d lines of %s" % (r["consumed"], r["total"], r["trace"]))
        if r["distinct"] > r["total"] + 2:
            raise lib.Infra("trace validation of %s branched (%d distinct states for %d lines): the trace specification must be deterministic" %
                            (r["trace"], r["distinct"], r["total"]))
        out.append((r["trace"], r["bad"]))
        if count:
            ctx.cov["events_validated"] += r["total"]
            ctx.cov["transitions"] += r["generated"]
    lib.log("validated %d trace file(s) with %s in %.1fs; rejected lines: %d" %
            (len(traces), TRACE[0], time.time() - t0, sum(len(b) for _, b in out)))
    return out


_validate.n = itertools.count()


def _drive(ctx, drv, cases, out, chunks, timeout=1500):
    os.makedirs(out, exist_ok=True)
    for old in glob.glob(os.path.join(out, "trace_*.ndjson")):
        os.remove(old)
    stdout = lib.run_driver(drv, ["-cases", cases, "-out", out, "-chunks", chunks, "-scratch", ctx.sub("files")], timeout=timeout)
    stats = {}
    for ln in stdout.splitlines():
        if ln.startswith("{"):
            stats = json.loads(ln)
    return sorted(glob.glob(os.path.join(out, "trace_*.ndjson"))), stats


_access_re = re.compile(r"^(?:Previous )?(?:atomic )?(?:[Rr]ead|[Ww]rite) at 0x[0-9a-f]+ by ", re.M)


def _race_events(logdir):
    """one Race{a, b} record per distinct pair of racing functions in the race detector's log files"""
    out, seen = [], set()
    for p in sorted(glob.glob(os.path.join(logdir, "race.*"))):
        txt = open(p, errors="replace").read()
        for blk in txt.split("=================="):
            if "DATA RACE" not in blk:
                continue
            fns = []
            for part in _access_re.split(blk)[1:3]:
                frames = [l.strip() for l in part.splitlines()[1:] if l.startswith("  ") and not l.startswith("      ")]
                frames = [f for f in frames if f.endswith(")")]
                hz = [f for f in frames if "cloudwego/hertz/pkg" in f]
                f = (hz or frames or ["?"])[0]
                fns.append(re.sub(r"^github.com/cloudwego/hertz/pkg/", "", f).rstrip("()").rstrip("("))
            fns = sorted(fns + ["?"] * (2 - len(fns)))
            if tuple(fns) not in seen:
                seen.add(tuple(fns))
                out.append({"ev": "Race", "a": fns[0], "b": fns[1]})
    return out


def _drive_conc(ctx, drv_race, case_line, out_file, tag):
    """ONE concurrent case in its own driver process under the race detector.  Data races become Race lines in front
    of the End line of the recording; a process that dies (the runtime's 'concurrent map writes') becomes a Fatal line."""
    d = ctx.sub("conc_" + tag)
    for old in glob.glob(os.path.join(d, "*")):
        if os.path.isfile(old):
            os.remove(old)
    cf = os.path.join(d, "case.ndjson")
    with open(cf, "w") as f:
        f.write(case_line.rstrip("\n") + "\n")
    env = dict(lib.GOENV, GORACE="log_path=%s halt_on_error=0 exitcode=0" % os.path.join(d, "race"))
    try:
        p = subprocess.run([drv_race, "-cases", cf, "-out", d, "-chunks", "1", "-scratch", ctx.sub("files")],
                           capture_output=True, text=True, timeout=900, env=env)
    except subprocess.TimeoutExpired:
        raise lib.Infra("the concurrent case %s did not finish in 900 s" % case_line[:200])
    tf = os.path.join(d, "trace_000.ndjson")
    lines = lib.read_lines(tf) if os.path.exists(tf) else []
    races = _race_events(d)
    if p.returncode != 0:
        msg = next((l for l in p.stderr.splitlines() if l.startswith("fatal error") or l.startswith("panic:")), p.stderr[:200])
        c = json.loads(case_line)
        c["ev"] = "Case"
        lines = [json.dumps(c, separators=(",", ":")), json.dumps({"ev": "Fatal", "msg": msg[:300], "rc": p.returncode})] + \
                [json.dumps(r) for r in races] + ['{"ev":"End"}']
    elif races:
        end = max(i for i, l in enumerate(lines) if '"ev":"End"' in l)
        lines = lines[:end] + [json.dumps(r, separators=(",", ":")) for r in races] + lines[end:]
    with open(out_file, "w") as f:
        f.write("".join(l + "\n" for l in lines))
    return len(races)


def _unknown_bad(ctx, trace, bad, lines=None):
    """rejected line numbers that do not match a known finding"""
    known = lib.load_known(ctx.pid)
    lines = lines or lib.read_lines(trace)
    out = []
    for ln in bad:
        if ln - 1 >= len(lines):
            out.append(ln)
            continue
        s, _ = lib.case_at(lines, ln)
        if not lib.match_known(known, json.loads(lines[s - 1]), json.loads(lines[ln - 1])):
            out.append(ln)
    return out


def _alphabets(ctx, drv):
    """(names the driver has, names the generator's table has).  The table (spec/CtxLifecycleTable.tla, harness/drivers/c09) is
    shared with C09 and grows; the driver's table is an adapted copy: X06 runs the cases both sides know and reports the rest."""
    have = set(lib.run_driver(drv, ["-list"], timeout=60).split())
    with open(os.path.join(lib.ROOT, "spec", "CtxLifecycleTable.tla")) as f:
        table = set(re.findall(r'^\s*"([^"]+)" :> \[kinds', f.read(), re.M))
    if not have or not table:
        raise lib.Infra("empty mutator alphabet: driver %d, table %d" % (len(have), len(table)))
    return have, table


def _names(case):
    return list(case.get("pre", [])) + [st["m"] for st in case.get("steps", [])]


def _case_of(rec):
    c = dict(rec)
    c.pop("ev", None)
    return c


def rerun(ctx, case_lines):
    """Run ONE case alone on the real code and validate it; True = a line that is not a known finding is rejected again."""
    c = _case_of(json.loads(case_lines[0]))
    line = json.dumps(c, separators=(",", ":"))
    missing = sorted(set(_names(c)) - _alphabets(ctx, lib.go_build("x06"))[0])
    if missing:
        raise lib.Infra("the recorded case names mutator(s) %s which this driver does not have: not applicable" % ", ".join(missing))
    d = ctx.sub("rerun")
    if c["kind"] in ("bg", "keys"):
        tf = os.path.join(d, "trace_conc.ndjson")
        _drive_conc(ctx, lib.go_build("x06", race=True), line, tf, "rerun")
        traces = [tf]
    else:
        cf = os.path.join(d, "case.ndjson")
        with open(cf, "w") as f:
            f.write(line + "\n")
        traces, _ = _drive(ctx, lib.go_build("x06"), cf, d, 1)
    r = _validate(ctx, traces, count=False)
    return bool(_unknown_bad(ctx, r[0][0], r[0][1]))


def _expect_violation(ctx, module, cfg, invs, what):
    """a negative configuration of the specification: TLC must find one of the named invariants violated"""
    r = lib.tlc(ctx, module, cfg, workers=2, timeout=600)
    v = r.violated() or ""
    if not any(i in v for i in invs):
        raise lib.Infra("negative configuration %s did not produce the expected counterexample of %s (%s):\n%s" %
                        (cfg, "/".join(invs), v or "no violation", "\n".join(x[:200] for x in r.tail(30).splitlines())))
    ctx.cov["spec_checks"].append({"module": module, "cfg": cfg, "distinct_states": r.distinct, "states_generated": r.generated,
                                   "wall_s": round(r.wall, 1), "expected": v, "note": what})
    lib.log("spec %s/%s: %s, as expected (%s)" % (module, cfg, v, what))


def _self_test(ctx, base_lines, name, mutate):
    """corrupt an accepted recording: the validator must reject a line of the corrupted copy"""
    recs = [json.loads(l) for l in base_lines]
    mut = mutate(copy.deepcopy(recs))
    if mut is None or mut == recs:
        raise lib.Infra("self-test '%s' found nothing to corrupt in the recorded slice" % name)
    p = os.path.join(ctx.scratch, "selftest_%d.ndjson" % next(_self_test.n))      # self-tests run side by side
    with open(p, "w") as f:
        for r in mut:
            f.write(json.dumps(r, separators=(",", ":")) + "\n")
    res = _validate(ctx, [p], count=False)
    bad = _unknown_bad(ctx, p, res[0][1])
    ctx.cov["self_test"].append({"name": name, "rejected_lines": bad[:5], "rejected": bool(bad)})
    if not bad:
        raise lib.Infra("binding self-test '%s' was NOT rejected by %s: the trace specification does not constrain the recording" %
                        (name, TRACE[0]))
    lib.log("self-test '%s': rejected as required (line %s)" % (name, bad[0]))


_self_test.n = itertools.count()


def _first(recs, pred):
    for i, r in enumerate(recs):
        if pred(r):
            return i
    return None


def run(ctx):
    q = ctx.quick
    drv = lib.go_build("x06")
    bg = concurrent.futures.ThreadPoolExecutor(max_workers=1)
    race_build = bg.submit(lib.go_build, "x06", "verif", True)       # the -race build goes on while TLC checks the models

    # 1. the design satisfies the clauses; the invariants are not vacuous
    lib.spec_check(ctx, "CtxCopy", "CtxCopy_mc.cfg" if q else "CtxCopy_mc_thorough.cfg", workers=4 if q else 8, timeout=1500,
                   note="original and copy as component -> value; Copy() field by field with the proposed multipart repair; every distinct "
                        "touch set of the context alphabet on either side, %d mutator step(s), 2 recyclings, all interleavings" % (2 if q else 3))
    lib.spec_check(ctx, "CtxCopyKeys", "CtxCopyKeys_mc.cfg" if q else "CtxCopyKeys_mc_thorough.cfg", workers=4 if q else 8, timeout=1500,
                   note="Set(a,n);Set(b,n) by one writer against readers doing Get / snapshot (ForEachKey, Copy) under the RWMutex")
    negs = [("CtxCopy", "CtxCopy_asis.cfg", ["Complete"], "Request.CopyTo as written: the form of a multipart request parsed while read is lost (the defect repaired by 42af873; kept as a negative configuration)"),
            ("CtxCopy", "CtxCopy_neg_shallowParams.cfg", ["IndependentCopy", "IndependentOrig", "NoNextInCopy"], "Params not copied: the copy shares the slice the router refills"),
            ("CtxCopy", "CtxCopy_neg_aliasKeys.cfg", ["IndependentCopy", "IndependentOrig", "NoNextInCopy"], "cp.Keys = ctx.Keys: one map for both"),
            ("CtxCopy", "CtxCopy_neg_omitFullPath.cfg", ["Complete"], "fullPath not copied"),
            ("CtxCopyKeys", "CtxCopyKeys_neg.cfg", ["Linearizable", "NoTornRead", "Snapshot"], "Set/Get/ForEachKey without the mutex")]
    with concurrent.futures.ThreadPoolExecutor(max_workers=3) as ex:
        for f in [ex.submit(_expect_violation, ctx, *n) for n in negs]:
            f.result()

    # 2. cases enumerated by TLC
    cases, n = lib.gen_cases(ctx, "CtxCopyGen", "CtxCopyGen_quick.cfg" if q else "CtxCopyGen_thorough.cfg", out_name="cases.ndjson", timeout=1500)
    seq_f = os.path.join(ctx.scratch, "cases_seq.ndjson")
    conc = []
    have, table = _alphabets(ctx, drv)
    not_applicable = collections.Counter()                   # mutator the driver lacks -> cases dropped because of it
    n_generated, n_skipped = n, 0
    used = set()                                             # mutators named by the cases that run
    with open(cases) as f, open(seq_f, "w") as fs:
        for line in f:
            names = set(_names(json.loads(line)))
            missing = names - have
            used |= names - missing
            if missing:
                n_skipped += 1
                for m in missing:
                    if not not_applicable[m]:
                        lib.log("mutator %r is in the generator's table but not in the driver's: cases naming it are not applicable" % m)
                    not_applicable[m] += 1
            elif any(k in line for k in CONC):
                conc.append(line)
            else:
                fs.write(line)
    n -= n_skipped
    driver_only = sorted(have - table)
    if driver_only:
        lib.log("%d mutator(s) only the driver has (never generated): %s" % (len(driver_only), ", ".join(driver_only[:8])))
    if n_skipped:
        lib.log("%d of %d generated cases not applicable (%d mutator name(s) unknown to the driver)" % (n_skipped, n_generated, len(not_applicable)))
    if n_skipped * 20 > n_generated:
        raise lib.Infra("%d of %d cases name mutators the driver does not have (%s): the alphabets have drifted too far apart for a check"
                        % (n_skipped, n_generated, ", ".join(sorted(not_applicable)[:8])))

    # 3. run on the real code: sequential cases with the plain build (one locked OS thread per worker, so that the pooled
    #    object is normally the one handed back); every concurrent case in its own process under the race detector
    chunks = 4 if q else lib.NCPU
    tdir = ctx.sub("traces")
    traces, stats = _drive(ctx, drv, seq_f, tdir, chunks)
    nraces = 0
    drv_race = race_build.result()
    bg.shutdown()
    t0 = time.time()
    for i, line in enumerate(conc):
        tf = os.path.join(tdir, "trace_conc_%03d.ndjson" % i)
        nraces += _drive_conc(ctx, drv_race, line, tf, "%d" % i)
        traces.append(tf)
    lib.log("%d concurrent case(s) under the race detector in %.1fs; distinct data races reported: %d" % (len(conc), time.time() - t0, nraces))
    ncases = sum(lib.count_cases(t) for t in traces)
    if ncases != n:
        raise lib.Infra("driver ran %d cases, TLC generated %d" % (ncases, n))

    # 4. validate every recorded line
    res = _validate(ctx, traces, timeout=2400, par=chunks)

    # 5. classify rejections
    unknown = collections.Counter()
    nontriv = set()
    nrecycle = nsame = nprobe_end = 0
    kget = kget_conc = ksnap = bgprobe = 0
    sample_trace = None
    for t, bad in res:
        tl = lib.read_lines(t)
        cur, same = None, False
        for ln in tl:                   # measured coverage: final probes of a copy whose original really was recycled
            if '"ev":"Case"' in ln:
                cur, same = json.loads(ln), False
            elif '"ev":"Recycle"' in ln:
                nrecycle += 1
                if '"same":true' in ln:
                    nsame += 1
                    same = True
            elif '"ev":"ProbeC"' in ln and '"at":"end"' in ln:
                nprobe_end += 1
                if same:
                    nontriv.add((cur["kind"], cur["shape"], cur["state"], cur["predump"], cur["rich"], tuple(cur["pre"]),
                                 tuple((s["at"], s["side"], s["m"]) for s in cur["steps"]), cur["ending"], cur["mode"], cur["trace"]))
            elif '"ev":"KGet"' in ln:
                r = json.loads(ln)
                kget += 1
                kget_conc += 1 if r["lo"] < r["hi"] else 0
            elif '"ev":"KSnap"' in ln:
                ksnap += 1
            elif '"ev":"BgProbe"' in ln:
                bgprobe += 1
        for ln in _unknown_bad(ctx, t, bad, tl):
            r = json.loads(tl[ln - 1]) if ln - 1 < len(tl) else {"ev": "EOF"}
            unknown[(r["ev"], r.get("comp") or r.get("a"))] += 1
        if sample_trace is None and "conc" not in os.path.basename(t) and len(tl) > 400:
            s, e = lib.case_at(tl, len(tl) // 2)
            sample_trace = [json.loads(x) for x in tl[s - 1:e]]
    if unknown:
        lib.log("rejected lines not matching a known finding, by (event, component): %s" % dict(unknown))
    lib.handle_rejections(ctx, res, lambda cl: rerun(ctx, cl))

    # 6. binding self-tests on slices of the recording without rejections
    base = None
    for t, bad in res:
        if "conc" in os.path.basename(t):
            continue
        tl = lib.read_lines(t)
        badset = set(bad)
        out, k = [], 0
        for cl in lib.split_cases(tl):
            k0, k = k, k + len(cl)
            c = json.loads(cl[0])
            if c.get("ev") == "Case" and c["kind"] == "copy" and c["shape"] != "multipart" and not (badset & set(range(k0 + 1, k + 1))) \
                    and not any(s["side"] == "C" for s in c["steps"]) and not any(s["side"] == "O" and s["at"] == "h" for s in c["steps"]):
                out += cl
                if len(out) > 1500:
                    break
        if len(out) > 300:
            base = out
            break
    conc_base = {}
    for t, bad in res:
        if "conc" in os.path.basename(t):
            tl = lib.read_lines(t)
            kind = json.loads(tl[0])["kind"]
            if kind not in conc_base and not _unknown_bad(ctx, t, bad, tl):
                conc_base[kind] = tl
    if base is None or "keys" not in conc_base or "bg" not in conc_base:
        if not ctx.violations:
            raise lib.Infra("no accepted slice of the recording to run the binding self-tests on")
        lib.log("self-tests skipped: the recording of this (violating) tree has no accepted slice of every kind")
    else:
        def edit(ev, f, extra=lambda r: True):
            def m(recs):
                i = _first(recs, lambda r: r["ev"] == ev and extra(r))
                if i is None:
                    return None
                f(recs, i)
                return recs
            return m

        def set_changed(comp):
            return lambda recs, i: recs[i].__setitem__("changed", [comp])

        def handlers_copied(recs, i):
            for e in recs[i]["nc"]:
                if e["c"] == "ctx.handlers":
                    e["v"] = "3|true"

        def fullpath_lost(recs, i):
            recs[i]["ndiff"] += 1
            recs.insert(i + 1, {"ev": "CopyDiff", "comp": "ctx.fullPath", "shape": "get"})

        def never_recycled(recs, i):
            j = i
            while recs[j]["ev"] in ("Recycle", "ProbeS"):
                del recs[j]

        tests = [
            (base, "the copy shows another Host after the original was recycled (ProbeC at the end)", edit("ProbeC", set_changed("req.uri.host"), lambda r: r["at"] == "end")),
            (base, "the handler chain is copied (value of ctx.handlers on the Copy line)", edit("Copy", handlers_copied)),
            (base, "fullPath is missing right after Copy (CopyDiff line added)", edit("Copy", fullpath_lost)),
            (base, "a byte slice returned by the copy's Body() was overwritten (Retained)", edit("Retained", set_changed("req.body"))),
            (base, "the final look happens although the original was never recycled (Recycle lines dropped)", edit("Recycle", never_recycled)),
            (base, "a change made through the copy shows in the original (ProbeO)", edit("ProbeO", set_changed("ctx.keys"))),
            (conc_base["keys"], "Get returns a value the key did not hold yet (KGet above hi)", edit("KGet", lambda recs, i: recs[i].update(v=recs[i]["hi"] + 1, has=True))),
            (conc_base["keys"], "ForEachKey sees b ahead of a (torn snapshot)",
             edit("KSnap", lambda recs, i: recs[i]["pairs"][0].update(b=recs[i]["pairs"][0]["a"] + 1, hasB=True, hi=recs[i]["pairs"][0]["hi"] + 2))),
            (conc_base["bg"], "a goroutine sees the body of its copy change while the server goes on (BgProbe)", edit("BgProbe", set_changed("req.body"))),
        ]
        with concurrent.futures.ThreadPoolExecutor(max_workers=3) as ex:
            for f in [ex.submit(_self_test, ctx, b, name, m) for b, name, m in (tests if not q else tests[:4] + tests[6:7] + tests[8:])]:
                f.result()

    # 7. evidence
    samples = []
    with open(cases) as f:
        for i, line in enumerate(f):
            c = json.loads(line)
            c["watch"] = "(%d components)" % len(c["watch"])
            if i in (0, n // 50, n // 4, n // 2, (3 * n) // 4) or c["kind"] in ("bg", "keys") and len(samples) < 8:
                samples.append(c)
    if sample_trace:
        for r in sample_trace:
            if r["ev"] == "Copy":
                r["nc"] = "(%d values)" % len(r["nc"])
        samples.append({"recorded_trace": sample_trace[:40]})
    ctx.cov.update({
        "evaluations": n, "distinct_nontrivial": len(nontriv), "exhaustive": False, "traces_validated_against_impl": n, "samples": samples,
        "final_probes_of_a_copy": nprobe_end, "recycle_events": nrecycle, "recycle_events_on_the_original_object": nsame,
        "keys_reads": kget, "keys_reads_overlapping_a_write": kget_conc, "keys_snapshots": ksnap, "background_probes": bgprobe,
        "driver_stats": stats, "race_detector_reports": nraces,
        "cases_generated": n_generated, "cases_not_applicable": n_skipped, "mutators_exercised": len(used),
        "mutators_unknown_to_driver": dict(not_applicable), "mutators_only_in_driver": driver_only,
        "rule": "TLC enumerates cases from the context alphabet of C09 (%d mutators): every lifecycle state at Copy time x request shape x "
                "recycling mode x ending x lazy getters before/after; every mutator before Copy; every mutator after Copy on the original / on the "
                "copy, inside the first handler / inside the handler served with the recycled original; ordered pairs (%s) and seeded triples; "
                "server-less contexts; copies handed to goroutines and concurrent use of the key/value store under the race detector. Each case "
                "runs on the real code, every recorded line is validated by TLC. distinct_nontrivial = distinct cases whose final look at the "
                "copy happened after a sentinel request had really been served with the very object the copy was taken from." %
                (len(used), "1/50 seeded sample" if q else "1/2 seeded sample"),
    })
    ctx.assumptions += [
        "the observable state is what harness/drivers/x06/dump.go (the C09 probe set) reads through exported getters/fields; Date, addresses, "
        "timestamps, pointer identity, buffer capacities and unexported scratch space are excluded",
        "a mutator is exercised with one fixed argument set per table entry; sentinel requests overwrite every value with 'Z' of at least the same length",
        "which components a mutator may change is the family-grained Touch table of C09 (spec/CtxLifecycleTable.tla); it matters only for cases that "
        "mutate the copy (or the original between two looks at it)",
        "linearizability of the key/value store is judged through one writer per key with published counters (interval check) and the race detector",
        "TLC and the CommunityModules Json reader are trusted",
    ]
