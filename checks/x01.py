"""X01 (extension) -- the client-side service-discovery balancer cache (pkg/app/client/loadbalance/lbcache.go):
serves only instances the resolver currently or recently reported, resolves each key once at a time, refreshes and
expires by the documented intervals, never returns an instance from a deleted entry.

spec/LBCache.tla (code granularity) is model-checked (safety, liveness, and the as-written variant must FAIL
IdleExpires); spec/LBCacheObs.tla -- the determinised observer of LBCache over the callbacks -- is model-checked to
accept every behaviour of LBCache (LBCacheObsMC); histories enumerated by spec/LBCacheGen.tla plus seeded random
scripts are run by harness/drivers/x01 against the REAL loadbalance.NewBalancerFactory / sd.Discovery with a scripted
resolver and a recording wrapper around the real weighted balancer; the recorded events are validated by TLC
(spec/LBCacheTrace.tla).  notes/X01.md has the details.
"""
import concurrent.futures, glob, json, os, random
from . import lib

MODES = ["ok1", "ok2", "ok3", "empty", "err", "zero", "mixed"]


def S(op, p=0, key="", s="", n=0):
    return {"op": op, "p": p, "key": key, "s": s, "n": n}


def rand_case(rng, cid):
    """One seeded random script over the driver's operations (2-3 keys, 3 callers, every answer of the resolver,
    gates on first resolutions and on refresh).  Always ends with: gates open, calls done, resolver failing (so that
    refresh keeps nothing alive, see the known finding X01-refresh-keeps-idle-entries-alive), quiesce."""
    keys = ["a", "b"] if rng.random() < 0.7 else ["a", "b", "c"]
    T = rng.choice([40, 60, 100])
    R = rng.choice([10, 20, 30])
    st = []
    for k in keys:
        st.append(S("mode", key=k, s=rng.choice(MODES)))
    for _ in range(rng.randint(5, 14)):
        r = rng.random()
        k = rng.choice(keys)
        p = rng.randint(1, 3)
        if r < 0.30:
            st.append(S("call", p, k))
        elif r < 0.40:
            st.append(S("mode", key=k, s=rng.choice(MODES)))
        elif r < 0.50:
            st.append(S("wait", rng.choice([0, p])))
        elif r < 0.62:
            st.append(S("sleep", n=rng.choice([1, 3, R, 2 * R, T, T + T // 2, 2 * T + 10])))
        elif r < 0.74:   # concurrent calls on one key while a first resolution (if any) is held
            # (every earlier call has returned: a call still on its way would be caught by the gate and the script,
            # not the code, would hang)
            st += [S("wait", 0), S("gate", key=k, s="call"), S("call", p, k), S("await", key=k, s="call", n=40)]
            for q in rng.sample([1, 2, 3], rng.randint(1, 3)):
                if q != p:
                    st.append(S("call", q, rng.choice([k, k, rng.choice(keys)])))
            st += [S("sleep", n=rng.choice([1, 5, R])), S("mode", key=k, s=rng.choice(MODES)),
                   S("open", key=k, s="call")]
        elif r < 0.82:   # refresh held inside Resolve for a while
            st += [S("gate", key=k, s="refresh"), S("sleep", n=rng.choice([R, 2 * R, 2 * T + 20])),
                   S("call", p, k), S("open", key=k, s="refresh")]
        elif r < 0.90:
            st.append(S("awaitrefresh", key=k, s=str(3 * R), n=rng.randint(1, 2)))
        else:
            st.append(S("busy", p, k, n=rng.choice([T, 2 * T, 3 * T])))
    st += [S("openall"), S("wait", 0)]
    if rng.random() < 0.5:   # one more round against whatever is cached now
        st += [S("call", 1, keys[0]), S("call", 2, keys[-1]), S("wait", 0)]
    st += [S("mode", key=k, s="err") for k in keys] + [S("quiesce")]
    return {"id": cid, "kind": "random", "ck": "aligned", "via": rng.choice(["factory", "mw"]),
            "refreshMs": R, "expireMs": T, "steps": st}


def run_cases(drv, cases, outdir, procs, par=6, timeout=600):
    """Run the driver on `cases` split over `procs` processes (each runs `par` cases side by side)."""
    os.makedirs(outdir, exist_ok=True)
    jobs = []
    for i, ch in enumerate(lib.split_evenly(cases, procs)):
        cf = os.path.join(outdir, "cases_%02d.ndjson" % i)
        with open(cf, "w") as f:
            for c in ch:
                f.write(json.dumps(c, separators=(",", ":")) + "\n")
        jobs.append((cf, os.path.join(outdir, "trace_%02d.ndjson" % i)))
    with concurrent.futures.ThreadPoolExecutor(max_workers=procs) as ex:
        list(ex.map(lambda j: lib.run_driver(drv, ["-cases", j[0], "-out", j[1], "-par", par], timeout=timeout), jobs))
    return [j[1] for j in jobs]


def rerun(ctx, case_lines):
    """Run ONE case alone three times (goroutine scheduling and the tickers are not reproducible) and validate;
    True if at least two runs are rejected again for something that is not a known finding."""
    drv = lib.go_build("x01")
    c = json.loads(case_lines[0])
    for k in ("ev", "rname"):
        c.pop(k, None)
    known = lib.load_known(ctx.pid)
    d = ctx.sub("rerun_%d" % len(os.listdir(ctx.scratch)))
    again = 0
    for rep in range(3):
        traces = run_cases(drv, [c], os.path.join(d, "r%d" % rep), 1, par=1)
        r = lib.validate(ctx, "LBCacheTrace", "LBCacheTrace.cfg", traces, count=False)
        lines = lib.read_lines(traces[0])
        for ln in r[0][1]:
            ev = json.loads(lines[ln - 1]) if ln - 1 < len(lines) else None
            if not lib.match_known(known, c, ev):
                again += 1
                break
    return again >= 2


def spec_checks(ctx, q):
    """The specification satisfies the property; the observer accepts every behaviour of the specification; the
    as-written model must violate IdleExpires and the model must exhibit the orphan refresh (InStep)."""
    w = 2 if q else 6
    jobs = [("LBCache", "LBCache_mc.cfg", "2 keys, 2 callers x 1 call, 0|2 instances|error, 3 versions, 2 watcher ticks, 1 refresh tick; all interleavings"),
            ("LBCache", "LBCache_mc3.cfg", "1 key, 3 concurrent callers (singleflight), 2 versions"),
            ("LBCache", "LBCache_live.cfg", "liveness IdleExpires under fair watcher and callers, unbounded ticks"),
            ("LBCacheObsMC", "LBCacheObsMC_quick.cfg" if q else "LBCacheObsMC.cfg",
             "the observer used for trace validation accepts every behaviour of LBCache")]
    if not q:
        jobs += [("LBCache", "LBCache_mc_rt2.cfg", "as LBCache_mc with 2 refresh ticks"),
                 ("LBCache", "LBCache_mc3_thorough.cfg", "1 key, 3 callers, 3 versions, 3 watcher ticks, 2 refresh ticks"),
                 ("LBCache", "LBCache_mc_thorough.cfg", "2 keys, 2 callers x 2 calls"),
                 ("LBCacheObsMC", "LBCacheObsMC_rt3.cfg", "the observer accepts every behaviour with 3 refresh ticks")]
    with concurrent.futures.ThreadPoolExecutor(max_workers=2 if q else 3) as ex:
        futs = [ex.submit(lib.spec_check, ctx, m, c, w, 1500, None, 2, None, n) for m, c, n in jobs]
        neg = [ex.submit(lib.tlc, ctx, "LBCache", c, 1, 600) for c in ("LBCache_asis.cfg", "LBCache_orphan.cfg")]
        for f in futs:
            f.result()
        for f, (cfg, want, note) in zip(neg, [
                ("LBCache_asis.cfg", "IdleExpires", "refresh() AS WRITTEN (a successful refresh clears the expire flag): TLC "
                 "refutes IdleExpires, as required (known finding X01-refresh-keeps-idle-entries-alive)"),
                ("LBCache_orphan.cfg", "InStep", "TLC exhibits the orphan refresh (rebalance with an older answer after the "
                 "entry was re-created): InStep is not claimed")]):
            r = f.result()
            import re
            if not re.search(r"(Invariant|Temporal property) %s (is|was) violated" % want, r.out):
                raise lib.Infra("%s: expected a counterexample to %s\n%s" % (cfg, want, r.tail(20)))
            ctx.cov["spec_checks"].append({"module": "LBCache", "cfg": cfg, "distinct_states": r.distinct, "note": note})


def interesting(lines):
    """marks of a non-trivial history, from its recorded events"""
    marks = set()
    inflight = {}
    for r in lines:
        ev = r["ev"]
        if ev == "Delete":
            marks.add("delete")
        elif ev == "ResolveBegin" and r["p"] > 0:
            inflight[r["key"]] = r["p"]
        elif ev == "ResolveEnd":
            if r["p"] > 0:
                inflight.pop(r["key"], None)
            if r["err"]:
                marks.add("fail_refresh" if r["p"] == 0 else "fail_first")
            elif r["p"] == 0:
                marks.add("refresh_ok")
        elif ev == "Target" and inflight.get(r["key"], r["p"]) != r["p"]:
            marks.add("follower")
        elif ev == "Pick" and r["x"] == 0:
            marks.add("no_instance")
    return marks


def run(ctx):
    drv = lib.go_build("x01")
    q = ctx.quick
    if not os.environ.get("VERIF_X01_NOSPEC"):     # development switch for mutation runs
        spec_checks(ctx, q)

    # cases: enumerated by TLC + seeded random scripts
    gen, n = lib.gen_cases(ctx, "LBCacheGen", "LBCacheGen_quick.cfg" if q else "LBCacheGen_thorough.cfg")
    cases = [json.loads(l) for l in open(gen)]
    rng = random.Random(ctx.seed * 7919 + (0 if q else 13))
    nrand = 400 if q else 6000
    cases += [rand_case(rng, n + 1 + i) for i in range(nrand)]
    if not q:   # the enumerated histories again with other intervals
        for rep, (R, T) in enumerate([(10, 40), (30, 100)]):
            for c in cases[:n]:
                if c["kind"] not in ("expire", "expire_plain", "idle_refresh_ok"):
                    cases.append(dict(c, id=len(cases) + 1, refreshMs=R, expireMs=T))

    procs = 4 if q else min(lib.NCPU, 12)
    traces = run_cases(drv, cases, ctx.sub("traces"), procs, par=6, timeout=900 if q else 3000)
    nrun = sum(lib.count_cases(t) for t in traces)
    if nrun != len(cases):
        raise lib.Infra("driver ran %d cases of %d" % (nrun, len(cases)))

    res = lib.validate(ctx, "LBCacheTrace", "LBCacheTrace.cfg", traces, timeout=1500, par=procs)
    lib.handle_rejections(ctx, res, lambda cl: rerun(ctx, cl))
    if ctx.violations:
        return
    self_tests(ctx, traces[0])
    evidence(ctx, cases, traces, n, q)


def self_tests(ctx, trace):
    """Binding self-tests: corrupt a recorded history; the trace specification must reject it."""
    M, C = "LBCacheTrace", "LBCacheTrace.cfg"

    def stale_pick(recs):   # a call returns an instance of an older version than the balancer holds
        for i, r in enumerate(recs):
            if r["ev"] == "Pick" and r["x"] > 20 and i + 1 < len(recs) and recs[i + 1]["ev"] == "Return":
                r["x"] -= 10
                recs[i + 1]["x"] -= 10
                return recs
        return recs
    lib.self_test(ctx, M, C, trace, stale_pick, name="a call returns an instance of a superseded result", ncases=120)

    def second_resolve(recs):   # a follower resolves although the leader's Resolve is in flight
        for i, r in enumerate(recs):
            if r["ev"] == "ResolveBegin" and r["p"] > 0:
                for j in range(i + 1, len(recs)):
                    if recs[j]["ev"] == "ResolveEnd" and recs[j]["p"] == r["p"]:
                        break
                    if recs[j]["ev"] == "Target" and recs[j]["p"] != r["p"] and recs[j]["key"] == r["key"]:
                        recs.insert(j + 1, {"ev": "ResolveBegin", "p": recs[j]["p"], "key": r["key"], "desc": r["desc"]})
                        return recs
        return recs
    lib.self_test(ctx, M, C, trace, second_resolve, name="two concurrent first calls both start Resolve", ncases=120)

    def drop_delete(recs):   # the balancer is never told about an expired entry
        for i, r in enumerate(recs):
            if r["ev"] == "Delete":
                del recs[i]
                return recs
        return recs
    lib.self_test(ctx, M, C, trace, drop_delete, name="drop one recorded Delete", ncases=120)

    def rebalance_after_failure(recs):   # a failed refresh is followed by a Rebalance (with the previous list)
        last = None
        for i, r in enumerate(recs):
            if r["ev"] == "Rebalance":
                last = r
            if r["ev"] == "Case":
                last = None
            if r["ev"] == "ResolveEnd" and r["p"] == 0 and r["err"] and last:
                recs.insert(i + 1, dict(last, p=0))
                return recs
        return recs
    lib.self_test(ctx, M, C, trace, rebalance_after_failure, name="a failed refresh rebalances", ncases=120)

    def instance_without_error_flag(recs):   # an empty result answered with a stale instance
        for i, r in enumerate(recs):
            if r["ev"] == "Return" and r["err"] and i > 0 and recs[i - 1]["ev"] == "Pick":
                r["err"], r["x"] = False, 11
                return recs
        return recs
    lib.self_test(ctx, M, C, trace, instance_without_error_flag, name="an empty result answered with an instance", ncases=120)


def evidence(ctx, cases, traces, n_enum, q):
    per_ev, kinds, nontrivial, sigs = {}, {}, 0, set()
    sample_trace = None
    for t in traces:
        cur, rec = None, []
        for line in open(t):
            r = json.loads(line)
            per_ev[r["ev"]] = per_ev.get(r["ev"], 0) + 1
            if r["ev"] == "Case":
                cur, rec = r, []
            elif r["ev"] == "End":
                m = interesting(rec)
                sig = json.dumps([cur["kind"], cur["ck"], cur["via"], cur["refreshMs"], cur["expireMs"], cur["steps"]])
                if len(m) >= 2 and sig not in sigs:
                    nontrivial += 1
                sigs.add(sig)
                kinds[cur["kind"]] = kinds.get(cur["kind"], 0) + 1
                if sample_trace is None and cur["kind"] == "first" and len(m) >= 3 and len(rec) < 60:
                    sample_trace = [cur] + rec
            else:
                rec.append(r)
    ctx.cov.update({
        "evaluations": len(cases), "distinct_nontrivial": nontrivial, "exhaustive": False,
        "traces_validated_against_impl": len(cases), "events_per_kind": per_ev, "cases_per_kind": kinds,
        "samples": [cases[0], cases[n_enum - 1], cases[n_enum + 1], {"recorded_trace": sample_trace}],
        "rule": "TLC (LBCacheGen) enumerates the structured histories: 1..3 concurrent first callers x 7 resolver answers "
                "(1/2/3 instances, empty, error, all-zero weights, mixed weights) for the first resolution x 7 for the "
                "refreshes; two keys at once x 7 x 7; idle key next to a busy key for several ExpireIntervals; expiry then "
                "re-resolution x 7; refresh failing then recovering x 7; a refresh held in Resolve across expiry and "
                "re-creation of its entry x 6; a caller held in Pick across expiry; an idle key with refresh succeeding. "
                "%d seeded random scripts over the same operations (calls by 3 callers on 2-3 keys, answers changed, gates "
                "on first resolutions and on refresh, sleeps around the intervals, busy loops) are added. Every history runs "
                "on the real BalancerFactory (1/3 through the real sd.Discovery middleware), real tickers (refresh 10-30 ms, "
                "expire 40-200 ms). Non-trivial = the recorded history shows at least two of: a Delete, a follower of a first "
                "resolution in flight, a failed first resolution, a failed refresh, a successful refresh, a Pick that found "
                "no instance; counted over distinct scripts." % (len(cases) - n_enum),
    })
    ctx.assumptions += [
        "the linearization points are the callbacks the factory makes (Resolver.Target/Resolve, Loadbalancer.Rebalance/"
        "Delete/Pick): silent steps (cache load, singleflight join, expire flag, ticks) are accounted for by the observer "
        "LBCacheObs, which LBCacheObsMC shows to accept every behaviour of LBCache within the checked bounds",
        "the recording wrapper serialises calls into the real weightedBalancer (its own concurrency is not under test)",
        "expiry liveness is judged with a generous bound: the driver waits max(1.5 s, 15 x ExpireInterval) for Delete; "
        "'a used entry is kept' is judged as: no Delete within ExpireInterval/2 after the start of a call that used the "
        "entry, and only when the driver's heartbeat saw no scheduling stall > 10 ms in the last 2 ExpireIntervals; a "
        "rejection must be reproduced in 2 of 3 solitary re-runs",
        "goroutine identity is taken from runtime.Stack; TLC and the CommunityModules Json reader are trusted",
    ]
