"""X05 (extension) -- the client's host-client map and its cleaner (pkg/app/client/client.go: Client.do, cleaner /
cleanHostClients, CloseIdleConnections, SetClientFactory, GetDialerName, the HostClientConfigHook and the state
observers): one HostClient per key, key derivation, removal only of idle HostClients and of every idle one, one
cleaner goroutine per non-empty map, CloseIdleConnections over both maps, observers stop with the removal.

spec/HostMap.tla (code granularity) is model-checked (safety, action properties, liveness; the as-written variants
must FAIL OrphanFree / BoundedPerKey / CloseIdleAll); spec/HostMapObs.tla -- the determinised observer over the
recorded events -- is model-checked to accept every behaviour of the corrected HostMap and to reject the as-written
ones (HostMapObsMC); scripts enumerated by spec/HostMapGen.tla plus seeded random scripts are run by
harness/drivers/x05 against the REAL client.NewClient (in-memory dialer, recording client factory or the client's own
factory, hook H2 of http1); the recorded events are validated by TLC (spec/HostMapTrace.tla).  notes/X05.md.
"""
import concurrent.futures, glob, json, os, random, re
from . import lib

M, C = "HostMapTrace", "HostMapTrace.cfg"


def U(host, sch="http", port="", up=0, via="url"):
    return {"sch": sch, "host": host, "port": port, "up": up, "via": via}


U0 = U("a")


def S(op, p=0, u=None, beh="", park=0, n=0, f=""):
    return {"op": op, "p": p, "u": u or U0, "beh": beh, "park": park, "n": n, "f": f}


def key_of(u):
    return ("s|" if u["sch"] == "https" else "h|") + u["host"] + (":" + u["port"] if u["port"] else "")


def rand_case(rng, cid, long_sleeps):
    """One seeded random script: bursts of calls (kept alive / closed / held by the peer) on 2-4 spellings of 1-3
    keys, separated by sleeps that let a cleaner tick pass (10.6 s) or must contain one (13 s).  Kept clear of the
    as-written defects (no call parked across a tick, no retries, CloseIdleConnections only without https)."""
    mode = rng.choice(["wrap", "plain"])
    maxc = rng.choice([1, 2])
    wait = rng.choice([0, 0, 1500])
    https = rng.random() < 0.5
    pool = [U("a"), U("b"), U("a", up=1), U("a", port="80"), U("a", via="hosthdr"), U("b", port="8080", via="sethost")]
    if https:
        pool += [U("a", "https"), U("b", "https", port="443")]
    urls = rng.sample(pool, rng.randint(2, 4))
    idle = rng.choice([60000, 60000, 1000])
    st, p, held = [], 0, {}      # held: call -> key

    def burst():
        nonlocal p
        loose = []
        for _ in range(rng.randint(1, 3)):
            if p >= 18:
                break
            p += 1
            st.append(S("call", p, rng.choice(urls), rng.choice(["ka", "ka", "close"])))
            loose.append(p)
        for q in loose:
            st.append(S("wait", q))
        if rng.random() < 0.5:
            u = rng.choice(urls)
            k = key_of(u)
            if sum(1 for v in held.values() if v == k) < maxc and p < 18:
                p += 1
                st.extend([S("call", p, u, rng.choice(["hold", "holdclose"])), S("arrive", p, f="peer")])
                held[p] = k
                if rng.random() < 0.5:       # a request for the key whose connections may all be taken
                    p += 1
                    st.append(S("call", p, u, "ka"))
                    st.append(S("sleep", n=30))
        if rng.random() < 0.25 and not https and idle == 60000:
            st.append(S("closeidle"))
        if held and rng.random() < 0.4:
            q = rng.choice(sorted(held))
            st.append(S("release", q))
            del held[q]

    burst()
    for _ in range(long_sleeps):
        st.append(S("sleep", n=rng.choice([10600, 10600, 13000])))
        burst()
    for q in sorted(held):
        st.append(S("release", q))
    st.append(S("wait"))
    if rng.random() < 0.3:
        st.append(S("getname"))
    return {"id": cid, "kind": "random", "mode": mode, "maxConns": maxc, "waitMs": wait, "idleMs": idle, "obsMs": 0,
            "hookErr": 0, "facErr": 0, "retryMs": 0, "steps": st}


def _run_proc(drv, cases, d, timeout, env):
    """one driver process for `cases`; returns its trace files, or None when the process died"""
    os.makedirs(d, exist_ok=True)
    cf = os.path.join(d, "cases.ndjson")
    with open(cf, "w") as f:
        for c in cases:
            f.write(json.dumps(c, separators=(",", ":")) + "\n")
    try:
        lib.run_driver(drv, ["-cases", cf, "-out", os.path.join(d, "t"), "-chunks", 2, "-par", 600], timeout=timeout, env=env)
    except lib.Infra as e:
        if "timed out" in str(e):
            raise
        lib.log("driver died on %d case(s): %s" % (len(cases), str(e)[-300:].replace("\n", " | ")))
        return None
    return sorted(glob.glob(os.path.join(d, "t", "trace_*.ndjson")))


def run_cases(drv, cases, outdir, procs, timeout=900, env=None):
    """Run the driver on `cases` split over `procs` processes; every process runs all its cases side by side (the
    cleaner's 10 s sleep is hard-coded, the cases wait for it in parallel).  When a process dies (a panic in a
    background goroutine of the code under test) its cases are run again in 8 processes, then one per process; a
    case that kills its own process is recorded as Case, Crashed, End (no action for Crashed: rejected)."""
    def level(cs, d, n, depth):
        out = []
        groups = [cs[i::n] for i in range(n) if cs[i::n]]      # interleaved: slow and fast cases in every process
        with concurrent.futures.ThreadPoolExecutor(max_workers=min(len(groups), 16)) as ex:
            rs = list(ex.map(lambda ig: _run_proc(drv, ig[1], os.path.join(d, "p%02d" % ig[0]), timeout, env), enumerate(groups)))
        for i, (g, r) in enumerate(zip(groups, rs)):
            if r is not None:
                out += r
            elif len(g) == 1:
                t = os.path.join(d, "p%02d" % i, "crashed.ndjson")
                with open(t, "w") as f:
                    f.write(json.dumps(dict(g[0], ev="Case"), separators=(",", ":")) + "\n")
                    f.write('{"ev":"Crashed"}\n{"ev":"End"}\n')
                out.append(t)
            else:
                out += level(g, os.path.join(d, "p%02d" % i, "split"), 8 if depth == 0 else len(g), depth + 1)
        return out
    return sorted(level(cases, outdir, procs, 0))


def rerun(ctx, case_lines):
    """Run ONE case alone twice (goroutine scheduling is not reproducible) and validate; True if both runs are
    rejected again for something that is not a known finding."""
    drv = lib.go_build("x05")
    c = json.loads(case_lines[0])
    c.pop("ev", None)
    known = lib.load_known(ctx.pid)
    d = ctx.sub("rerun_%d" % len(os.listdir(ctx.scratch)))
    again = 0
    for rep in range(2):
        traces = run_cases(drv, [c], os.path.join(d, "r%d" % rep), 1)
        r = lib.validate(ctx, M, C, traces, count=False)
        lines = lib.read_lines(traces[0])
        for ln in r[0][1]:
            ev = json.loads(lines[ln - 1]) if ln - 1 < len(lines) else None
            if not lib.match_known(known, c, ev):
                again += 1
                break
    return again == 2


def log_rejections(ctx, res):
    """what was rejected, for the log (known findings included)"""
    known = lib.load_known(ctx.pid)
    for t, bad in res:
        if not bad:
            continue
        lines = lib.read_lines(t)
        for ln in bad:
            s_, _ = lib.case_at(lines, ln)
            c = json.loads(lines[s_ - 1])
            ev = json.loads(lines[ln - 1]) if ln - 1 < len(lines) and lines[ln - 1] else None
            if not lib.match_known(known, c, ev):
                lib.log("rejected: case %s kind %s mode %s at %s; before it: %s" % (
                    c.get("id"), c.get("kind"), c.get("mode"), json.dumps(ev)[:200], " ".join(lines[max(s_, ln - 4):ln - 1])[:600]))


def spec_checks(ctx, q):
    """The specification satisfies the property; the observer accepts every behaviour of it; the as-written models
    must violate OrphanFree / BoundedPerKey / CloseIdleAll and must be rejected by the observer."""
    w = 2 if q else 4
    jobs = [("HostMap", "HostMap_mcq.cfg", "corrected; one http and one https key (two maps, two cleaners), 2 callers, MaxConns 1, 2 ticks, CloseIdleConnections, reaper, retry window; all interleavings"),
            ("HostMap", "HostMap_mcq2.cfg", "corrected; one key, 2 callers x 2 calls: removal, re-creation, cleaner restart"),
            ("HostMap", "HostMap_liveq.cfg", "liveness IdleRemoved, Drains (fair callers, cleaner, reaper; unbounded ticks)"),
            ("HostMapObsMC", "HostMapObsMC_quick.cfg", "the observer used for trace validation accepts every behaviour of HostMap (two maps, 2 callers, 2 ticks, reaper, retry)"),
            ("HostMapObsMC", "HostMapObsMC_quick_ci.cfg", "the observer accepts every behaviour with CloseIdleConnections (two maps, 2 callers, 1 tick)")]
    if not q:       # the long ones first
        jobs = [("HostMap", "HostMap_mc_thorough.cfg", "corrected; 2 keys (one https), 3 callers, MaxConns 2, 3 ticks"),
                ("HostMapObsMC", "HostMapObsMC_thorough.cfg", "the observer accepts: 2 keys in one map, 2 callers x 2 calls"),
                ("HostMap", "HostMap_live.cfg", "liveness with two maps, 2 callers x 2 calls"),
                ("HostMap", "HostMap_mc.cfg", "corrected; 2 keys in one map, 2 callers x 2 calls, MaxConns 1, 1 retry"),
                ("HostMap", "HostMap_mc3.cfg", "corrected; 2 keys, 3 concurrent callers, MaxConns 1, retry window"),
                ("HostMap", "HostMap_mc2.cfg", "corrected; two maps, 2 callers x 2 calls, MaxConns 2"),
                ("HostMapObsMC", "HostMapObsMC.cfg", "the observer accepts: 1 key, 2 callers x 2 calls (re-creation, cleaner restart)"),
                ("HostMapObsMC", "HostMapObsMC_two.cfg", "the observer accepts: two maps, 2 callers, 2 ticks, CloseIdleConnections, reaper, retry")] + jobs
    neg = [("HostMap", "HostMap_asis.cfg", "Invariant OrphanFree is violated",
            "the cleaner AS WRITTEN (ShouldRemove = connsCount = 0): TLC refutes OrphanFree, as required (X05-orphan-*)"),
           ("HostMap", "HostMap_asis_bound.cfg", "Invariant BoundedPerKey is violated",
            "as written: two HostClients of one key with MaxConns connections each"),
           ("HostMap", "HostMap_asis_ci.cfg", "Action property CloseIdleAll is violated",
            "CloseIdleConnections AS WRITTEN (c.m only): TLC refutes CloseIdleAll (X05-closeidle-skips-tls)"),
           ("HostMapObsMC", "HostMapObsMC_asis.cfg", "Invariant Accepts is violated",
            "the observer rejects a behaviour of the as-written cleaner (it is not vacuous)"),
           ("HostMapObsMC", "HostMapObsMC_asis_ci.cfg", "Invariant Accepts is violated",
            "the observer rejects the as-written CloseIdleConnections")]
    with concurrent.futures.ThreadPoolExecutor(max_workers=2 if q else 3) as ex:
        futs = [ex.submit(lib.spec_check, ctx, m, c, w, 2400, None, 2, None, n) for m, c, n in jobs]
        nfut = [ex.submit(lib.tlc, ctx, m, c, 1, 600) for m, c, _, _ in neg]
        for f in futs:
            f.result()
        for f, (m, c, want, note) in zip(nfut, neg):
            r = f.result()
            if want not in r.out:
                raise lib.Infra("%s/%s: expected '%s'\n%s" % (m, c, want, r.tail(20)))
            ctx.cov["spec_checks"].append({"module": m, "cfg": c, "distinct_states": r.distinct, "note": note})


def marks(recs):
    """marks of a non-trivial history, from its recorded events"""
    m = set()
    keys = {}
    for r in recs:
        ev = r["ev"]
        if ev == "Should":
            m.add("removed" if r["res"] else "kept")
        elif ev == "Config":
            keys[r["addr"] + str(r["tls"])] = keys.get(r["addr"] + str(r["tls"]), 0) + 1
        elif ev == "End" and r.get("res") == "nofree":
            m.add("nofree")
        elif ev in ("CIEnd", "ObsCount"):
            m.add(ev)
        elif ev == "Sleep" and r["ms"] >= 13000:
            m.add("longsleep")
    if len(keys) > 1:
        m.add("two_hostclients")
    if any(v > 1 for v in keys.values()):
        m.add("recreated_or_alias")
    return m


def race_run(ctx, cases):
    """Clause 6: the same scripts under the Go race detector (lib.go_build(race=True)).  A report naming hertz code
    that appears again when the run is repeated is a violation; a report seen once only is flaky (exit 2)."""
    drv = lib.go_build("x05", race=True)
    reports = []
    for rep in range(2):
        d = ctx.sub("race_%d" % rep)
        logp = os.path.join(d, "racelog")
        traces = run_cases(drv, cases, os.path.join(d, "tr"), 2, timeout=1500,
                           env={"GORACE": "halt_on_error=0 log_path=" + logp})
        txt = "".join(open(p).read() for p in glob.glob(logp + "*"))
        n = txt.count("WARNING: DATA RACE")
        ctx.cov.setdefault("race_detector", []).append({"cases": len(cases), "reports": n})
        if rep == 0:
            res = lib.validate(ctx, M, C, traces, timeout=1500)
            lib.handle_rejections(ctx, res, lambda cl: rerun(ctx, cl))
        if n == 0 or "cloudwego/hertz" not in txt:
            break
        reports.append(txt)
    if len(reports) == 2:
        os.makedirs(lib.REPLAYS, exist_ok=True)
        p = os.path.join(lib.REPLAYS, "%s_race.json" % ctx.pid)
        with open(p, "w") as f:
            json.dump({"property": ctx.pid, "note": "go race detector report, reproduced in two runs", "trace": [],
                       "report": reports[0][:20000]}, f, indent=1)
        ctx.violations.append((p, "data race reported by the race detector in two runs: " + reports[0][:300]))
    elif len(reports) == 1:
        raise lib.Infra("the race detector reported a race in one run only (flaky)")


def run(ctx):
    q = ctx.quick
    drv = lib.go_build("x05")
    with concurrent.futures.ThreadPoolExecutor(max_workers=1) as bg:
        specs = None
        if not os.environ.get("VERIF_X05_NOSPEC"):     # development switch for mutation runs
            specs = bg.submit(spec_checks, ctx, q)      # model checking runs while the driver waits for the cleaner
        gen, n = lib.gen_cases(ctx, "HostMapGen", "HostMapGen_quick.cfg" if q else "HostMapGen_thorough.cfg")
        cases = [json.loads(l) for l in open(gen)]
        rng = random.Random(ctx.seed * 7919 + (0 if q else 13))
        nrand = 60 if q else 900
        cases += [rand_case(rng, n + 1 + i, 1 if q else rng.choice([1, 2, 2])) for i in range(nrand)]
        procs = 2 if q else 6
        traces = run_cases(drv, cases, ctx.sub("traces"), procs, timeout=600 if q else 1800)
        nrun = sum(lib.count_cases(t) for t in traces)
        if nrun != len(cases):
            raise lib.Infra("driver ran %d cases of %d" % (nrun, len(cases)))
        res = lib.validate(ctx, M, C, traces, timeout=1500, par=4 if q else 8)
        log_rejections(ctx, res)
        lib.handle_rejections(ctx, res, lambda cl: rerun(ctx, cl))
        if not ctx.violations:
            self_tests(ctx, accepted_only(ctx, traces, res))
            if not q:
                race_run(ctx, cases[:n])
        if specs is not None:
            specs.result()
    if ctx.violations:
        return
    evidence(ctx, cases, traces, n, q)


def accepted_only(ctx, traces, res):
    """the recorded cases without the rejected ones (known findings): the baseline of the self-tests is clean, so a
    rejection there is caused by the corruption"""
    out = os.path.join(ctx.scratch, "accepted.ndjson")
    bad = {t: set(b) for t, b in res}
    by_kind = {}
    for t in traces:
        lines = lib.read_lines(t)
        drop = set()
        for ln in bad.get(t, ()):
            s_, e_ = lib.case_at(lines, ln)
            drop.update(range(s_, e_ + 1))
        for cl in lib.split_cases([l for i, l in enumerate(lines, 1) if i not in drop and l]):
            by_kind.setdefault(json.loads(cl[0])["kind"], []).append(cl)
    with open(out, "w") as f:      # up to 6 cases of every kind
        for k in sorted(by_kind):
            for cl in by_kind[k][:6]:
                f.write("\n".join(cl) + "\n")
    r = lib.validate(ctx, M, C, [out], count=False)
    if r[0][1]:
        raise lib.Infra("the accepted cases are not accepted when validated together")
    return [out]


def self_tests(ctx, traces):
    """Binding self-tests: corrupt a recorded history; the trace specification must reject it."""
    def first(recs, pred):
        for i, r in enumerate(recs):
            if pred(r):
                return i
        return None

    def drop_close(recs):          # a removed HostClient is not closed
        i = first(recs, lambda r: r["ev"] == "Close")
        if i is not None:
            del recs[i]
        return recs
    lib.self_test(ctx, M, C, traces, drop_close, name="drop the Close that follows a removal", ncases=10 ** 6)

    def wrong_addr(recs):          # the HostClient of "a" dials another port
        i = first(recs, lambda r: r["ev"] == "Config" and r["addr"].endswith(":80"))
        if i is not None:
            recs[i]["addr"] = recs[i]["addr"][:-3] + ":8080"
        return recs
    lib.self_test(ctx, M, C, traces, wrong_addr, name="a HostClient created with another port", ncases=10 ** 6)

    def foreign_hc(recs):          # a call is served by the HostClient of another key
        cur = {}
        for i, r in enumerate(recs):
            if r["ev"] == "Case":
                cur = {}
            elif r["ev"] == "Config" and not r["err"]:
                cur[r["hc"]] = r["addr"]
            elif r["ev"] == "Use" and len(cur) > 1:
                other = [h for h in cur if h != r["hc"] and cur[h] != cur.get(r["hc"])]
                if other:
                    old = r["hc"]
                    r["hc"] = other[0]
                    for s in recs[i + 1:]:
                        if s["ev"] == "Done" and s["p"] == r["p"] and s["hc"] == old:
                            s["hc"] = other[0]
                            break
                    return recs
        return recs
    lib.self_test(ctx, M, C, traces, foreign_hc, name="a call served by the HostClient of another key", ncases=10 ** 6)

    def remove_busy(recs):         # the cleaner removes a HostClient that has a connection
        i = first(recs, lambda r: r["ev"] == "Should" and not r["res"] and r["sure"])
        if i is not None:
            recs[i]["res"] = True
            recs.insert(i + 1, {"ev": "Close", "hc": recs[i]["hc"], "g": recs[i]["g"]})
        return recs
    lib.self_test(ctx, M, C, traces, remove_busy, name="ShouldRemove true with a connection open", ncases=10 ** 6)

    def second_hostclient(recs):   # a second HostClient for a key that has one (mode wrap)
        mode, created = "", set()
        for i, r in enumerate(recs):
            if r["ev"] == "Case":
                mode, created = r["mode"], set()
            elif r["ev"] == "New":
                created.add(r["p"])
            elif r["ev"] == "Use" and mode == "wrap" and r["p"] not in created:
                recs.insert(i, {"ev": "New", "p": r["p"], "hc": 9, "err": False})
                return recs
        return recs
    lib.self_test(ctx, M, C, traces, second_hostclient, name="NewHostClient for a key that has a HostClient", ncases=10 ** 6)

    def keep_idle_open(recs):      # CloseIdleConnections leaves an idle connection open
        for i, r in enumerate(recs):
            if r["ev"] == "CIBegin":
                for j in range(i + 1, len(recs)):
                    if recs[j]["ev"] == "CIEnd":
                        break
                    if recs[j]["ev"] == "Closed":
                        del recs[j]
                        return recs
        return recs
    lib.self_test(ctx, M, C, traces, keep_idle_open, name="drop a Closed inside CloseIdleConnections", ncases=10 ** 6)


def evidence(ctx, cases, traces, n_enum, q):
    per_ev, kinds, nontrivial, sigs = {}, {}, 0, set()
    sample_trace = None
    for t in traces:
        cur, rec = None, []
        for line in open(t):
            r = json.loads(line)
            per_ev[r["ev"]] = per_ev.get(r["ev"], 0) + 1
            if r["ev"] == "Case":
                cur, rec = r, []
            elif r["ev"] == "End" and "p" not in r:
                m = marks(rec)
                sig = json.dumps([cur[k] for k in ("kind", "mode", "maxConns", "waitMs", "idleMs", "obsMs", "steps")])
                if len(m) >= 1 and sig not in sigs:
                    nontrivial += 1
                sigs.add(sig)
                kinds[cur["kind"]] = kinds.get(cur["kind"], 0) + 1
                if sample_trace is None and cur["kind"] == "restart" and len(rec) < 60:
                    sample_trace = [cur] + rec
            else:
                rec.append(r)
    ctx.cov.update({
        "evaluations": len(cases), "distinct_nontrivial": nontrivial, "exhaustive": False,
        "traces_validated_against_impl": len(cases), "events_per_kind": per_ev, "cases_per_kind": kinds,
        "samples": [cases[0], cases[n_enum - 1], cases[n_enum], {"recorded_trace": sample_trace}],
        "rule": "TLC (HostMapGen) enumerates the structured scripts: two requests x every spelling of the second (scheme, "
                "host, port none/80/443/8080, upper case, host from URL / Host header / SetHost); a request while another "
                "holds the only connection of the same / another key (MaxConnWaitTimeout 0 / 1.5 s); CloseIdleConnections "
                "over http and https HostClients with and without a connection in use; failing hook / factory; the state "
                "of each of two HostClients at the cleaner tick (no connection / idle connection / busy) x 3 key pairs; "
                "idle reaper; cleaner restart after the map emptied; a 13 s sleep must contain a tick; observers of live "
                "and removed HostClients; the as-written races (call parked between lookup and use across a tick; retry "
                "delay across a tick). %d seeded random scripts over the same operations are added. Every script runs on "
                "a fresh real client.NewClient, half with the recording client factory, half with the client's own "
                "factory; the cleaner's hard-coded 10 s sleep is waited for in real time, all cases side by side. "
                "Non-trivial = the recorded history shows at least one of: a removal, a kept HostClient at a tick, two "
                "HostClients, an alias / re-creation of an address, ErrNoFreeConns, CloseIdleConnections, an observer "
                "window, a long sleep; counted over distinct scripts." % (len(cases) - n_enum),
    })
    ctx.assumptions += [
        "events of one case are totally ordered by the recorder's mutex; New / Config / Should / Close / CIVisit are "
        "emitted by callbacks the client makes while it holds mLock, Cnt by hook H2 under connsLock, so their order is "
        "the order of the critical sections; the silent lookup is accounted for by the observer HostMapObs, which "
        "HostMapObsMC shows to accept every behaviour of HostMap within the checked bounds",
        "tick boundaries are taken from the gaps between ShouldRemove calls of one goroutine (< 5 s = same tick; the code "
        "sleeps 10 s between ticks); 'an idle HostClient is removed' is judged at every visible tick and by the rule "
        "that a 13 s sleep of the driver contains a tick (one-sided: scheduling latency below 3 s)",
        "observer liveness: at least one callback in 20 intervals of 40 ms for a HostClient in the map, none in that "
        "window when it was removed 5 intervals before",
        "goroutine identity is taken from runtime.Stack; hook H2 of pkg/protocol/http1 (build tag verif) is trusted; "
        "TLC and the CommunityModules Json reader are trusted",
    ]
