"""C02 -- message parsing does not depend on how bytes are split into reads.  DESIGN.md 4/C02.
Server direction: every script is replayed under many fragmentations; every trace (with its Deliver events) is
validated against the segmentation-independent expectation of H1Server+Wire, so two segmentations of the same
bytes that lead to different requests/responses necessarily reject at least one trace."""
import json, os
from . import lib, h1common


def rerun(ctx, case_lines):
    if "xs" in json.loads(case_lines[0]):      # a case of the client part (driver c11)
        import importlib
        return importlib.import_module("checks.c11").rerun(ctx, case_lines)
    return h1common.rerun_h1srv(ctx, case_lines)


def rerun_hist(ctx, seq):
    return h1common.rerun_h1srv_hist(ctx, seq)


def run(ctx):
    drv = lib.go_build("h1srv")
    h1common.spec_h1server(ctx)
    cases, n = lib.gen_cases(ctx, "H1ServerGen", "H1ServerGen_c02.cfg" if ctx.quick else "H1ServerGen_quick.cfg",
                             out_name="scripts.ndjson", timeout=1800)
    # small scripts: every 2-way cut + byte-wise + seeded k-way; all scripts: cuts around every structural boundary
    small = os.path.join(ctx.scratch, "small.ndjson")
    limit = 300 if ctx.quick else 700
    nsmall = 0
    with open(cases) as f, open(small, "w") as g:
        for i, line in enumerate(f):
            c = json.loads(line)
            if c["offs"][-1]["end"] <= limit and (not ctx.quick or i % 3 == 0):
                g.write(line)
                nsmall += 1
    out1, out2 = ctx.sub("traces_small"), ctx.sub("traces_all")
    # -ref: every fragmented case is also run unfragmented (silently); the End line carries both digests of everything
    # handlers saw and clients received (raw, un-normalised values) and the trace spec requires them to be equal
    t1, n1 = h1common.run_h1srv(ctx, drv, small, out1, idle="inloop", cuts="every,bytewise,rand2x8" if ctx.quick else "every,bytewise,rand6x8", extra=["-ref"])
    t2, n2 = h1common.run_h1srv(ctx, drv, cases, out2, idle="inloop,poller" if not ctx.quick else "poller", cuts="bounds,rand1x5" if ctx.quick else "bounds,rand4x8", extra=["-ref"])
    # streamed bodies consumed only partly by the handler (C14's scripts): the outcome (probe served or not, what it saw)
    # must not depend on the fragmentation either
    stream, ns = lib.gen_cases(ctx, "H1StreamGen", "H1StreamGen_quick.cfg", out_name="stream.ndjson", timeout=1800)
    t3, n3 = h1common.run_h1srv(ctx, drv, stream, ctx.sub("traces_stream"), modes="streaming", idle="inloop", cuts="bounds,rand1x6" if ctx.quick else "bounds,bytewise,rand4x8",
                                extra=["-ref", "-exact", "-maxwire", "400"])
    t2 = t2 + t3
    n2 += n3
    res = lib.validate(ctx, "H1ServerTrace", "H1ServerTrace.cfg", t1 + t2, timeout=1800)
    lib.handle_rejections(ctx, res, lambda cl: rerun(ctx, cl), rerun_hist=lambda seq: h1common.rerun_h1srv_hist(ctx, seq))

    def change_value(recs):
        # what a split-dependent parse looks like: one fragmentation sees a different header value
        k = 0
        for r in recs:
            if r["ev"] == "Case":
                k += 1
            if k >= 3 and r["ev"] == "Handle" and r["fields"]:
                r["fields"][-1]["value"] += "x"
                return recs
        return recs
    def lose_byte(recs):
        for r in recs:
            if r["ev"] == "Read" and r["k"] >= 2:
                i, a, b = r["runs"][0]
                r["runs"] = [[i, a, a + 1], [i, a + 2, b]] if b - a > 2 else [[i, a, a + 1]]
                r["k"] -= 1
                return recs
        return recs
    big = sorted(t1, key=os.path.getsize, reverse=True)
    lib.self_test(ctx, "H1ServerTrace", "H1ServerTrace.cfg", big, change_value, name="header value differs under one fragmentation", ncases=50)
    lib.self_test(ctx, "H1ServerTrace", "H1ServerTrace.cfg", big, lose_byte, name="one body byte lost at a cut", ncases=400 if ctx.quick else 6000)
    def digest_differs(recs):
        for r in recs:
            if r["ev"] == "End" and r.get("ref"):
                r["digest"] = "0" * 40
                return recs
        return recs
    lib.self_test(ctx, "H1ServerTrace", "H1ServerTrace.cfg", big, digest_differs, name="observations differ from the unfragmented run (raw digest)", ncases=50)

    # client direction: response scripts read by the real client under fragmentations (built with C11)
    from . import c11
    client = c11.run_client_cuts(ctx)
    cnt = h1common.event_counts(t1 + t2, ["Deliver", "Handle"])
    tl = lib.read_lines(t1[0])
    s, e = lib.case_at(tl, 3)
    ctx.cov.update({
        "evaluations": n1 + n2 + int(client.get("cases", 0)), "distinct_nontrivial": n1 + n2 + int(client.get("cases", 0)), "exhaustive": False,
        "traces_validated_against_impl": n1 + n2 + int(client.get("cases", 0)), "client_direction": client, "scripts": n, "small_scripts_all_cuts": nsmall,
        "socket_reads": cnt["Deliver"], "handler_invocations": cnt["Handle"],
        "samples": [{"recorded_trace": [json.loads(x) for x in tl[s - 1:e]][:14]}],
        "rule": "server direction: %d small scripts (wire <= %d bytes) under EVERY 2-way cut of every head (and of whole small messages), byte-at-a-time "
                "delivery and seeded k-way cuts (k<=8), buffered+streaming; all %d scripts under cuts at b-1,b,b+1 of every structural boundary "
                "(request start/head end/chunk edges/end) plus seeded cuts. Each (script, segmentation) pair is one trace with its Deliver events, "
                "validated against the cut-free expectation; every case counts as non-trivial (>=2 socket reads except the boundary-at-end ones)." % (nsmall, limit, n),
    })
    ctx.assumptions += ["client direction: response scripts of H1ClientGen read by the real client under whole/every-2-way/boundary/byte-wise/seeded fragmentations, validated against H1Client (checks/c11.py run_client_cuts)",
                        "same trusted base as C01"]
