"""C13 -- the buffered connection is a lossless FIFO byte stream.  DESIGN.md 4/C13, notes/C13.md.

spec/ByteQueue.tla (abstract byte queue) is model-checked; spec/ByteQueueGen.tla enumerates operation sequences
(exhaustive, short) and simulates long ones; harness/drivers/c13 runs every sequence on the real standard.Conn
(over a scripted net.Conn) and on network.NewWriter; spec/ByteQueueTrace.tla validates every recorded return value,
Len() and the content of every outstanding peeked slice after every operation."""
import glob, json, os
from . import lib

TRACE = "ByteQueueTrace"


def _run_traces(ctx, drv, cases, name, chunks, timeout=900, isolate=False):
    """Run the driver; if the process dies or hangs (a panic outside the calling goroutine, e.g. in the link buffer's
    finalizer, a fatal runtime error, an endless loop) run again with -isolate: child processes, the failing single
    case is recorded as Case + Crash + End and thereby rejected by the trace specification."""
    out = ctx.sub(name)

    def clean():
        for old in glob.glob(os.path.join(out, "trace_*.ndjson")):
            os.remove(old)
    clean()
    if not isolate:
        try:
            lib.run_driver(drv, ["-cases", cases, "-out", out, "-chunks", chunks], timeout=timeout)
            return sorted(glob.glob(os.path.join(out, "trace_*.ndjson")))
        except lib.Infra as e:
            lib.log("driver died or hung, re-running the cases in isolated child processes: %s" % str(e)[-600:].replace("\n", " | "))
            clean()
    lib.run_driver(drv, ["-cases", cases, "-out", out, "-chunks", chunks, "-isolate"], timeout=3 * timeout)
    return sorted(glob.glob(os.path.join(out, "trace_*.ndjson")))


def rerun(ctx, case_lines):
    """Run one case alone on the real code and validate it; True if rejected again."""
    drv = lib.go_build("c13")
    c = json.loads(case_lines[0])
    c.pop("ev", None)
    d = ctx.sub("rerun")
    cf = os.path.join(d, "case.ndjson")
    with open(cf, "w") as f:
        f.write(json.dumps(c) + "\n")
    traces = _run_traces(ctx, drv, cf, "rerun", 1, isolate=True)
    r = lib.validate(ctx, TRACE, TRACE + ".cfg", traces, count=False)
    return bool(r[0][1])


def sim_cases(ctx, cfg, num, depth, out_name, first_id):
    """tlc -simulate on ByteQueueGen: every complete behaviour prints one '@@CASE <json>' line."""
    r = lib.tlc(ctx, "ByteQueueGen", cfg, workers=1, timeout=1500, simulate="num=%d" % num, depth=depth,
                tag="sim_" + cfg.replace(".cfg", ""), env={"VERIF_OUT": os.path.join(ctx.scratch, "unused.ndjson")})
    if not r.ok:
        raise lib.Infra("simulation %s failed (rc=%d):\n%s" % (cfg, r.rc, r.tail(40)))
    out = os.path.join(ctx.scratch, out_name)
    n = 0
    seen = set()
    with open(out, "w") as f:
        for line in r.out.splitlines():
            line = line.strip()
            if not line.startswith('"@@CASE '):
                continue
            body = lib.tla_unquote(line[1:-1])[len("@@CASE "):]
            if body in seen:
                continue
            seen.add(body)
            c = json.loads(body)
            c["id"] = first_id + n
            n += 1
            f.write(json.dumps(c, separators=(",", ":")) + "\n")
    if n == 0:
        raise lib.Infra("simulation %s produced no cases:\n%s" % (cfg, r.tail(30)))
    lib.log("simulated %d cases (%s, depth %d) in %.1fs" % (n, cfg, depth, r.wall))
    return out, n


def _pick_case(ctx, files, mutate, name):
    """Find the first recorded case that the self-test mutation really changes; write it (behind one untouched
    case) to a small trace file for lib.self_test."""
    prev = None
    for t in files[:4]:
        lines = lib.read_lines(t)
        idx = [i for i, l in enumerate(lines) if '"ev":"Case"' in l] + [len(lines)]
        for a, b in zip(idx, idx[1:]):
            recs = [json.loads(l) for l in lines[a:b]]
            if mutate([dict(r) for r in recs]) != recs:
                out = os.path.join(ctx.scratch, "pick_%d.ndjson" % len(ctx.cov["self_test"]))
                with open(out, "w") as f:
                    f.write("\n".join(lines[a:b]) + "\n")
                return out
            if b - a > 400000:
                break
    raise lib.Infra("no recorded case fits the binding self-test '%s'" % name)


def _geometry(ctx, drv, scases, cases, q):
    """Stage 2, informational (never part of the verdict): replay recorded operations on LinkBuffer.tla with the real
    block sizes and compare its node geometry with (*Conn).VerifInputNodes() after every operation.  Tells whether
    what TLC proved about LinkBuffer is a statement about the code as it is.  Allocation strategy is deliberately
    unconstrained by the property, so a mismatch is reported as 'drift', not as a violation."""
    sub = os.path.join(ctx.scratch, "geo_cases.ndjson")
    with open(sub, "w") as out:
        for src, limit in ((scases, 300 if q else 600), (cases, 3000 if q else 20000)):
            with open(src) as f:
                lines = f.readlines()
            step = max(1, len(lines) // limit)
            out.writelines(lines[::step][:limit])
    d = ctx.sub("geo")
    for old in glob.glob(os.path.join(d, "trace_*.ndjson")):
        os.remove(old)
    info = {"cases": 0, "conforms": None, "note": ""}
    try:
        lib.run_driver(drv, ["-cases", sub, "-out", d, "-chunks", 4 if q else 16, "-geo"], timeout=600)
        gtraces = sorted(glob.glob(os.path.join(d, "trace_*.ndjson")))
        info["cases"] = sum(lib.count_cases(t) for t in gtraces)
        try:
            lib.validate(ctx, "LinkBufferTrace", "LinkBufferTrace.cfg", gtraces, count=False, timeout=900)
            info["conforms"] = True
            info["geo_events"] = sum(1 for t in gtraces for l in open(t) if '"ev":"Geo"' in l)
        except lib.Infra as e:
            info["conforms"] = False
            info["note"] = "node geometry / results of the real link buffer differ from LinkBuffer.tla (transcription " \
                           "drift; not judged): " + str(e)[-400:]
            lib.log("LinkBuffer transcription drift (informational): " + str(e)[-300:].replace("\n", " | "))
            return info
        # the comparison itself must be able to fail: corrupt one recorded node offset
        recs = [json.loads(x) for x in lib.read_lines(gtraces[0])[:3000]]
        for i, r in enumerate(recs):
            if r["ev"] == "Geo" and r["in"] and recs[i - 1]["ev"] == "Op" and recs[i - 1]["k"] in ("Peek", "ReadBinary", "Skip"):
                r["in"][-1]["mal"] += 1
                break
        bad = os.path.join(d, "corrupt.ndjson")
        with open(bad, "w") as f:
            for r in recs:
                f.write(json.dumps(r, separators=(",", ":")) + "\n")
        try:
            lib.validate(ctx, "LinkBufferTrace", "LinkBufferTrace.cfg", [bad], count=False)
            accepted = True
        except lib.Infra:
            accepted = False
        if accepted:
            raise lib.Infra("LinkBufferTrace accepted a corrupted node geometry: the transcription check is vacuous")
        info["self_test"] = "corrupted node geometry rejected"
        lib.log("LinkBuffer.tla reproduces the real node geometry on %d cases (%d Geo events)" % (info["cases"], info["geo_events"]))
    except lib.Infra as e:
        if "vacuous" in str(e):
            raise
        info["note"] = "geometry comparison not run: " + str(e)[-300:]
    return info


def _stats(traces):
    """Measured from the recorded traces: events per kind and the number of cases that exercise the property
    non-trivially (an outstanding peeked slice re-examined after a later operation, or bytes reaching the sink)."""
    ev = {}
    cases = nontriv = 0
    peek_rechecks = 0
    flag = False
    for t in traces:
        with open(t) as f:
            for line in f:
                if '"ev":"Op"' in line:
                    ev["Op"] = ev.get("Op", 0) + 1
                    if '"pk":[]' not in line:
                        peek_rechecks += 1
                        if '"k":"Peek"' not in line:
                            flag = True
                elif '"ev":"Case"' in line:
                    cases += 1
                    if flag:
                        nontriv += 1
                    flag = False
                elif '"ev":"SrcRead"' in line:
                    ev["SrcRead"] = ev.get("SrcRead", 0) + 1
                elif '"ev":"Sink"' in line:
                    ev["Sink"] = ev.get("Sink", 0) + 1
                    flag = True
    if flag:
        nontriv += 1
    return ev, cases, nontriv, peek_rechecks


def run(ctx):
    drv = lib.go_build("c13")
    q = ctx.quick
    p = lib.run_driver(drv, ["-patcheck"])
    if "patcheck ok" not in p:
        raise lib.Infra("pattern projection self-check failed: " + p)

    # 1. the specification satisfies the property (exhaustive, small sizes, all interleavings with source and sink)
    if os.environ.get("C13_DEV_SKIP_SPEC"):     # development only (mutation loops); never set by the runner
        lib.spec_check = lambda *a, **k: None
    lib.spec_check(ctx, "ByteQueue", "ByteQueue_mc.cfg", workers=4, timeout=1200,
                   note="reader+writer+source+sink interleaved, sizes {0,2}, stream length 3, 2 operations")
    lib.spec_check(ctx, "ByteQueue", "ByteQueue_mc_wr.cfg", workers=4, note="writer side + sink, sizes 0..3, 6 operations")
    lib.spec_check(ctx, "ByteQueue", "ByteQueue_mc_rd3.cfg" if q else "ByteQueue_mc_rd.cfg", workers=4 if q else 8,
                   timeout=1800, note="reader side + source, sizes 0..3, stream lengths {0,1,2,4}, %d operations" % (3 if q else 4))

    # 1b. stage 2: the link buffer as it is written (LinkBuffer.tla) refines ByteQueue and never keeps a slice
    #     into recycled memory (scaled block sizes, all interleavings with socket reads)
    lib.spec_check(ctx, "LinkBuffer", "LinkBuffer_mcq.cfg" if q else "LinkBuffer_mc.cfg", workers=4 if q else 6,
                   timeout=2400, heap="6g", note="transcription of connection.go/buffer.go (input side), block1k=1 "
                   "block4k=4 mallocMax=16, sizes {0,1,4,5,9,17}, %d operations; invariants + refinement of ByteQueue"
                   % (2 if q else 3))

    # 2. cases: exhaustive short sequences x environments (TLC, constant level) + simulated long sequences
    cases, n = lib.gen_cases(ctx, "ByteQueueGen", "ByteQueueGen_quick.cfg" if q else "ByteQueueGen_thorough.cfg",
                             out_name="ex.ndjson", timeout=1800)
    scases, sn = sim_cases(ctx, "ByteQueueGen_simquick.cfg" if q else "ByteQueueGen_simthorough.cfg",
                           300 if q else 1500, 62 if q else 202, "sim.ndjson", n + 1)

    # 3. run on the real connection
    per_chunk = 10000
    traces = _run_traces(ctx, drv, cases, "traces", max(lib.NCPU, (n + per_chunk - 1) // per_chunk))
    straces = _run_traces(ctx, drv, scases, "straces", lib.NCPU if q else 4 * lib.NCPU)
    ran = sum(lib.count_cases(t) for t in traces)
    sran = sum(lib.count_cases(t) for t in straces)
    if ran != n or sran != sn:
        raise lib.Infra("driver ran %d+%d cases, TLC generated %d+%d" % (ran, sran, n, sn))

    # 4. validate every recorded trace against the specification
    res = lib.validate(ctx, TRACE, TRACE + ".cfg", traces + straces, timeout=1800)
    lib.handle_rejections(ctx, res, lambda cl: rerun(ctx, cl))

    # 5. binding self-tests: the trace specification must reject a corrupted recording
    def shift_run(recs):      # a returned byte run that starts one byte late (a lost byte)
        for r in recs:
            if r["ev"] == "Op" and r["nr"] == 1 and r["k"] in ("ReadBinary", "Read", "ReadByte"):
                r["f"] += 1; r["t"] += 1
                return recs
        return recs

    def wrong_len(recs):      # Len() off by one after a Skip
        for r in recs:
            if r["ev"] == "Op" and r["k"] in ("Skip", "Peek") and r["cls"] == "ok":
                r["len"] += 1
                return recs
        return recs

    def unstable_peek(recs):  # an outstanding peeked slice shows other bytes after a later operation
        for r in recs:
            if r["ev"] == "Op" and r["pk"] and r["k"] != "Peek":
                r["pk"] = [dict(x) for x in r["pk"]]
                r["pk"][0]["nr"] = 2
                r["pk"][0]["t"] -= 1
                return recs
        return recs

    def short_flush(recs):    # the peer is missing the last byte when Flush returns
        for i, r in enumerate(recs[:-1]):
            if r["ev"] == "Sink" and r["n"] > 1 and recs[i + 1]["ev"] == "Op" and recs[i + 1]["k"] == "Flush":
                r["t"] -= 1; r["n"] -= 1
                return recs
        return recs

    def caller_buffer_altered(recs):   # the array behind a WriteBinary argument no longer holds the caller's bytes
        for r in recs:
            if r["ev"] == "Op" and r["k"] in ("Malloc", "WriteBinary") and r["n"] > 0:
                r["ab"] = 3
                return recs
        return recs

    def spurious_eof(recs):   # a Peek fails although the source never reported an error
        for i, r in enumerate(recs):
            if r["ev"] == "Op" and r["k"] == "Peek" and r["cls"] == "ok" and r["cnt"] > 0 and r["i"] <= 3 and \
                    not any(x["ev"] == "SrcRead" and x["cls"] != "none" for x in recs[max(0, i - 6):i]):
                r["cls"] = "eof"; r["cnt"] = 0; r["nr"] = 0; r["f"] = 0; r["t"] = 0
                r["pk"] = r["pk"][:-1]
                return recs
        return recs

    if ctx.violations:
        # the verdict is exit 1; the self-tests below guard exit 0 against a vacuous binding and need accepted traces
        lib.log("violations found: binding self-tests skipped")
    else:
        tests = [(shift_run, "returned run shifted by one byte", traces),
                 (wrong_len, "Len() off by one", traces),
                 (unstable_peek, "outstanding peeked slice changed", traces),
                 (short_flush, "peer misses the last byte at Flush", traces[::-1]),
                 (spurious_eof, "Peek fails without a source error", traces),
                 (caller_buffer_altered, "caller's backing array altered by the writer", traces[::-1]),
                 (unstable_peek, "outstanding peeked slice changed (long sequence)", straces)]
        for mut, name, files in tests:
            f = _pick_case(ctx, files, mut, name)
            lib.self_test(ctx, TRACE, TRACE + ".cfg", f, mut, name=name, ncases=10)

    geo = _geometry(ctx, drv, scases, cases, q)

    # evidence (measured from the recordings)
    ev, ncases, nontriv, rechecks = _stats(traces + straces)
    samples = []
    with open(cases) as f:
        for i, line in enumerate(f):
            if i in (n // 3, n // 2):
                samples.append(json.loads(line))
    with open(scases) as f:
        c = json.loads(f.readline())
        c["ops"] = c["ops"][:12] + [{"k": "...", "n": len(c["ops"]) - 12}]
        samples.append(c)
    tl = lib.read_lines(traces[len(traces) // 2])
    s, e = lib.case_at(tl, len(tl) // 2)
    samples.append({"recorded_trace": [json.loads(x) for x in tl[s - 1:e]]})
    ctx.cov.update({
        "evaluations": n + sn, "distinct_nontrivial": nontriv, "exhaustive": False,
        "exhaustive_part_cases": n, "simulated_cases": sn,
        "traces_validated_against_impl": n + sn, "samples": samples, "events_by_kind": ev,
        "peek_rechecks": rechecks, "linkbuffer_transcription": geo,
        "rule": "TLC enumerates every reader-operation sequence of length 1..%d and every writer-operation sequence of "
                "length 1..%d over sizes {1,4096,4097} crossed with %s environments (fragmentation, end of stream, "
                "timeout, initial buffer size) and simulates %d sequences of %d operations over sizes {0,1,2,4095,"
                "4096,4097,8191,8192,8193,512Ki+1}; each case runs on the real standard.Conn / network.NewWriter and "
                "every recorded event is validated against ByteQueue; writer sequences run twice: with a fresh tight buffer per "
                "WriteBinary/Write and with the arguments being consecutive sub-slices (len < cap) of one caller array "
                "whose content incl. spare capacity is compared with what the caller wrote after every op (ab = 0). "
                "Writer sequences containing Conn.ReadFrom (readers of 0..8193 bytes: full / short / 1-byte reads, EOF with the "
                "last bytes, (0,nil) reads) are enumerated up to length 3 (thorough 4); after every Flush/Write the caller "
                "reuses (overwrites) its own flushed buffers. evaluations = cases; distinct_nontrivial = cases "
                "in which an outstanding peeked slice was re-read after a later non-Peek operation or bytes reached "
                "the peer (measured from the traces); peek_rechecks = Op events that re-examined >= 1 outstanding "
                "slice. The short sequences are enumerated completely (exhaustive_part_cases, all distinct); the long "
                "ones are sampled with the run's seed (simulated_cases, de-duplicated), hence exhaustive=false."
                % (((3, 4, "8") if q else (4, 5, "25")) + (300 if q else 1500, 60 if q else 200)),
    })
    ctx.assumptions += [
        "the scripted net.Conn (pattern source, recording sink) in harness/drivers/c13 behaves as described in its "
        "comments; its projection bytes->runs is checked by the driver's -patcheck",
        "Read() is modelled as releasing (peeked slices are not judged after a Read), as Peek's doc comment says",
        "TLC 1.8.0 and the CommunityModules Json reader are trusted",
        "slices shorter than 4 bytes are placed at the pattern offset nearest to the number of bytes consumed so far",
    ]
