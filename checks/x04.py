"""X04 (extension) -- the net/http adaptor (pkg/common/adaptor: GetCompatRequest, CopyToHertzRequest,
GetCompatResponseWriter).

spec/Adaptor.tla (the http.ResponseWriter contract as a state machine, one action per API call; the as-written variant
must FAIL HeaderOnce) is model-checked; spec/AdaptorGen.tla enumerates call sequences x initial responses and request
shapes; harness/drivers/x04 runs every case on the REAL adaptor and records what the objects show -- and, with -impl
recorder, the same call sequences on net/http's own httptest.ResponseRecorder; spec/AdaptorTrace.tla validates both
recordings: the recorder's must be accepted completely (the specification is net/http's reading of the contract, not
ours), the adaptor's is judged.  notes/X04.md has the details.
"""
import concurrent.futures, copy, glob, json, os, re
from . import lib

M, C = "AdaptorTrace", "AdaptorTrace.cfg"
SENDING = ("WriteHeader", "Write")


def run_cases(drv, case_file, outdir, chunks, impl="adaptor", timeout=900):
    os.makedirs(outdir, exist_ok=True)
    for old in glob.glob(os.path.join(outdir, "trace_*.ndjson")):
        os.remove(old)
    lib.run_driver(drv, ["-cases", case_file, "-out", outdir, "-chunks", chunks, "-impl", impl], timeout=timeout)
    return sorted(glob.glob(os.path.join(outdir, "trace_*.ndjson")))


def rerun(ctx, case_lines):
    """Run ONE case alone on the real adaptor and validate it; True = rejected again."""
    drv = lib.go_build("x04")
    c = json.loads(case_lines[0])
    c.pop("ev", None)
    d = ctx.sub("rerun_%d" % len(os.listdir(ctx.scratch)))
    cf = os.path.join(d, "case.ndjson")
    with open(cf, "w") as f:
        f.write(json.dumps(c, separators=(",", ":")) + "\n")
    traces = run_cases(drv, cf, d, 1)
    r = lib.validate(ctx, M, C, traces, count=False)
    return bool(r[0][1])


def spec_checks(ctx, q):
    with concurrent.futures.ThreadPoolExecutor(max_workers=2) as ex:
        f = ex.submit(lib.spec_check, ctx, "Adaptor", "Adaptor_mc.cfg" if q else "Adaptor_mc_thorough.cfg", 4 if q else 8,
                      1500, None, 1000, None,
                      "every call sequence of length <= 5 over %d calls (Header().Set/Add/Del on 3 names, WriteHeader, Write) x "
                      "2 initial responses; RefAgrees: the machine equals the functional reading of the contract" % (10 if q else 21))
        neg = ex.submit(lib.tlc, ctx, "Adaptor", "Adaptor_asis.cfg", 1, 600)
        f.result()
        r = neg.result()
    if not re.search(r"Action property HeaderOnce is violated|HeaderOnce.*violated", r.out):
        raise lib.Infra("Adaptor_asis.cfg: expected a counterexample to HeaderOnce\n%s" % r.tail(30))
    ctx.cov["spec_checks"].append({"module": "Adaptor", "cfg": "Adaptor_asis.cfg", "distinct_states": r.distinct,
                                   "note": "(*compatResponse).WriteHeader AS WRITTEN (SetStatusCode on every call): TLC refutes "
                                           "HeaderOnce, as required (known finding X04-writeheader-applied-again)"})


def iter_cases(traces):
    """yields (case record, [event records]) of all traces, one case at a time (thorough: millions of lines)"""
    for t in traces:
        cur = None
        for line in open(t):
            r = json.loads(line)
            if r["ev"] == "Case":
                if cur is not None:
                    yield cur
                cur = (r, [])
            elif cur is not None:
                cur[1].append(r)
        if cur is not None:
            yield cur


def harness_sanity(recs):
    """The driver built what the case says (a fault here is the harness's or another property's, never a verdict on
    the adaptor): no BuildErr, the hertz / net/http view of the source request has the case's method and body size."""
    for c, evs in recs:
        for e in evs:
            if e["ev"] == "BuildErr":
                raise lib.Infra("case %s could not be built: %s" % (c.get("id"), e.get("msg")))
        if c["kind"] not in ("fwd", "rev") or not evs:
            continue
        src = evs[0]
        want_m = c["method"] or "GET"
        n = c["body"]["n"] if c["body"]["k"] not in ("none", "streamerr") else 0
        if src["ev"] not in ("H", "N") or src["method"] != want_m or (not src["berr"] and len(src["body"]) != n) \
                or src["berr"] != (c["body"]["k"] == "streamerr"):
            raise lib.Infra("case %s: the source request is not what the case says: %s" % (c.get("id"), json.dumps(src)[:400]))


def describe_unknown(ctx, res):
    known = lib.load_known(ctx.pid)
    shown = 0
    for trace, bad in res:
        if not bad or shown >= 5:
            continue
        lines = lib.read_lines(trace)
        for ln in bad:
            s, e = lib.case_at(lines, ln)
            c = json.loads(lines[s - 1])
            ev = json.loads(lines[ln - 1]) if ln - 1 < len(lines) else {"ev": "EOF"}
            if lib.match_known(known, c, ev) or shown >= 5:
                continue
            shown += 1
            lib.log("unexplained rejection: case %s at %s" % (json.dumps(c)[:500], json.dumps(ev)[:500]))


def run(ctx):
    drv = lib.go_build("x04")
    q = ctx.quick
    if not os.environ.get("VERIF_X04_NOSPEC"):      # development switch for mutation runs
        spec_checks(ctx, q)

    gen, n = lib.gen_cases(ctx, "AdaptorGen", "AdaptorGen_quick.cfg" if q else "AdaptorGen_thorough.cfg", timeout=2400)
    chunks = 4 if q else min(lib.NCPU, 12)
    traces = run_cases(drv, gen, ctx.sub("traces"), chunks, timeout=900 if q else 3000)
    rtraces = run_cases(drv, gen, ctx.sub("rtraces"), chunks, impl="recorder", timeout=900 if q else 3000)
    nrun = sum(lib.count_cases(t) for t in traces)
    if nrun != n:
        raise lib.Infra("driver ran %d cases of %d" % (nrun, n))
    harness_sanity(iter_cases(traces))

    # 1. net/http's reference implementation must be a behaviour of the specification, completely;  2. the adaptor
    # (one validate call: lib names the TLC directories by position in the list)
    allres = lib.validate(ctx, M, C, rtraces + traces, timeout=1500, count=False, par=chunks + 2 if q else chunks)
    rres, res = allres[:len(rtraces)], allres[len(rtraces):]
    ctx.cov["events_validated"] += sum(sum(1 for _ in open(t)) for t in traces)
    rbad = sum(len(b) for _, b in rres)
    if rbad:
        t, b = next((t, b) for t, b in rres if b)
        raise lib.Infra("the specification rejects %d line(s) recorded from httptest.ResponseRecorder (net/http's reference "
                        "implementation), e.g. line %d of %s: the specification is wrong, not the adaptor" % (rbad, b[0], t))
    nref = sum(lib.count_cases(t) for t in rtraces)
    ctx.cov["reference_events_validated"] = sum(sum(1 for _ in open(t)) for t in rtraces)
    describe_unknown(ctx, res)
    lib.handle_rejections(ctx, res, lambda cl: rerun(ctx, cl))
    if ctx.violations:
        return
    rejected = {(t, ln) for t, b in res for ln in b}
    self_tests(ctx, traces, res)
    evidence(ctx, iter_cases(traces), n, nref, len(rejected), q)


def clean_cases(traces, res):
    """cases the specification accepted (none of their lines rejected), as lists of records"""
    out = []
    badmap = {t: set(b) for t, b in res}
    for t in traces:
        lines = lib.read_lines(t)
        starts = [i for i, l in enumerate(lines) if '"ev":"Case"' in l] + [len(lines)]
        for a, b in zip(starts, starts[1:]):
            if not any((ln + 1) in badmap.get(t, ()) for ln in range(a, b)):
                out.append([json.loads(x) for x in lines[a:b] if x])
    return out


def self_tests(ctx, traces, res):
    """Binding self-tests: corrupt ONE accepted recorded case; the trace specification must reject the corrupted copy
    while it accepts the original."""
    clean = clean_cases(traces, res)

    def idx(recs, ev, **kw):
        return [i for i, r in enumerate(recs) if r["ev"] == ev and all(r.get(k) == v for k, v in kw.items())]

    def late_status(recs):       # the status of a later WriteHeader shows up
        c = recs[0]
        if c["kind"] == "rw":
            whs = idx(recs, "WriteHeader", after=True)
            if whs and recs[whs[0]]["st"] == recs[whs[0]]["code"]:     # same code again: harmless in the tree
                recs[whs[0]]["st"] = 404 if recs[whs[0]]["code"] != 404 else 500
                return recs

    def late_header(recs):       # a header set after the header was sent appears
        c = recs[0]
        if c["kind"] == "rw":
            for i in idx(recs, "Set", after=True, n="X-A"):
                for h in recs[i]["hdr"]:
                    if h["n"] == "X-A" and h["vs"] != [recs[i]["v"]]:
                        h["vs"] = [recs[i]["v"]]
                        return recs

    def short_write(recs):       # Write returns less than len(p)
        for i in idx(recs, "Write"):
            if recs[i]["ret"] >= 2:
                recs[i]["ret"] -= 1
                return recs

    def body_twice(recs):        # the body holds a chunk twice
        for i in idx(recs, "Write", after=True):
            if recs[i]["p"]:
                recs[i]["body"] += recs[i]["p"]
                return recs

    def implicit_status(recs):   # the first Write does not imply 200
        for i in idx(recs, "Write", after=False):
            recs[i]["st"] = 201
            return recs

    def value_lost(recs):        # one of several values of a request header is missing after GetCompatRequest
        if recs[0]["kind"] == "fwd":
            for i in idx(recs, "Conv", err=False):
                for h in recs[i]["hdrs"]:
                    if len(h["vs"]) >= 3:
                        del h["vs"][1]
                        return recs

    def query_lost(recs):        # the converted request lost its query
        if recs[0]["kind"] == "fwd":
            for i in idx(recs, "Conv", err=False):
                if recs[i]["query"]:
                    recs[i]["query"] = ""
                    return recs

    def body_cut(recs):          # the converted request's body is one byte short
        if recs[0]["kind"] == "fwd":
            for i in idx(recs, "Conv", err=False):
                if len(recs[i]["body"]) >= 5:
                    recs[i]["body"] = recs[i]["body"][:-1]
                    recs[i]["cl"] -= 1
                    return recs

    def target_changed(recs):    # the copied request shows another request-target
        if recs[0]["kind"] == "rev":
            for i in idx(recs, "Copy"):
                if recs[i]["ruri"] not in ("", "/"):
                    recs[i]["ruri"] = "/"
                    return recs

    def proto_lost(recs):        # the copied request forgot HTTP/1.0
        if recs[0]["kind"] == "rev" and recs[0]["proto"] == "HTTP/1.0":
            for i in idx(recs, "Copy"):
                recs[i]["proto"] = "HTTP/1.1"
                return recs

    def aliased(recs):           # changing the converted request changed the original
        if recs[0]["kind"] == "fwd":
            for i in idx(recs, "Iso"):
                for h in recs[i]["hh"]:
                    if h["n"] == "X-A":
                        h["vs"][0] = "MUT"
                        return recs

    tests = [("a later WriteHeader changes the status", late_status),
             ("a header set after the header was sent appears in the response", late_header),
             ("Write returns len(p)-1", short_write),
             ("a written chunk appears twice in the body", body_twice),
             ("the first Write leaves status 201", implicit_status),
             ("one of three X-A values is missing in the converted request", value_lost),
             ("the converted request lost its query", query_lost),
             ("the converted request's body is one byte short", body_cut),
             ("the copied request shows another request-target", target_changed),
             ("the copied request says HTTP/1.1 for an HTTP/1.0 request", proto_lost),
             ("changing the converted request's header changed the hertz request", aliased)]
    d = ctx.sub("selftest")
    files, base = [], []
    for k, (name, f) in enumerate(tests):
        for recs in clean:
            mut = f(copy.deepcopy(recs))
            if mut is not None and mut != recs:
                base += recs
                p = os.path.join(d, "mut_%02d.ndjson" % k)
                with open(p, "w") as fh:
                    for r in mut:
                        fh.write(json.dumps(r, separators=(",", ":")) + "\n")
                files.append(p)
                break
        else:
            raise lib.Infra("self-test '%s': no accepted recorded case to corrupt" % name)
    bp = os.path.join(d, "base.ndjson")
    with open(bp, "w") as fh:
        for r in base:
            fh.write(json.dumps(r, separators=(",", ":")) + "\n")
    res = lib.validate(ctx, M, C, [bp] + files, count=False, par=4)
    if res[0][1]:
        raise lib.Infra("self-test: the uncorrupted cases are not accepted (lines %s)" % res[0][1][:5])
    for (name, _), (_, bad) in zip(tests, res[1:]):
        ctx.cov["self_test"].append({"name": name, "rejected_lines": bad[:5], "rejected": bool(bad)})
        if not bad:
            raise lib.Infra("binding self-test '%s' was NOT rejected by %s: the trace specification does not constrain "
                            "the recorded behaviour" % (name, M))
        lib.log("self-test '%s': rejected as required (line %s of the case)" % (name, bad[0]))


def nontrivial(c, evs):
    if c["kind"] == "rw":
        ops = [o["op"] for o in c["ops"]]
        send = [i for i, o in enumerate(ops) if o in SENDING]
        return bool(send) and (len(send) >= 2 or any(o in ("Set", "Add", "Del") for o in ops))
    src = evs[0] if evs else {}
    multi = any(len(h["vs"]) >= 2 for h in src.get("hdrs", []))
    return multi or bool(src.get("cookies")) or bool(src.get("body")) or src.get("path", "") not in ("/", "/p") or bool(src.get("berr"))


def evidence(ctx, recs, n, nref, nrej, q):
    per_kind, per_ev, nt, seen, nrand = {}, {}, 0, set(), 0
    sample_trace, samples = None, {}
    for c, evs in recs:
        key = "%s/%s" % (c["kind"], c.get("fam"))
        per_kind[key] = per_kind.get(key, 0) + 1
        nrand += 1 if c.get("fam") == "rand" else 0
        for e in evs:
            per_ev[e["ev"]] = per_ev.get(e["ev"], 0) + 1
        if nontrivial(c, evs):
            sig = hash(json.dumps({k: v for k, v in c.items() if k not in ("id", "ev", "fam")}, sort_keys=True))
            if sig not in seen:
                seen.add(sig)
                nt += 1
        if per_kind[key] == 7:
            samples[key] = {k: v for k, v in c.items() if k != "ev"}
        if sample_trace is None and c["kind"] == "rw" and len(c["ops"]) == 4 and c["pre"] and not c["sig"]["wh2"] \
                and c["sig"]["ck2"] == "-" and [o["op"] for o in c["ops"]].count("WriteHeader") == 1 and "Write" in [o["op"] for o in c["ops"]]:
            sample_trace = [c] + evs
    ctx.cov.update({
        "evaluations": n, "distinct_nontrivial": nt, "exhaustive": False,
        "traces_validated_against_impl": n, "reference_traces_validated": nref, "events_per_kind": per_ev,
        "cases_per_family": per_kind, "rejected_lines_all_known": nrej,
        "samples": [samples[k] for k in sorted(samples)] + [{"recorded_trace": sample_trace}],
        "rule": "TLC (AdaptorGen) enumerates: kind rw = EVERY sequence of 0..4 calls over an alphabet of %d calls (Header().Set/Add/Del on X-A, "
                "Set-Cookie, Content-Type; WriteHeader(c); Write(p)) x {empty Response, Response that already has X-A x2, "
                "Content-Type, Set-Cookie and a body} + %d seeded sequences of 5..9 calls over all 21 calls; kinds fwd (hertz -> "
                "http, request parsed from wire bytes by hertz or built through the setters) and rev (net/http's parse of wire "
                "bytes -> hertz -> wire / -> http): header sets (none, single, repeated names in mixed case with an empty value, "
                "two Cookie lines + User-Agent, odd-but-legal characters) x bodies (none, bytes, empty, chunked, stream with and "
                "without length, failing stream) x HTTP/1.1 and 1.0, and 11 request-targets (escapes, invalid escape, //, ./, ../, "
                "UTF-8, absolute-form, *, empty query) x 5 hosts (mixed case with port, IPv6, none, unparseable) x 7 methods; odd "
                "ones (method empty / not a token, https, empty target, spaces, names not normalised)%s.  Every rw case is also "
                "run on httptest.ResponseRecorder and that recording validated by the same specification.  Non-trivial rw case = "
                "sends the header and (changes Header() or sends twice); non-trivial request = repeated header names, cookies, a "
                "body, a failing body or a path other than / and /p; distinct = as a case record without its number."
                % (10 if q else 17, nrand, "" if q else "; thorough: the full products"),
    })
    ctx.assumptions += [
        "what the hertz Response 'shows' is its serialized header (ResponseHeader.Header()) as net/http's http.ReadResponse "
        "parses it, Set-Cookie lines as net/http's cookie parser reads them, and Response.Body()",
        "what a request 'shows' is what its accessors return (views.go); the hertz side's header multimap is read with "
        "RequestHeader.VisitAll, the complete accessor the adaptor itself has to use",
        "httptest.ResponseRecorder is net/http's reading of the ResponseWriter call-sequence semantics; its Result() is taken "
        "once per fresh recorder (it freezes at the first call); a recorder-made response is 200 with Header() flushed when "
        "the handler never wrote, which the specification accepts next to 'former headers kept'",
        "Content-Type is not judged when the handler set none (net/http sniffs, the adaptor sends none); status codes are "
        "200/201/404/500 (no 1xx, no invalid codes, no bodiless statuses)",
        "TLC and the CommunityModules Json reader are trusted",
    ]
