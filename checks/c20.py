"""C20 -- validation expressions follow the documented operator precedence and typing.  DESIGN.md 4/C20.

spec/TagExpr.tla      abstract syntax, printer, documented grammar (Lex/Parse), documented semantics (Eval), walker
spec/TagExprGen.tla   cases: exhaustive (depth <= 2 untyped over everything, depth <= 3 typed) + tlc -simulate beyond
spec/TagExprTrace.tla validation of Validated{expr, kind, outcome} recorded from the real validator
"""
import concurrent.futures, glob, json, os
from . import lib

MOD = "TagExprTrace"
CFG = "TagExprTrace.cfg"


def _validate_cases(ctx, drv, cases, name, chunks, count=True):
    out = ctx.sub(name)
    for old in glob.glob(os.path.join(out, "trace_*.ndjson")):
        os.remove(old)
    lib.run_driver(drv, ["-cases", cases, "-out", out, "-chunks", chunks], timeout=1200)
    traces = sorted(glob.glob(os.path.join(out, "trace_*.ndjson")))
    return traces, lib.validate(ctx, MOD, CFG, traces, count=count, timeout=1500)


def rerun(ctx, case_lines):
    """Run one case alone on the real validator and validate it; True if rejected again."""
    drv = lib.go_build("c20")
    c = json.loads(case_lines[0])
    c.pop("ev", None)
    d = ctx.sub("rerun")
    cf = os.path.join(d, "case.ndjson")
    with open(cf, "w") as f:
        f.write(json.dumps(c) + "\n")
    _, r = _validate_cases(ctx, drv, cf, "rerun", 1, count=False)
    return bool(r[0][1])


def simulate(ctx, cfg, num, depth, out_name, aril=0):
    """tlc -simulate on TagExprGen: every visited tree beyond the exhaustive depth is printed as an @@CASE line."""
    r = lib.tlc(ctx, "TagExprGen", cfg, workers=1, timeout=1500, simulate="num=%d" % num, depth=depth,
                tag="sim%d_" % aril + cfg.replace(".cfg", ""), extra=["-aril", str(aril)], heap="2g")
    if not r.ok:
        raise lib.Infra("simulation %s failed (rc=%d):\n%s" % (cfg, r.rc, "\n".join(
            l for l in r.out.splitlines() if "@@CASE" not in l)[-3000:]))
    out = os.path.join(ctx.scratch, out_name)
    seen, n = set(), 0
    with open(out, "w") as f:
        for line in r.out.splitlines():
            line = line.strip()
            if line.startswith('"@@CASE'):
                js = lib.tla_unquote(line[1:-1])[len("@@CASE"):]
                c = json.loads(js)
                key = (c["expr"], json.dumps(c["val"], sort_keys=True))
                if key in seen:
                    continue
                seen.add(key)
                n += 1
                c["id"] = n
                f.write(json.dumps(c, separators=(",", ":")) + "\n")
    if n == 0:
        raise lib.Infra("simulation %s produced no cases" % cfg)
    lib.log("simulated %d distinct deep cases with %s in %.1fs" % (n, cfg, r.wall))
    return out, n


def gen_cases(ctx, cfg, heap):
    """lib.gen_cases with a heap cap (several JVMs run side by side; uncapped they were OOM-killed on a shared box)."""
    out = os.path.join(ctx.scratch, "cases.ndjson")
    r = lib.tlc(ctx, "TagExprGen", cfg, workers=1, timeout=2400, heap=heap, tag="gen_" + cfg.replace(".cfg", ""),
                env={"VERIF_OUT": out, "VERIF_TIER": ctx.tier, "VERIF_SEED": ctx.seed})
    if not r.ok or not os.path.exists(out):
        raise lib.Infra("case generation %s failed (rc=%d):\n%s" % (cfg, r.rc, r.tail(60)))
    n = sum(1 for _ in open(out))
    if n == 0:
        raise lib.Infra("case generation %s produced no cases" % cfg)
    lib.log("generated %d cases with TagExprGen/%s in %.1fs" % (n, cfg, r.wall))
    return out, n


def _depth(t):
    if t[0] in ("num", "str", "bool", "nil", "fld"):
        return 1
    if t[0] == "re0":
        return 2
    if t[0] == "in":
        return 1 + max(_depth(x) for x in t[1])
    return 1 + max(_depth(x) for x in t[1:] if isinstance(x, list))


def _nbin(t):
    if not isinstance(t, list):
        return 0
    if t and t[0] == "in":
        return sum(_nbin(x) for x in t[1])
    return (1 if t and t[0] == "bin" else 0) + sum(_nbin(x) for x in t[1:] if isinstance(x, list))


def run(ctx):
    drv = lib.go_build("c20")
    q = ctx.quick
    tier = "quick" if q else "thorough"
    # 1. the specification: printer / parser / evaluator theorems on every enumerated tree, style and value
    # 2. cases.  (the four TLC runs are independent; they run side by side: one 4-worker + three 1-worker JVMs)
    nsim = 1 if q else 6                       # thorough: six seeded walks side by side (-seed ctx.seed -aril k)
    jobs = [
        lambda: gen_cases(ctx, "TagExprGen_%s.cfg" % tier, "4g" if q else "8g"),
        lambda: lib.spec_check(ctx, "TagExpr", "TagExpr_mc.cfg", workers=4, timeout=1500, heap="3g",
                               note="all sorted trees of depth<=3 (small alphabet) x 9 styles x field values: RoundTrip, "
                                    "StyleFree, SortSound, ChainFlat; documented examples as ASSUME"),
        lambda: lib.spec_check(ctx, "TagExpr", "TagExpr_mc2.cfg", workers=1, timeout=1500, heap="2g",
                               note="all sorted trees of depth<=2 over every operator, len/regexp/in and the full leaf alphabet"),
    ]
    jobs.append(lambda: lib.spec_check(ctx, "TagExpr", "TagExpr_mc4.cfg", workers=2, timeout=1500, heap="2g",
                                       note="in() with operator chains (<=2 binary operators) in every argument position, "
                                            "len($) inside arithmetic chains: same theorems"))
    if not q:
        jobs.append(lambda: lib.spec_check(ctx, "TagExpr", "TagExpr_mc3.cfg", workers=4, timeout=2400, heap="4g",
                                           note="every boolean-sorted tree with <=3 binary operators over all 13 operators"))
    with concurrent.futures.ThreadPoolExecutor(max_workers=5 if q else 11) as ex:
        futs = [ex.submit(j) for j in jobs]
        sfuts = [ex.submit(simulate, ctx, "TagExprGen_sim_%s.cfg" % tier, 110 if q else 400, 8, "sim%d.ndjson" % k, k)
                 for k in range(nsim)]
        done = [f.result() for f in futs]          # re-raises lib.Infra
        sdone = [f.result() for f in sfuts]
    cases, n = done[0]
    # merge the simulated case files (distinct cases only)
    sim = os.path.join(ctx.scratch, "sim.ndjson")
    seen, ns = set(), 0
    with open(sim, "w") as out_f:
        for path, _ in sdone:
            with open(path) as f:
                for line in f:
                    c = json.loads(line)
                    key = (c["expr"], json.dumps(c["val"], sort_keys=True))
                    if key not in seen:
                        seen.add(key)
                        ns += 1
                        c["id"] = ns
                        out_f.write(json.dumps(c, separators=(",", ":")) + "\n")
    # 3./4. run on the real validator, validate
    results, traces_all, ran = [], [], 0
    for cf, nm, k in ((cases, "traces", n), (sim, "straces", ns)):
        traces, res = _validate_cases(ctx, drv, cf, nm, lib.NCPU)
        got = sum(lib.count_cases(t) for t in traces)
        if got != k:
            raise lib.Infra("driver ran %d cases of %s, %d were generated" % (got, cf, k))
        ran += got
        results += res
        traces_all += traces
    lib.handle_rejections(ctx, results, lambda cl: rerun(ctx, cl))

    # 5. binding self-tests
    def flip_outcome(recs):
        k = 0
        for i, r in enumerate(recs):
            if r["ev"] == "Case" and r["verdict"] in ("ok", "invalid"):
                k = i
                break
        v = recs[k + 1]
        v["outcome"] = "invalid" if v["outcome"] == "ok" else "ok"
        return recs

    def other_expr(recs):
        # the driver compiled a differently written expression than the one the spec prints for the tree and style
        for i, r in enumerate(recs):
            if r["ev"] == "Case":
                r["expr"] = "(" + r["expr"] + ")"
                recs[i + 1]["expr"] = r["expr"]
                return recs
        return recs

    def panic_unjudged(recs):
        for i, r in enumerate(recs):
            if r["ev"] == "Case" and r["verdict"] == "any":
                recs[i + 1]["outcome"] = "panic"
                recs[i + 1]["msg"] = "synthetic"
                return recs
        return recs

    def wrong_verdict_echo(recs):
        # a case file claiming the opposite verdict (and a recording agreeing with it) must not get through
        for i, r in enumerate(recs):
            if r["ev"] == "Case" and r["verdict"] in ("ok", "invalid"):
                r["verdict"] = "invalid" if r["verdict"] == "ok" else "ok"
                recs[i + 1]["outcome"] = r["verdict"]
                return recs
        return recs
    t0 = traces_all[0]
    lib.self_test(ctx, MOD, CFG, t0, flip_outcome, name="flip the recorded outcome of a judged case", ncases=60)
    lib.self_test(ctx, MOD, CFG, t0, other_expr, name="expression differs from the spec's printing", ncases=60)
    lib.self_test(ctx, MOD, CFG, traces_all[len(traces_all) // 2], panic_unjudged, name="panic on an unjudged case", ncases=400)
    lib.self_test(ctx, MOD, CFG, t0, wrong_verdict_echo, name="echoed verdict and outcome both inverted", ncases=60)

    # evidence
    judged = deep = nontriv = 0
    by_verdict = {"ok": 0, "invalid": 0, "any": 0}
    samples = []
    exprs = set()
    for cf in (cases, sim):
        with open(cf) as f:
            for line in f:
                c = json.loads(line)
                by_verdict[c["verdict"]] += 1
                exprs.add(c["expr"])
                if c["verdict"] != "any":
                    judged += 1
                    # non-trivial: judged and at least two binary operators (precedence / associativity matters)
                    if _nbin(c["tree"]) >= 2:
                        nontriv += 1
                        if len(samples) < 4 and _nbin(c["tree"]) >= 3 and c["ps"] == "min":
                            samples.append({k: c[k] for k in ("expr", "ps", "sp", "val", "verdict")})
                if _depth(c["tree"]) >= 4:
                    deep += 1
    tl = lib.read_lines(traces_all[0])
    s, e = lib.case_at(tl, min(len(tl), 302))
    samples.append({"recorded_trace": [json.loads(x) for x in tl[s - 1:e]]})
    ctx.cov.update({
        "evaluations": ran, "distinct_nontrivial": nontriv, "exhaustive": True,
        "traces_validated_against_impl": ran, "samples": samples,
        "cases": {"exhaustive": n, "simulated": ns, "judged": judged,
                  "unjudged_no_panic_only": by_verdict["any"], "expected_ok": by_verdict["ok"],
                  "expected_invalid": by_verdict["invalid"], "depth_ge_4": deep, "distinct_expression_strings": len(exprs)},
        "rule": "TLC enumerates (a) every tree of depth<=2 over all 13 binary operators, !, -, len, regexp, in and 11 "
                "leaves incl. $ (ill-typed combinations included) x 14 field values, (b) every boolean-sorted tree of "
                "depth<=3 over the %s operator/leaf alphabet x every field value of the field's sort, every operator chain "
                "with <=3 binary operators, in() calls whose arguments are operator chains (<=2 operators, every argument "
                "position), len($) inside arithmetic chains, (x arith y) cmp z over all arithmetic operators; each printed with "
                "minimal and with redundant parentheses in rotating spacing styles, and (c) seeded tlc -simulate walks "
                "growing typed and untyped trees to depth %d. Every case is compiled afresh (unique run-time struct "
                "type) and run by the real validator; TLC re-prints the tree, recomputes the documented verdict and "
                "compares. 'exhaustive' refers to (a)+(b); (c) is sampled. Non-trivial = judged case (documented result "
                "is a boolean) with >=2 binary operators." % ("small" if q else "mid", 4 if q else 6),
    })
    ctx.assumptions += [
        "float64 arithmetic is exact on the value grid n/64, |value|<=512 used by the spec; results off the grid are not judged",
        "x/0 and x%0 are NaN as documented by internal/tagexpr/expr_test.go; `%` with int64(divisor)==0 for a non-zero "
        "divisor, or with a NaN operand, is not judged (only 'no panic')",
        "ill-typed applications (mixed-kind comparison, truthiness of non-booleans, arithmetic on non-numbers, slices, nil "
        "other than nil==nil) and non-boolean top-level results are only required not to panic",
        "the validator is reached through the public binding.NewValidator(...).ValidateStruct (same engine as "
        "binding.DefaultValidator / binding.Validate) with an error factory used only to classify the error",
        "TLC 1.8.0 and the CommunityModules Json reader are trusted",
    ]
