"""C10 -- client connections are exclusive, bounded, never leaked and never reused dirty.  DESIGN.md 4/C10.

spec/ConnPool.tla (lock granularity) is model-checked; seeded cases (N goroutines x M requests, MaxConns 1..4,
waiting on/off, per-exchange faults, cancelled contexts, reaper / CloseIdleConnections) run through the REAL
http1.HostClient against scripted peers; hook H2 logs one event per critical section; the merged traces are
validated by TLC against spec/ConnPoolTrace.tla.  Thorough: bigger spec configurations, liveness, thousands of
runs and replay of TLC-simulated schedules through the gate hooks.
"""
import concurrent.futures, glob, json, os, random, re
from . import lib

FW_SETS = [
    {"ok": 70, "okdead": 8, "okclose": 8, "eof0": 3, "eofhdr": 3, "eofbody": 3, "stall0": 2, "stallhdr": 2, "stallbody": 1},
    {"ok": 40, "okdead": 25, "okclose": 10, "eof0": 10, "eofhdr": 5, "eofbody": 5, "stall0": 5},
    {"ok": 100},
    {"ok": 50, "okclose": 50},
    {"ok": 30, "okdead": 10, "eof0": 20, "eofhdr": 10, "eofbody": 10, "stall0": 10, "stallhdr": 5, "stallbody": 5},
]
INTERESTING = ("want.deliver", "wait.timeout", "want.cancel", "dec.handoff", "do.retry", "clean.sweep", "bg.dial.ok",
               "x.eof", "x.timeout", "do.ctxdone", "dial.fail")
# (the real-time cases contain do.retry, x.eof and x.timeout)


def gen_case(rng, cid, quick):
    """One seeded case; the space is the property's quantifier: MaxConns 1..4, waiting on/off, the fault list."""
    n = rng.choice([2, 2, 3, 3, 4])
    m = rng.choice([2, 3, 4]) if n <= 3 else rng.choice([2, 3])
    mc = rng.choice([1, 1, 2, 2, 3, 4])
    wait = rng.random() < 0.6
    return {"id": cid, "seed": rng.randrange(1, 2 ** 31), "n": n, "m": m, "maxConns": mc, "wait": wait,
            "waitMs": rng.choice([1, 2, 5, 20]) if wait else 0, "readMs": 50,
            "cleaner": rng.random() < 0.2, "closeIdle": rng.random() < 0.25,
            "yield": rng.choice([0, 30, 60, 90]), "fw": rng.choice(FW_SETS),
            "pDialErr": rng.choice([0, 0, 10, 30]), "pPost": rng.choice([0, 30, 60]),
            "pCtxPre": rng.choice([0, 0, 10]), "pCtxPost": rng.choice([0, 0, 15]),
            "pReqTmo": rng.choice([0, 20]), "sched": []}


# the minimal case of the known finding C10-ctxdone-gauge: one caller, one request, context cancelled before Do
MINIMAL_CTX = {"id": 0, "seed": 1, "n": 1, "m": 1, "maxConns": 1, "wait": False, "waitMs": 0, "readMs": 50,
               "cleaner": False, "closeIdle": False, "yield": 0, "fw": {"ok": 100}, "pDialErr": 0, "pPost": 0,
               "pCtxPre": 100, "pCtxPost": 0, "pReqTmo": 0, "sched": []}


def timed_case(cid, T, d, slack, second):
    """Real-time case for the clause "a call given a request timeout returns no later than that timeout plus slack
    however the peer stalls": request 1 leaves a connection in the pool; request 2 (GET, DoTimeout T) reuses it, the
    peer reads the request, stays silent for d < T and closes before the first byte (bad pooled connection =>
    transparent retry); the redialled connection stalls (`second`) past the timeout.  The budget counts from the START
    of the call: a correct client returns at ~T, one that restarts the clock per attempt at ~T + d; slack << d."""
    call = lambda exch, qt: {"post": False, "ctxPre": False, "ctxPostAt": 0, "exch": exch, "dial": [], "qtMs": qt}
    return {"id": cid, "seed": 1, "n": 1, "m": 2, "maxConns": 1, "wait": False, "waitMs": 0, "readMs": 0,
            "cleaner": False, "closeIdle": False, "yield": 0, "fw": {"ok": 100}, "pDialErr": 0, "pPost": 0, "pCtxPre": 0,
            "pCtxPost": 0, "pReqTmo": 0, "sched": [],
            "calls": {"1": [call(["ok"], 0), call(["late0+eof0", second], T)]}, "bgDial": [],
            "realTime": True, "lateMs": d, "slackMs": slack}


def timed_read_case(cid, R, slack, method):
    """Real-time case with ONLY a read timeout R: request 1 leaves a connection in the pool; request 2 (repeatable
    method) reuses it and the peer stays silent (no close).  The call must return at ~R (bound R + slack, slack << R); a
    client that takes the read time-out on a reused connection for a dead pooled connection repeats the exchange and
    returns at ~2R."""
    call = lambda exch, m: {"post": False, "ctxPre": False, "ctxPostAt": 0, "exch": exch, "dial": [], "qtMs": 0, "method": m}
    return {"id": cid, "seed": 1, "n": 1, "m": 2, "maxConns": 1, "wait": False, "waitMs": 0, "readMs": R,
            "cleaner": False, "closeIdle": False, "yield": 0, "fw": {"ok": 100}, "pDialErr": 0, "pPost": 0, "pCtxPre": 0,
            "pCtxPost": 0, "pReqTmo": 0, "sched": [],
            "calls": {"1": [call(["ok"], "GET"), call(["stall0", "stall0", "stall0"], method)]}, "bgDial": [],
            "realTime": True, "lateMs": 0, "slackMs": slack}


TIMED_READ = [(1500, 700, "GET"), (1200, 600, "PUT")]
TIMED_QUICK = [(2000, 1400, 800, "stall0"), (1600, 1100, 600, "stallhdr"), (2000, 1200, 700, "stallbody")]
TIMED_THOROUGH = TIMED_QUICK + [(1200, 900, 500, "stall0"), (2400, 1200, 800, "stall0"), (1800, 1300, 700, "stallhdr"),
                                (3000, 2000, 1000, "stallbody"), (1500, 1000, 600, "stall0")]


def run_cases(ctx, drv, cases, outdir, par, repeat=1, timeout=900):
    """Run the driver on `cases` split over `par` processes; returns the trace files."""
    os.makedirs(outdir, exist_ok=True)
    chunks = lib.split_evenly(cases, par)
    jobs = []
    for i, ch in enumerate(chunks):
        cf = os.path.join(outdir, "cases_%02d.ndjson" % i)
        with open(cf, "w") as f:
            for c in ch:
                f.write(json.dumps(c, separators=(",", ":")) + "\n")
        jobs.append((cf, os.path.join(outdir, "trace_%02d.ndjson" % i)))
    def one(j):
        try:
            lib.run_driver(drv, ["-cases", j[0], "-out", j[1], "-repeat", repeat], timeout=timeout)
        except lib.Infra as e:
            if not crashed_in_hertz(str(e)):
                raise
            isolate(drv, j[0], j[1], repeat)
    with concurrent.futures.ThreadPoolExecutor(max_workers=par) as ex:
        list(ex.map(one, jobs))
    return [j[1] for j in jobs]


def crashed_in_hertz(msg):
    return ("panic:" in msg or "fatal error:" in msg) and "cloudwego/hertz/pkg" in msg


def isolate(drv, casefile, tracefile, repeat):
    """The driver process died of a panic / fatal error raised in a goroutine of the code under test (background
    dialer, reaper), which the driver cannot recover.  Run the cases of this chunk one process each; a case whose
    process dies again is recorded as Case + Panic (no specification action => rejected)."""
    lib.log("driver crashed inside hertz code; running the cases of %s one by one" % os.path.basename(casefile))
    with open(tracefile, "w") as out:
        for k, line in enumerate(open(casefile)):
            cf, tf = casefile + ".one", tracefile + ".one"
            with open(cf, "w") as f:
                f.write(line)
            try:
                lib.run_driver(drv, ["-cases", cf, "-out", tf, "-repeat", repeat], timeout=120)
                out.write(open(tf).read())
            except lib.Infra as e:
                if not crashed_in_hertz(str(e)):
                    raise
                c = json.loads(line)
                c["ev"] = "Case"
                msg = [l for l in str(e).splitlines() if l.startswith("panic:") or l.startswith("fatal error:")]
                where = [l.strip() for l in str(e).splitlines() if "cloudwego/hertz/pkg" in l and "(" in l]
                out.write(json.dumps(c, separators=(",", ":")) + "\n")
                out.write(json.dumps({"ev": "Panic", "k": "?", "p": 0, "msg": (msg or ["crash"])[0][:200],
                                      "where": (where or [""])[0][:200]}) + "\n")
                out.write(json.dumps({"ev": "End"}) + "\n")


def rerun(ctx, case_lines):
    """Run ONE case alone (10 times: the schedule of goroutines is not reproducible, the seed is) and validate;
    True if a run is rejected again."""
    drv = lib.go_build("c10")
    c = json.loads(case_lines[0])
    c.pop("ev", None)
    d = ctx.sub("rerun_%d" % len(os.listdir(ctx.scratch)))
    known = lib.load_known(ctx.pid)
    for rep in (1, 9):
        traces = run_cases(ctx, drv, [c], os.path.join(d, "r%d" % rep), 1, repeat=rep)
        r = lib.validate(ctx, "ConnPoolTrace", "ConnPoolTrace.cfg", traces, count=False, env=id_env(traces))
        lines = lib.read_lines(traces[0])
        for ln in r[0][1]:
            ev = json.loads(lines[ln - 1]) if ln - 1 < len(lines) else None
            if not lib.match_known(known, c, ev):
                return True
    return False


def id_env(traces):
    """largest connection / waiter id used in the traces: the constants NC / NW of the trace specification"""
    mc = mw = 1
    for t in traces:
        for line in open(t):
            r = json.loads(line)
            if r["ev"] != "Case":
                mc, mw = max(mc, r.get("c", 0)), max(mw, r.get("w", 0))
    return {"VERIF_NC": mc + 1, "VERIF_NW": mw + 1}


REPLAY = {}


def stats(traces):
    per_ev, cases, nontrivial = {}, 0, 0
    REPLAY.clear()
    for t in traces:
        seen = set()
        for line in open(t):
            r = json.loads(line)
            ev = r["ev"]
            per_ev[ev] = per_ev.get(ev, 0) + 1
            if ev == "Quiescent":
                REPLAY[r.get("replay", "none")] = REPLAY.get(r.get("replay", "none"), 0) + 1
            if ev == "Case":
                cases += 1
                seen = set()
            elif ev == "End":
                if len(seen.intersection(INTERESTING)) >= 2:
                    nontrivial += 1
            else:
                seen.add(ev)
    return per_ev, cases, nontrivial


def run(ctx):
    drv = lib.go_build("c10")
    q = ctx.quick
    par = 4 if q else min(lib.NCPU, 12)

    # 1. the specification satisfies the property
    if not os.environ.get("VERIF_C10_NOSPEC"):   # development switch (mutation runs): skip the model checking step
      lib.spec_check(ctx, "ConnPool", "ConnPool_mc.cfg", workers=4 if q else 8, timeout=900,
                     note="2 callers x 2 requests, MaxConns 1..2, waiting on/off, all fault kinds (<= 2 faults per behaviour), "
                          "all interleavings at lock granularity; SYMMETRY on callers")
    if not q:
        thorough_spec(ctx)

    # 2. seeded cases
    rng = random.Random(ctx.seed * 1000003 + (0 if q else 17))
    ncases = 800 if q else 20000
    cases = [dict(MINIMAL_CTX)] + [gen_case(rng, i + 1, q) for i in range(ncases)]
    timed = [timed_case(900000 + i, *t) for i, t in enumerate(TIMED_QUICK if q else TIMED_THOROUGH)]
    timed += [timed_read_case(900100 + i, *t) for i, t in enumerate(TIMED_READ)]
    if not q:
        cases += schedule_cases(ctx, len(cases))

    # 3. run on the real client
    # the real-time cases (seconds each) run in their own driver processes next to the others
    with concurrent.futures.ThreadPoolExecutor(max_workers=2) as ex:
        ft = ex.submit(run_cases, ctx, drv, timed, ctx.sub("traces_timed"), min(len(timed), 5))
        traces = run_cases(ctx, drv, cases, ctx.sub("traces"), par)
        traces += ft.result()
    cases = cases + timed
    per_ev, nrun, nontrivial = stats(traces)
    if nrun != len(cases):
        raise lib.Infra("driver ran %d cases of %d" % (nrun, len(cases)))

    # 4. validate
    env = id_env(traces)
    res = lib.validate(ctx, "ConnPoolTrace", "ConnPoolTrace.cfg", traces, timeout=1500, par=par, env=env)
    lib.handle_rejections(ctx, res, lambda cl: rerun(ctx, cl))
    if ctx.violations:
        return      # the verdict is exit 1; self-tests need accepted traces

    # 5. binding self-tests
    clean = pick_clean_trace(traces, res)

    def drop_release(recs):
        for i, r in enumerate(recs):
            if r["ev"] == "rel.idle":
                del recs[i]
                return recs
        return recs
    lib.self_test(ctx, "ConnPoolTrace", "ConnPoolTrace.cfg", clean, drop_release, name="drop one rel.idle hook event", ncases=40, env=env)

    def bump_counter(recs):
        for r in recs:
            if r["ev"] == "dec.count":
                r["cc"] += 1
                return recs
        return recs
    lib.self_test(ctx, "ConnPoolTrace", "ConnPoolTrace.cfg", clean, bump_counter, name="connsCount logged by a dec.count event off by one", ncases=40, env=env)

    def wrong_response(recs):
        for r in recs:
            if r["ev"] == "Return" and r["err"] == "ok":
                r["resp"] += 1
                return recs
        return recs
    lib.self_test(ctx, "ConnPoolTrace", "ConnPoolTrace.cfg", clean, wrong_response, name="a call returns the response to another request", ncases=40, env=env)

    def dirty_reuse(recs):
        for i, r in enumerate(recs):
            if r["ev"] == "x.full" and r["keep"] and i + 1 < len(recs) and recs[i + 1]["ev"] == "rel.idle":
                r["keep"] = False
                return recs
        return recs
    lib.self_test(ctx, "ConnPoolTrace", "ConnPoolTrace.cfg", clean, dirty_reuse, name="a connection whose response said Connection: close is released", ncases=40, env=env)

    # evidence
    tl = lib.read_lines(clean)
    s, e = lib.case_at(tl, 2)
    ctx.cov.update({
        "evaluations": nrun, "distinct_nontrivial": nontrivial, "exhaustive": False,
        "traces_validated_against_impl": nrun, "events_per_kind": per_ev,
        "schedule_replay": {"schedules_from_tlc_simulate": REPLAY.get("ok", 0) + REPLAY.get("failed", 0),
                            "replayed_to_the_end": REPLAY.get("ok", 0), "unreplayable": REPLAY.get("failed", 0)},
        "samples": [cases[1], cases[min(7, len(cases) - 1)], {"recorded_trace": [json.loads(x) for x in tl[s - 1:min(e, s + 60)]]}],
        "rule": "Cases are drawn from the seed: N in 2..4 goroutines x M in 2..4 requests, MaxConns 1..4, waiting for a free "
                "connection on/off (1..20 ms), per-exchange peer behaviour from {ok, ok then silent close while idle, ok + "
                "Connection: close, close before the first byte / mid-header / mid-body, stall past the read timeout at the "
                "same three points}, dial errors, contexts cancelled before the call or after the request was sent, request "
                "timeouts, idle reaper and CloseIdleConnections on/off, seeded yields/sleeps at every lock boundary; thorough "
                "adds schedules simulated by TLC and replayed through the gates. A case is non-trivial when its trace "
                "contains at least two kinds of events among %s (counted per executed case)." % (", ".join(INTERESTING),),
    })
    ctx.assumptions += [
        "hook H2 (build tag verif) logs inside the critical sections of client.go; file order of the trace = order in which "
        "events were taken under the recorder's lock, which is consistent with connsLock / w.mu and with program order",
        "in the seeded cases the scripted connection (vnet) turns a read deadline into an immediate timeout (stalls cost no "
        "wall-clock; hangs are caught by a 3 s watchdog); the bound 'returns within the request timeout + slack, counted "
        "from the start of the call' is exercised in wall-clock by the dedicated real-time cases only (late death of a "
        "pooled connection, then a stalling redial; slack 500..1000 ms, injected extra delay 900..2000 ms)",
        "TLC and the CommunityModules Json reader are trusted; goroutine identity is taken from runtime.Stack",
        "write failures, TLS, proxies, streamed response bodies and custom retry functions are not exercised",
    ]


def pick_clean_trace(traces, res):
    """A trace file containing only accepted cases (cases rejected for a known finding are cut out)."""
    t, bad = res[0]
    if not bad:
        return t
    lines = lib.read_lines(t)
    drop = set()
    for ln in bad:
        s, e = lib.case_at(lines, ln)
        drop.update(range(s, e + 1))
    keep = [l for i, l in enumerate(lines, 1) if i not in drop]
    if not keep:
        raise lib.Infra("no accepted case available for the self-tests")
    p = t + ".clean"
    with open(p, "w") as f:
        f.write("\n".join(keep) + "\n")
    return p


def thorough_spec(ctx):
    lib.spec_check(ctx, "ConnPool", "ConnPool_mc_thorough.cfg", workers=12, timeout=1500,
                   note="3 callers x 1 request, MaxConns 1..2, waiting on/off, all fault kinds (<= 3 faults), SYMMETRY")
    # with -coverage: every action of the specification must have been taken (vacuity guard)
    r = lib.tlc(ctx, "ConnPool", "ConnPool_mc_sys.cfg", workers=12, timeout=1800, extra=["-coverage", "1"])
    if not r.ok:
        raise lib.Infra("specification ConnPool/ConnPool_mc_sys.cfg does not satisfy its properties or TLC failed:\n" + r.tail(60))
    cov = {}
    for m in re.finditer(r"^<(\w+) line \d+, col \d+ to line \d+, col \d+ of module ConnPool[^>]*>: (\d+):(\d+)", r.out, re.M):
        cov[m.group(1)] = max(cov.get(m.group(1), 0), int(m.group(3)))
    dead = sorted(a for a, n in cov.items() if n == 0)
    if dead or len(cov) < 30:
        raise lib.Infra("vacuity guard: actions never taken in ConnPool_mc_sys.cfg: %s (%d actions seen)" % (dead, len(cov)))
    ctx.cov["states"] += r.distinct
    ctx.cov["transitions"] += r.generated
    ctx.cov["spec_checks"].append({"module": "ConnPool", "cfg": "ConnPool_mc_sys.cfg", "distinct_states": r.distinct,
                                   "states_generated": r.generated, "wall_s": round(r.wall, 1), "actions_covered": len(cov),
                                   "note": "2 callers x 2 requests with the idle reaper and CloseIdleConnections running "
                                           "concurrently; -coverage: every action taken at least once"})
    lib.log("spec ConnPool/ConnPool_mc_sys.cfg: %d distinct states, %.1fs, %d actions all covered" % (r.distinct, r.wall, len(cov)))
    lib.spec_check(ctx, "ConnPool", "ConnPool_live.cfg", workers=4, timeout=900,
                   note="liveness: Progress (every call that entered Do leaves it) under per-process weak fairness")
    # the code as written (no gauge decrement on the ctx.Done() return) must violate QuiescentOK in the model
    r = lib.tlc(ctx, "ConnPool", "ConnPool_asis.cfg", workers=1, timeout=300)
    v = r.violated() or ""
    if "QuiescentOK" not in v:
        raise lib.Infra("ConnPool_asis.cfg: expected a counterexample to QuiescentOK on the as-written model, got: %s\n%s"
                        % (v, r.tail(20)))
    ctx.cov["spec_checks"].append({"module": "ConnPool", "cfg": "ConnPool_asis.cfg", "distinct_states": r.distinct,
                                   "note": "as-written model (AsWritten = TRUE): TLC reports QuiescentOK violated, as required"})


def history_to_case(hist, cid, seed, max_conns, wait):
    """Project one simulated behaviour of ConnPoolSim onto what the driver needs: the gate schedule and, per caller,
    the script of environment decisions (request kind, cancellation, dial results, peer behaviour per exchange)."""
    calls, bg, sched = {}, [], []
    pre = {}
    dial_ord, live = {}, {}
    nd = 0
    for h in hist:
        k, p, x = h["k"], h["p"], h["x"]
        if k == "c":
            cl = calls.setdefault(str(p), [])
            if x in ("get", "post"):
                cl.append({"post": x == "post", "ctxPre": pre.pop(p, False), "ctxPostAt": 0, "exch": [], "dial": [], "_sent": 0})
            elif x == "ctxpre":
                pre[p] = True
            elif x == "ctxpost":
                cl[-1]["ctxPostAt"] = cl[-1]["_sent"]
            elif x == "sent":
                cl[-1]["_sent"] += 1
            elif x in ("dialok", "dialfail"):
                cl[-1]["dial"].append(x == "dialok")
            elif x in ("ok", "okdead", "okclose", "eof0", "eofhdr", "eofbody", "stall0"):
                cl[-1]["exch"].append(x)
            pid = p
        else:
            if p not in live:
                nd += 1
                live[p] = nd
            pid = live[p]
            if x in ("dialok", "dialfail"):
                bg.append(x == "dialok")
            if x in ("end", "handoff"):
                live.pop(p)
        for a in h["a"]:
            sched.append({"k": k, "p": pid, "a": a, "t": x == "timer"})
    for cl in calls.values():
        for c in cl:
            c.pop("_sent")
    n = max(int(g) for g in calls)
    return {"id": cid, "seed": seed, "n": n, "m": max(len(v) for v in calls.values()), "maxConns": max_conns,
            "wait": wait, "waitMs": 60 if wait else 0, "readMs": 50, "cleaner": False, "closeIdle": False, "yield": 0,
            "fw": {"ok": 100}, "pDialErr": 0, "pPost": 0, "pCtxPre": 0, "pCtxPost": 0, "pReqTmo": 0,
            "sched": sched, "calls": calls, "bgDial": bg}


def schedule_cases(ctx, first_id, num=4000):
    """TLC -simulate on ConnPoolSim writes behaviours (with cf = [max, wait] as first history... taken from the
    printed configuration line) that are turned into schedule cases."""
    r = lib.tlc(ctx, "ConnPoolSim", "ConnPoolSim.cfg", workers=1, timeout=900, simulate="num=%d" % num, depth=250)
    out = []
    for line in r.out.splitlines():
        line = line.strip()
        if line.startswith('"@@H'):
            body = json.loads(lib.tla_unquote(line[1:-1])[3:])
            cfg, hist = body[0], body[1:]
            out.append(history_to_case(hist, first_id + len(out), ctx.seed * 100000 + len(out), cfg["p"], cfg["x"] == "wait"))
    if len(out) < num // 2:
        raise lib.Infra("ConnPoolSim produced only %d schedules:\n%s" % (len(out), r.tail(30)))
    lib.log("TLC simulated %d schedules (%.1fs)" % (len(out), r.wall))
    return out
