"""C03 part (b), "ParserCalls" -- every exported parser of untrusted data returns (ok / err) for every token string
of its declared hostile space; it never panics.  DESIGN.md 4/C03 (b), notes/C03P.md.

spec/ParserCalls.tla        Call(parser, input) -> Return(ok|err), no Panic action; alphabets, bounds, shortlex Succ/Rank;
                            TLC (ParserCallsMC / ParserCalls_mc.cfg): the enumeration is a bijection, terminates, calls
                            every input exactly once
spec/ParserCallsGen.tla     writes alphabets / bounds / sizes of the space from the spec's constants (per tier)
harness/drivers/c03p        enumerates that space in the spec's order against the REAL parsers with recover();
                            + seeded random longer token strings
spec/ParserCallsTrace.tla   every recorded line is a step of ParserCalls; inputs complete and in order; Panic rejected

`run_part(ctx)` is what checks/c03.py calls; `run(ctx)` makes `bin/vcheck C03P` work stand-alone.
Events and known findings carry property id "C03".
"""
import glob, json, os, re
from . import lib

PROP = "C03"
MODULE = "ParserCallsTrace"


def _cfg(quick):
    return "ParserCallsTrace.cfg" if quick else "ParserCallsTrace_thorough.cfg"


def _w(path, recs):
    with open(path, "w") as f:
        for r in recs:
            f.write(json.dumps(r, separators=(",", ":")) + "\n")


def _as_c03(ctx):
    """handle_rejections / write_replay key known findings and replay files by ctx.pid: part (b) belongs to C03."""
    class _Swap:
        def __enter__(self_):
            self_.saved = ctx.pid
            ctx.pid = PROP

        def __exit__(self_, *a):
            ctx.pid = self_.saved
    return _Swap()


def _bounds(ctx, quick, name):
    path, _ = lib.gen_cases(ctx, "ParserCallsGen", "ParserCallsGen_quick.cfg" if quick else "ParserCallsGen_thorough.cfg",
                            out_name=name)
    return path, [json.loads(l) for l in open(path) if l.strip()]


def rerun(ctx, case_lines):
    """Run ONE parser call alone on the real code and validate it; True if rejected again, None if not ours."""
    try:
        c = json.loads(case_lines[0])
    except Exception:
        return None
    if c.get("ev") != "Case" or c.get("kind") != "parser" or "input" not in c:
        return None
    drv = lib.go_build("c03p")
    d = ctx.sub("rerun_c03p")
    for old in glob.glob(os.path.join(d, "*.ndjson")):
        os.remove(old)
    bpath = os.path.join(ctx.scratch, "bounds_c03p_rerun.ndjson")
    if not os.path.exists(bpath):
        bpath, _ = _bounds(ctx, False, "bounds_c03p_rerun.ndjson")     # thorough bounds: RandMax admits every length used
    cf = os.path.join(d, "case.json")
    _w(cf, [{"ev": "Case", "kind": "parser", "parser": c["parser"], "input": c["input"]}])
    lib.run_driver(drv, ["-bounds", bpath, "-case", cf, "-out", d])
    r = lib.validate(ctx, MODULE, _cfg(False), [os.path.join(d, "trace_000.ndjson")], count=False)
    return bool(r[0][1])


def _scan(files):
    """Chunk headers (in file order) and line counts by event, by plain string search (files are large)."""
    heads, counts = [], {"Case": 0, "ParserCall": 0, "Panic": 0, "End": 0, "Chunk": 0, "other": 0, "err": 0}
    for t in files:
        with open(t) as f:
            for line in f:
                m = re.search(r'"ev":"(\w+)"', line)
                ev = m.group(1) if m else "other"
                counts[ev if ev in counts else "other"] += 1
                if ev == "Chunk":
                    heads.append(json.loads(line))
                elif ev == "ParserCall" and '"class":"err"' in line:
                    counts["err"] += 1
    return heads, counts


def _clean_block(files, want=120):
    """A recorded enumeration block (header + cases + End) without any Panic line, cut to `want` cases: the
    baseline of the binding self-tests."""
    def finish(block, ncase):
        recs = [json.loads(l) for l in block]
        recs[0]["n"] = ncase
        return recs + [{"ev": "End"}]
    for t in files:
        block, ncase = None, 0
        with open(t) as f:
            for line in f:
                if '"ev":"Chunk"' in line:
                    block, ncase = [line], 0
                elif block is None:
                    continue
                elif '"ev":"Panic"' in line:
                    block = None
                elif '"ev":"End"' in line:
                    if ncase >= 20:
                        return finish(block, ncase)
                    block = None
                elif '"ev":"Case"' in line:
                    if ncase == want:
                        return finish(block, ncase)
                    ncase += 1
                    block.append(line)
                else:
                    block.append(line)
    return None


def run_part(ctx):
    q = ctx.quick
    cfg = _cfg(q)
    drv = lib.go_build("c03p")

    # 1. the specification: shortlex enumeration is a bijection onto the bounded space, terminates, one call per input
    r = lib.spec_check(ctx, "ParserCallsMC", "ParserCalls_mc.cfg", workers=2, timeout=900,
                       note="every parser's space on small bounds (McLen): TypeOK, RankBijection (Unrank(Rank(s)) = s, "
                            "range), SuccStep (Rank(Succ(s)) = Rank(s)+1, stays in the space), OneCallPerInput, "
                            "Terminates; distinct states = 4 * Total + 1 per parser")
    m = re.search(r'<<"@@EXPECT",\s*(\d+)>>', r.out)
    if not m or int(m.group(1)) != r.distinct:
        raise lib.Infra("ParserCalls walk visited %d states, the specification expects %s" %
                        (r.distinct, m.group(1) if m else "?"))

    # 2. the case space, from the spec's constants
    bpath, bounds = _bounds(ctx, q, "bounds_c03p.ndjson")
    total = sum(b["total"] for b in bounds)
    for b in bounds:
        n = len(b["alphabet"])
        if b["total"] != sum(n ** i for i in range(b["maxlen"] + 1)):
            raise lib.Infra("bounds line of %s: total %d is not the size of the space" % (b["parser"], b["total"]))

    # 3. the real code
    out = ctx.sub("traces_c03p")
    nrand = 300 if q else 10000
    nchunks = 8 if q else 96
    lib.run_driver(drv, ["-bounds", bpath, "-out", out, "-chunks", nchunks, "-rand", nrand, "-seed", ctx.seed,
                         "-par", 4 if q else 8, "-block", 2000 if q else 10000], timeout=1800)
    enum = sorted(glob.glob(os.path.join(out, "trace_*.ndjson")))
    rnd = sorted(glob.glob(os.path.join(out, "rand_*.ndjson")))
    stats = json.load(open(os.path.join(out, "stats.json")))

    # the enum chunks tile 0 .. Total-1 of every parser (inside a chunk the trace spec checks input' = Succ(input))
    heads, counts = _scan(enum)
    at = {b["parser"]: 0 for b in bounds}
    for h in sorted(heads, key=lambda h: (str(h.get("parser")), h.get("rank", -1))):
        if h.get("mode") != "enum" or h.get("parser") not in at or h["rank"] != at[h["parser"]]:
            raise lib.Infra("enumeration chunks do not tile the space: %s (expected rank %s)" % (h, at.get(h.get("parser"))))
        at[h["parser"]] += h["n"]
    for b in bounds:
        if at[b["parser"]] != b["total"]:
            raise lib.Infra("enumeration of %s covers %d of %d inputs" % (b["parser"], at[b["parser"]], b["total"]))
    rheads, rcounts = _scan(rnd)
    if sorted(h["parser"] for h in rheads) != sorted(b["parser"] for b in bounds) or \
            any(h["mode"] != "free" or h["n"] != nrand for h in rheads):
        raise lib.Infra("random chunks do not hold %d inputs for every parser" % nrand)
    if counts["Case"] != total or counts["ParserCall"] + counts["Panic"] != total or \
            rcounts["Case"] != nrand * len(bounds) or stats["Calls"] != total + nrand * len(bounds):
        raise lib.Infra("driver recorded %d+%d cases, the space has %d+%d" %
                        (counts["Case"], rcounts["Case"], total, nrand * len(bounds)))

    # 4. validate every recorded line
    res = lib.validate(ctx, MODULE, cfg, enum + rnd, timeout=3000, par=4 if q else lib.NCPU)
    with _as_c03(ctx):
        lib.handle_rejections(ctx, res, lambda cl: rerun(ctx, cl))
    rejected = sum(len(b) for _, b in res)
    if rejected < counts["Panic"] + rcounts["Panic"]:
        raise lib.Infra("%d Panic lines recorded but only %d lines rejected: the trace specification admits a panic" %
                        (counts["Panic"] + rcounts["Panic"], rejected))

    # 5. binding self-tests on a recorded block without panics
    base = _clean_block(enum)
    if base is None:
        raise lib.Infra("no recorded enumeration block without Panic lines to run the binding self-tests on")
    okf = os.path.join(ctx.scratch, "selftest_c03p_base.ndjson")
    _w(okf, base)
    if lib.validate(ctx, MODULE, cfg, [okf], count=False)[0][1]:
        raise lib.Infra("self-test base (uncorrupted recorded block) was rejected")

    def nth(recs, ev, n):
        c = [i for i, r in enumerate(recs) if r["ev"] == ev]
        return c[min(n, len(c) - 1)]

    def panic_instead(recs):      # one call panicked instead of returning
        i = nth(recs, "ParserCall", 17)
        j = max(k for k in range(i) if recs[k]["ev"] == "Case")
        recs[i] = {"ev": "Panic", "parser": recs[j]["parser"], "input": recs[j]["input"],
                   "msg": "runtime error: index out of range [0] with length 0", "site": "pkg/protocol.selfTest", "line": 1}
        return recs

    def drop_case(recs):          # one input of the space was never handed to the parser
        i = nth(recs, "Case", 11)
        del recs[i:i + 2]
        recs[0] = dict(recs[0], n=recs[0]["n"] - 1)
        return recs

    def no_return(recs):          # a call that neither returned nor panicked (result line missing)
        i = nth(recs, "ParserCall", 7)
        del recs[i]
        return recs

    def foreign_class(recs):      # a result that is neither ok nor err
        i = nth(recs, "ParserCall", 5)
        recs[i] = dict(recs[i], **{"class": "crashed"})
        return recs

    for name, mfn in (("one ParserCall replaced by a Panic event", panic_instead),
                      ("one enumerated input dropped from the recording", drop_case),
                      ("one call without a result line", no_return),
                      ("a result class outside {ok, err}", foreign_class)):
        lib.self_test(ctx, MODULE, cfg, okf, mfn, ncases=10 ** 6, name="parsers: " + name)

    # evidence
    per = {b["parser"]: {"family": b["family"], "tokens": len(b["alphabet"]), "maxlen": b["maxlen"], "inputs": b["total"]}
           for b in bounds}
    kinds = [{k: p[k] for k in ("parser", "site", "line", "msg", "count", "first")} for p in (stats.get("PanicKinds") or [])]
    sample_trace = base[:7]
    summary = {
        "parsers": len(bounds), "enumerated_calls": total, "random_calls": nrand * len(bounds),
        "calls_class_err": counts["err"] + rcounts["err"], "panics_recorded": counts["Panic"] + rcounts["Panic"],
        "lines_rejected": rejected, "trace_files": len(enum) + len(rnd),
    }
    ctx.cov.update({
        "parsers_count": len(bounds), "parsers_enumerated_calls": total, "parsers_random_calls": nrand * len(bounds),
        "parsers_calls_class_err": summary["calls_class_err"], "parsers_panics_recorded": summary["panics_recorded"],
        "parsers_lines_rejected": rejected, "parsers_space": per, "parsers_panic_kinds": kinds,
        "parsers_random_len": "maxlen+1 .. %d" % bounds[0]["randMax"],
        "parsers_sample_trace": sample_trace,
        "parsers_rule": "for each of the %d parser entry points of spec/ParserCalls.tla the driver hands EVERY token string of "
                        "length <= maxlen over the family's hostile alphabet (shortlex order, completeness checked by "
                        "TLC: input' = Succ(input), chunks tile 0..Total-1) to the real hertz function under recover(), "
                        "plus %d seeded random longer strings per parser; ParserCalls has no Panic action, so a recorded "
                        "panic rejects the call. Non-trivial = calls that ended in class err or were rejected (the "
                        "parser's own error path was taken)." % (len(bounds), nrand),
    })
    ctx.assumptions += [
        "parsers: inputs are token strings over the alphabets declared in spec/ParserCalls.tla (structure-aware, not "
        "byte-level fuzzing); a panic that needs bytes outside an alphabet or more tokens than the bound is not reached",
        "parsers: reader-based parsers (ParseChunkSize, req.Read, resp.ReadHeader, ReadTrailer) are fed through "
        "hertz' own mock.ZeroCopyReader (bufio), i.e. the whole input is available at once",
        "parsers: a parser call that never returns is reported as a dead driver (exit 2), not as a violation",
    ]
    return summary


def run(ctx):
    """Stand-alone (bin/vcheck C03P): part (b) only."""
    s = run_part(ctx)
    per = ctx.cov["parsers_space"]
    some = sorted(per)[:3]
    ctx.cov.update({
        "evaluations": s["enumerated_calls"] + s["random_calls"],
        "distinct_nontrivial": s["calls_class_err"] + s["lines_rejected"],
        "traces_validated_against_impl": s["enumerated_calls"] + s["random_calls"],
        "exhaustive": True,
        "rule": ctx.cov["parsers_rule"],
        "samples": [{"parser": p, **per[p]} for p in some] + [{"recorded_trace": ctx.cov["parsers_sample_trace"]}],
    })
