"""C01 -- the server frames and orders requests on a connection exactly as the wire says.  DESIGN.md 4/C01."""
import json, os
from . import lib, h1common


def rerun(ctx, case_lines):
    return h1common.rerun_h1srv(ctx, case_lines)


def rerun_hist(ctx, seq):
    return h1common.rerun_h1srv_hist(ctx, seq)


def run(ctx):
    drv = lib.go_build("h1srv")
    h1common.spec_h1server(ctx)
    gen = "H1ServerGen_quick.cfg" if ctx.quick else "H1ServerGen_thorough.cfg"
    cases, n = lib.gen_cases(ctx, "H1ServerGen", gen, out_name="scripts.ndjson", timeout=1800)
    out = ctx.sub("traces")
    cuts = "whole,rand1x3" if ctx.quick else "whole,rand3x6,bounds"
    traces, ncases = h1common.run_h1srv(ctx, drv, cases, out, cuts=cuts)
    # option ContinueHandler refusing the body of every Expect: 100-continue request (the handler runs without the body;
    # the server must then skip the body or close: the refused body must never be parsed as the next request)
    deny_cases = os.path.join(ctx.scratch, "expect.ndjson")
    with open(cases) as f, open(deny_cases, "w") as g:
        for line in f:
            if '"expect100":true' in line:
                g.write(line)
    td, nd = h1common.run_h1srv(ctx, drv, deny_cases, ctx.sub("traces_deny"), idle="inloop", cuts="whole,rand1x3", extra=["-deny"])
    traces += td
    ncases += nd
    # a client that really waits for "100 Continue" before it sends the body (both body modes): the server must
    # send the interim response before it reads on (a read that blocks on the withheld body first is rejected)
    tw, nw = h1common.run_h1srv(ctx, drv, deny_cases, ctx.sub("traces_wait100"), idle="inloop", cuts="whole,rand1x3", extra=["-wait100"])
    traces += tw
    ncases += nw
    # option DisableKeepalive: the first request is answered and the connection closed; pipelined followers are
    # never parsed (every 3rd script; all of them in the thorough tier)
    nk_cases = os.path.join(ctx.scratch, "nokeep.ndjson")
    with open(cases) as f, open(nk_cases, "w") as g:
        for k, line in enumerate(f):
            if not ctx.quick or k % 3 == 0:
                g.write(line)
    tk, nk = h1common.run_h1srv(ctx, drv, nk_cases, ctx.sub("traces_nokeep"), idle="inloop", cuts="whole,rand1x3", extra=["-nokeep"])
    traces += tk
    ncases += nk
    # the same scripts over loopback TCP into a real server.Hertz with the real transports (fragmentation not controllable)
    tcp_cases = os.path.join(ctx.scratch, "tcp.ndjson")      # (cases that need a configured body limit stay in memory)
    with open(cases) as f, open(tcp_cases, "w") as g:
        for line in f:
            if '"fault"' not in line:
                g.write(line)
    nets = ["netpoll"] if ctx.quick else ["netpoll", "standard"]
    ntcp = 0
    for kind in nets:
        o = ctx.sub("traces_" + kind)
        t, k = h1common.run_h1srv(ctx, drv, tcp_cases, o, idle="inloop", cuts="whole" if ctx.quick else "whole,rand2x5", extra=["-net", kind])
        traces += t
        ntcp += k
    ncases += ntcp
    res = lib.validate(ctx, "H1ServerTrace", "H1ServerTrace.cfg", traces, timeout=1800)
    lib.handle_rejections(ctx, res, lambda cl: rerun(ctx, cl), rerun_hist=lambda seq: h1common.rerun_h1srv_hist(ctx, seq))

    # binding self-tests
    def foreign_body(recs):
        for r in recs:
            if r["ev"] == "Read" and r["k"] > 1:
                i, a, b = r["runs"][0]
                r["runs"] = [[i, a, b - 1], [i + 1, 0, 1]]   # last byte delivered from another request
                return recs
        return recs
    def swap_responses(recs):
        idx = [i for i, r in enumerate(recs) if r["ev"] == "Response" and r.get("kind") == "final"]
        for a, b in zip(idx, idx[1:]):
            if recs[a]["seq"] != recs[b]["seq"] and not any(r["ev"] == "Case" for r in recs[a:b]):
                recs[a]["seq"], recs[b]["seq"] = recs[b]["seq"], recs[a]["seq"]
                return recs
        return recs
    def drop_handle(recs):
        seen = 0
        for i, r in enumerate(recs):
            if r["ev"] == "Handle" and r["seq"] == 2:
                j = i
                while recs[j]["ev"] != "HandleEnd":
                    j += 1
                del recs[i:j + 1]
                return recs
        return recs
    def decoy_moves_end(recs):
        # pretend a decoy's value was honoured: the handler saw 3 bytes fewer
        for r in recs:
            if r["ev"] == "Read" and r["k"] > 3:
                i, a, b = r["runs"][0]
                r["runs"] = [[i, a, b - 3]]; r["k"] -= 3
                return recs
        return recs
    big = sorted([t for t in traces if "/traces/" in t], key=os.path.getsize, reverse=True)
    lib.self_test(ctx, "H1ServerTrace", "H1ServerTrace.cfg", big, foreign_body, name="one body byte taken from another request", ncases=60)
    multi_first = sorted([t for t in traces if "/traces/" in t], reverse=True)      # the pipelined scripts come last in case order
    lib.self_test(ctx, "H1ServerTrace", "H1ServerTrace.cfg", multi_first, swap_responses, name="two responses swapped", ncases=1500, tail=True)
    lib.self_test(ctx, "H1ServerTrace", "H1ServerTrace.cfg", multi_first, drop_handle, name="second pipelined request never handled", ncases=1500, tail=True)
    lib.self_test(ctx, "H1ServerTrace", "H1ServerTrace.cfg", big, decoy_moves_end, name="body shortened as if a decoy length were honoured", ncases=60)

    cnt = h1common.event_counts(traces, ["Handle", "Response", "Deliver"])
    multi = 0
    samples = []
    with open(cases) as f:
        for line in f:
            c = json.loads(line)
            if len(c["script"]) >= 2:
                multi += 1
                if len(samples) < 2 and c["offs"][-1]["end"] < 600:
                    samples.append({"id": c["id"], "wire": c["wire"], "offs": c["offs"]})
    tl = lib.read_lines(traces[0])
    s, e = lib.case_at(tl, 3)
    samples.append({"recorded_trace": [json.loads(x) for x in tl[s:e]]})
    ctx.cov.update({
        "evaluations": ncases, "distinct_nontrivial": multi * 4, "exhaustive": False,
        "traces_validated_against_impl": ncases, "samples": samples, "scripts": n, "handler_invocations": cnt["Handle"],
        "responses": cnt["Response"], "socket_reads": cnt["Deliver"], "cases_over_real_tcp_transports": ntcp,
        "rule": "H1ServerGen (TLC) builds request scripts from Wire: every (body framing x length incl. buffer boundaries x header set x Expect) "
                "shape alone, followed by each of 6 probe requests, preceded by a probe, and triples; each script runs in buffered and streaming "
                "mode x in-loop and poller idle handling x fragmentations (%s) through Engine.Serve on a scripted connection; every recorded trace is "
                "validated against H1Server+Wire. Non-trivial = pipelined scripts (>=2 requests) x 4 configurations." % cuts,
    })
    ctx.assumptions += ["requests are well-formed by construction (Wire.Encode); body bytes are a provenance pattern mapped back to runs by the harness",
                        "responses are decoded by net/http.ReadResponse (independent implementation)",
                        "real netpoll/standard transports over loopback TCP are exercised without control over fragmentation and without the consumed-offset check; exact cuts only with the in-memory transport (which emulates netpoll's return to the poller)"]
