"""C03 -- no peer-controlled input can crash the process; bad input gets a clean 4xx.  DESIGN.md 4/C03.
(a1) requests that MUST be rejected (body over the limit in buffered mode, malformed heads) and connections the peer
     cuts short: strict validation against H1Server (one 4xx + close, no handler, nothing after, closed);
(a2) every single token-level mutation of a corpus of valid request streams (plus seeded double mutations), delivered
     whole and byte-wise, buffered and streaming, default engine without recovery: validated against H1Reject
     (accept-or-clean-reject, never a panic, never output that is not HTTP);
(b)  the exported parsers of untrusted data on all token strings up to a bound (checks/c03p.py, ParserCalls)."""
import glob, importlib, json, os
from . import lib, h1common


def rerun(ctx, case_lines):
    c = json.loads(case_lines[0])
    if c.get("parser") is not None or c.get("kind") == "parser":
        return importlib.import_module("checks.c03p").rerun(ctx, case_lines)
    if c.get("loose"):
        return h1common.rerun_h1srv(ctx, case_lines, module="H1RejectTrace", cfg="H1RejectTrace.cfg")
    return h1common.rerun_h1srv(ctx, case_lines)


def rerun_hist(ctx, seq):
    if json.loads(seq[-1][0]).get("loose"):
        return h1common.rerun_h1srv_hist(ctx, seq, module="H1RejectTrace", cfg="H1RejectTrace.cfg")
    return h1common.rerun_h1srv_hist(ctx, seq)


def run(ctx):
    drv = lib.go_build("h1srv")
    h1common.spec_h1server(ctx)
    lib.spec_check(ctx, "H1Reject", "H1Reject_mc.cfg", workers=2, expect_min_states=10, note="error-path protocol for arbitrary input")
    # (a1) must-reject / cut-short histories (the C19 history generator, tracer off)
    hist, nh = lib.gen_cases(ctx, "H1TraceGen", "H1TraceGen_quick.cfg" if ctx.quick else "H1TraceGen_thorough.cfg", out_name="hist.ndjson", timeout=1800)
    o1 = ctx.sub("traces_strict")
    t1, n1 = h1common.run_h1srv(ctx, drv, hist, o1, modes="buffered,streaming", idle="inloop", cuts="whole,bytewise" if ctx.quick else "whole,bytewise,rand2x6",
                                extra=["-trace", "off"])
    r1 = lib.validate(ctx, "H1ServerTrace", "H1ServerTrace.cfg", t1, timeout=1800)
    lib.handle_rejections(ctx, r1, lambda cl: rerun(ctx, cl), rerun_hist=lambda seq: h1common.rerun_h1srv_hist(ctx, seq))
    # (a1') the body limit at its boundary, every framing and every pre-parsed content type (buffered mode)
    lim, nl = lib.gen_cases(ctx, "H1LimitGen", "H1LimitGen.cfg", out_name="limit.ndjson", timeout=600)
    t1b, n1b = h1common.run_h1srv(ctx, drv, lim, ctx.sub("traces_limit"), modes="buffered", idle="inloop", cuts="whole,bytewise,rand2x6", extra=["-trace", "off"])
    r1b = lib.validate(ctx, "H1ServerTrace", "H1ServerTrace.cfg", t1b, timeout=1800)
    lib.handle_rejections(ctx, r1b, lambda cl: rerun(ctx, cl), rerun_hist=lambda seq: h1common.rerun_h1srv_hist(ctx, seq))
    n1 += n1b
    # (a2) mutated streams
    mut, nm = lib.gen_cases(ctx, "H1MutGen", "H1MutGen_quick.cfg" if ctx.quick else "H1MutGen_thorough.cfg", out_name="mut.ndjson", timeout=1800)
    o2 = ctx.sub("traces_loose")
    t2, n2 = h1common.run_h1srv(ctx, drv, mut, o2, modes="buffered,streaming", idle="inloop" if ctx.quick else "inloop,poller",
                                cuts="whole,bytewise" if ctx.quick else "whole,bytewise,rand2x6")
    r2 = lib.validate(ctx, "H1RejectTrace", "H1RejectTrace.cfg", t2, timeout=1800)
    lib.handle_rejections(ctx, r2, lambda cl: rerun(ctx, cl), rerun_hist=lambda seq: h1common.rerun_h1srv_hist(ctx, seq, module="H1RejectTrace", cfg="H1RejectTrace.cfg"))

    # binding self-tests
    def panic_event(recs):
        for i, r in enumerate(recs):
            if r["ev"] == "Deliver":
                recs.insert(i + 1, {"ev": "Panic", "msg": "runtime error: index out of range [0] with length 0"})
                return recs
        return recs
    def reject_without_close(recs):
        for r in recs:
            if r["ev"] == "Response" and r["status"] >= 400 and r["close"]:
                r["close"] = False
                return recs
        return recs
    def handler_after_reject(recs):
        for i, r in enumerate(recs):
            if r["ev"] == "Response" and r["status"] >= 400 and r["close"]:
                recs.insert(i + 1, {"ev": "Handle", "seq": 9, "method": "GET", "target": "/"})
                return recs
        return recs
    def second_response(recs):
        for i, r in enumerate(recs):
            if r["ev"] == "Response" and r["status"] >= 400 and r["close"]:
                recs.insert(i + 1, dict(r))
                return recs
        return recs
    def garbage(recs):
        for i, r in enumerate(recs):
            if r["ev"] == "ConnClosed":
                recs.insert(i, {"ev": "Garbage", "err": "malformed HTTP response", "at": 3})
                return recs
        return recs
    has_rej = [t for t in t2 if b'"status":400' in open(t, "rb").read(2_000_000)]
    base = has_rej[0] if has_rej else t2[0]
    for f, name in ((panic_event, "a panic escaping Engine.Serve"), (reject_without_close, "4xx rejection without Connection: close"),
                    (handler_after_reject, "handler run after a rejection"), (second_response, "two responses for one rejected request"),
                    (garbage, "output that is not well-formed HTTP")):
        lib.self_test(ctx, "H1RejectTrace", "H1RejectTrace.cfg", base, f, name=name, ncases=400)
    def big_handled(recs):
        # an oversized body handed to the handler instead of being rejected (strict spec must refuse it)
        k = 0
        for i, r in enumerate(recs):
            if r["ev"] == "Response" and r["status"] == 413:
                recs[i] = {"ev": "Handle", "seq": 1, "method": "POST", "target": "/big1", "ver": "1.1", "fields": [], "rd": 172}
                return recs
        return recs
    with413 = [t for t in t1 if b'"status":413' in open(t, "rb").read()]
    lib.self_test(ctx, "H1ServerTrace", "H1ServerTrace.cfg", with413[0] if with413 else t1[0], big_handled,
                  name="oversized body handed to a handler", ncases=5000)

    cnt = h1common.event_counts(t2, ["Handle", "Response"])
    rejects = 0
    for t in t2:
        with open(t) as f:
            for line in f:
                if '"ev":"Response"' in line and '"close":true' in line and ('"status":400' in line or '"status":413' in line):
                    rejects += 1
    tl = lib.read_lines(base)
    s, e = lib.case_at(tl, 3)
    ctx.cov.update({
        "evaluations": n1 + n2, "distinct_nontrivial": nm, "exhaustive": True, "traces_validated_against_impl": n1 + n2,
        "mutated_streams": nm, "strict_histories": nh, "server_rejections_observed": rejects, "requests_accepted": cnt["Handle"],
        "samples": [{"recorded_trace": [json.loads(x) for x in tl[s - 1:e] if '"Deliver"' not in x][:10]}],
        "rule": "H1MutGen (TLC): every single token-level mutation (delete, duplicate, truncate, replace by / insert each of 19 hostile tokens incl. NUL, CR, LF, "
                "0xC3, 0xFF, -1, 20-digit number, %zz, a:b, CRLFCRLF) of 12 valid request streams + seeded double mutations, each delivered whole and byte-wise, "
                "buffered and streaming, to the default engine (no recovery middleware) with a handler that touches every lazily parsed request part; validated "
                "against H1Reject. Plus H1TraceGen's must-reject histories (body over the limit, malformed heads, peer closing mid-request) validated strictly "
                "against H1Server. Non-trivial = distinct mutated streams. Exhaustive for single mutations of the corpus.",
    })
    ctx.assumptions += ["token-level, structure-aware inputs only: no coverage-guided byte-level fuzzing (DESIGN 7)",
                        "router-level 4xx answers (missing Host, bad path, 404/405) count as handled requests: the engine was entered and middleware ran",
                        "client response read path under mutated responses is not part of this check yet"]
    # (b) parsers
    try:
        p = importlib.import_module("checks.c03p")
    except Exception as ex:   # not integrated yet
        p = None
    if p is not None and hasattr(p, "run_part"):
        summary = p.run_part(ctx)
        ctx.cov["parsers"] = summary
