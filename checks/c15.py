"""C15 -- binding fills each field from the highest-priority source that carries it; the decoder cache never changes
the result.  DESIGN.md 4/C15, spec/Binding*.tla, harness/drivers/c15, notes/C15.md."""
import glob, json, os
from . import lib

TRACE = ("BindingTrace", "BindingTrace.cfg")


def _race_env(d):
    # a data race must not kill the driver (that would be an infrastructure error): it is logged and turned into a
    # `Race` event of the trace, for which the specification has no action
    return {"GORACE": "halt_on_error=0 exitcode=0 log_path=%s" % os.path.join(d, "race")}


def _inject_race(d, traces):
    """If the race detector reported something, append a Race event to the first case of the first trace file."""
    logs = [p for p in glob.glob(os.path.join(d, "race*")) if os.path.getsize(p) > 0]
    if not logs:
        return 0
    txt = open(logs[0]).read()
    where = [l.strip() for l in txt.splitlines() if l.strip().startswith("github.com/cloudwego/hertz")][:2]
    lines = lib.read_lines(traces[0])
    for i, l in enumerate(lines):
        if '"ev":"End"' in l:
            lines.insert(i, json.dumps({"ev": "Race", "reports": txt.count("WARNING: DATA RACE"),
                                        "where": " | ".join(w.replace('"', "'") for w in where)[:300]}, separators=(",", ":")))
            break
    with open(traces[0], "w") as f:
        f.write("\n".join(lines) + "\n")
    return txt.count("WARNING: DATA RACE")


def _drive(ctx, cases, out, race=False, chunks=None):
    drv = lib.go_build("c15", race=race)
    for old in glob.glob(os.path.join(out, "trace_*.ndjson")) + glob.glob(os.path.join(out, "race*")):
        os.remove(old)
    lib.run_driver(drv, ["-cases", cases, "-out", out, "-chunks", chunks or lib.NCPU], timeout=1500,
                   env=_race_env(out) if race else None)
    traces = sorted(glob.glob(os.path.join(out, "trace_*.ndjson")))
    if race and traces:
        n = _inject_race(out, traces)
        if n:
            lib.log("race detector: %d report(s)" % n)
    return traces


def _history_first(res):
    """handle_rejections confirms only the first few rejections by re-running the case alone.  A defect of the
    decoder cache (result depends on which OTHER types were bound before) reproduces alone only in cases that
    contain several types, so rejected order/conc cases are confirmed first, then multi, then single."""
    rank = {"order": 0, "conc": 0, "multi": 1}
    items = []
    for trace, bad in res:
        if not bad:
            continue
        lines = lib.read_lines(trace)
        for ln in bad:
            s, _ = lib.case_at(lines, min(ln, len(lines)))
            try:
                kind = json.loads(lines[s - 1]).get("kind")
            except Exception:
                kind = None
            items.append((rank.get(kind, 2), trace, ln))
    out = []
    for r in (0, 1, 2):      # grouped per trace file again (handle_rejections reads the file once per entry)
        for trace, _ in res:
            lns = [ln for rk, t, ln in items if rk == r and t == trace]
            if lns:
                out.append((trace, lns))
    return out or res


def _self_tests(ctx, tests):
    """lib.self_test for several corruptions at once: the corrupted traces are validated side by side (one TLC process
    each, in parallel) instead of one after the other; same bookkeeping and the same verdict (not rejected => exit 2)."""
    files = []
    for k, (trace_file, mutate, name, ncases) in enumerate(tests):
        lines = lib.read_lines(trace_file)
        idx = [i for i, l in enumerate(lines) if '"ev":"Case"' in l]
        end = idx[ncases] if len(idx) > ncases else len(lines)
        recs = [json.loads(l) for l in lines[:end]]
        mut = mutate([json.loads(json.dumps(r)) for r in recs])
        if mut == recs:
            raise lib.Infra("self-test mutation '%s' changed nothing" % name)
        p = os.path.join(ctx.scratch, "selftest_c15_%d.ndjson" % k)
        with open(p, "w") as f:
            for r in mut:
                f.write(json.dumps(r, separators=(",", ":")) + "\n")
        files.append(p)
    res = dict(lib.validate(ctx, TRACE[0], TRACE[1], files, count=False))
    for p, (_, _, name, _) in zip(files, tests):
        bad = res.get(p, [])
        ctx.cov["self_test"].append({"name": name, "rejected_lines": bad[:5], "rejected": bool(bad)})
        if not bad:
            raise lib.Infra("binding self-test '%s' was NOT rejected by %s: the trace specification does not constrain "
                            "the recorded behaviour" % (name, TRACE[0]))
        lib.log("self-test '%s': rejected as required (line %s)" % (name, bad[0]))


def rerun(ctx, case_lines):
    """Run one case alone on the real code and validate it; True if rejected again."""
    d = ctx.sub("rerun")
    if any('"ev":"Race"' in l for l in case_lines):
        # A data-race report cannot be attributed to one case (the detector does not know about cases), so "the case
        # alone" is the batch of concurrent cases: run it again under the race detector; rejected again iff the
        # detector reports again (the Race event has no action in the specification).
        cf = getattr(ctx, "c15_conc_cases", None)
        if not cf or not os.path.exists(cf):
            cf, _ = lib.gen_cases(ctx, "BindingGen", "BindingGen_conc.cfg", out_name="conc_rerun.ndjson", timeout=900)
        traces = _drive(ctx, cf, d, race=True, chunks=4)
        r = lib.validate(ctx, TRACE[0], TRACE[1], traces[:1], count=False)
        return bool(r[0][1])
    c = json.loads(case_lines[0])
    c.pop("ev", None)
    cf = os.path.join(d, "case.ndjson")
    with open(cf, "w") as f:
        f.write(json.dumps(c) + "\n")
    race = bool(c.get("conc")) and not ctx.quick
    traces = _drive(ctx, cf, d, race=race, chunks=1)
    r = lib.validate(ctx, TRACE[0], TRACE[1], traces, count=False)
    return bool(r[0][1])


def run(ctx):
    q = ctx.quick
    lib.go_build("c15")
    # 1. the specification: cache protocol (2 goroutines) + the code-shaped decoder refines the declarative property
    r = lib.spec_check(ctx, "BindingMC", "Binding_mc.cfg", workers=4,
                       note="cache protocol: 2 goroutines x 2 binds x 3 types x 2 requests; ASSUME ExecRefinesProperty over the "
                            "single-field family (MCFieldSet x MCReqSet)")
    # 2. cases enumerated / sampled by TLC
    cases, n = lib.gen_cases(ctx, "BindingGen", "BindingGen_quick.cfg" if q else "BindingGen_thorough.cfg", timeout=2400)
    # 3. run them on the real binder
    # quick: 8 trace files (every TLC process pays ~3 s of start-up CPU; assume ~4 free cores), thorough: one per core
    traces = _drive(ctx, cases, ctx.sub("traces"), chunks=8 if q else lib.NCPU)
    ran = sum(lib.count_cases(t) for t in traces)
    ctraces, cn = [], 0
    if not q:   # concurrent binds under the race detector
        ccases, cn = lib.gen_cases(ctx, "BindingGen", "BindingGen_conc.cfg", out_name="conc.ndjson", timeout=900)
        ctx.c15_conc_cases = ccases
        ctraces = _drive(ctx, ccases, ctx.sub("ctraces"), race=True, chunks=4)
        ran += sum(lib.count_cases(t) for t in ctraces)
    if ran != n + cn:
        raise lib.Infra("driver ran %d cases, TLC generated %d" % (ran, n + cn))
    # 4. validate every recorded bind against the specification
    res = lib.validate(ctx, TRACE[0], TRACE[1], traces + ctraces, timeout=2400)
    lib.handle_rejections(ctx, _history_first(res), lambda cl: rerun(ctx, cl))

    # 5. binding self-tests (on cases that were accepted: the first cases of a chunk, known-finding cases removed)
    def clean(recs):
        out, keep = [], True
        for r in recs:
            if r["ev"] == "Case":
                keep = not r.get("shadow")
            if keep:
                out.append(r)
        return out

    tests = []

    def wrong_value(recs):
        recs = clean(recs)
        k = 0
        for r in recs:
            if r["ev"] == "Bound" and not r["err"] and r["fields"]:
                k += 1
                if k == 3:
                    f = r["fields"][0]
                    f["s"] = ["1"] if f["s"] != ["1"] else ["0"]
                    f["k"] = "v" if f["k"] != "list" else "list"
                    return recs
        return recs
    tests.append((traces[0], wrong_value, "one recorded field value changed", 60))

    def swallow_error(recs):
        recs = clean(recs)
        for r in recs:
            if r["ev"] == "Bound" and r["err"] and "required" in r["msg"]:
                r["err"] = False
                r["fields"] = [{"k": "v", "s": ["0"]}]
                return recs
        return recs
    tests.append((traces[1 % len(traces)], swallow_error, "a required-missing error replaced by a silent zero", 400))

    def warm_differs(recs):
        recs = clean(recs)
        first = {}
        for r in recs:
            if r["ev"] == "Case":
                first = {}
            if r["ev"] == "Bound":
                key = (r["t"], r["r"])
                if key in first and not r["err"] and r["fields"] and r["fields"][0]["k"] == "v":
                    # still an acceptable-looking value for many kinds, but different from the cold bind
                    r["fields"][0]["s"] = ["1"] if r["fields"][0]["s"] != ["1"] else ["0"]
                    return recs
                first[key] = r
        return recs
    tests.append((traces[2 % len(traces)], warm_differs, "warm-cache result differs from the cold-cache result", 60))

    def drop_firstuse(recs):
        recs = clean(recs)
        for i, r in enumerate(recs):
            if r["ev"] == "FirstUse":
                del recs[i]
                return recs
        return recs
    tests.append((traces[3 % len(traces)], drop_firstuse, "FirstUse event dropped", 20))

    _self_tests(ctx, tests)

    # 6. evidence
    kinds, binds, nontriv, types, idents = {}, 0, 0, 0, 0
    samples = []
    for cf in [cases] + ([os.path.join(ctx.scratch, "conc.ndjson")] if not q else []):
        with open(cf) as f:
            for line in f:
                c = json.loads(line)
                kinds[c["kind"]] = kinds.get(c["kind"], 0) + 1
                binds += len(c["prog"])
                types += len(c["types"])
                idents += sum(1 for o in c["prog"] if o["op"] == "first")
                # non-trivial: at least one request in which a field has >= 2 of its tagged sources present
                # (priority decides) or a required/default/conversion rule decides
                for rq in c["reqs"]:
                    have = {(v["src"], v["name"]) for v in rq["vals"]}
                    if any(sum((t["src"], t["name"]) in have for t in fl["tags"]) >= 2 or
                           (not any((t["src"], t["name"]) in have for t in fl["tags"]) and
                            (fl["def"] or any(t["req"] for t in fl["tags"])))
                           for ty in c["types"] for fl in ty["fields"]):
                        nontriv += 1
                if len(samples) < 4 and c["kind"] not in [s.get("kind") for s in samples] and len(line) < 6000:
                    samples.append(c)
    tl = lib.read_lines(traces[0])
    s, e = lib.case_at(tl, min(len(tl), 30))
    samples.append({"recorded_trace": [json.loads(x) for x in tl[s - 1:e]][:12]})
    ctx.cov.update({
        "evaluations": binds, "distinct_nontrivial": nontriv, "exhaustive": True,
        "traces_validated_against_impl": n + cn, "samples": samples,
        "cases_by_kind": kinds, "types": types, "fresh_type_identities": idents,
        "rule": "evaluations = Bind/BindAndValidate calls on the real binder, each validated against Binding.tla. "
                "TLC enumerates EVERY single-field type (" + ("11" if q else "26") + " kinds x every tag subset of size <= %d x required on none/one/all "
                "tags x default none/one) with EVERY presence pattern over its tagged sources (+ the form->query fallback), "
                "2 systematic (distinct values; winner present-but-empty) + %d seeded random text assignments each; plus seeded multi-field types (2..6 fields sharing "
                "names, all 26 kinds), the boundary sweep (21 integer kinds x 6 sources x 31 texts at the width limits), orders of "
                "first use over 2..3 types, and concurrent binds%s. distinct_nontrivial = requests of the "
                "case files in which, for some field, at least two of its tagged sources are present (priority decides) "
                "or nothing is present and a default/required rule decides."
                % (3 if q else 6, 1 if q else 3, "" if q else " of 3..4 types under the race detector"),
    })
    ctx.assumptions += [
        "types are built with reflect.StructOf (exported fields F1..F6); a unique inert tag gives every instantiation a fresh "
        "runtime type, i.e. a cold decoder cache, without restarting the process",
        "requests are assembled on app.RequestContext through public setters (SetRequestURI, Header.Add/SetCookie, Params, "
        "SetBody + Content-Type), not parsed from wire bytes",
        "header tag names are written in canonical form (A, B); JSON names are unique per field; one body per request "
        "(form XOR json)",
        "unconstrained by the specification: error texts, empty path/JSON values (empty header/cookie/query/form values "
        "ARE constrained: present), ill-typed JSON literals, which of "
        "repeated values a scalar takes, form->query fallback for slice kinds, nil vs empty slice",
        "TLC 1.8.0 and the CommunityModules Json reader are trusted",
    ]
