"""C09 -- a recycled context, request or response is indistinguishable from a fresh one.  DESIGN.md 4/C09.

spec/CtxLifecycle.tla (+ CtxLifecycleTable.tla: the mutator alphabet with its touch families), CtxLifecycleGen.tla
(histories), CtxLifecycleTrace.tla (validation), harness/drivers/c09 (real Engine + recovery middleware over scripted
connections; stand-alone Acquire/Release objects; reflect coverage of the exported API).

The driver reports, per probe, the components whose dump differs from a brand-new object's (Probe + one Dirty line
per component); the trace specification decides per component.  Rejected Dirty lines are local (validation goes on),
every other rejected line drops its case."""
import collections, copy, glob, json, os, re, shutil
from . import lib

TRACE = ("CtxLifecycleTrace", "CtxLifecycleTrace.cfg")
# rejected events of these kinds mean that the check's own tables lag behind the code; they say nothing about the property
MAINTENANCE = {
    "Touched": "a mutator changes a component outside its Touch family in spec/CtxLifecycleTable.tla (regenerate/extend the table)",
    "Known": "the driver's mutator table and spec/CtxLifecycleTable.tla disagree",
    "Uncovered": "an exported method/field of the covered types is neither in the mutator alphabet, nor declared read-only in "
                 "harness/drivers/c09/cover.go, nor listed (with a reason) in Excluded of spec/CtxLifecycleTable.tla",
}


_dirty_re = re.compile(r'<<\s*"@@DIRTY",\s*(\d+)\s*>>')
_nd_re = re.compile(r'<<\s*"@@NDIRTY",\s*(\d+)\s*>>')


def _validate_one(args):
    ctx, trace, timeout, idx = args
    r = lib.tlc(ctx, TRACE[0], TRACE[1], workers=1, timeout=timeout, env={"VERIF_TRACE": trace}, tag="val_c09_%d" % idx, short=True)
    m = lib._bad_re.search(r.out)
    nd = _nd_re.search(r.out)
    if not m or not nd:
        return {"trace": trace, "ok": False, "error": r.tail(40), "rc": r.rc}
    bad = [int(x) for x in re.findall(r"\d+", m.group(1))]
    dirty = [int(x) for x in _dirty_re.findall(r.out)]
    if len(dirty) != int(nd.group(1)):
        return {"trace": trace, "ok": False, "error": "%d @@DIRTY lines printed, specification counted %s" % (len(dirty), nd.group(1)), "rc": r.rc}
    shutil.rmtree(r.dir, ignore_errors=True)
    return {"trace": trace, "ok": True, "bad": sorted(set(bad + dirty)), "consumed": int(m.group(2)), "total": int(m.group(3)),
            "generated": r.generated}


def _validate(ctx, traces, timeout=2400, count=True, par=None):
    """lib.validate for CtxLifecycleTrace: the specification prints rejected Dirty lines one by one (<<"@@DIRTY", line>>)
    instead of accumulating them in `bad`; both kinds of rejected lines are returned together."""
    import concurrent.futures, time
    traces = [t for t in traces if os.path.getsize(t) > 0]
    if not traces:
        raise lib.Infra("no traces to validate (dead driver)")
    t0 = time.time()
    with concurrent.futures.ThreadPoolExecutor(max_workers=par or min(lib.NCPU, len(traces))) as ex:
        res = list(ex.map(_validate_one, [(ctx, t, timeout, _validate.n + i) for i, t in enumerate(traces)]))
    _validate.n += len(traces)
    out = []
    for r in res:
        if not r["ok"]:
            raise lib.Infra("trace validation of %s with %s did not complete (rc=%s):\n%s" % (r["trace"], TRACE[0], r["rc"], r["error"]))
        if r["consumed"] != r["total"]:
            raise lib.Infra("trace validation consumed %d of %d lines of %s" % (r["consumed"], r["total"], r["trace"]))
        out.append((r["trace"], r["bad"]))
        if count:
            ctx.cov["events_validated"] += r["total"]
            ctx.cov["transitions"] += r["generated"]
    lib.log("validated %d trace file(s) with %s in %.1fs; rejected lines: %d" %
            (len(traces), TRACE[0], time.time() - t0, sum(len(b) for _, b in out)))
    return out


_validate.n = 0


def _drive(ctx, drv, cases, out, chunks, env=None, timeout=1500):
    os.makedirs(out, exist_ok=True)
    for old in glob.glob(os.path.join(out, "trace_*.ndjson")):
        os.remove(old)
    files = ctx.sub("files")
    stdout = lib.run_driver(drv, ["-cases", cases, "-out", out, "-chunks", chunks, "-scratch", files], timeout=timeout, env=env)
    stats = {}
    for ln in stdout.splitlines():
        if ln.startswith("{"):
            stats = json.loads(ln)
    return sorted(glob.glob(os.path.join(out, "trace_*.ndjson"))), stats


def _unknown_bad(ctx, trace, bad, lines=None):
    """rejected line numbers that do not match a known finding"""
    known = lib.load_known(ctx.pid)
    lines = lines or lib.read_lines(trace)
    out = []
    for ln in bad:
        if ln - 1 >= len(lines):
            out.append(ln)
            continue
        s, _ = lib.case_at(lines, ln)
        if not lib.match_known(known, json.loads(lines[s - 1]), json.loads(lines[ln - 1])):
            out.append(ln)
    return out


def _case_of(rec):
    c = dict(rec)
    c.pop("ev", None)
    return c


def rerun(ctx, case_lines):
    """Run ONE history alone on the real code and validate it; True = a line that is not a known finding is rejected again."""
    drv = lib.go_build("c09")
    d = ctx.sub("rerun")
    cf = os.path.join(d, "case.ndjson")
    with open(cf, "w") as f:
        f.write(json.dumps(_case_of(json.loads(case_lines[0]))) + "\n")
    traces, _ = _drive(ctx, drv, cf, d, 1)
    r = _validate(ctx, traces, count=False)
    return bool(_unknown_bad(ctx, r[0][0], r[0][1]))


def _expect_violation(ctx, cfg, what):
    """a negative configuration of the specification: TLC must find FreshAtProbe violated"""
    r = lib.tlc(ctx, "CtxLifecycle", cfg, workers=2, timeout=600)
    v = r.violated() or ""
    if "FreshAtProbe" not in v:
        raise lib.Infra("negative configuration %s did not produce the expected counterexample of FreshAtProbe (%s):\n%s" %
                        (cfg, v or "no violation", r.tail(30)))
    ctx.cov["spec_checks"].append({"module": "CtxLifecycle", "cfg": cfg, "distinct_states": r.distinct, "states_generated": r.generated,
                                   "wall_s": round(r.wall, 1), "expected": "FreshAtProbe violated", "note": what})
    lib.log("spec CtxLifecycle/%s: FreshAtProbe violated as expected (%s)" % (cfg, what))


def _race_reports(d):
    out = []
    for p in sorted(glob.glob(os.path.join(d, "race.*"))):
        txt = open(p, errors="replace").read()
        out += [b for b in txt.split("==================") if "DATA RACE" in b]
    return out


def _self_test(ctx, base, name, mutate):
    """corrupt an accepted recording: the validator must reject a line of the corrupted history (known findings aside)"""
    recs = [json.loads(l) for l in lib.read_lines(base)]
    mut = mutate(copy.deepcopy(recs))
    if mut is None or mut == recs:
        raise lib.Infra("self-test '%s' found nothing to corrupt in the recorded slice" % name)
    p = os.path.join(ctx.scratch, "selftest_%d.ndjson" % len(ctx.cov["self_test"]))
    with open(p, "w") as f:
        for r in mut:
            f.write(json.dumps(r, separators=(",", ":")) + "\n")
    res = _validate(ctx, [p], count=False)
    bad = _unknown_bad(ctx, p, res[0][1])
    ctx.cov["self_test"].append({"name": name, "rejected_lines": bad[:5], "rejected": bool(bad)})
    if not bad:
        raise lib.Infra("binding self-test '%s' was NOT rejected by %s: the trace specification does not constrain the recording" %
                        (name, TRACE[0]))
    lib.log("self-test '%s': rejected as required (line %s)" % (name, bad[0]))


def run(ctx):
    q = ctx.quick
    drv = lib.go_build("c09")
    drv_race = None if q else lib.go_build("c09", race=True)

    # 1. the design satisfies the property; the invariant is not vacuous
    lib.spec_check(ctx, "CtxLifecycle", "CtxLifecycle_mc_quick.cfg" if q else "CtxLifecycle_mc.cfg", workers=4 if q else 8, timeout=1500,
                   note="every kind; 2 slots x 2 objects, 2 requests per connection, %d mutator step(s) over every distinct touch set of "
                        "the 376-mutator alphabet; reset sets as in the code with the proposed headerLength repair" % (1 if q else 2))
    _expect_violation(ctx, "CtxLifecycle_neg.cfg", "ctx.Keys = nil dropped from RequestContext.ResetWithoutConn")
    _expect_violation(ctx, "CtxLifecycle_asis.cfg", "model variant without the ResponseHeader.headerLength reset (the defect fixed in hertz) must violate FreshAtProbe")

    # 2. histories enumerated by TLC
    cases, n = lib.gen_cases(ctx, "CtxLifecycleGen", "CtxLifecycleGen_quick.cfg" if q else "CtxLifecycleGen_thorough.cfg",
                             out_name="cases.ndjson", timeout=1500)
    seq_f, conc_f = os.path.join(ctx.scratch, "cases_seq.ndjson"), os.path.join(ctx.scratch, "cases_conc.ndjson")
    nseq = nconc = 0
    with open(cases) as f, open(seq_f, "w") as fs, open(conc_f, "w") as fc:
        for line in f:
            if '"kind":"conc"' in line:
                fc.write(line); nconc += 1
            else:
                fs.write(line); nseq += 1

    # 3. run on the real code.  Sequential histories: plain build, one locked OS thread per worker, so that the pooled
    #    object is normally the one handed back.  Concurrent histories: -race build in the thorough tier.
    chunks = 4 if q else lib.NCPU
    traces, stats = _drive(ctx, drv, seq_f, ctx.sub("traces"), chunks)
    races = []
    if nconc:
        rd = ctx.sub("race")
        env = {"GORACE": "log_path=%s halt_on_error=0 exitcode=0" % os.path.join(rd, "race")}
        ctraces, cstats = _drive(ctx, drv_race or drv, conc_f, ctx.sub("ctraces"), 2 if q else 3, env=env, timeout=2400)
        for i, t in enumerate(ctraces):          # one flat list of trace files
            dst = os.path.join(ctx.sub("traces"), "trace_conc_%03d.ndjson" % i)
            shutil.move(t, dst)
            traces.append(dst)
        for k, v in cstats.items():
            if isinstance(v, int) and k not in ("chunks", "mutators"):
                stats[k] = stats.get(k, 0) + v
        races = _race_reports(rd)
    ncases = sum(lib.count_cases(t) for t in traces)
    if ncases != n:
        raise lib.Infra("driver ran %d cases, TLC generated %d" % (ncases, n))

    # 4. validate every recorded line
    res = _validate(ctx, traces, timeout=2400, par=chunks)

    # 5. classify rejections
    unknown = collections.Counter()
    maint = []
    nontriv = set()
    nprobe = nrecycled = 0
    dirty_by_comp = collections.Counter()
    sample_trace = None
    for t, bad in res:
        tl = lib.read_lines(t)
        cur = None
        for ln in tl:                                   # measured coverage: probes that really ran on a recycled object
            if '"ev":"Case"' in ln:
                cur = json.loads(ln)
            elif '"ev":"Probe"' in ln:
                r = json.loads(ln)
                nprobe += 1
                if r.get("recycled"):
                    nrecycled += 1
                    nontriv.add((cur["kind"], tuple(cur["muts"]) if cur["kind"] != "conc" else cur["id"], cur.get("mode"),
                                 cur.get("ending"), cur.get("probe"), cur.get("shape"), cur.get("trace"), cur.get("setv")))
            elif '"ev":"Dirty"' in ln:
                dirty_by_comp[json.loads(ln)["comp"]] += 1
        for ln in _unknown_bad(ctx, t, bad, tl):
            r = json.loads(tl[ln - 1]) if ln - 1 < len(tl) else {"ev": "EOF"}
            if r["ev"] in MAINTENANCE:
                maint.append((r["ev"], json.dumps(r)[:300]))
            unknown[(r["ev"], r.get("comp"))] += 1
        if sample_trace is None and len(tl) > 400:
            s, e = lib.case_at(tl, len(tl) // 2)
            sample_trace = [json.loads(x) for x in tl[s - 1:e]]
    if maint:
        ev, rec = maint[0]
        raise lib.Infra("the check needs maintenance, no verdict on the property: %s.  First of %d such line(s): %s" %
                        (MAINTENANCE[ev], len(maint), rec))
    if unknown:
        lib.log("rejected lines not matching a known finding, by (event, component): %s" % dict(unknown))
    lib.handle_rejections(ctx, res, lambda cl: rerun(ctx, cl))

    # 6. binding self-tests on a slice of the recording without unknown rejections
    base = None
    for t, bad in res:
        if "conc" in os.path.basename(t) or _unknown_bad(ctx, t, bad):
            continue
        tl = lib.read_lines(t)
        idx = [i for i, l in enumerate(tl) if '"ev":"Case"' in l]
        pick = [i for i in idx if '"kind":"Ctx"' in tl[i]][:150]
        if len(pick) >= 20:
            out = []
            for i in pick:
                s, e = lib.case_at(tl, i + 1)
                out += tl[s - 1:e]
            base = os.path.join(ctx.scratch, "selftest_base.ndjson")
            with open(base, "w") as f:
                f.write("".join(x + "\n" for x in out))
            break
    if base is None:
        if not ctx.violations:
            raise lib.Infra("no accepted slice of the recording to run the binding self-tests on")
        lib.log("self-tests skipped: every chunk of the recording of this (violating) tree has unknown rejections")
    else:
        def add_dirty(recs):
            for i, r in enumerate(recs):
                if r["ev"] == "Probe" and r.get("recycled") and "resp.h.cookies" not in r["dirty"]:
                    r["dirty"] = sorted(r["dirty"] + ["resp.h.cookies"])
                    j = i + 1
                    while j < len(recs) and recs[j]["ev"] == "Dirty" and recs[j]["comp"] < "resp.h.cookies":
                        j += 1
                    recs.insert(j, {"ev": "Dirty", "conn": r["conn"], "obj": r["obj"], "comp": "resp.h.cookies"})
                    return recs
            return None
        _self_test(ctx, base, "a response cookie survives recycling (Dirty line added to a probe)", add_dirty)

        def kept_without_cause(recs):
            cur = None
            for i, r in enumerate(recs):
                if r["ev"] == "Case":
                    cur = r
                if r["ev"] == "Probe" and r.get("recycled") and "Ctx.SetClientIPFunc" not in cur["muts"]:
                    r["dirty"] = sorted(r["dirty"] + ["ctx.clientIPFunc"])
                    j = i + 1
                    while j < len(recs) and recs[j]["ev"] == "Dirty" and recs[j]["comp"] < "ctx.clientIPFunc":
                        j += 1
                    recs.insert(j, {"ev": "Dirty", "conn": r["conn"], "obj": r["obj"], "comp": "ctx.clientIPFunc"})
                    return recs
            return None
        _self_test(ctx, base, "a Kept component differs although no mutator touched it", kept_without_cause)

        def unknown_mutator(recs):
            for r in recs:
                if r["ev"] == "Mutate":
                    r["m"] = "Ctx.SetSomethingNew"
                    return recs
            return None
        _self_test(ctx, base, "a Mutate line names a mutator the Touch table does not know", unknown_mutator)

        def drop_endconn(recs):
            for i in range(len(recs) - 1):
                if recs[i]["ev"] == "EndConn" and recs[i + 1]["ev"] == "Acquire":
                    del recs[i]
                    return recs
            return None
        _self_test(ctx, base, "an EndConn line dropped (object acquired while still held)", drop_endconn)

    # 7. evidence
    samples = []
    with open(cases) as f:
        for i, line in enumerate(f):
            c = json.loads(line)
            if c["kind"] == "conc":
                c["muts"] = c["muts"][:5] + ["... (%d mutators, rotated by the seed)" % len(c["muts"])]
            if i in (0, n // 50, n // 4, n // 2, (3 * n) // 4) or (c["kind"] == "conc" and len(samples) < 7):
                samples.append(c)
    if sample_trace:
        samples.append({"recorded_trace": sample_trace[:40]})
    ctx.cov.update({
        "evaluations": n, "distinct_nontrivial": len(nontriv), "exhaustive": False,
        "traces_validated_against_impl": n, "samples": samples,
        "probes": nprobe, "probes_on_recycled_object": nrecycled, "dirty_lines_by_component": dict(dirty_by_comp),
        "driver_stats": stats, "race_detector_reports": len(races),
        "rule": "TLC enumerates histories from the 376-mutator Touch table: every single mutator x {same keep-alive connection, next "
                "connection, other concurrently open connection} x {return, abort, panic under recovery}; ordered pairs (%s) and seeded "
                "triples of context mutators; every single mutator and ordered pairs for acquired Request/Response/URI/Cookie and Args; "
                "concurrent histories (%s); plus one touch-measurement case per mutator and the API coverage case. Each history runs on "
                "the real code; every recorded line is validated by TLC. distinct_nontrivial = distinct histories (kind, mutators, mode, "
                "ending, probe, shape, trace) in which at least one probe really ran on an object that had been mutated earlier in the "
                "same history and came back from the pool (object identity logged at Acquire); pool misses are counted in "
                "probes - probes_on_recycled_object." %
                ("seeded 1/11 sample, one reuse mode each" if q else "all of them, on all three reuse modes", "plain build" if q else "16 goroutines, -race build"),
    })
    ctx.assumptions += [
        "the observable state is what harness/drivers/c09/dump.go reads through exported getters/fields (100 components); Date, addresses, "
        "timestamps, pointer identity, buffer capacities and unexported scratch space are excluded",
        "the fresh reference is the dump of a newly allocated context serving the same probe on a brand-new engine (checked reproducible at start-up)",
        "a mutator is exercised with one fixed argument set per table entry (variants for special header names)",
        "TLC and the CommunityModules Json reader are trusted",
    ]
    if races:
        hz = [b for b in races if "cloudwego/hertz/pkg" in b]
        raise lib.Infra("the race detector reported %d data race(s) (%d with hertz frames) while pooled contexts migrated between goroutines; "
                        "this is a finding to report, not a verdict on C09 (no probe was dirty because of it):\n%s" %
                        (len(races), len(hz), (hz or races)[0][:3000]))
