"""X03 (extension) -- two small components users lean on without thinking.  notes/X03.md has the details.

Part A  client address resolution (pkg/app/context.go: ClientIP, ClientIPWithOption, validateHeader, isTrustedProxy):
  spec/ClientIP.tla       addresses as table entries with octets, text forms rendered in TLA+, CIDR membership octet by
                          octet, Ref (the clauses A1-A6), Impl (the code transcribed), the case space; TLC: Impl = Ref
                          and the no-spoofing theorems on every case; ClientIP_multiline.cfg must refute A6 for Impl
  spec/ClientIPGen.tla    writes the cases;  harness/drivers/x03 -part ip runs them on the real code three ways
                          (context function, package default, real server loop with engine.SetClientIPFunc)
  spec/ClientIPTrace.tla  every case well-formed, every recorded result = Ref(case)
Part B  timer pool (pkg/common/timer/timer.go: AcquireTimer / ReleaseTimer):
  spec/TimerPool.tla      stop-and-drain protocol at code granularity + the runtime's expiry/send; B1-B4; negative cfgs
  spec/TimerPoolGen.tla   all scenarios of N steps of two users;  driver -part timer replays them (one goroutine)
  spec/TimerPoolTrace.tla replays the recorded events with TimerPool's own step functions
  + a "storm" case (several goroutines release around the expiry): the window of TimerPool_window.cfg on the real code
"""
import concurrent.futures, json, os, re
from . import lib

JOPT = {"_JAVA_OPTIONS": "-XX:ParallelGCThreads=2"}
PARTS = ("scan", "rand", "rest")      # the thorough ClientIP space is computed by three TLC processes side by side


def _env(ctx):
    return {"VERIF_SEED": ctx.seed}


def _write(path, lines):
    with open(path, "w") as f:
        for l in lines:
            f.write(l if l.endswith("\n") else l + "\n")


def _gen(ctx, module, cfg, out_name, timeout=1500):
    """lib.gen_cases with the seed in the environment of the generator"""
    return lib.gen_cases(ctx, module, cfg, out_name=out_name, env=_env(ctx), timeout=timeout)


def _expect_violation(ctx, module, cfg, what, note):
    r = lib.tlc(ctx, module, cfg, 1, 600, env=_env(ctx))
    if not re.search(r"Invariant %s is violated" % what, r.out):
        raise lib.Infra("%s/%s: expected a counterexample to %s\n%s" % (module, cfg, what, r.tail(25)))
    ctx.cov["spec_checks"].append({"module": module, "cfg": cfg, "distinct_states": r.distinct,
                                   "note": "NEGATIVE (must be violated, and is): " + note})


def spec_checks(ctx, q):
    """model checks of both specifications (positive ones count into states; negative ones must fail)"""
    note = "every case of the generated space is a state: WF, Impl = Ref (single-line headers), NoSpoof, RightMost, ResultShape"
    pos = [("ClientIPSpace", "ClientIPSpace_mc.cfg", 1, note)] if q else \
          [("ClientIPSpace", "ClientIPSpace_mc_thorough_%s.cfg" % p, 1, note + " (families: %s)" % p) for p in PARTS]
    pos += [("TimerPool", "TimerPool_mc.cfg", 2, "2 timers x 2 users x 2 cycles, all interleavings incl. the runtime's Fire: B1 B2 B3, Exclusive"),
           ("TimerPool", "TimerPool_go123.cfg", 2, "Go 1.23 channel semantics, split expiry/send, no drain: B1 B2 B3 hold"),
           ("TimerPool", "TimerPool_fix.cfg", 2, "split expiry/send + the proposed fix (pool only timers whose Stop succeeded): B1 B2 B3 hold"),
           ("TimerPool", "TimerPool_misuse.cfg", 2, "a user may release twice: an active timer is never handed out without panic (B4)")]
    if not q:
        pos.append(("TimerPool", "TimerPool_mc_thorough.cfg", 6, "3 timers x 3 users x 2 cycles"))
    neg = [("ClientIPSpace", "ClientIPSpace_multiline.cfg", "ImplIsRefAll",
            "the code reads only the first of several X-Forwarded-For lines (known finding X03-xff-first-line-only)"),
           ("TimerPool", "TimerPool_nodrain.cfg", "NoStaleTick", "ReleaseTimer without the drain leaves a stale tick"),
           ("TimerPool", "TimerPool_window.cfg", "NoStaleTick",
            "expiry and channel send as two runtime steps (Go < 1.23): Stop reports false, the drain finds nothing, the send lands "
            "after Put/Get/Reset (known finding X03-timer-stale-tick-window)"),
           ("TimerPool", "TimerPool_misuse_neg.cfg", "NoTrap", "after a double release initTimer's panic is reachable")]
    with concurrent.futures.ThreadPoolExecutor(max_workers=3 if q else 5) as ex:
        fp = [ex.submit(lib.spec_check, ctx, m, c, w, 2400, dict(JOPT, **_env(ctx)), 2, None, n) for m, c, w, n in pos]
        fn = [ex.submit(_expect_violation, ctx, m, c, what, n) for m, c, what, n in neg]
        for f in fp + fn:
            f.result()


# ---------------------------------------------------------------- running the driver

def run_part(drv, part, chunks, outdir, timeout=1800):
    """chunks: list of lists of case lines; one driver process per chunk.  Returns trace files."""
    os.makedirs(outdir, exist_ok=True)
    jobs = []
    for i, ch in enumerate(chunks):
        if not ch:
            continue
        cf = os.path.join(outdir, "%s_cases_%02d.ndjson" % (part, i))
        _write(cf, ch)
        jobs.append((cf, os.path.join(outdir, "%s_trace_%02d.ndjson" % (part, i))))
    with concurrent.futures.ThreadPoolExecutor(max_workers=min(8, len(jobs))) as ex:
        list(ex.map(lambda j: lib.run_driver(drv, ["-part", part, "-cases", j[0], "-out", j[1]], timeout=timeout), jobs))
    return [j[1] for j in jobs]


def _strip(c):
    return json.dumps(c, separators=(",", ":"))


def rerun(ctx, case_lines):
    """ONE case alone in a fresh process, validated; True = rejected again.  The storm is statistical: three tries."""
    drv = lib.go_build("x03")
    c = json.loads(case_lines[0])
    d = ctx.sub("rerun_%d" % len(os.listdir(ctx.scratch)))
    if "kind" in c:
        for rep in range(3 if c["kind"] == "storm" else 1):
            tr = run_part(drv, "timer", [[_strip(c)]], os.path.join(d, "r%d" % rep))
            if lib.validate(ctx, "TimerPoolTrace", "TimerPoolTrace.cfg", tr, env=_env(ctx), count=False)[0][1]:
                return True
        return False
    tr = run_part(drv, "ip", [[_strip(c)]], d)
    return bool(lib.validate(ctx, "ClientIPTrace", "ClientIPTrace.cfg", tr, env=_env(ctx), count=False)[0][1])


def run(ctx):
    q = ctx.quick
    drv = lib.go_build("x03")
    with concurrent.futures.ThreadPoolExecutor(max_workers=6) as ex:
        fs = ex.submit(spec_checks, ctx, q) if not os.environ.get("VERIF_X03_NOSPEC") else None   # development switch
        fa = [ex.submit(_gen, ctx, "ClientIPGen", "ClientIPGen_quick.cfg", "ip_cases.ndjson")] if q else \
             [ex.submit(_gen, ctx, "ClientIPGen", "ClientIPGen_thorough_%s.cfg" % p, "ip_cases_%s.ndjson" % p) for p in PARTS]
        fb = ex.submit(_gen, ctx, "TimerPoolGen", "TimerPoolGen_quick.cfg" if q else "TimerPoolGen_thorough.cfg", "timer_cases.ndjson")
        ip = []
        for f in fa:        # one numbering over the parts
            for l in lib.read_lines(f.result()[0]):
                ip.append(re.sub(r'^\{"ev":"Case","id":\d+,', '{"ev":"Case","id":%d,' % (len(ip) + 1), l))
        nip = len(ip)
        tf, nt = fb.result()
        # the real code, while the model checks are still running
        dflt = [l for l in ip if '"via":"default"' in l]      # own processes: nothing may have touched the package default
        opt = [l for l in ip if '"via":"default"' not in l]
        nproc = 4 if q else 12
        out = ctx.sub("traces")
        ip_traces = run_part(drv, "ip", lib.split_evenly(opt, nproc) + lib.split_evenly(dflt, 1 if q else 3), out)
        scn = lib.read_lines(tf)
        storm = {"ev": "Case", "id": nt + 1, "kind": "storm", "ms": 2500 if q else 15000, "workers": 4 if q else 8}
        t_traces = run_part(drv, "timer", lib.split_evenly(scn, nproc), out)
        t_traces += run_part(drv, "timer", [[_strip(storm)]], os.path.join(out, "storm"))
        if fs:
            fs.result()
    nrun = sum(lib.count_cases(t) for t in ip_traces + t_traces)
    if nrun != nip + nt + 1:
        raise lib.Infra("driver ran %d cases of %d" % (nrun, nip + nt + 1))

    res = lib.validate(ctx, "ClientIPTrace", "ClientIPTrace.cfg", ip_traces, env=_env(ctx), timeout=2400, par=nproc)
    res += lib.validate(ctx, "TimerPoolTrace", "TimerPoolTrace.cfg", t_traces, env=_env(ctx), timeout=2400, par=nproc)
    lib.handle_rejections(ctx, res, lambda cl: rerun(ctx, cl))
    if ctx.violations:
        return
    self_tests(ctx, ip_traces, t_traces)
    evidence(ctx, ip_traces, t_traces, nip, nt, q)


# ---------------------------------------------------------------- binding self-tests

def _clean_ip(recs):
    """drop the cases of the known finding (fl) and close the file: what is left must be accepted as recorded"""
    out, skip = [], False
    for r in recs:
        if r["ev"] == "Case":
            skip = r["fl"]
        if r["ev"] != "End" and not skip:
            out.append(r)
    return out + [{"ev": "End", "n": 0}]


def _close(recs):
    return [r for r in recs if r["ev"] != "End"] + [{"ev": "End", "n": 0}]


def _nth(recs, pred, n=0):
    c = [i for i, r in enumerate(recs) if pred(i, r)]
    if not c:
        raise lib.Infra("self-test: nothing to corrupt in the recorded prefix")
    return c[min(n, len(c) - 1)]


def _prefix(trace, ncases):
    """the records of the first ncases cases of a trace file"""
    lines = lib.read_lines(trace)
    idx = [i for i, l in enumerate(lines) if '"ev":"Case"' in l]
    end = idx[ncases] if len(idx) > ncases else len(lines)
    return [json.loads(l) for l in lines[:end]]


def _batch(ctx, module, cfg, items):
    """items: [(name, records)]; the first one is the uncorrupted base (must be accepted), every other one must be
    rejected.  One TLC process per file, side by side."""
    files = []
    for i, (name, recs) in enumerate(items):
        f = os.path.join(ctx.scratch, "selftest_%s_%d.ndjson" % (module, i))
        _write(f, [_strip(r) for r in recs])
        files.append(f)
    res = lib.validate(ctx, module, cfg, files, env=_env(ctx), count=False, par=4)
    if res[0][1]:
        raise lib.Infra("self-test base (recorded prefix, uncorrupted) was rejected by %s at line %s" % (module, res[0][1][:3]))
    for (name, _), (_, bad) in zip(items[1:], res[1:]):
        ctx.cov["self_test"].append({"name": name, "rejected_lines": bad[:5], "rejected": bool(bad)})
        if not bad:
            raise lib.Infra("binding self-test '%s' was NOT rejected by %s" % (name, module))
        lib.log("self-test '%s': rejected as required (line %s)" % (name, bad[0]))


def self_tests(ctx, ip_traces, t_traces):
    # ---- part A: a recorded prefix without the known-finding cases; in it a Case line is followed by its Out line
    base = _clean_ip(_prefix(ip_traces[0], 800))
    case_of = lambda recs, i: recs[i - 1]

    def from_header(recs, i, r):   # an Out whose case took the result from a header
        c = case_of(recs, i)
        return r["ev"] == "Out" and c["remote"]["k"] == "ip" and r["outs"][0] not in ("", c["remote"]["host"])

    def spoofed(recs):      # the left-most (client-controlled) entry instead of the right-most untrusted one
        def cand(i, r):
            return from_header(recs, i, r) and [l for l in case_of(recs, i)["lines"] if l["toks"][0]["txt"] != r["outs"][0]
                                                and l["toks"][0]["k"] == "ip" and len(l["toks"]) > 1]
        i = _nth(recs, cand)
        first = cand(i, recs[i])[0]["toks"][0]["txt"]
        recs[i] = dict(recs[i], outs=[first] * len(recs[i]["outs"]))
        return recs

    def header_ignored(recs):   # trusted peer, valid header, but one mode returns the remote address
        i = _nth(recs, lambda i, r: from_header(recs, i, r), 3)
        recs[i] = dict(recs[i], outs=recs[i]["outs"][:-1] + [case_of(recs, i)["remote"]["host"]])
        return recs

    def untrusted_believed(recs):   # untrusted peer, header believed
        def cand(i, r):
            c = case_of(recs, i)
            return r["ev"] == "Out" and c["remote"]["k"] == "ip" and c["lines"] and r["outs"][0] == c["remote"]["host"] \
                and c["lines"][0]["toks"][-1]["k"] == "ip" and c["lines"][0]["toks"][-1]["txt"] != r["outs"][0]
        i = _nth(recs, cand)
        recs[i] = dict(recs[i], outs=[case_of(recs, i)["lines"][0]["toks"][-1]["txt"]] * len(recs[i]["outs"]))
        return recs

    def forged_case(recs):      # the text handed to the code is not the rendering of the structure the spec reasons about
        i = _nth(recs, lambda i, r: r["ev"] == "Case" and r["lines"] and r["lines"][0]["toks"][0]["k"] == "ip", 2)
        ln = dict(recs[i]["lines"][0], val="6.6.6.6")
        recs[i] = dict(recs[i], lines=[ln] + recs[i]["lines"][1:])
        return recs

    import copy
    _batch(ctx, "ClientIPTrace", "ClientIPTrace.cfg", [("base", base)] + [(n, f(copy.deepcopy(base))) for n, f in (
        ("ClientIP returns the left-most X-Forwarded-For entry", spoofed),
        ("one mode ignores the header of a trusted peer", header_ignored),
        ("the header of an untrusted peer is believed", untrusted_believed),
        ("header text differs from the case structure", forged_case))])

    # ---- part B
    scn = [t for t in t_traces if "storm" not in t]
    base = _close(_prefix(scn[0], 400))
    mis = [t for t in scn if '"ev":"AcqPanic"' in open(t).read()]
    if mis:     # (a tree in which a double release no longer ends in the pool twice has no such scenario)
        lines = lib.read_lines(mis[0])
        at = [i for i, l in enumerate(lines) if '"ev":"AcqPanic"' in l][0]
        a, b = lib.case_at(lines, at + 1)
        base += [json.loads(l) for l in lines[a - 1:b]]
        base = _close(base)

    def stale_tick(recs):       # a tick in the channel right after AcquireTimer
        i = _nth(recs, lambda i, r: r["ev"] == "Acq" and recs[i - 1]["ev"] == "Rel" and r["d_us"] > 10 ** 6, 1)
        recs[i] = dict(recs[i], peek=1)
        return recs

    def early_tick(recs):       # the tick of a 2 ms timer received after 1.2 ms
        i = _nth(recs, lambda i, r: r["ev"] == "Recv" and r["got"], 2)
        recs[i] = dict(recs[i], el_us=1200)
        return recs

    def not_drained(recs):      # ReleaseTimer leaves the tick in the channel
        i = _nth(recs, lambda i, r: r["ev"] == "Rel" and recs[i - 1]["ev"] == "Wait", 1)
        recs[i] = dict(recs[i], left=1)
        return recs

    def never_fires(recs):      # a 2 ms timer that has not fired after 2 s
        i = _nth(recs, lambda i, r: r["ev"] == "Wait", 4)
        recs[i] = dict(recs[i], fired=False, el_us=2000123)
        return recs

    def silent_sharing(recs):   # after a double release the armed timer is handed out without the panic
        i = _nth(recs, lambda i, r: r["ev"] == "AcqPanic")
        recs[i] = {"ev": "Acq", "u": recs[i]["u"], "d_us": 1000000000, "tid": 1, "peek": 0, "el_us": 3}
        return recs

    def dropped_release(recs):  # one recorded ReleaseTimer missing
        i = _nth(recs, lambda i, r: r["ev"] == "Rel", 5)
        del recs[i]
        return recs

    _batch(ctx, "TimerPoolTrace", "TimerPoolTrace.cfg", [("base", base)] + [(n, f(copy.deepcopy(base))) for n, f in (
        ("a re-acquired timer has a tick in its channel at once", stale_tick),
        ("a tick arrives before the duration has elapsed", early_tick),
        ("ReleaseTimer leaves a tick in the channel", not_drained),
        ("an acquired 2 ms timer never fires", never_fires),
        ("one ReleaseTimer event dropped", dropped_release)) +
        ((("an armed timer is handed out twice without panic", silent_sharing),) if mis else ())])


# ---------------------------------------------------------------- evidence

def evidence(ctx, ip_traces, t_traces, nip, nt, q):
    fams, sigs, nontrivial, from_hdr, samples = {}, set(), 0, 0, {}
    for t in ip_traces:
        cur = None
        for line in open(t):
            r = json.loads(line)
            if r["ev"] == "Case":
                cur = r
            elif r["ev"] == "Out":
                fams[cur["fam"]] = fams.get(cur["fam"], 0) + 1
                names = [x["n"] for x in cur["names"]] if cur["via"] == "opt" else ["XFF", "XRI"]
                consulted = [l for l in cur["lines"] if l["n"] in names]
                sig = json.dumps([cur["via"], cur["remote"]["txt"], cur["remote"]["net"], cur["remote"]["real"], cur["nilc"],
                                  [c["txt"] for c in cur["cidrs"]], [x["txt"] for x in cur["names"]],
                                  [(l["txt"], l["val"]) for l in cur["lines"]]])
                if consulted and sig not in sigs:
                    nontrivial += 1
                sigs.add(sig)
                if r["outs"][0] not in ("", cur["remote"]["host"], cur["remote"]["txt"], "0.0.0.0"):
                    from_hdr += 1
                if cur["fam"] not in samples and len(cur["lines"]) >= 1:
                    samples[cur["fam"]] = {"case": cur, "recorded": r}
    scn_reuse, scn_total, per_ev, sample_scn, storm = 0, 0, {}, None, None
    for t in t_traces:
        cur, seen, reused, rec = None, set(), False, []
        for line in open(t):
            r = json.loads(line)
            per_ev[r["ev"]] = per_ev.get(r["ev"], 0) + 1
            if r["ev"] == "Case":
                cur, seen, reused, rec = r, set(), False, [r]
                continue
            rec.append(r)
            if r["ev"] == "Acq":
                reused = reused or r["tid"] in seen
                seen.add(r["tid"])
            elif r["ev"] == "Done":
                scn_total += 1
                scn_reuse += 1 if reused else 0
                if sample_scn is None and reused and per_ev.get("Wait") and any(x["ev"] == "Wait" for x in rec):
                    sample_scn = rec
            elif r["ev"] == "Storm":
                storm = r
    if scn_reuse * 3 < scn_total:
        raise lib.Infra("only %d of %d scenarios got a pooled timer back (sync.Pool not handing timers over?)" % (scn_reuse, scn_total))
    ctx.cov.update({
        "evaluations": nip + nt + 1, "distinct_nontrivial": nontrivial + scn_reuse, "exhaustive": False,
        "traces_validated_against_impl": nip + nt + 1,
        "clientip_cases": nip, "clientip_cases_per_family": fams, "clientip_result_taken_from_a_header": from_hdr,
        "timer_scenarios": nt, "timer_scenarios_with_a_reused_timer": scn_reuse, "timer_events_per_kind": per_ev, "storm": storm,
        "samples": list(samples.values())[:4] + [{"recorded_scenario": sample_scn}],
        "rule": "Part A: TLC (ClientIPGen) writes the case space of spec/ClientIP.tla: family scan = every X-Forwarded-For entry "
                "list of length 0..MaxToks over 9 entry kinds (trusted / untrusted / IPv6 / IPv4-mapped / 3 malformed) x X-Real-IP "
                "(absent, good, malformed, trusted) x 3 header orders x trusted and untrusted peer x spacing patterns; entry and "
                "peer = each of the 40 table addresses (first/last address of each range and its neighbours) in each text form x "
                "each of 24 CIDRs (/0 /1 /7 /8 /9 /15 /25 /30 /31 /32, IPv6 /0 /7 /10 /32 /96 /127 /128, IPv4 range written as "
                "::ffff:a.b.c.d/104), as list entry resp. as the peer (own net.Addr and real *net.TCPAddr); kinds = unix-domain, "
                "port-less, non-IP and missing peers x 9 option sets; multi = two lines of one header name; default = nothing "
                "configured; names = header-name spelling and order; rand = seeded pseudo-random cases over all dimensions. "
                "Every case is run three ways (context function / package default / real server loop). Non-trivial = a header "
                "named in RemoteIPHeaders is present in the request (there is a decision to make), counted over distinct "
                "(options, peer, header lines). Part B: TLC (TimerPoolGen) writes every well-formed scenario of exactly N steps "
                "(N = 6 quick, 7 thorough) of two users over acquire-short / acquire-never / wait-fired / receive / try-receive / "
                "release, plus double-release scenarios; non-trivial = the pool handed a released timer object to a later "
                "AcquireTimer in that scenario (measured by pointer identity). One storm case (goroutines releasing around the "
                "expiry) is added.",
    })
    ctx.assumptions += [
        "the text forms are rendered by the specification (dotted, ::ffff:a.b.c.d, hex groups, RFC 5952 short form from the "
        "table): net.ParseIP / net.ParseCIDR of the Go standard library must agree with the table's octets, which is checked "
        "implicitly by every accepted case; addresses outside the 40-entry table are not exercised",
        "the peer address is the driver's own net.Addr (any string) or a real *net.TCPAddr / *net.UnixAddr; header lines reach "
        "the code through RequestHeader.Add and, separately, through the real HTTP/1 parser",
        "engine.SetClientIPFunc is used as a set-up time option (a user function installed once; see notes)",
        "timer scenarios run on one goroutine with GOMAXPROCS(1) (so that sync.Pool hands the timer over) and Go < 1.23 timer "
        "channels (harness go.mod says go 1.19, like hertz's own): firing is observed through len(t.C); wall-clock enters only "
        "one-sided: a tick is never admitted before d elapsed; a 2 ms timer must have fired within 2 s; 'never' = 1000 s",
        "the storm is statistical: it can show the stale tick of the expiry/send window (known finding), it cannot prove its absence",
        "TLC and the CommunityModules Json reader are trusted",
    ]
