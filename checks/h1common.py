"""Shared pieces of the checks that replay request scripts into the real server (C01, C02, C14, C19, C03, C04)."""
import glob, json, os
from . import lib


def spec_h1server(ctx):
    """TLC: exhaustive check of H1Server (all scripts of abstract requests x both body modes x all Deliver interleavings)."""
    note = ("H1Server: scripts of <=%d abstract requests (Expect/close/handler-close/malformed/oversized/cut short), buffered+streaming, tracer on/off, "
            "failing writes, every interleaving of Deliver(1..3) with server steps; invariants CursorSync NoOverread OncePerRequest ResponsesFIFO "
            "CleanReject StreamExact TracerAlternates PairsBracket NothingAfterClose FinalIndependent")
    if ctx.quick:
        return lib.spec_check(ctx, "H1ServerMC", "H1ServerMC.cfg", workers=8, timeout=1500, note=note % 2)
    lib.spec_check(ctx, "H1ServerMC", "H1ServerMC_thorough.cfg", workers=16, timeout=2400, note=note % 2)
    return lib.spec_check(ctx, "H1ServerMC", "H1ServerMC_thorough3.cfg", workers=16, timeout=2400, note=note % 3)


def run_h1srv(ctx, drv, cases, outdir, modes="buffered,streaming", idle="inloop,poller", cuts="whole", extra=None, timeout=1500):
    args = ["-cases", cases, "-out", outdir, "-chunks", lib.NCPU, "-modes", modes, "-idle", idle, "-cuts", cuts, "-seed", ctx.seed]
    if extra:
        args += extra
    out = lib.run_driver(drv, args, timeout=timeout)
    info = json.loads(out.strip().splitlines()[-1])
    traces = sorted(glob.glob(os.path.join(outdir, "trace_*.ndjson")))
    return traces, info["cases"]


def rerun_h1srv_hist(ctx, seq, module="H1ServerTrace", cfg="H1ServerTrace.cfg", driver="h1srv"):
    """re-run a sequence of recorded cases in order in one process"""
    return rerun_h1srv(ctx, [cl[0] for cl in seq], module, cfg, driver, many=True)


def rerun_h1srv(ctx, case_lines, module="H1ServerTrace", cfg="H1ServerTrace.cfg", driver="h1srv", many=False):
    drv = lib.go_build(driver)
    d = ctx.sub("rerun")
    cf = os.path.join(d, "case.ndjson")
    with open(cf, "w") as f:
        for cl in (case_lines if many else case_lines[:1]):
            c = json.loads(cl)
            c.pop("ev", None)
            f.write(json.dumps(c) + "\n")
    for old in glob.glob(os.path.join(d, "trace_*.ndjson")):
        os.remove(old)
    args = ["-cases", cf, "-out", d, "-chunks", 1]
    tag = c.get("cutTag", "")
    if tag.startswith("tcp:"):
        args += ["-net", tag[4:]]
    lib.run_driver(drv, args)
    r = lib.validate(ctx, module, cfg, glob.glob(os.path.join(d, "trace_*.ndjson")), count=False)
    return bool(r[0][1])


def event_counts(traces, names):
    cnt = {n: 0 for n in names}
    for t in traces:
        with open(t) as f:
            for line in f:
                for n in names:
                    if '"ev":"%s"' % n in line:
                        cnt[n] += 1
                        break
    return cnt
