"""C14 -- a streamed request body reads exactly the body and keeps the connection in sync.  DESIGN.md 4/C14."""
import json, os
from . import lib, h1common


def rerun(ctx, case_lines):
    return h1common.rerun_h1srv(ctx, case_lines)


def rerun_hist(ctx, seq):
    return h1common.rerun_h1srv_hist(ctx, seq)


def run(ctx):
    drv = lib.go_build("h1srv")
    h1common.spec_h1server(ctx)
    cases, n = lib.gen_cases(ctx, "H1StreamGen", "H1StreamGen_quick.cfg" if ctx.quick else "H1StreamGen_thorough.cfg",
                             out_name="stream.ndjson", timeout=1800)
    a, b = ctx.sub("traces_a"), ctx.sub("traces_b")
    # A: whole + seeded cuts, with and without withholding the bytes behind the body until the handler returned
    ta, na = h1common.run_h1srv(ctx, drv, cases, a, modes="streaming", cuts="whole,rand2x6" if ctx.quick else "whole,rand6x8,bytewise",
                                extra=["-gate", "both", "-maxwire", "300"])
    # B: a cut at b-1,b,b+1 of every structural boundary (head end, chunk edges, body end = prefetch/End(i) cuts)
    tb, nb = h1common.run_h1srv(ctx, drv, cases, b, modes="streaming", idle="inloop" if ctx.quick else "inloop,poller", cuts="bounds",
                                extra=["-gate", "off"])
    # the same scripts with a body-size limit below most bodies (streaming does not reject them: the prefetch path differs)
    # (limit 64: the big bodies exceed it; limit 4: the small ones do, with the next request in the same read)
    # (limits 5 and 17 equal two of the body lengths: a body of exactly the limit is not "over" it)
    for lim in (64, 4, 5, 17):
        limited = os.path.join(ctx.scratch, "stream_limited%d.ndjson" % lim)
        with open(cases) as f, open(limited, "w") as g:
            for i, line in enumerate(f):
                if ctx.quick and i % (3 if lim in (64, 4) else 5):
                    continue
                c = json.loads(line)
                c["fault"] = {"truncate": 0, "wfail": 0, "maxBody": lim, "stall": False}
                g.write(json.dumps(c) + "\n")
        tl_, nl_ = h1common.run_h1srv(ctx, drv, limited, ctx.sub("traces_limited%d" % lim), modes="streaming", idle="inloop", cuts="whole,rand1x6", extra=["-gate", "both", "-maxwire", "300"])
        tb = tb + tl_
        nb += nl_
    # the peer gives up inside the body (closes) while or after the handler read a
    # part of it: the rest cannot be skipped, the connection must end, and the pooled stream object must not carry
    # its position into a later request (the cases are interleaved with the complete ones of run B)
    cutf = os.path.join(ctx.scratch, "stream_cut.ndjson")
    with open(cases) as f, open(cutf, "w") as g:
        for i, line in enumerate(f):
            if ctx.quick and i % 2:
                continue
            c = json.loads(line)
            o = c["offs"][0]
            blen = o["end"] - o["headEnd"]
            if blen < 2:
                continue
            at = [o["end"] - 1, o["end"] - 2, o["headEnd"] + blen // 2, o["headEnd"] + 1][i % 4]
            if at <= o["headEnd"] or at >= o["end"]:
                continue
            c["fault"] = {"truncate": at, "wfail": 0, "maxBody": 0, "stall": False}
            g.write(json.dumps(c) + "\n")
            if i % 5 == 0:       # a complete streamed exchange right after it (same worker, same pools)
                g.write(line)
    tc_, nc_ = h1common.run_h1srv(ctx, drv, cutf, ctx.sub("traces_cut"), modes="streaming", idle="inloop", cuts="whole,rand1x6", extra=["-gate", "off"])
    tb = tb + tc_
    nb += nc_
    # real transports over loopback TCP
    tn = []
    nn = 0
    for kind in (["netpoll"] if ctx.quick else ["netpoll", "standard"]):
        t, k = h1common.run_h1srv(ctx, drv, cases, ctx.sub("traces_" + kind), modes="streaming", idle="inloop", cuts="whole", extra=["-net", kind])
        tn += t
        nn += k
    res = lib.validate(ctx, "H1ServerTrace", "H1ServerTrace.cfg", ta + tb + tn, timeout=1800)
    lib.handle_rejections(ctx, res, lambda cl: rerun(ctx, cl), rerun_hist=lambda seq: h1common.rerun_h1srv_hist(ctx, seq))

    def overread(recs):
        # a stream read that returns one byte of the following request as body
        for i, r in enumerate(recs):
            if r["ev"] == "Read" and r["k"] >= 1 and r["eof"] is False and r["runs"]:
                j = i + 1
                while recs[j]["ev"] == "Read":
                    j += 1
                last = recs[j - 1]
                if last["k"] >= 1:
                    last["runs"].append([0, 0, 1]); last["k"] += 1
                    return recs
        return recs
    def early_eof(recs):
        for r in recs:
            if r["ev"] == "Read" and r["k"] >= 2 and not r["eof"]:
                r["eof"] = True
                return recs
        return recs
    def probe_garbled(recs):
        for r in recs:
            if r["ev"] == "Handle" and r["seq"] == 2:
                r["target"] = r["target"][1:]
                return recs
        return recs
    def blocked(recs):
        for i, r in enumerate(recs):
            if r["ev"] == "Read":
                recs.insert(i, {"ev": "Blocked", "pos": 1, "inHandler": True})
                return recs
        return recs
    big = sorted(ta, key=os.path.getsize, reverse=True)
    for f, name in ((overread, "stream read returns a byte beyond the body"), (early_eof, "EOF reported before the end of the body"),
                    (probe_garbled, "pipelined probe request parsed from the wrong offset"),
                    (blocked, "a read blocked waiting for bytes beyond the body")):
        lib.self_test(ctx, "H1ServerTrace", "H1ServerTrace.cfg", big, f, name=name, ncases=120)

    # non-trivial: cases where the handler stopped strictly inside the body and a probe followed
    partial = probed = closed_unread = 0
    for t in ta + tb:
        stop_inside = False
        with open(t) as f:
            got = 0; blen = -1
            for line in f:
                if '"ev":"Case"' in line:
                    c = json.loads(line); blen = c["script"][0]["bodyLen"]; got = 0; hseq = 0; counted = False
                elif '"ev":"Read"' in line and hseq == 1:
                    got += json.loads(line)["k"]
                elif '"ev":"Handle"' in line:
                    hseq = json.loads(line)["seq"]
                    if hseq == 2 and got < blen:
                        probed += 1
                elif '"ev":"HandleEnd"' in line and hseq == 1 and got < blen and not counted:
                    partial += 1; counted = True
    tl = lib.read_lines(ta[0])
    s, e = lib.case_at(tl, 3)
    ctx.cov.update({
        "evaluations": na + nb + nn, "cases_over_real_tcp_transports": nn, "distinct_nontrivial": partial, "probe_after_partial_read": probed, "exhaustive": False,
        "traces_validated_against_impl": na + nb + nn, "scripts": n,
        "samples": [{"recorded_trace": [json.loads(x) for x in tl[s - 1:e]][:20]}],
        "rule": "H1StreamGen (TLC): body lengths {0,1,5,17, 8193, 16385 (+thorough set)} x encodings (Content-Length, one chunk, n-1+1, 1-byte chunks, "
                "255+rest) x consumption programs (EVERY stop point byte-by-byte for small bodies incl. one read past the end, reads of 3, exact/over-long "
                "reads, stop at 4096/8192/8193/254/255/256/n-1/n for large ones, read-to-EOF with several sizes) + a pipelined probe; run in streaming "
                "mode, in-loop and poller, whole / seeded cuts / cuts around every boundary, with and without withholding the bytes behind the body until "
                "the handler returned. Non-trivial = handler stopped strictly inside the body (measured); probe_after_partial_read = those where the "
                "probe request was then served on the same connection.",
    })
    ctx.assumptions += ["reads that would block on bytes beyond the body are detected through the scripted connection's gate (no timing involved)",
                        "closing the connection after an unread body is always accepted (the property allows it)", "same trusted base as C01"]
