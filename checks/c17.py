"""C17 -- URI, query-string and cookie codecs round-trip.  DESIGN.md 4/C17, spec/Codec.tla.

Pipeline: TLC checks the enumeration machinery and the laws on a reference codec (CodecMC / Codec_mc.cfg) ->
TLC writes the plan (CodecGen: token tables + the blocks that partition every family of the tier) -> the driver
walks every block in Codec!Succ order through the real pkg/protocol setters / formatters / parsers and
net/url.ParseQuery -> TLC validates every recorded line against Codec (CodecTrace: `in = cur`, laws L1..L4,
`cur' = Succ(blk, cur)`, `End` only after the last input of the block)."""
import glob, json, os
from . import lib

TRACE_MOD, TRACE_CFG = "CodecTrace", "CodecTrace.cfg"


def _tables_line(ctx):
    """the tables record of the plan (needed by the driver for every run)"""
    t = getattr(ctx, "_c17_tables", None)
    if t is None:
        cases, _ = lib.gen_cases(ctx, "CodecGen", "CodecGen_quick.cfg", out_name="c17_tables_plan.ndjson", timeout=600)
        with open(cases) as f:
            t = f.readline().rstrip("\n")
        ctx._c17_tables = t
    if '"kind":"tables"' not in t:
        raise lib.Infra("first record of the plan is not the tables record")
    return t


def _block_of_case(case_rec):
    b = {k: v for k, v in case_rec.items() if k not in ("ev", "seed")}
    b["kind"] = "block"
    return b


def _run_blocks(ctx, blocks, name, seed):
    """run the driver on the given block records alone (one trace file) -> trace path"""
    drv = lib.go_build("c17")
    d = ctx.sub(name)
    for old in glob.glob(os.path.join(d, "trace_*.ndjson")):
        os.remove(old)
    cf = os.path.join(d, "plan.ndjson")
    with open(cf, "w") as f:
        f.write(_tables_line(ctx) + "\n")
        for b in blocks:
            f.write(json.dumps(b, separators=(",", ":")) + "\n")
    lib.run_driver(drv, ["-cases", cf, "-out", d, "-chunks", 1, "-seed", seed])
    tr = glob.glob(os.path.join(d, "trace_*.ndjson"))
    if len(tr) != 1:
        raise lib.Infra("driver wrote %d trace files for a single-chunk run" % len(tr))
    return tr[0]


def rerun(ctx, case_lines):
    """Run ONE block alone on the real code and validate it; True if a line is rejected again that is not a
    recorded known finding."""
    c = json.loads(case_lines[0])
    if c.get("ev") != "Case":
        return None
    tr = _run_blocks(ctx, [_block_of_case(c)], "rerun", c.get("seed", ctx.seed))
    res = lib.validate(ctx, TRACE_MOD, TRACE_CFG, [tr], count=False)
    bad = res[0][1]
    if not bad:
        return False
    known = lib.load_known(ctx.pid)
    lines = lib.read_lines(tr)
    case_rec = json.loads(lines[0])
    for ln in bad:
        ev = json.loads(lines[ln - 1]) if ln - 1 < len(lines) else None
        if not lib.match_known(known, case_rec, ev):
            return True
    return False


def run(ctx):
    drv = lib.go_build("c17")
    q = ctx.quick

    # 1. the specification: enumeration machinery (walk = block set, blocks partition the families, no repeats)
    #    and the laws on the reference codec; laws reject broken codecs (ASSUME McAssumptions)
    lib.spec_check(ctx, "CodecMC", "Codec_mc.cfg", workers=4, timeout=900,
                   note="walk of every block of 9 small families with the reference codec: InBlock, NoRepeat, Complete, "
                        "LawsHold; ASSUME: blocks partition each family, broken codecs violate L2/L3")

    # 2. the plan
    cases, n = lib.gen_cases(ctx, "CodecGen", "CodecGen_quick.cfg" if q else "CodecGen_thorough.cfg",
                             out_name="c17_plan.ndjson", timeout=1800)
    with open(cases) as f:
        ctx._c17_tables = f.readline().rstrip("\n")
        plan = [json.loads(l) for l in f]
    nblocks = len(plan)
    if nblocks != n - 1 or any(b.get("kind") != "block" for b in plan):
        raise lib.Infra("unexpected plan layout")

    # 3. walk it on the real code
    out = ctx.sub("traces")
    nfiles = 16 if q else 160
    stats = json.loads(lib.run_driver(drv, ["-cases", cases, "-out", out, "-chunks", nfiles, "-seed", ctx.seed],
                                      timeout=1800).strip().splitlines()[-1])
    traces = sorted(glob.glob(os.path.join(out, "trace_*.ndjson")))
    ids = set()
    for t in traces:
        with open(t) as f:
            for l in f:
                if '"ev":"Case"' in l:
                    ids.add(json.loads(l)["id"])
    if ids != set(b["id"] for b in plan):
        raise lib.Infra("driver walked %d blocks, the plan has %d" % (len(ids), nblocks))

    # 4. validate every line
    res = lib.validate(ctx, TRACE_MOD, TRACE_CFG, traces, timeout=1800)
    lib.handle_rejections(ctx, res, lambda cl: rerun(ctx, cl))

    # 5. binding self-tests on a small recorded trace (one small block per mode)
    def pick(pred):
        for b in plan:
            if pred(b):
                return b
        raise lib.Infra("no block for the self-test in the plan")
    mini = [pick(lambda b: b["mode"] == "query" and not b["rand"] and b["n"] == 2),
            pick(lambda b: b["mode"] == "args" and not b["rand"] and b["nc"] == 3 and b["n"] == 1),
            pick(lambda b: b["mode"] == "uri" and b["cross"] and b["n"] == 0),
            pick(lambda b: b["mode"] == "cookie" and not b["cross"] and not b["rand"] and b["n"] == 2)]
    st_trace = _run_blocks(ctx, mini, "selftest", ctx.seed)
    clean = lib.validate(ctx, TRACE_MOD, TRACE_CFG, [st_trace], count=False)
    run_self_tests = True
    if clean[0][1]:
        if not ctx.violations:
            raise lib.Infra("the uncorrupted self-test trace is rejected at lines %s" % clean[0][1][:5])
        # the tree under test violates the property (confirmed above): a corrupted copy of an already rejected
        # trace proves nothing, so the binding self-tests are skipped and the violations are reported
        lib.log("self-tests skipped: the recorded self-test trace itself is rejected on this tree")
        run_self_tests = False

    def first(recs, ev, cond=lambda r: True):
        for i, r in enumerate(recs):
            if r["ev"] == ev and cond(r):
                return i
        raise lib.Infra("self-test: no %s line" % ev)

    def corrupt_parsed_value(recs):          # L2/L3: one decoded value differs
        i = first(recs, "Args", lambda r: r["parsed"] and r["list"] == [])
        recs[i]["parsed"] = [[recs[i]["parsed"][0][0], recs[i]["parsed"][0][1] + "x"]] + recs[i]["parsed"][1:]
        return recs

    def drop_line(recs):                     # enumeration completeness: one input skipped
        i = first(recs, "Args", lambda r: len(r["in"]["w"]) == 2)
        del recs[i + 3]
        return recs

    def lose_httponly(recs):                 # L4: an attribute lost by the parser
        i = first(recs, "Cookie", lambda r: r["rec"]["httpOnly"] and r["rec"]["key"] != "" and "=" not in r["rec"]["key"])
        recs[i]["parsed"] = dict(recs[i]["parsed"], httpOnly=False)
        return recs

    def host_case(recs):                     # L1: re-parsed host differs
        i = first(recs, "Uri")
        recs[i]["reparsed"] = dict(recs[i]["reparsed"], host=recs[i]["reparsed"]["host"].upper() + "x")
        return recs

    def not_fixed_point(recs):               # L1: String(Parse(String(u))) differs
        i = first(recs, "Uri", lambda r: r["in"]["v"] > 3)
        recs[i]["restr"] = recs[i]["restr"] + "/"
        return recs

    def neturl_disagrees(recs):              # L3: net/url saw one more value for a key
        i = first(recs, "Args", lambda r: r["neturl"]["ok"] and r["neturl"]["m"])
        m = [dict(e) for e in recs[i]["neturl"]["m"]]
        m[0]["vs"] = m[0]["vs"] + ["zz"]
        recs[i]["neturl"] = {"ok": True, "m": m}
        return recs

    for fn, name in () if not run_self_tests else ((corrupt_parsed_value, "one decoded value changed in a recorded parse (L2/L3)"),
                     (drop_line, "one input of the enumeration dropped from the trace (completeness)"),
                     (lose_httponly, "HttpOnly lost in a recorded re-parsed cookie (L4)"),
                     (host_case, "re-parsed host changed (L1)"),
                     (not_fixed_point, "re-formatted URI changed (L1 fixed point)"),
                     (neturl_disagrees, "net/url reports an extra value (L3)")):
        lib.self_test(ctx, TRACE_MOD, TRACE_CFG, st_trace, fn, name=name, ncases=10)

    # 6. evidence
    lines = sum(stats["lines"].values())
    samples = []
    tl = lib.read_lines(st_trace)
    want = {"Args": 2, "Uri": 1, "Cookie": 1}
    for l in tl:
        r = json.loads(l)
        if want.get(r["ev"], 0) > 0 and len(r.get("in", {}).get("w", [])) >= 1:
            want[r["ev"]] -= 1
            samples.append(r)
    for t in traces[:1]:
        tl = lib.read_lines(t)
        for i, l in enumerate(tl):
            if '"ev":"Case"' in l and '"mode":"uri"' in l and '"rand":true' in l:
                samples.append({"recorded_block_prefix": [json.loads(x) for x in tl[i:i + 3]]})
                break
    samples.append({"plan_blocks": plan[:2] + plan[-1:]})
    ctx.cov.update({
        "evaluations": lines,
        "distinct_nontrivial": stats["distinct_nontrivial"],
        "exhaustive": True,
        "traces_validated_against_impl": nblocks,
        "blocks": nblocks,
        "lines_by_mode_and_table": stats["lines"],
        "nontrivial_by_mode_and_table": stats["nontrivial"],
        "neturl_accepted_lines": stats["neturl_ok"],
        "panics": stats["panics"],
        "samples": samples,
        "rule": "TLC (CodecGen) cuts every family of the tier -- query strings <=%d tokens; argument lists of 1/2/3 "
                "pairs with total length <=%d/%d/%d; URIs path|key|value|fragment with total length <=%d crossed with "
                "all 45 host x scheme x query-mode variants and <=%d with a variant chosen by hash; cookies key|value "
                "<=%d crossed with all 2880 attribute records and <=%d with a hashed one; tokens {a %% + & = ; 4 1 G SP "
                "NUL 0xC3} -- into blocks; every block is walked exhaustively by the driver in Codec!Succ order and "
                "CodecTrace re-derives each input (in = cur, cur' = Succ), so the families are covered completely. "
                "The same for the escape-of-escape alphabet {%% 2 5 F E 4 1 / . a ? #}: query <=%d, 1-pair args <=%d, URIs <=%d. "
                "Two more bits are derived from each input by hash: string vs []byte setters, and URI.Parse(nil, s) vs "
                "URI.Parse(otherHost, s); argument lists are built in 4 ways (Add / Set / after a ParseBytes of the "
                "value-less keys on the same object). Plus seeded random blocks (longer strings over the same tokens and over all 256 byte values). "
                "evaluations = observation lines validated (one input each: setters -> string -> parser on the real "
                "code). Non-trivial = the string form contains an escape or '+' (Args: and the parser found an "
                "argument; Cookie: judged, i.e. non-empty key without '=', and at least one attribute written); distinct = distinct (kind, string form), "
                "counted by the driver with a 64-bit hash set."
                % ((4, 4, 3, 2, 2, 3, 1, 3, 4, 3, 3) if q else (6, 5, 4, 3, 2, 4, 2, 5, 5, 4, 4)),
    })
    ctx.assumptions += [
        "TLC and the CommunityModules Json reader are trusted; recorded byte strings use an injective printable "
        "representation (\\xHH for bytes outside printable ASCII and for backslash)",
        "the driver applies exactly the setters named in spec/Codec.tla to objects that are reused (Reset) across "
        "inputs; `set` fields echo what was passed and are bound to the enumeration by the trace specification",
        "net/url.ParseQuery of the Go toolchain in use (go1.23) is the independent reader of L3",
        "small-scope hypothesis for strings longer than the exhaustive bounds (only sampled)",
        "cookie keys/values are cookie-octets; empty keys and keys containing '=' are run but not judged; Expires is "
        "not judged when MaxAge > 0; DisablePathNormalizing, username/password and PathOriginal are out of scope",
    ]
