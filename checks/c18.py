"""C18 -- graceful shutdown lets in-flight requests finish and bounds the wait.  DESIGN.md 4/C18, notes/C18.md.

spec/Shutdown.tla (mechanism + observer obligations, model-checked) -> spec/ShutdownGen.tla (schedule classes) ->
harness/drivers/c18 (real server.Hertz on a loopback port, both transports, raw TCP clients, gated handlers) ->
spec/ShutdownTrace.tla (the observer's obligations evaluated on the recorded public-API events)."""
import concurrent.futures, glob, json, os
from . import lib

TRACE = ("ShutdownTrace", "ShutdownTrace.cfg")


def _drive(ctx, drv, cases_file, out, chunks, timeout=1500):
    for old in glob.glob(os.path.join(out, "trace_*.ndjson")):
        os.remove(old)
    lib.run_driver(drv, ["-cases", cases_file, "-out", out, "-chunks", chunks], timeout=timeout)
    return sorted(glob.glob(os.path.join(out, "trace_*.ndjson")))


def rerun(ctx, case_lines):
    """Run one schedule alone on the real server and validate it; True if rejected again.  (A real-time bound that
    is exceeded therefore has to be exceeded twice in a row before it counts.)"""
    drv = lib.go_build("c18")
    c = json.loads(case_lines[0])
    c.pop("ev", None)
    d = ctx.sub("rerun")
    cf = os.path.join(d, "case.ndjson")
    with open(cf, "w") as f:
        f.write(json.dumps(c) + "\n")
    traces = _drive(ctx, drv, cf, d, 1)
    r = lib.validate(ctx, TRACE[0], TRACE[1], traces, count=False)
    return bool(r[0][1])


def _expect_violation(ctx, cfg, prop, what):
    """a negative configuration of the specification: TLC must find `prop` violated"""
    r = lib.tlc(ctx, "Shutdown", cfg, workers=2, timeout=600)
    v = r.violated() or ""
    if prop not in v:
        raise lib.Infra("negative configuration %s did not produce the expected counterexample of %s (%s):\n%s" %
                        (cfg, prop, v or "no violation", r.tail(30)))
    ctx.cov["spec_checks"].append({"module": "Shutdown", "cfg": cfg, "distinct_states": r.distinct,
                                   "states_generated": r.generated, "wall_s": round(r.wall, 1),
                                   "expected": prop + " violated", "note": what})
    lib.log("spec Shutdown/%s: %s violated as expected (%s)" % (cfg, prop, what))


def _spec_checks(ctx):
    q = ctx.quick
    if q:
        jobs = [("Shutdown_mc.cfg", 4, "standard transport: 2 connections x 2 callers x 1 hook of any speed, all interleavings"),
                ("Shutdown_mcb.cfg", 1, "1 connection x 2 callers x hooks {any speed, beyond the deadline}"),
                ("Shutdown_mc_np.cfg", 2, "netpoll transport (idle connections closed by the shutdown): 2 connections x 1 caller x 2 hooks"),
                ("Shutdown_notrun.cfg", 1, "Shutdown of a server that is never run: every caller gets an error"),
                ("Shutdown_live.cfg", 1, "fair behaviours: every Shutdown call returns, every hook starts, every entered request is answered")]
    else:
        jobs = [("Shutdown_mc_thorough.cfg", 8, "standard transport: 2 connections x 2 requests x 2 callers x hooks {any speed, beyond the deadline}"),
                ("Shutdown_mc_thorough_np.cfg", 3, "netpoll transport: 2 connections x 2 callers x 2 hooks"),
                ("Shutdown_mc3.cfg", 4, "3 connections (busy / idle keep-alive / mid-request) x 1 caller x 1 hook"),
                ("Shutdown_mc.cfg", 2, "2 connections x 2 callers x 1 hook"),
                ("Shutdown_mcb.cfg", 1, "1 connection x 2 callers x hooks {any speed, beyond the deadline}"),
                ("Shutdown_notrun.cfg", 1, "Shutdown of a server that is never run"),
                ("Shutdown_live.cfg", 1, "fair behaviours, 1 connection x 1 caller x 2 hooks"),
                ("Shutdown_live2.cfg", 2, "fair behaviours, 1 connection x 2 callers x 1 hook that ends beyond the deadline"),
                ("Shutdown_live3.cfg", 2, "fair behaviours, netpoll, 2 connections x 1 caller x 1 hook")]
    with concurrent.futures.ThreadPoolExecutor(max_workers=len(jobs)) as ex:
        futs = [ex.submit(lib.spec_check, ctx, "Shutdown", cfg, w, 2400, None, 20, "3g", note) for cfg, w, note in jobs]
        for f in futs:
            f.result()
    _expect_violation(ctx, "Shutdown_asis.cfg", "SecondShutdownErrors",
                      "model variant in which the caller that loses the CAS returns nil (the defect fixed in hertz) must violate SecondShutdownErrors")
    _expect_violation(ctx, "Shutdown_neg.cfg", "CloseAnnounced", "exit check moved before the handler")
    _expect_violation(ctx, "Shutdown_neg3.cfg", "HooksStartedAtReturn",
                      "hooks called one after the other: a hook beyond the deadline starves the hooks registered after it")
    _expect_violation(ctx, "Shutdown_neg2.cfg", "AcceptedAwaited",
                      "connection counted as active only when its goroutine starts, not right after Accept()")


def _nontrivial(case_lines):
    """a schedule is non-trivial when its recording exercises the race the property is about"""
    for l in case_lines:
        r = json.loads(l)
        ev = r["ev"]
        if ev == "HandlerExit" and not r["running"]:
            return True
        if ev == "ShutdownReturn" and r["err"] != "nil":
            return True
        if ev == "RaceTrial":
            return True
    return False


def run(ctx):
    q = ctx.quick
    drv = lib.go_build("c18")

    # 1. the design satisfies the property under every interleaving; the properties are not vacuous
    _spec_checks(ctx)

    # 2. schedule classes enumerated by TLC
    cases, n = lib.gen_cases(ctx, "ShutdownGen", "ShutdownGen_quick.cfg" if q else "ShutdownGen_thorough.cfg", out_name="cases.ndjson")
    main_f, race_f = os.path.join(ctx.scratch, "cases_main.ndjson"), os.path.join(ctx.scratch, "cases_race.ndjson")
    with open(cases) as f, open(main_f, "w") as fm, open(race_f, "w") as fr:
        for line in f:
            (fr if '"cls":"raceN"' in line else fm).write(line)

    # 3. run on real servers (real time: few schedules side by side; the race trials on their own)
    traces = _drive(ctx, drv, main_f, ctx.sub("traces"), 4 if q else 8, timeout=3000)
    traces += _drive(ctx, drv, race_f, ctx.sub("rtraces"), 2)
    ncases = sum(lib.count_cases(t) for t in traces)
    if ncases != n:
        raise lib.Infra("driver ran %d cases, TLC generated %d" % (ncases, n))

    # 4. validate every recorded event against the observer of Shutdown.tla
    res = lib.validate(ctx, TRACE[0], TRACE[1], traces)
    lib.handle_rejections(ctx, res, lambda cl: rerun(ctx, cl))

    # 5. binding self-tests on an accepted recording
    base = os.path.join(ctx.scratch, "selftest_base.ndjson")
    nbase = 0
    with open(base, "w") as f:
        for t, bad in res:
            if "rtraces" in t:
                continue
            lines = lib.read_lines(t)
            rejected = {lib.case_at(lines, ln)[0] for ln in bad}
            i = 0
            while i < len(lines):
                s0, e0 = lib.case_at(lines, i + 1)
                if s0 not in rejected:
                    f.write("\n".join(lines[s0 - 1:e0]) + "\n")
                    nbase += 1
                i = e0
    if nbase >= 20:
        try:
            _self_tests(ctx, base)
        except lib.Infra as e:
            if not ctx.violations:      # a confirmed violation is reported even if the leftovers cannot carry the self-tests
                raise
            lib.log("self-tests skipped after confirmed violations: %s" % str(e)[:200])
    elif not ctx.violations:
        raise lib.Infra("only %d accepted recordings to run the binding self-tests on" % nbase)
    _evidence(ctx, traces, cases, n)


def _self_tests(ctx, base):
    def drop_close(recs):
        late = set()
        for r in recs:
            if r["ev"] == "Case":
                late = set()
            if r["ev"] == "HandlerExit" and not r["running"]:
                late.add((r["c"], r["r"]))
            if r["ev"] == "ResponseComplete" and (r["c"], r["r"]) in late and r["close"]:
                r["close"] = False
                return recs
        return recs
    lib.self_test(ctx, TRACE[0], TRACE[1], base, drop_close, ncases=400,
                  name="Connection: close dropped from the response of a handler that returned after the shutdown began")

    def truncate(recs):
        for r in recs:
            if r["ev"] == "ResponseComplete":
                r["bytesOk"] = False
                return recs
        return recs
    lib.self_test(ctx, TRACE[0], TRACE[1], base, truncate, ncases=400, name="a response body that is not the handler's bytes")

    def late_exit(recs):
        # a handler still running when Shutdown returned nil before the exit wait time was over
        wait = 0
        for i, r in enumerate(recs):
            if r["ev"] == "Case":
                wait = r["waitMs"]
            if r["ev"] == "HandlerExit" and not r["running"]:
                for j in range(i + 1, len(recs)):
                    if recs[j]["ev"] in ("Case", "End"):
                        break
                    if recs[j]["ev"] == "ShutdownReturn" and recs[j]["err"] == "nil" and recs[j]["elapsedMs"] < wait:
                        x = recs.pop(i)
                        recs.insert(j, x)
                        return recs
        return recs
    lib.self_test(ctx, TRACE[0], TRACE[1], base, late_exit, ncases=400,
                  name="Shutdown returned early although a handler was still running")

    def early_with_held(recs):
        # a connection held in OnAccept / OnConnect before the call, served after a nil return that came early
        held = False
        for r in recs:
            if r["ev"] == "Case":
                held = any(k in ("aL", "cL") for k in r["conns"]) and r["second"] == "none" and "beyond" not in r["hooks"] \
                    and not any(k in ("bL", "bA", "bW", "rR") for k in r["conns"])
            if held and r["ev"] == "ShutdownReturn" and r["err"] == "nil":
                r["elapsedMs"] = 10
                return recs
        return recs
    lib.self_test(ctx, TRACE[0], TRACE[1], base, early_with_held, ncases=400,
                  name="Shutdown returned early although an accepted connection (held in OnAccept/OnConnect) was still to be served")

    def slow_return(recs):
        for r in recs:
            if r["ev"] == "Case":
                wait = r["waitMs"]
            if r["ev"] == "ShutdownReturn":
                r["elapsedMs"] = wait + max(1000, 10 * wait) + 1
                return recs
        return recs
    lib.self_test(ctx, TRACE[0], TRACE[1], base, slow_return, ncases=400, name="Shutdown returned after exit wait time + slack")

    def second_nil(recs):
        for r in recs:
            if r["ev"] == "ShutdownReturn" and r["err"] != "nil":
                r["err"] = "nil"
                return recs
        return recs
    lib.self_test(ctx, TRACE[0], TRACE[1], base, second_nil, ncases=400, name="a second / not-running Shutdown that returns nil")

    def late_hook(recs):
        # a hook that starts only after Shutdown returned nil (starved by a hook registered before it)
        for i, r in enumerate(recs):
            if r["ev"] == "HookStart" and r["h"] >= 2:
                for j in range(i + 1, len(recs)):
                    if recs[j]["ev"] in ("Case", "End"):
                        break
                    if recs[j]["ev"] == "ShutdownReturn" and recs[j]["err"] == "nil":
                        moved = [x for x in recs[i:j] if x["ev"] in ("HookStart", "HookEnd") and x["h"] == r["h"]]
                        rest = [x for x in recs[i:j] if not (x["ev"] in ("HookStart", "HookEnd") and x["h"] == r["h"])]
                        return recs[:i] + rest + [recs[j]] + moved + recs[j + 1:]
        return recs
    lib.self_test(ctx, TRACE[0], TRACE[1], base, late_hook, ncases=400, name="a hook that started only after Shutdown had returned")

    def no_hook(recs):
        out, done = [], False
        for r in recs:
            if not done and r["ev"] in ("HookStart", "HookEnd") and r["h"] == 1:
                done = r["ev"] == "HookEnd"
                continue
            out.append(r)
        return out
    lib.self_test(ctx, TRACE[0], TRACE[1], base, no_hook, ncases=400, name="a shutdown hook that never ran")



def _evidence(ctx, traces, cases, n):
    distinct, nontriv, samples, by_ev, by_cls = set(), 0, [], {}, {}
    for t in traces:
        lines = lib.read_lines(t)
        i = 0
        while i < len(lines):
            s, e = lib.case_at(lines, i + 1)
            cl = lines[s - 1:e]
            c = json.loads(cl[0])
            key = json.dumps({k: c[k] for k in ("cls", "tp", "waitMs", "idleMs", "conns", "hooks", "second", "jit")}, sort_keys=True)
            for l in cl:
                ev = json.loads(l)["ev"]
                by_ev[ev] = by_ev.get(ev, 0) + 1
            by_cls[c["cls"] + "/" + c["tp"]] = by_cls.get(c["cls"] + "/" + c["tp"], 0) + 1
            if key not in distinct and _nontrivial(cl[1:]):
                nontriv += 1
                if len(samples) < 2 and len(c["conns"]) >= 2:
                    samples.append({"case": c, "recorded_trace": [json.loads(x) for x in cl[1:]][:60]})
            distinct.add(key)
            i = e
    with open(cases) as f:
        allc = [json.loads(x) for x in f]
    samples += [c for c in allc if c["second"] != "none"][:2] + [c for c in allc if c["jit"] == 1][:1]
    ctx.cov.update({
        "evaluations": n, "distinct_nontrivial": nontriv, "exhaustive": False,
        "traces_validated_against_impl": n, "samples": samples, "events_by_kind": by_ev, "cases_by_class": by_cls,
        "rule": "TLC (ShutdownGen) enumerates shutdown schedule classes: 1..3 connections of 13 kinds (served before / idle "
                "keep-alive / new request on an idle connection / handler returns after the flip (HTTP/1.1, and HTTP/1.0 with keep-alive) / handler returns after "
                "Shutdown returned / half-received request / connected but silent / 8 MiB response being written / dialled "
                "during the shutdown / held in the OnAccept or OnConnect callback with its request already sent / seeded random request loop) x hooks {fast, slow, beyond the deadline} x second caller "
                "{none, during, after return, after Run returned, racing} x exit wait time x idle time-out x "
                "{standard, netpoll}, plus shutdown without Run and racing callers on a running engine; each schedule is forced "
                "on a real server.Hertz over loopback TCP by gating handlers on the OnShutdown hook signal, and every "
                "recorded event is validated by TLC against the observer obligations of Shutdown.tla. Distinct = distinct "
                "schedule record; non-trivial = its recording contains a handler that returned after the shutdown began, a "
                "Shutdown call that had to report an error, or race trials.",
    })
    ctx.assumptions += [
        "the log order of events is used only as 'recorded before' (mutex happens-before); no wall-clock ordering across goroutines",
        "real-time bound: elapsed <= ExitWaitTimeout + max(1 s, 10 x ExitWaitTimeout), judged by the specification on the logged "
        "milliseconds; an exceeded bound counts only when the same schedule exceeds it again when re-run alone",
        "TLC explores all interleavings of the specification only; the real server is observed on the forced schedule classes "
        "and seeded random timings (the driver cannot force schedules inside hertz, e.g. between the status load and the CAS)",
        "'no new connection is accepted afterwards' is judged by a probe dialled after a nil return: only a served probe is a violation",
        "TLC 1.8.0 and the CommunityModules Json reader are trusted; net/http.ReadResponse decodes the responses",
    ]
