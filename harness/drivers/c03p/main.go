// Driver for C03 part (b), "ParserCalls": calls every exported hertz parser of untrusted data with every token
// string of the space declared in spec/ParserCalls.tla (read from the bounds file TLC writes from the spec's
// constants), in the spec's shortlex order, against the REAL code, with recover().  It records
//
//	Chunk{parser, mode, rank, n}   the n cases that follow are the inputs of rank rank..rank+n-1 (mode "enum")
//	                               or arbitrary strings over the parser's alphabet (mode "free": random / re-run)
//	Case{kind:"parser", parser, input}
//	ParserCall{parser, class}      the call returned; class "err" iff it reported an error / found nothing
//	Panic{parser, input, msg, site, line, off}   the call panicked: recovered value, innermost hertz frame
//	                               (function, line, line offset inside the function)
//	End
//
// The driver never decides pass/fail and holds no expected values: the trace specification has no action for
// Panic, that is all.  A call that does not return within -hang seconds makes the driver exit 3 (dead driver).
package main

import (
	"bufio"
	"bytes"
	"encoding/json"
	"flag"
	"fmt"
	"io"
	"math/rand"
	"os"
	"path/filepath"
	"runtime"
	"sort"
	"strings"
	"sync"
	"sync/atomic"
	"time"

	"github.com/cloudwego/hertz/pkg/app"
	"github.com/cloudwego/hertz/pkg/common/hlog"
	"github.com/cloudwego/hertz/pkg/common/test/mock"
	"github.com/cloudwego/hertz/pkg/common/utils"
	"github.com/cloudwego/hertz/pkg/protocol"
	"github.com/cloudwego/hertz/pkg/protocol/http1/ext"
	h1req "github.com/cloudwego/hertz/pkg/protocol/http1/req"
	h1resp "github.com/cloudwego/hertz/pkg/protocol/http1/resp"

	"verif/harness/vtrace"
)

// ---------------------------------------------------------------- the calls

var sink int // keeps results alive

func use(b []byte) { sink += len(b) }

func class(err error) string {
	if err != nil {
		return "err"
	}
	return "ok"
}

func readURI(u *protocol.URI) {
	use(u.Scheme())
	use(u.Host())
	use(u.Path())
	use(u.PathOriginal())
	use(u.QueryString())
	use(u.Hash())
	use(u.Username())
	use(u.Password())
	use(u.LastPathSegment())
	a := u.QueryArgs()
	a.VisitAll(func(k, v []byte) { use(k); use(v) })
	use(a.Peek("a"))
	use(u.RequestURI())
	use(u.FullURI())
	sink += len(u.String())
	var c protocol.URI
	u.CopyTo(&c)
	use(c.FullURI())
}

func readArgs(a *protocol.Args) {
	a.VisitAll(func(k, v []byte) { use(k); use(v) })
	use(a.Peek("a"))
	sink += len(a.PeekAll("a"))
	if _, ok := a.PeekExists("a"); ok {
		sink++
	}
	if a.Has("1") {
		sink++
	}
	sink += a.Len()
	use(a.QueryString())
	sink += len(a.String())
	var c protocol.Args
	a.CopyTo(&c)
	c.Del("a")
	use(c.QueryString())
}

func readCookie(c *protocol.Cookie) {
	use(c.Key())
	use(c.Value())
	use(c.Domain())
	use(c.Path())
	sink += c.MaxAge() + int(c.SameSite())
	_ = c.Expire()
	_ = c.HTTPOnly()
	_ = c.Secure()
	_ = c.Partitioned()
	use(c.Cookie())
	sink += len(c.String())
}

func readReqHeader(h *protocol.RequestHeader) {
	use(h.Method())
	use(h.RequestURI())
	use(h.Host())
	use(h.UserAgent())
	use(h.ContentType())
	sink += h.ContentLength()
	use(h.Cookie("a"))
	h.VisitAllCookie(func(k, v []byte) { use(k); use(v) })
	h.VisitAll(func(k, v []byte) { use(k); use(v) })
	use(h.Peek("Trailer"))
	use(h.Peek("A"))
	use(h.MultipartFormBoundary())
	use(h.Trailer().GetBytes())
	use(h.Header())
	use(h.RawHeaders())
}

func readRespHeader(h *protocol.ResponseHeader) {
	sink += h.StatusCode() + h.ContentLength()
	use(h.ContentType())
	use(h.Server())
	h.VisitAll(func(k, v []byte) { use(k); use(v) })
	h.VisitAllCookie(func(k, v []byte) {
		use(k)
		var c protocol.Cookie
		if c.ParseBytes(v) == nil {
			readCookie(&c)
		}
	})
	var c protocol.Cookie
	c.SetKey("a")
	if h.Cookie(&c) {
		readCookie(&c)
	}
	use(h.Peek("Trailer"))
	use(h.Trailer().GetBytes())
	use(h.Header())
}

var (
	hostExample = []byte("h.example")
	lastMod     = time.Date(2009, time.November, 10, 23, 0, 0, 0, time.UTC)
)

// parsers maps the names of spec/ParserCalls.tla (Table) to the call made for an input.
var parsers = map[string]func(in []byte) string{
	"uri.ParseURI": func(in []byte) string {
		u := protocol.ParseURI(string(in))
		readURI(u)
		return "ok"
	},
	"uri.Parse.emptyHost": func(in []byte) string {
		u := &protocol.URI{}
		u.Parse([]byte{}, in)
		readURI(u)
		return "ok"
	},
	"uri.Parse.host": func(in []byte) string {
		u := &protocol.URI{}
		u.Parse(hostExample, in)
		readURI(u)
		return "ok"
	},
	"uri.Update": func(in []byte) string {
		u := protocol.ParseURI("http://h.example/p/q?x=1#f")
		u.Update(string(in))
		readURI(u)
		return "ok"
	},
	"uri.UpdateBytes.zero": func(in []byte) string {
		u := &protocol.URI{}
		u.UpdateBytes(in)
		readURI(u)
		return "ok"
	},
	"req.SetRequestURI": func(in []byte) string {
		r := &protocol.Request{}
		r.SetRequestURI(string(in))
		readURI(r.URI())
		use(r.Path())
		use(r.QueryString())
		use(r.Host())
		return "ok"
	},
	"req.SetRequestURI.host": func(in []byte) string {
		r := &protocol.Request{}
		r.Header.SetHost("h.example")
		r.SetRequestURI(string(in))
		readURI(r.URI())
		use(r.Path())
		use(r.QueryString())
		use(r.Host())
		return "ok"
	},
	"args.ParseBytes": func(in []byte) string {
		a := &protocol.Args{}
		a.ParseBytes(in)
		readArgs(a)
		return "ok"
	},
	"req.PostArgs": func(in []byte) string {
		r := &protocol.Request{}
		r.Header.SetMethod("POST")
		r.Header.SetContentTypeBytes([]byte("application/x-www-form-urlencoded"))
		r.SetBody(in)
		readArgs(r.PostArgs())
		use(r.PostArgString())
		return "ok"
	},
	"cookie.Parse": func(in []byte) string {
		c := &protocol.Cookie{}
		err := c.Parse(string(in))
		readCookie(c)
		return class(err)
	},
	"resp.SetCookie": func(in []byte) string {
		h := &protocol.ResponseHeader{}
		h.Set("Set-Cookie", string(in))
		readRespHeader(h)
		return "ok"
	},
	"reqhdr.Cookie": func(in []byte) string {
		h := &protocol.RequestHeader{}
		h.Set("Cookie", string(in))
		use(h.Cookie("a"))
		use(h.Cookie("b"))
		h.VisitAllCookie(func(k, v []byte) { use(k); use(v) })
		for _, c := range h.Cookies() {
			readCookie(c)
			protocol.ReleaseCookie(c)
		}
		use(h.Peek("Cookie"))
		h.SetCookie("b", string(in))
		h.DelCookie("a")
		use(h.Header())
		return "ok"
	},
	"range.cl0": func(in []byte) string { _, _, err := app.ParseByteRange(in, 0); return class(err) },
	"range.cl1": func(in []byte) string { _, _, err := app.ParseByteRange(in, 1); return class(err) },
	"range.cl2": func(in []byte) string { _, _, err := app.ParseByteRange(in, 2); return class(err) },
	"date.IfModifiedSince": func(in []byte) string {
		ctx := app.NewContext(0)
		ctx.Request.Header.Set("If-Modified-Since", string(in))
		if ctx.IfModifiedSince(lastMod) {
			return "ok"
		}
		return "err"
	},
	"cookie.Expires": func(in []byte) string {
		c := &protocol.Cookie{}
		err := c.Parse("a=b; Expires=" + string(in))
		readCookie(c)
		return class(err)
	},
	"ctype.Boundary": func(in []byte) string {
		h := &protocol.RequestHeader{}
		h.SetContentTypeBytes(in)
		b := h.MultipartFormBoundary()
		use(b)
		h2 := &protocol.RequestHeader{}
		h2.Set("Content-Type", string(in))
		use(h2.MultipartFormBoundary())
		r := &protocol.Request{}
		r.Header.SetMethod("POST")
		r.Header.Set("Content-Type", string(in))
		r.SetBody([]byte("--b\r\nContent-Disposition: form-data; name=\"a\"\r\n\r\nx\r\n--b--\r\n"))
		_, err := r.MultipartForm()
		r.RemoveMultipartFormFiles()
		if b == nil || err != nil {
			return "err"
		}
		return "ok"
	},
	"mp.MultipartForm": func(in []byte) string {
		r := &protocol.Request{}
		r.Header.SetMethod("POST")
		r.Header.Set("Content-Type", "multipart/form-data; boundary=b")
		r.SetBody(in)
		f, err := r.MultipartForm()
		if err == nil && f != nil {
			sink += len(f.Value) + len(f.File)
			if fh, e := r.FormFile("a"); e == nil {
				sink += int(fh.Size)
			}
		}
		r.RemoveMultipartFormFiles()
		return class(err)
	},
	"mp.ParseMultipartForm": func(in []byte) string {
		r := &protocol.Request{}
		r.SetMultipartFormBoundary("b")
		err := protocol.ParseMultipartForm(bytes.NewReader(in), r, len(in), 1<<20)
		if err == nil {
			if f, e := r.MultipartForm(); e == nil && f != nil {
				sink += len(f.Value) + len(f.File)
			}
		}
		r.RemoveMultipartFormFiles()
		return class(err)
	},
	"trailer.SetTrailers": func(in []byte) string {
		t := &protocol.Trailer{}
		err := t.SetTrailers(append([]byte(nil), in...))
		use(t.GetBytes())
		use(t.Header())
		t.VisitAll(func(k, v []byte) { use(k); use(v) })
		return class(err)
	},
	"reqhdr.Set.Trailer": func(in []byte) string {
		h := &protocol.RequestHeader{}
		h.Set("Trailer", string(in))
		use(h.Peek("Trailer"))
		use(h.Header())
		return "ok"
	},
	"resphdr.Set.Trailer": func(in []byte) string {
		h := &protocol.ResponseHeader{}
		h.Set("Trailer", string(in))
		use(h.Peek("Trailer"))
		use(h.Header())
		return "ok"
	},
	"cl.ParseContentLength": func(in []byte) string {
		n, err := protocol.ParseContentLength(in)
		sink += n
		return class(err)
	},
	"chunk.ParseChunkSize": func(in []byte) string {
		n, err := utils.ParseChunkSize(mock.NewZeroCopyReader(string(in)))
		sink += n
		return class(err)
	},
	"req.BasicAuth": func(in []byte) string {
		r := &protocol.Request{}
		r.SetHeader("Authorization", string(in))
		u, p, ok := r.BasicAuth()
		sink += len(u) + len(p)
		if !ok {
			return "err"
		}
		return "ok"
	},
	"http1.req.Read": func(in []byte) string {
		r := &protocol.Request{}
		err := h1req.Read(r, mock.NewZeroCopyReader("GET / HTTP/1.1\r\n"+string(in)))
		if err == nil { // what the server does next with an accepted request
			readReqHeader(&r.Header)
			readURI(r.URI())
			use(r.Body())
			readArgs(r.PostArgs())
		}
		r.RemoveMultipartFormFiles()
		return class(err)
	},
	"http1.req.Read.fold": func(in []byte) string {
		r := &protocol.Request{}
		err := h1req.Read(r, mock.NewZeroCopyReader("GET / HTTP/1.1\r\nA: b"+string(in)+"\r\n\r\n"))
		if err == nil {
			readReqHeader(&r.Header)
			readURI(r.URI())
		}
		return class(err)
	},
	"http1.resp.Read.contentLength": func(in []byte) string {
		r := &protocol.Response{}
		err := h1resp.ReadHeaderAndLimitBody(r, mock.NewZeroCopyReader("HTTP/1.1 200 OK\r\nContent-Length: "+string(in)+"\r\n\r\nabc"), 0)
		if err == nil {
			use(r.Body())
			readRespHeader(&r.Header)
		}
		return class(err)
	},
	"http1.ext.ReadBody.chunked": func(in []byte) string {
		b, err := ext.ReadBody(mock.NewZeroCopyReader(string(in)), -1, 0, nil)
		use(b)
		return class(err)
	},
	"http1.req.firstline": func(in []byte) string {
		h := &protocol.RequestHeader{}
		err := h1req.ReadHeader(h, mock.NewZeroCopyReader(string(in)))
		if err == nil {
			readReqHeader(h)
			u := &protocol.URI{}
			u.Parse(h.Host(), h.RequestURI())
			readURI(u)
		}
		return class(err)
	},
	"http1.resp.ReadHeader": func(in []byte) string {
		h := &protocol.ResponseHeader{}
		err := h1resp.ReadHeader(h, mock.NewZeroCopyReader("HTTP/1.1 200 OK\r\n"+string(in)))
		if err == nil {
			readRespHeader(h)
		}
		return class(err)
	},
	"http1.resp.firstline": func(in []byte) string {
		h := &protocol.ResponseHeader{}
		err := h1resp.ReadHeader(h, mock.NewZeroCopyReader(string(in)))
		if err == nil {
			readRespHeader(h)
		}
		return class(err)
	},
	"http1.ext.ReadTrailer": func(in []byte) string {
		t := &protocol.Trailer{}
		_ = t.SetTrailers([]byte("a, b"))
		err := ext.ReadTrailer(t, mock.NewZeroCopyReader(string(in)))
		use(t.Header())
		return class(err)
	},
}

// ---------------------------------------------------------------- the space

type Bounds struct {
	Parser   string   `json:"parser"`
	Family   string   `json:"family"`
	Alphabet []string `json:"alphabet"`
	MaxLen   int      `json:"maxlen"`
	Total    int      `json:"total"`
	RandMax  int      `json:"randMax"`
}

// tokBytes maps a token to its bytes: "<HH>" is the single byte 0xHH, anything else is literal.
func tokBytes(t string) []byte {
	if len(t) == 4 && t[0] == '<' && t[3] == '>' {
		var v int
		if _, err := fmt.Sscanf(t[1:3], "%02X", &v); err == nil {
			return []byte{byte(v)}
		}
	}
	return []byte(t)
}

type space struct {
	b    Bounds
	toks [][]byte
	fn   func([]byte) string
}

func pow(b, e int) int {
	r := 1
	for ; e > 0; e-- {
		r *= b
	}
	return r
}

func total(n, l int) int { // strings of length <= l
	t := 0
	for i := 0; i <= l; i++ {
		t += pow(n, i)
	}
	return t
}

// unrank returns the digit vector (token indices) of the string of shortlex rank r.
func (s *space) unrank(r int) []int {
	n := len(s.toks)
	l := 0
	for r >= total(n, l) {
		l++
	}
	o := r
	if l > 0 {
		o -= total(n, l-1)
	}
	d := make([]int, l)
	for i := l - 1; i >= 0; i-- {
		d[i] = o % n
		o /= n
	}
	return d
}

// succ steps the digit vector to the next string in shortlex order.
func (s *space) succ(d []int) []int {
	n := len(s.toks)
	for i := len(d) - 1; i >= 0; i-- {
		if d[i] < n-1 {
			d[i]++
			for j := i + 1; j < len(d); j++ {
				d[j] = 0
			}
			return d
		}
	}
	return make([]int, len(d)+1)
}

// ---------------------------------------------------------------- running

type panicKey struct{ parser, site, msg string }

var (
	statMu   sync.Mutex
	nCalls   int64
	nPanics  int64
	panicSum = map[panicKey]*panicInfo{}
	progress int64        // bumped after every call (hang detection)
	current  atomic.Value // string: what is being called
)

type panicInfo struct {
	Parser string   `json:"parser"`
	Site   string   `json:"site"`
	Line   int      `json:"line"`
	Msg    string   `json:"msg"`
	Count  int      `json:"count"`
	First  []string `json:"first"`
}

const hertzPrefix = "github.com/cloudwego/hertz/"

// panicSite returns the innermost frame of the panicking stack that belongs to hertz: function name without the
// module prefix, its line, and the line's offset from the first line of the function (stable when code above the
// function changes); called from the deferred recover, where the stack is still intact.
func panicSite() (string, int, int) {
	pcs := make([]uintptr, 64)
	n := runtime.Callers(3, pcs)
	frames := runtime.CallersFrames(pcs[:n])
	first, firstLine := "", 0
	for {
		f, more := frames.Next()
		if !strings.HasPrefix(f.Function, "runtime.") && f.Function != "" {
			if first == "" {
				first, firstLine = f.Function, f.Line
			}
			if strings.HasPrefix(f.Function, hertzPrefix) {
				off := -1
				if f.Func != nil {
					_, start := f.Func.FileLine(f.Func.Entry())
					off = f.Line - start
				}
				return strings.TrimPrefix(f.Function, hertzPrefix), f.Line, off
			}
		}
		if !more {
			break
		}
	}
	return first, firstLine, -1
}

func callOne(w *vtrace.Writer, s *space, d []int) {
	input := make([]string, len(d))
	var in []byte
	for i, k := range d {
		input[i] = s.b.Alphabet[k]
		in = append(in, s.toks[k]...)
	}
	if !statsOnly {
		w.Emit("Case", vtrace.Rec{"kind": "parser", "parser": s.b.Parser, "input": input})
	}
	cls, panicked := "", false
	func() {
		defer func() {
			if r := recover(); r != nil {
				panicked = true
				site, line, off := panicSite()
				msg := fmt.Sprint(r)
				if !statsOnly {
					w.Emit("Panic", vtrace.Rec{"parser": s.b.Parser, "input": input, "msg": msg, "site": site, "line": line, "off": off})
				}
				statMu.Lock()
				k := panicKey{s.b.Parser, site, msg}
				pi := panicSum[k]
				if pi == nil {
					pi = &panicInfo{Parser: s.b.Parser, Site: site, Line: line, Msg: msg, First: input}
					panicSum[k] = pi
				}
				if len(input) < len(pi.First) {
					pi.First = input
				}
				pi.Count++
				statMu.Unlock()
				atomic.AddInt64(&nPanics, 1)
			}
		}()
		cls = s.fn(in)
	}()
	if !panicked && !statsOnly {
		w.Emit("ParserCall", vtrace.Rec{"parser": s.b.Parser, "class": cls})
	}
	atomic.AddInt64(&nCalls, 1)
	atomic.AddInt64(&progress, 1)
}

type block struct {
	s       *space
	rank, n int
}

func runEnumFile(path string, blocks []block) {
	w, err := vtrace.Create(path)
	if err != nil {
		fatal(err)
	}
	for _, b := range blocks {
		w.Emit("Chunk", vtrace.Rec{"parser": b.s.b.Parser, "mode": "enum", "rank": b.rank, "n": b.n})
		d := b.s.unrank(b.rank)
		for i := 0; i < b.n; i++ {
			if i > 0 {
				d = b.s.succ(d)
			}
			callOne(w, b.s, d)
		}
		w.Emit("End", nil)
	}
	if err := w.Close(); err != nil {
		fatal(err)
	}
}

func fatal(err error) {
	fmt.Fprintln(os.Stderr, "c03p:", err)
	os.Exit(2)
}

func loadBounds(path string) []*space {
	f, err := os.Open(path)
	if err != nil {
		fatal(err)
	}
	defer f.Close()
	var out []*space
	sc := bufio.NewScanner(f)
	sc.Buffer(make([]byte, 1<<20), 1<<24)
	for sc.Scan() {
		if len(bytes.TrimSpace(sc.Bytes())) == 0 {
			continue
		}
		var b Bounds
		if err := json.Unmarshal(sc.Bytes(), &b); err != nil {
			fatal(err)
		}
		fn := parsers[b.Parser]
		if fn == nil {
			fatal(fmt.Errorf("the specification names parser %q, the driver has no call for it", b.Parser))
		}
		s := &space{b: b, fn: fn}
		for _, t := range b.Alphabet {
			s.toks = append(s.toks, tokBytes(t))
		}
		out = append(out, s)
	}
	if len(out) != len(parsers) && os.Getenv("C03P_PARTIAL") == "" {
		fatal(fmt.Errorf("the specification declares %d parsers, the driver implements %d", len(out), len(parsers)))
	}
	return out
}

func main() {
	bounds := flag.String("bounds", "", "bounds file written by ParserCallsGen")
	caseFile := flag.String("case", "", "run the Case lines of this file alone (mode free)")
	out := flag.String("out", ".", "output directory")
	chunks := flag.Int("chunks", 8, "number of enumeration trace files")
	blockSize := flag.Int("block", 4000, "largest number of calls per Chunk block")
	nrand := flag.Int("rand", 0, "random longer token strings per parser")
	seed := flag.Int64("seed", 1, "seed of the random cases")
	par := flag.Int("par", 4, "files written concurrently")
	hang := flag.Int("hang", 60, "seconds without a completed call after which the driver gives up")
	flag.BoolVar(&statsOnly, "probe", false, "record no calls, only stats.json (exploration by hand; validates nothing)")
	flag.Parse()

	hlog.SetOutput(io.Discard)
	hlog.SetLevel(hlog.LevelFatal)

	// hang watchdog: an endless loop in a parser must not look like a slow run
	go func() {
		last, idle := int64(-1), 0
		for {
			time.Sleep(time.Second)
			p := atomic.LoadInt64(&progress)
			if p == last {
				idle++
			} else {
				last, idle = p, 0
			}
			if idle >= *hang && atomic.LoadInt64(&running) > 0 {
				fmt.Fprintf(os.Stderr, "c03p: HANG: no parser call completed for %d s (%d calls done)\n", *hang, p)
				os.Exit(3)
			}
		}
	}()

	spaces := loadBounds(*bounds)
	byName := map[string]*space{}
	for _, s := range spaces {
		byName[s.b.Parser] = s
	}
	atomic.StoreInt64(&running, 1)

	if *caseFile != "" {
		runCases(*caseFile, filepath.Join(*out, "trace_000.ndjson"), byName)
		writeStats(*out)
		return
	}

	// enumeration: blocks of at most -block calls, dealt out to -chunks files
	var blocks []block
	all := 0
	for _, s := range spaces {
		for r := 0; r < s.b.Total; r += *blockSize {
			n := *blockSize
			if r+n > s.b.Total {
				n = s.b.Total - r
			}
			blocks = append(blocks, block{s, r, n})
		}
		all += s.b.Total
	}
	// dealt round-robin: every file gets a share of every parser, so load and rejected (panicking) calls spread evenly
	_ = all
	files := make([][]block, *chunks)
	for i, b := range blocks {
		files[i%*chunks] = append(files[i%*chunks], b)
	}
	sem := make(chan struct{}, *par)
	var wg sync.WaitGroup
	for i, bl := range files {
		if len(bl) == 0 {
			continue
		}
		wg.Add(1)
		sem <- struct{}{}
		go func(i int, bl []block) {
			defer wg.Done()
			runEnumFile(filepath.Join(*out, fmt.Sprintf("trace_%03d.ndjson", i)), bl)
			<-sem
		}(i, bl)
	}
	wg.Wait()

	// seeded random longer strings over the same alphabets (mode free)
	if *nrand > 0 {
		w, err := vtrace.Create(filepath.Join(*out, "rand_000.ndjson"))
		if err != nil {
			fatal(err)
		}
		rng := rand.New(rand.NewSource(*seed))
		for _, s := range spaces {
			w.Emit("Chunk", vtrace.Rec{"parser": s.b.Parser, "mode": "free", "rank": 0, "n": *nrand})
			for i := 0; i < *nrand; i++ {
				l := s.b.MaxLen + 1
				if s.b.RandMax > l {
					l += rng.Intn(s.b.RandMax - l + 1)
				}
				d := make([]int, l)
				for j := range d {
					d[j] = rng.Intn(len(s.toks))
				}
				callOne(w, s, d)
			}
			w.Emit("End", nil)
		}
		if err := w.Close(); err != nil {
			fatal(err)
		}
	}
	writeStats(*out)
}

var running int64

// statsOnly (-probe): no trace lines for the calls, only stats.json -- for exploring larger spaces by hand; such a
// run validates nothing.
var statsOnly bool

// runCases runs the Case lines of a file (re-run of a rejected case, replay): one free chunk per case.
func runCases(path, outPath string, byName map[string]*space) {
	f, err := os.Open(path)
	if err != nil {
		fatal(err)
	}
	defer f.Close()
	w, err := vtrace.Create(outPath)
	if err != nil {
		fatal(err)
	}
	sc := bufio.NewScanner(f)
	sc.Buffer(make([]byte, 1<<20), 1<<24)
	for sc.Scan() {
		var c struct {
			Ev     string   `json:"ev"`
			Parser string   `json:"parser"`
			Input  []string `json:"input"`
		}
		if err := json.Unmarshal(sc.Bytes(), &c); err != nil || c.Ev != "Case" {
			continue
		}
		s := byName[c.Parser]
		if s == nil {
			fatal(fmt.Errorf("unknown parser %q", c.Parser))
		}
		d := make([]int, len(c.Input))
		for i, t := range c.Input {
			d[i] = -1
			for k, a := range s.b.Alphabet {
				if a == t {
					d[i] = k
				}
			}
			if d[i] < 0 {
				fatal(fmt.Errorf("token %q is not in the alphabet of %s", t, c.Parser))
			}
		}
		w.Emit("Chunk", vtrace.Rec{"parser": c.Parser, "mode": "free", "rank": 0, "n": 1})
		callOne(w, s, d)
		w.Emit("End", nil)
	}
	if err := w.Close(); err != nil {
		fatal(err)
	}
}

func writeStats(out string) {
	ps := []*panicInfo{}
	for _, p := range panicSum {
		ps = append(ps, p)
	}
	sort.Slice(ps, func(i, j int) bool {
		if ps[i].Parser != ps[j].Parser {
			return ps[i].Parser < ps[j].Parser
		}
		return ps[i].Site+ps[i].Msg < ps[j].Site+ps[j].Msg
	})
	b, _ := json.MarshalIndent(map[string]interface{}{"Calls": nCalls, "Panics": nPanics, "PanicKinds": ps}, "", " ")
	if err := os.WriteFile(filepath.Join(out, "stats.json"), b, 0o644); err != nil {
		fatal(err)
	}
}
