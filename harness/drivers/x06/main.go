// Driver for X06 (RequestContext.Copy() and the key/value store).
//
// Reads the cases enumerated by spec/CtxCopyGen.tla, runs each one against the real hertz code and records an ndjson
// trace validated by spec/CtxCopyTrace.tla.  Kinds of cases:
//
//	copy   a context obtained through the production server loop (vnet.NewEngine + scripted connections, as in C09):
//	       the handler applies the "pre" mutators, takes c2 := ctx.Copy(), compares every observable component of c2
//	       with the original (Copy{diff, nc}), applies the "h" steps to the original / the copy, looks again at both
//	       (ProbeO, ProbeC), ends (return / abort / panic under the recovery middleware).  Then the original is
//	       recycled: requests with sentinel content are served on the same keep-alive connection, on the next
//	       connection (pool) or on another open connection (Recycle{same}); inside the first sentinel handler the "s"
//	       steps run and the recycled original is compared with itself (ProbeS).  At the end the copy is compared
//	       with what it showed at Copy time (ProbeC{at:end}) and the byte slices its getters returned right after
//	       Copy are compared with the strings saved then (Retained).
//	fresh  the same without a server: app.NewContext, mutators, Copy, Reset + sentinel fill.
//	bg     many connections on one engine; every handler hands its copy to a goroutine that looks at it again
//	       while the server recycles the original (run under the race detector).
//	keys   Set/Get/ForEachKey/Copy of one context used by several goroutines (run under the race detector):
//	       every read is logged with the interval of the writer's counter it must fall into.
//
// The driver never decides pass/fail and holds no expected values: differences are projections of two dumps taken
// from the real objects; which differences are legitimate is decided by the specification.
package main

import (
	"bufio"
	"context"
	"encoding/json"
	"flag"
	"fmt"
	"os"
	"path/filepath"
	"runtime"
	"sort"
	"sync"
	"sync/atomic"

	"github.com/cloudwego/hertz/pkg/app"
	"github.com/cloudwego/hertz/pkg/app/middlewares/server/recovery"
	"github.com/cloudwego/hertz/pkg/common/config"
	"github.com/cloudwego/hertz/pkg/route"

	"verif/harness/vnet"
	"verif/harness/vtrace"
)

type Step struct {
	At   string `json:"at"`   // h: inside the first handler, after Copy | s: inside the first sentinel handler
	Side string `json:"side"` // O: the original context | C: the copy
	M    string `json:"m"`
}

type Case struct {
	ID      int      `json:"id"`
	Kind    string   `json:"kind"`  // copy | fresh | bg | keys
	Shape   string   `json:"shape"` // get | form | multipart | chunked
	State   string   `json:"state"` // mid | abort | stream | hijack | reqstream | fresh (informational but for reqstream/fresh)
	Predump bool     `json:"predump"`
	Rich    bool     `json:"rich"` // the handler fills keys, errors and the response before the pre mutators
	Pre     []string `json:"pre"`
	Steps   []Step   `json:"steps"`
	Ending  string   `json:"ending"` // return | abort | panic
	Mode    string   `json:"mode"`   // same | next | other
	Trace   bool     `json:"trace"`
	Watch   []string `json:"watch"` // components whose value on the copy is logged at Copy time
	Conns   int      `json:"conns"`
	Rounds  int      `json:"rounds"`
}

type nopTracer struct{}

func (nopTracer) Start(ctx context.Context, c *app.RequestContext) context.Context { return ctx }
func (nopTracer) Finish(ctx context.Context, c *app.RequestContext)                {}

type counters struct {
	copies, recycles, recycledSame, probes, changed int64
}

type worker struct {
	tr    *vtrace.Writer
	files string
	stats *counters
}

// run is the state of one case.
type run struct {
	w   *worker
	c   *Case
	emu sync.Mutex

	orig       *app.RequestContext // the context the copy was taken from
	cp         *app.RequestContext
	dC         dump // what the copy showed right after Copy
	ret        []retained
	nsent      int
	copied     bool
	origScheme string // scheme of a re-parse of the original at the end of its handler
	hijacked   bool
}

func (r *run) emit(ev string, rec vtrace.Rec) {
	r.emu.Lock()
	r.w.tr.Emit(ev, rec)
	r.emu.Unlock()
}

func (r *run) engine(idle string) *route.Engine {
	mode := "same"
	if idle == "poller" {
		mode = "other"
	}
	return r.engineWith(mode, r.firstH, r.sentinelH)
}

// engineWith builds a real engine (production Serve path, recovery middleware) with the two handlers of the case.
func (r *run) engineWith(mode string, first, sentinel app.HandlerFunc) *route.Engine {
	idle := "inloop"
	if mode == "other" {
		idle = "poller"
	}
	cfg := vnet.EngineConfig{Idle: idle, Streaming: r.c.State == "reqstream"}
	if r.c.Trace {
		cfg.Opts = []config.Option{{F: func(o *config.Options) { o.Tracers = append(o.Tracers, nopTracer{}) }}}
	}
	e := vnet.NewEngine(cfg)
	e.Use(recovery.Recovery())
	after := func(c context.Context, ctx *app.RequestContext) {}
	e.Any("/x/:p1/*rest", first, after)
	e.Any("/s/:p1/*rest", sentinel)
	e.Any("/warm", func(c context.Context, ctx *app.RequestContext) { ctx.SetBodyString("warm") })
	if err := vnet.Start(e); err != nil {
		panic(err)
	}
	return e
}

func sortS(s []string) { sort.Strings(s) }

func caseRec(c *Case) vtrace.Rec {
	b, _ := json.Marshal(c)
	rec := vtrace.Rec{}
	json.Unmarshal(b, &rec) //nolint:errcheck
	if c.Pre == nil {
		rec["pre"] = []string{}
	}
	if c.Steps == nil {
		rec["steps"] = []Step{}
	}
	if c.Watch == nil {
		rec["watch"] = []string{}
	}
	return rec
}

func (w *worker) runCase(c *Case) {
	r := &run{w: w, c: c}
	r.emit("Case", caseRec(c))
	func() {
		defer func() {
			if p := recover(); p != nil {
				r.emit("Panic", vtrace.Rec{"msg": fmt.Sprint(p), "where": "case"})
			}
		}()
		switch c.Kind {
		case "copy":
			r.copyCase()
		case "fresh":
			r.freshCase()
		case "bg":
			r.bgCase()
		case "keys":
			r.keysCase()
		default:
			panic("unknown case kind " + c.Kind)
		}
	}()
	r.emit("End", nil)
}

func main() {
	cases := flag.String("cases", "", "ndjson case file written by TLC")
	out := flag.String("out", "", "output directory for trace chunks")
	chunks := flag.Int("chunks", 16, "number of trace files / parallel workers")
	scratch := flag.String("scratch", "", "directory for the small files some mutators serve")
	flag.BoolVar(&debug, "debug", false, "add the differing values to Copy/Probe events (development aid)")
	list := flag.Bool("list", false, "print the names of the mutators this driver has, one per line, and exit")
	flag.Parse()
	if *list {
		// the check runs only the cases whose mutators both the generator's table and this table know
		names := make([]string, 0, len(byName))
		for n := range byName {
			names = append(names, n)
		}
		sort.Strings(names)
		for _, n := range names {
			fmt.Println(n)
		}
		return
	}
	if *scratch == "" {
		fmt.Fprintln(os.Stderr, "x06: -scratch is required")
		os.Exit(2)
	}
	if err := os.WriteFile(filepath.Join(*scratch, "small.txt"), []byte("c09 small file\n"), 0o644); err != nil {
		fmt.Fprintln(os.Stderr, err)
		os.Exit(2)
	}
	f, err := os.Open(*cases)
	if err != nil {
		fmt.Fprintln(os.Stderr, err)
		os.Exit(2)
	}
	var all []*Case
	warned, skipped := map[string]bool{}, 0
	sc := bufio.NewScanner(f)
	sc.Buffer(make([]byte, 1<<20), 1<<26)
	for sc.Scan() {
		c := &Case{}
		if err := json.Unmarshal(sc.Bytes(), c); err != nil {
			fmt.Fprintln(os.Stderr, "bad case line:", err)
			os.Exit(2)
		}
		names := append([]string{}, c.Pre...)
		for _, s := range c.Steps {
			names = append(names, s.M)
		}
		known := true
		for _, m := range names {
			if byName[m] == nil {
				// the check filters such cases out beforehand (-list); run by hand, say so once per name and skip
				if !warned[m] {
					warned[m] = true
					fmt.Fprintf(os.Stderr, "x06: mutator %q (first named by case %d) is not in the driver's table: cases naming it are skipped\n", m, c.ID)
				}
				known = false
			}
		}
		if !known {
			skipped++
			continue
		}
		all = append(all, c)
	}
	n := *chunks
	if n > len(all) {
		n = len(all)
	}
	if n < 1 {
		n = 1
	}
	st := &counters{}
	var wg sync.WaitGroup
	for k := 0; k < n; k++ {
		wg.Add(1)
		go func(k int) {
			defer wg.Done()
			// one OS thread per worker: the context released at the end of a connection sits in this P's pool slot
			// when the next connection of the case asks for one (as in C09)
			runtime.LockOSThread()
			tr, err := vtrace.Create(filepath.Join(*out, fmt.Sprintf("trace_%03d.ndjson", k)))
			if err != nil {
				panic(err)
			}
			w := &worker{tr: tr, files: *scratch, stats: st}
			lo, hi := len(all)*k/n, len(all)*(k+1)/n
			for _, c := range all[lo:hi] {
				w.runCase(c)
			}
			tr.Close()
		}(k)
	}
	wg.Wait()
	fmt.Printf("{\"cases\":%d,\"chunks\":%d,\"copies\":%d,\"recycles\":%d,\"recycles_on_original_object\":%d,\"probes\":%d,\"probes_with_changes\":%d,\"mutators\":%d,\"cases_skipped_unknown_mutator\":%d}\n",
		len(all), n, atomic.LoadInt64(&st.copies), atomic.LoadInt64(&st.recycles), atomic.LoadInt64(&st.recycledSame),
		atomic.LoadInt64(&st.probes), atomic.LoadInt64(&st.changed), len(table), skipped)
}
