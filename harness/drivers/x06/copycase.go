package main

import (
	"context"
	"fmt"
	"sync/atomic"

	"github.com/cloudwego/hertz/pkg/app"
	"github.com/cloudwego/hertz/pkg/network/standard"
	"github.com/cloudwego/hertz/pkg/route"

	"verif/harness/vnet"
	"verif/harness/vtrace"
)

const mpFirst = "--c09b\r\nContent-Disposition: form-data; name=\"fa\"\r\n\r\nmv\r\n--c09b\r\nContent-Disposition: form-data; name=\"pa\"\r\n\r\nfirst\r\n--c09b\r\nContent-Disposition: form-data; name=\"upfile\"; filename=\"u.txt\"\r\nContent-Type: text/plain\r\n\r\nfile-content\r\n--c09b--\r\n"
const mpSent = "--ZZZZ\r\nContent-Disposition: form-data; name=\"fa\"\r\n\r\nZZ\r\n--ZZZZ\r\nContent-Disposition: form-data; name=\"pa\"\r\n\r\nZZZZZ\r\n--ZZZZ\r\nContent-Disposition: form-data; name=\"upfile\"; filename=\"Z.ZZZ\"\r\nContent-Type: text/plain\r\n\r\nZZZZZZZZZZZZ\r\n--ZZZZ--\r\n"

// firstRequest is the request during which the copy is taken.
func firstRequest(shape string) string {
	const target = "/x/alpha/beta/gamma"
	switch shape {
	case "form":
		body := "pa=first&fa=1&fb=2"
		return fmt.Sprintf("POST "+target+"?pq=one&y=2 HTTP/1.1\r\nHost: one.example\r\nContent-Type: application/x-www-form-urlencoded\r\nContent-Length: %d\r\nCookie: pc=first\r\nX-C09: first\r\nX-Custom: v\r\nAuthorization: Basic dTpw\r\n\r\n%s", len(body), body)
	case "multipart":
		return fmt.Sprintf("POST "+target+"?pq=one HTTP/1.1\r\nHost: one.example\r\nContent-Type: multipart/form-data; boundary=c09b\r\nContent-Length: %d\r\nX-C09: first\r\nX-Custom: v\r\n\r\n%s", len(mpFirst), mpFirst)
	case "chunked":
		return "POST " + target + "?pq=one HTTP/1.1\r\nHost: one.example\r\nTransfer-Encoding: chunked\r\nTrailer: X-T\r\nContent-Type: text/plain\r\nX-C09: first\r\nX-Custom: v\r\n\r\n5\r\nhello\r\n0\r\nX-T: tv\r\n\r\n"
	}
	return "GET " + target + "?pq=one&x=1 HTTP/1.1\r\nHost: one.example\r\nUser-Agent: x06-client\r\nCookie: pc=first; sid=abc\r\nX-C09: first\r\nX-Custom: v\r\nAccept-Encoding: gzip\r\nAuthorization: Basic dTpw\r\n\r\n"
}

// sentinelRequest has the structure of firstRequest(shape) with every value replaced by a different one of at
// least the same length, so that storage reused in place is overwritten.
func sentinelRequest(shape string) string {
	const target = "/s/ZZZZZ/ZZZZ/ZZZZZ"
	switch shape {
	case "form":
		body := "pa=ZZZZZ&fa=9&fb=8"
		return fmt.Sprintf("PATCH "+target+"?pq=ZZZ&y=9 HTTP/1.1\r\nHost: ZZZ.ZZZZZZZ\r\nContent-Type: application/x-www-form-urlencoded\r\nContent-Length: %d\r\nCookie: pc=ZZZZZ\r\nX-C09: ZZZZZ\r\nX-Custom: Z\r\nAuthorization: Basic WlpaWg==\r\n\r\n%s", len(body), body)
	case "multipart":
		return fmt.Sprintf("PATCH "+target+"?pq=ZZZ HTTP/1.1\r\nHost: ZZZ.ZZZZZZZ\r\nContent-Type: multipart/form-data; boundary=ZZZZ\r\nContent-Length: %d\r\nX-C09: ZZZZZ\r\nX-Custom: Z\r\n\r\n%s", len(mpSent), mpSent)
	case "chunked":
		return "PATCH " + target + "?pq=ZZZ HTTP/1.1\r\nHost: ZZZ.ZZZZZZZ\r\nTransfer-Encoding: chunked\r\nTrailer: X-T\r\nContent-Type: ZZZZ/ZZZZZ\r\nX-C09: ZZZZZ\r\nX-Custom: Z\r\n\r\n5\r\nZZZZZ\r\n0\r\nX-T: ZZ\r\n\r\n"
	}
	return "PUT " + target + "?pq=ZZZ&x=9 HTTP/1.1\r\nHost: ZZZ.ZZZZZZZ\r\nUser-Agent: ZZZZZZZZZZ\r\nCookie: pc=ZZZZZ; sid=ZZZ\r\nX-C09: ZZZZZ\r\nX-Custom: Z\r\nAccept-Encoding: ZZZZ\r\nAuthorization: Basic WlpaWg==\r\nContent-Length: 0\r\n\r\n"
}

const warmRequest = "GET /warm HTTP/1.1\r\nHost: w.example\r\n\r\n"

// debug (-debug): events also carry the two values of every differing component (for the developer, not validated)
var debug bool

func dbg(ch []string, now, then dump) [][]string {
	out := [][]string{}
	for _, k := range ch {
		out = append(out, []string{k, now[k], then[k]})
	}
	return out
}

func (r *run) steps(at string) []Step {
	out := []Step{}
	for _, s := range r.c.Steps {
		if s.At == at {
			out = append(out, s)
		}
	}
	return out
}

// apply runs one mutator of the table on the original or on the copy.
func (r *run) apply(c context.Context, at string, s Step, orig *app.RequestContext) {
	tgt := orig
	if s.Side == "C" {
		tgt = r.cp
	}
	r.emit("Mut", vtrace.Rec{"at": at, "side": s.Side, "m": s.M})
	byName[s.M].f(&env{c: c, ctx: tgt, files: r.w.files})
}

func (r *run) probe(ev string, at string, now, then dump) {
	ch := diff(now, then)
	atomic.AddInt64(&r.w.stats.probes, 1)
	if len(ch) > 0 {
		atomic.AddInt64(&r.w.stats.changed, 1)
	}
	rec := vtrace.Rec{"changed": ch}
	if at != "" {
		rec["at"] = at
	}
	if debug {
		rec["dbg"] = dbg(ch, now, then)
	}
	r.emit(ev, rec)
}

// emitCopy writes the Copy (BgCopy) line and one CopyDiff line per differing component, contiguously.
func (r *run) emitCopy(ev string, rec vtrace.Rec, df []string, shape string) {
	r.emu.Lock()
	r.w.tr.Emit(ev, rec)
	for _, k := range df {
		r.w.tr.Emit("CopyDiff", vtrace.Rec{"comp": k, "shape": shape})
	}
	r.emu.Unlock()
}

// takeCopy: Copy, the comparison of the copy with the original, the values of the watched components.
func (r *run) takeCopy(ctx *app.RequestContext) (dO dump) {
	if r.c.Predump {
		dumpCtx(ctx, false) // the lazy getters have run on the original before the copy is taken
	}
	r.orig = ctx
	reqStream, respStream := ctx.Request.IsBodyStream(), ctx.Response.IsBodyStream() // read-only getters
	r.cp = ctx.Copy()
	r.copied = true
	atomic.AddInt64(&r.w.stats.copies, 1)
	r.dC = dumpCtx(r.cp, true)
	dO = dumpCtx(ctx, false)
	nc := []vtrace.Rec{}
	for _, k := range r.c.Watch {
		v, ok := r.dC[k]
		if !ok {
			v = "<absent>"
		}
		nc = append(nc, vtrace.Rec{"c": k, "v": v})
	}
	df := diff(r.dC, dO)
	rec := vtrace.Rec{"ndiff": len(df), "nc": nc, "reqStream": reqStream, "respStream": respStream}
	if debug {
		rec["dbg"] = dbg(df, r.dC, dO)
	}
	r.emitCopy("Copy", rec, df, r.c.Shape)
	r.ret = takeRetained(r.cp)
	return dO
}

// firstH: the handler of the request during which the copy is taken.
func (r *run) firstH(c context.Context, ctx *app.RequestContext) {
	r.emit("Enter", vtrace.Rec{"ptr": fmt.Sprintf("%p", ctx)})
	e := &env{c: c, ctx: ctx, files: r.w.files}
	defer func() {
		if p := recover(); p != nil {
			r.emit("Ending", vtrace.Rec{"kind": "panic"})
			panic(p) // the recovery middleware is the one that handles it
		}
	}()
	if r.c.Rich {
		richOriginal(ctx)
	}
	for _, m := range r.c.Pre {
		r.emit("Pre", vtrace.Rec{"m": m})
		byName[m].f(e)
	}
	dO := r.takeCopy(ctx)
	for _, s := range r.steps("h") {
		r.apply(c, "h", s, ctx)
	}
	r.probe("ProbeO", "h", dumpCtx(ctx, false), dO)
	r.probe("ProbeC", "h", dumpCtx(r.cp, true), r.dC)
	r.origScheme = reparseScheme(ctx)
	switch r.c.Ending {
	case "abort":
		r.emit("Ending", vtrace.Rec{"kind": "abort"})
		ctx.Abort()
	case "panic":
		panic("x06: scripted handler panic")
	default:
		r.emit("Ending", vtrace.Rec{"kind": "return"})
	}
}

// sentinelH: a later request, possibly served with the recycled original.
func (r *run) sentinelH(c context.Context, ctx *app.RequestContext) {
	r.nsent++
	same := ctx == r.orig
	atomic.AddInt64(&r.w.stats.recycles, 1)
	if same {
		atomic.AddInt64(&r.w.stats.recycledSame, 1)
	}
	r.emit("Recycle", vtrace.Rec{"k": r.nsent, "same": same})
	if r.copied {
		fillSentinel(ctx, r.cp)
	}
	if r.nsent == 1 && r.copied {
		dS := dumpCtx(ctx, false)
		for _, s := range r.steps("s") {
			r.apply(c, "s", s, ctx)
		}
		r.probe("ProbeS", "", dumpCtx(ctx, false), dS)
	}
	ctx.Response.SetBodyString("ZZZZZZZZZZZZZZZZZZZZZZZZZZZZZZZZZZZZZZZZZZZZZZZZZZZZZZZZZZZZZZZZ")
}

func (r *run) serveAll(e *route.Engine, in string) *vnet.Conn {
	conn := vnet.New([]byte(in), nil)
	vnet.ServeConn(e, conn, "inloop", 0)
	return conn
}

// copyCase: the first request, then the recycling of its context in the way the case names, then one more sentinel
// request on a further connection; at the end the copy is looked at again.
func (r *run) copyCase() {
	c := r.c
	first, sent := firstRequest(c.Shape), sentinelRequest(c.Shape)
	switch c.Mode {
	case "same":
		e := r.engine("inloop")
		r.serveAll(e, first+sent)
		r.serveAll(e, sent)
	case "next":
		e := r.engine("inloop")
		r.serveAll(e, first)
		r.serveAll(e, sent)
		r.serveAll(e, sent+sent)
	case "other":
		e := r.engine("poller")
		a, b := vnet.New([]byte(first), nil), vnet.New([]byte(warmRequest), nil)
		a.End, b.End = "stall", "stall"
		na, nb := standard.NewConnForVerif(a, 4096), standard.NewConnForVerif(b, 4096)
		bg := context.Background()
		e.Serve(bg, nb) //nolint:errcheck    connection 2 is open and has been served once
		e.Serve(bg, na) //nolint:errcheck    connection 1 (also open) serves the first request
		if !b.Closed() {
			b.Append([]byte(sent))
			e.Serve(bg, nb) //nolint:errcheck    connection 2 goes on with a sentinel request
		}
		if !a.Closed() {
			a.Append([]byte(sent))
			e.Serve(bg, na) //nolint:errcheck
		}
		a.Close()
		b.Close()
		r.serveAll(e, sent)
	default:
		panic("unknown mode " + c.Mode)
	}
	r.finalProbe()
}

func (r *run) finalProbe() {
	if !r.copied {
		return // the specification rejects a case without Copy at its End line
	}
	r.probe("ProbeC", "end", dumpCtx(r.cp, true), r.dC)
	r.emit("Retained", vtrace.Rec{"changed": changedRetained(r.ret)})
	r.emit("Scheme", vtrace.Rec{"orig": r.origScheme, "copy": reparseScheme(r.cp)})
}

// reparseScheme makes the request parse an origin-form target anew and returns the scheme it derives: the only view of
// Request.isTLS that does not go through CopyTo.  Destructive, so it is the last thing done to the original inside
// its handler and the very last thing done to the copy.
func reparseScheme(ctx *app.RequestContext) string {
	ctx.Request.SetRequestURI("/x06-reparse")
	return string(ctx.Request.URI().Scheme())
}

// freshCase: a context that never saw a server (app.NewContext): mutators, Copy, steps, Reset + sentinel fill.
func (r *run) freshCase() {
	ctx := app.NewContext(4)
	c := context.Background()
	r.emit("Enter", vtrace.Rec{"ptr": fmt.Sprintf("%p", ctx)})
	e := &env{c: c, ctx: ctx, files: r.w.files}
	if r.c.Rich {
		richOriginal(ctx)
	}
	for _, m := range r.c.Pre {
		r.emit("Pre", vtrace.Rec{"m": m})
		byName[m].f(e)
	}
	dO := r.takeCopy(ctx)
	for _, s := range r.steps("h") {
		r.apply(c, "h", s, ctx)
	}
	r.probe("ProbeO", "h", dumpCtx(ctx, false), dO)
	r.probe("ProbeC", "h", dumpCtx(r.cp, true), r.dC)
	r.origScheme = reparseScheme(ctx)
	r.emit("Ending", vtrace.Rec{"kind": "return"})
	ctx.Reset()
	r.nsent++
	r.emit("Recycle", vtrace.Rec{"k": r.nsent, "same": true})
	atomic.AddInt64(&r.w.stats.recycles, 1)
	atomic.AddInt64(&r.w.stats.recycledSame, 1)
	ctx.Request.SetRequestURI("http://ZZZ.ZZZZZZZ/s/ZZZZZ/ZZZZ/ZZZZZ?pq=ZZZ")
	ctx.Request.Header.SetMethod("PUT")
	ctx.Request.SetBodyString("ZZZZZZZZZZZZZZZZZZZZZZZZ")
	fillSentinel(ctx, r.cp)
	dS := dumpCtx(ctx, false)
	for _, s := range r.steps("s") {
		r.apply(c, "s", s, ctx)
	}
	r.probe("ProbeS", "", dumpCtx(ctx, false), dS)
	r.finalProbe()
}
