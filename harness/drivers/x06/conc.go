package main

// Concurrent cases (run under the race detector by checks/x06.py).

import (
	"context"
	"fmt"
	"runtime"
	"sync"
	"sync/atomic"

	"github.com/cloudwego/hertz/pkg/app"
	"github.com/cloudwego/hertz/pkg/network/standard"

	"verif/harness/vnet"
	"verif/harness/vtrace"
)

// ---------------------------------------------------------------- bg: copies used by goroutines that outlive the handler

type bgState struct {
	wg   sync.WaitGroup
	done chan struct{}
	n    int64
}

// bgFirstH takes a copy and hands it to a goroutine that keeps looking at it while the server goes on.
func (r *run) bgFirstH(bg *bgState) app.HandlerFunc {
	return func(c context.Context, ctx *app.RequestContext) {
		ctx.Set("c09", "first")
		ctx.Response.Header.Set("X-C09", "first")
		ctx.SetBodyString("first-body")
		reqStream, respStream := ctx.Request.IsBodyStream(), ctx.Response.IsBodyStream()
		cp := ctx.Copy()
		id := atomic.AddInt64(&bg.n, 1)
		atomic.AddInt64(&r.w.stats.copies, 1)
		dC := dumpCtx(cp, true)
		df := diff(dC, dumpCtx(ctx, false))
		shape := "get"
		if ctx.IsPost() {
			shape = map[bool]string{true: "multipart", false: "form"}[len(ctx.Request.Header.MultipartFormBoundary()) > 0]
			if ctx.Request.Header.ContentLength() < 0 {
				shape = "chunked"
			}
		}
		r.emitCopy("BgCopy", vtrace.Rec{"id": id, "ndiff": len(df), "reqStream": reqStream, "respStream": respStream}, df, shape)
		ret := takeRetained(cp)
		bg.wg.Add(1)
		go func() {
			defer bg.wg.Done()
			defer func() {
				if p := recover(); p != nil {
					r.emit("Panic", vtrace.Rec{"msg": fmt.Sprint(p), "where": "bg goroutine"})
				}
			}()
			ch := map[string]bool{}
			looks := 0
			look := func() {
				looks++
				for _, k := range diff(dumpCtx(cp, true), dC) {
					ch[k] = true
				}
				for _, k := range changedRetained(ret) {
					ch["retained:"+k] = true
				}
			}
			for i := 0; i < 3; i++ {
				look()
				runtime.Gosched()
			}
			<-bg.done // every connection of the case has been served: the original has been recycled many times
			look()
			out := []string{}
			for k := range ch {
				out = append(out, k)
			}
			sortS(out)
			atomic.AddInt64(&r.w.stats.probes, 1)
			r.emit("BgProbe", vtrace.Rec{"id": id, "changed": out, "looks": looks})
		}()
	}
}

func (r *run) bgSentinelH(c context.Context, ctx *app.RequestContext) {
	atomic.AddInt64(&r.w.stats.recycles, 1)
	ctx.Set("c09", "ZZZZZ")
	ctx.Response.Header.Set("X-C09", "ZZZZZ")
	ctx.Response.Header.SetContentType("ZZZZ/ZZZZZZZZZZZZZZZZZZZZZZZZ")
	ctx.SetBodyString("ZZZZZZZZZZZZZZZZZZZZZZZZZZZZZZZZ")
}

func (r *run) bgCase() {
	c := r.c
	bg := &bgState{done: make(chan struct{})}
	e := r.engineWith(c.Mode, r.bgFirstH(bg), r.bgSentinelH)
	shapes := []string{"get", "form", "multipart", "chunked"}
	var wg sync.WaitGroup
	for g := 0; g < c.Conns; g++ {
		wg.Add(1)
		go func(g int) {
			defer wg.Done()
			defer func() { // a panic escaping Engine.Serve: recorded (no spec action => rejected), the process survives
				if p := recover(); p != nil {
					r.emit("Panic", vtrace.Rec{"msg": fmt.Sprint(p), "where": "bg connection"})
				}
			}()
			for k := 0; k < c.Rounds; k++ {
				n := g*c.Rounds + k
				in := firstRequest(shapes[n%4]) + sentinelRequest(shapes[n%4]) + firstRequest(shapes[(n+1)%4]) + sentinelRequest(shapes[(n+2)%4])
				conn := vnet.New([]byte(in), nil)
				nc := standard.NewConnForVerif(conn, 4096)
				if c.Mode == "other" { // poller: Serve returns after every request, the context goes back to the pool each time
					for i := 0; i < 8 && !conn.Closed() && (nc.Len() > 0 || conn.Remaining() > 0); i++ {
						e.Serve(context.Background(), nc) //nolint:errcheck
					}
				} else {
					e.Serve(context.Background(), nc) //nolint:errcheck
				}
				conn.Close()
			}
		}(g)
	}
	wg.Wait()
	close(bg.done)
	bg.wg.Wait()
}

// ---------------------------------------------------------------- keys: Set / Get / ForEachKey / Copy from several goroutines

const keysWriters = 3
const maxKeysLog = 1500 // reads recorded per reader

type pairRec struct {
	W          int
	A, B       int64
	Lo, Hi     int64
	HasA, HasB bool
}

func recs(ps []pairRec) []vtrace.Rec {
	out := []vtrace.Rec{}
	for _, p := range ps {
		out = append(out, vtrace.Rec{"w": p.W, "a": p.A, "b": p.B, "lo": p.Lo, "hi": p.Hi, "hasA": p.HasA, "hasB": p.HasB})
	}
	return out
}

// keysH: writer w performs Set(a_w, n); Set(b_w, n) for n = 1..Rounds, publishing in started[w] the n it is about to
// write and in completed[w] the n it has finished writing.  Readers log what they read together with completed[w]
// loaded before and started[w] loaded after the read.
func (r *run) keysH(c context.Context, ctx *app.RequestContext) {
	r.emit("Enter", vtrace.Rec{"ptr": fmt.Sprintf("%p", ctx)})
	N := int64(r.c.Rounds)
	var started, completed [keysWriters]int64
	ka := func(w int) string { return fmt.Sprintf("a%d", w) }
	kb := func(w int) string { return fmt.Sprintf("b%d", w) }
	var wg, rg sync.WaitGroup
	stop := make(chan struct{})
	guard := func(where string) {
		if p := recover(); p != nil {
			r.emit("Panic", vtrace.Rec{"msg": fmt.Sprint(p), "where": where})
		}
	}
	ready := make(chan struct{}) // closed when every reader has looked once at the still empty store
	var first sync.WaitGroup
	first.Add(1)
	for w := 0; w < keysWriters; w++ {
		wg.Add(1)
		go func(w int) {
			defer wg.Done()
			defer guard("keys writer")
			<-ready
			for n := int64(1); n <= N; n++ {
				atomic.StoreInt64(&started[w], n)
				ctx.Set(ka(w), n)
				ctx.Set(kb(w), n)
				atomic.StoreInt64(&completed[w], n)
				runtime.Gosched()
			}
		}(w)
	}
	num := func(v interface{}, ok bool) (int64, bool) {
		if !ok || v == nil {
			return 0, false
		}
		return v.(int64), true
	}
	for g := 0; g < r.c.Conns; g++ {
		rg.Add(1)
		go func(g int) {
			defer rg.Done()
			defer guard("keys reader")
			// what was read is kept in memory and written out when the writers are done: a reader that formats a
			// line per read hardly ever overlaps a write
			type logged struct {
				ev  string
				rec vtrace.Rec
			}
			log := make([]logged, 0, 1024)
			note := func(ev string, rec vtrace.Rec) { log = append(log, logged{ev, rec}) }
			defer func() {
				for _, e := range log {
					r.emit(e.ev, e.rec)
				}
			}()
			if g != 0 { // the other readers join once the first pair has been written
				for atomic.LoadInt64(&completed[0]) == 0 {
					runtime.Gosched()
				}
			}
			for i := 0; ; i++ {
				select {
				case <-stop:
					return
				default:
				}
				if len(log) >= maxKeysLog {
					return
				}
				if i == 3 && g == 0 { // the goroutine that only uses Value has looked at the still empty store: the writers may start
					first.Done()
				}
				w := (g + i) % keysWriters
				kindOf := (g + i/keysWriters) % 5
				if g == 0 {
					kindOf = 0
				}
				if kindOf == 4 && g != 1 {
					// Copy is taken by ONE goroutine (concurrently with the writers' Set, which its RLock is for): Copy is
					// not read-only on the original (RequestHeader/ResponseHeader.CopyTo allocate the original's Trailer
					// lazily), so two simultaneous Copy calls on one context race with each other -- not a promised use
					kindOf = 2
				}
				switch kindOf {
				case 0, 1: // Get / Value / GetInt64 of one key
					key, which := ka(w), "a"
					if i%2 == 1 {
						key, which = kb(w), "b"
					}
					lo := atomic.LoadInt64(&completed[w])
					var v int64
					var ok bool
					via := []string{"Get", "Value", "GetInt64"}[i%3]
					if g == 0 {
						via = "Value" // this goroutine looks through Value only (the context.Context interface)
					}
					switch via {
					case "Get":
						v, ok = num(ctx.Get(key))
					case "Value":
						x := ctx.Value(key)
						v, ok = num(x, x != nil)
					default:
						v = ctx.GetInt64(key)
						ok = v != 0
					}
					hi := atomic.LoadInt64(&started[w])
					note("KGet", vtrace.Rec{"via": via, "w": w, "key": which, "v": v, "has": ok, "lo": lo, "hi": hi})
				case 2, 3: // ForEachKey: one snapshot of all pairs
					var lo, hi [keysWriters]int64
					for x := 0; x < keysWriters; x++ {
						lo[x] = atomic.LoadInt64(&completed[x])
					}
					ps := make([]pairRec, keysWriters)
					ctx.ForEachKey(func(k string, v interface{}) {
						var x int
						fmt.Sscanf(k[1:], "%d", &x) //nolint:errcheck
						if k[0] == 'a' {
							ps[x].A, ps[x].HasA = v.(int64), true
						} else {
							ps[x].B, ps[x].HasB = v.(int64), true
						}
					})
					for x := 0; x < keysWriters; x++ {
						hi[x] = atomic.LoadInt64(&started[x])
						ps[x].W, ps[x].Lo, ps[x].Hi = x, lo[x], hi[x]
					}
					note("KSnap", vtrace.Rec{"via": "ForEachKey", "pairs": recs(ps)})
				default: // Copy: the keys of the copy are one snapshot
					var lo, hi [keysWriters]int64
					for x := 0; x < keysWriters; x++ {
						lo[x] = atomic.LoadInt64(&completed[x])
					}
					cp := ctx.Copy()
					for x := 0; x < keysWriters; x++ {
						hi[x] = atomic.LoadInt64(&started[x])
					}
					ps := make([]pairRec, keysWriters)
					for x := 0; x < keysWriters; x++ {
						ps[x].W, ps[x].Lo, ps[x].Hi = x, lo[x], hi[x]
						ps[x].A, ps[x].HasA = num(cp.Get(ka(x)))
						ps[x].B, ps[x].HasB = num(cp.Get(kb(x)))
					}
					note("KSnap", vtrace.Rec{"via": "Copy", "pairs": recs(ps)})
				}
				runtime.Gosched()
			}
		}(g)
	}
	first.Wait()
	close(ready)
	wg.Wait()
	close(stop)
	rg.Wait()
	// quiescent: every key holds its last value
	ps := make([]pairRec, keysWriters)
	for x := 0; x < keysWriters; x++ {
		ps[x].W, ps[x].Lo, ps[x].Hi = x, atomic.LoadInt64(&completed[x]), atomic.LoadInt64(&started[x])
		ps[x].A, ps[x].HasA = num(ctx.Get(ka(x)))
		ps[x].B, ps[x].HasB = num(ctx.Get(kb(x)))
	}
	r.emit("KFinal", vtrace.Rec{"rounds": N, "pairs": recs(ps), "must": func() bool {
		defer func() { recover() }() //nolint:errcheck
		return ctx.MustGet(ka(0)) != nil
	}()})
	ctx.SetBodyString("keys")
}

func (r *run) keysCase() {
	e := r.engineWith("same", r.keysH, r.bgSentinelH)
	conn := vnet.New([]byte(firstRequest("get")), nil)
	vnet.ServeConn(e, conn, "inloop", 0)
}
