package main

// Sentinel content for the recycled original, and the byte slices retained from the copy's getters.

import (
	"errors"
	"sort"
	"strings"

	"github.com/cloudwego/hertz/pkg/app"
	"github.com/cloudwego/hertz/pkg/common/config"
	"github.com/cloudwego/hertz/pkg/protocol"
	"github.com/cloudwego/hertz/pkg/route/param"
)

// richOriginal gives the original something to copy in every part a handler usually fills before it hands a copy
// to a goroutine: keys, an error, response status, headers, cookie, trailer and body.
func richOriginal(ctx *app.RequestContext) {
	ctx.Set("c09", "first")
	ctx.Set("x06", 7)
	ctx.Error(errors.New("first-error")) //nolint:errcheck
	ctx.Response.SetStatusCode(201)
	ctx.Response.Header.Set("X-C09", "first-resp")
	ctx.Response.Header.Set("X-First", "1")
	ctx.Response.Header.SetContentType("text/first")
	ck := &protocol.Cookie{}
	ck.SetKey("rc")
	ck.SetValue("first")
	ctx.Response.Header.SetCookie(ck)
	ctx.Response.Header.Trailer().Set("X-First-T", "tv") //nolint:errcheck
	ctx.Response.SetBodyString("first-body")
}

func zs(n int) string {
	if n < 3 {
		n = 3
	}
	return strings.Repeat("Z", n)
}

var noFill = map[string]bool{"content-length": true, "transfer-encoding": true, "connection": true, "date": true,
	"set-cookie": true, "cookie": true, "trailer": true}

// fillSentinel writes, into the context that serves a sentinel request, a value made of 'Z' (at least as long) under
// every name the copy knows: keys, request and response headers, cookies, trailers, query and post arguments,
// parameters, request options, errors, status, response body.  The copy is only read.
func fillSentinel(ctx, cp *app.RequestContext) {
	type kv struct{ k, v string }
	collect := func(visit func(func(k, v []byte))) []kv {
		out := []kv{}
		visit(func(k, v []byte) { out = append(out, kv{string(k), zs(len(v))}) })
		return out
	}
	keys := []string{"c09", "x06"}
	cp.ForEachKey(func(k string, v interface{}) { keys = append(keys, k) })
	for _, k := range keys {
		ctx.Set(k, "ZZZZZZZZ")
	}
	for i := range ctx.Params { // in place: the storage the router filled for this request
		ctx.Params[i].Value = zs(len(ctx.Params[i].Value))
	}
	for _, p := range cp.Params {
		if _, ok := ctx.Params.Get(p.Key); !ok {
			ctx.Params = append(ctx.Params, param.Param{Key: p.Key, Value: zs(len(p.Value))})
		}
	}
	ctx.Error(errors.New("ZZZZZZZZ")) //nolint:errcheck
	for _, h := range collect(cp.Request.Header.VisitAll) {
		if !noFill[strings.ToLower(h.k)] && !strings.EqualFold(h.k, "Content-Type") {
			ctx.Request.Header.Set(h.k, h.v)
		}
	}
	for _, h := range collect(cp.Request.Header.VisitAllCookie) {
		ctx.Request.Header.SetCookie(h.k, h.v)
	}
	for _, h := range collect(cp.Request.Header.Trailer().VisitAll) {
		ctx.Request.Header.Trailer().Set(h.k, h.v) //nolint:errcheck
	}
	for _, a := range collect(cp.QueryArgs().VisitAll) {
		ctx.QueryArgs().Set(a.k, a.v)
	}
	for _, a := range collect(cp.PostArgs().VisitAll) {
		ctx.PostArgs().Set(a.k, a.v)
	}
	ctx.URI().SetHash("ZZZZZZZZZZ")
	ctx.URI().SetUsername("ZZZZZZZZZZ")
	ctx.URI().SetPassword("ZZZZZZZZZZ")
	ctx.Request.SetOptions(config.WithTag("c09", "ZZZ"), config.WithTag("copy", "ZZZ"), config.WithTag("x06", "ZZZ"))

	ctx.Response.SetStatusCode(299)
	for _, h := range collect(cp.Response.Header.VisitAll) {
		if !noFill[strings.ToLower(h.k)] {
			ctx.Response.Header.Set(h.k, h.v)
		}
	}
	ctx.Response.Header.Set("X-C09", "ZZZZZZZZZZZZ")
	ctx.Response.Header.SetContentType("ZZZZ/ZZZZZZZZZZZZZZZZZZZZZZZZ")
	ctx.Response.Header.SetContentEncoding("ZZZZZZZZ")
	ctx.Response.Header.SetServerBytes([]byte("ZZZZZZZZZZZZ"))
	for _, h := range collect(cp.Response.Header.VisitAllCookie) {
		ck := &protocol.Cookie{}
		ck.SetKey(h.k)
		ck.SetValue("ZZZZZZZZ")
		ck.SetPath("/ZZZ")
		ck.SetDomain("ZZZ.ZZZZZZZ")
		ctx.Response.Header.SetCookie(ck)
	}
	for _, h := range collect(cp.Response.Header.Trailer().VisitAll) {
		ctx.Response.Header.Trailer().Set(h.k, h.v) //nolint:errcheck
	}
}

// retained is one value a getter of the copy returned right after Copy, kept as the slice itself (or, for string
// getters, the string itself) together with an independent copy of its bytes.
type retained struct {
	comp  string // the component (name in the dump) the getter reads
	b     []byte
	s     string
	isStr bool
	saved string
}

func keep(out *[]retained, comp string, b []byte) {
	*out = append(*out, retained{comp: comp, b: b, saved: string(b)})
}

func keepStr(out *[]retained, comp string, s string) {
	*out = append(*out, retained{comp: comp, s: s, isStr: true, saved: string(append([]byte(nil), s...))})
}

// takeRetained calls the getters of the copy that return a slice of the copy's own fields (not of a scratch buffer
// the next getter call rewrites) and keeps what they returned.
func takeRetained(cp *app.RequestContext) []retained {
	out := []retained{}
	keep(&out, "req.uri.host", cp.Host())
	keep(&out, "req.uri.path", cp.Path())
	keep(&out, "req.uri.pathOriginal", cp.URI().PathOriginal())
	keep(&out, "req.uri.queryString", cp.URI().QueryString())
	keep(&out, "req.uri.scheme", cp.URI().Scheme())
	keep(&out, "req.uri.hash", cp.URI().Hash())
	keep(&out, "req.uri.username", cp.URI().Username())
	keep(&out, "req.uri.password", cp.URI().Password())
	keep(&out, "req.uri.queryArgs", cp.QueryArgs().Peek("pq"))
	keep(&out, "req.h.method", cp.Method())
	keep(&out, "req.h.requestURI", cp.Request.Header.RequestURI())
	keep(&out, "req.h.host", cp.Request.Header.Host())
	keep(&out, "req.h.userAgent", cp.UserAgent())
	keep(&out, "req.h.contentType", cp.ContentType())
	keep(&out, "req.h.rawHeaders", cp.Request.Header.RawHeaders())
	keep(&out, "req.h.cookies", cp.Cookie("pc"))
	keep(&out, "req.h.custom", cp.GetHeader("X-C09"))
	cp.Request.Header.VisitAllCustomHeader(func(k, v []byte) {
		keep(&out, "req.h.custom", k)
		keep(&out, "req.h.custom", v)
	})
	cp.Request.Header.Trailer().VisitAll(func(k, v []byte) {
		keep(&out, "req.h.trailer", k)
		keep(&out, "req.h.trailer", v)
	})
	keep(&out, "req.postArgs", cp.PostArgs().Peek("pa"))
	cp.PostArgs().VisitAll(func(k, v []byte) {
		keep(&out, "req.postArgs", k)
		keep(&out, "req.postArgs", v)
	})
	cp.QueryArgs().VisitAll(func(k, v []byte) {
		keep(&out, "req.uri.queryArgs", k)
		keep(&out, "req.uri.queryArgs", v)
	})
	keep(&out, "req.body", cp.Request.Body())
	keep(&out, "req.bodyBytes", cp.GetRawData())
	keep(&out, "resp.body", cp.Response.Body())
	keep(&out, "resp.bodyBytes", cp.Response.BodyBytes())
	keep(&out, "resp.h.contentType", cp.Response.Header.ContentType())
	keep(&out, "resp.h.contentEncoding", cp.Response.Header.ContentEncoding())
	keep(&out, "resp.h.server", cp.Response.Header.Server())
	for _, h := range cp.Response.Header.GetHeaders() {
		keep(&out, "resp.h.custom", h.GetKey())
		keep(&out, "resp.h.custom", h.GetValue())
	}
	for _, h := range cp.Response.Header.GetCookies() {
		keep(&out, "resp.h.cookies", h.GetKey())
		keep(&out, "resp.h.cookies", h.GetValue())
	}
	cp.Response.Header.Trailer().VisitAll(func(k, v []byte) {
		keep(&out, "resp.h.trailer", k)
		keep(&out, "resp.h.trailer", v)
	})
	for _, p := range cp.Params {
		keepStr(&out, "ctx.params", p.Key)
		keepStr(&out, "ctx.params", p.Value)
	}
	keepStr(&out, "ctx.params", cp.Param("p1"))
	keepStr(&out, "ctx.fullPath", cp.FullPath())
	keepStr(&out, "ctx.keys", cp.GetString("c09"))
	keepStr(&out, "ctx.derived", cp.Query("pq"))
	keepStr(&out, "ctx.derived", cp.PostForm("pa"))
	return out
}

// changedRetained returns the components of which a retained value no longer has the bytes it had when taken.
func changedRetained(rs []retained) []string {
	seen := map[string]bool{}
	out := []string{}
	for _, r := range rs {
		cur := string(r.b)
		if r.isStr {
			cur = r.s
		}
		if cur != r.saved && !seen[r.comp] {
			seen[r.comp] = true
			out = append(out, r.comp)
		}
	}
	sort.Strings(out)
	return out
}
