package main

// Copied from harness/drivers/c09/dump.go (the C09 probe set) for X06; the only change: a dump may be told not to
// read body streams (rs = false), because X06 looks at the ORIGINAL context while its handler is still running and a
// stream can be read once.
//
// The observable state of a RequestContext / Request / Response / URI / Args / Cookie, component by component,
// read through exported getters and exported fields only.  The component names are the elements of Obs in
// spec/CtxLifecycle.tla.  Volatile values (Date, addresses, timestamps, pointers) are never part of a value.
//
// Several getters are lazy (URI(), PostArgs(), MultipartForm(), Finished(), Options(), Trailer()): the dump calls
// them in one fixed order, identically for the fresh reference and for the recycled object, so they do not disturb
// the comparison.

import (
	"bytes"
	"fmt"
	"io"
	"sort"
	"strings"

	"github.com/cloudwego/hertz/pkg/app"
	"github.com/cloudwego/hertz/pkg/common/tracer/stats"
	"github.com/cloudwego/hertz/pkg/protocol"
)

type dump map[string]string

func (d dump) put(k string, a ...interface{}) {
	var sb strings.Builder
	for i, x := range a {
		if i > 0 {
			sb.WriteByte('|')
		}
		switch v := x.(type) {
		case []byte:
			fmt.Fprintf(&sb, "%q", v)
		case string:
			fmt.Fprintf(&sb, "%q", v)
		default:
			fmt.Fprintf(&sb, "%v", v)
		}
	}
	d[k] = sb.String()
}

func kvList(visit func(func(k, v []byte))) string {
	var sb strings.Builder
	visit(func(k, v []byte) { fmt.Fprintf(&sb, "%q=%q;", k, v) })
	return sb.String()
}

// diff returns the sorted names of the components whose values differ (a component missing on one side differs).
func diff(a, b dump) []string {
	out := []string{}
	for k, v := range a {
		if w, ok := b[k]; !ok || w != v {
			out = append(out, k)
		}
	}
	for k := range b {
		if _, ok := a[k]; !ok {
			out = append(out, k)
		}
	}
	sort.Strings(out)
	return out
}

func readAllLimited(r io.Reader) string {
	if r == nil {
		return "<nil>"
	}
	b, err := io.ReadAll(io.LimitReader(r, 1<<16))
	if err != nil {
		return fmt.Sprintf("%q+err", b)
	}
	return fmt.Sprintf("%q", b)
}

func dumpArgs(d dump, name string, a *protocol.Args) {
	d.put(name, a.Len(), kvList(a.VisitAll), a.QueryString())
}

func dumpTrailer(d dump, name string, t *protocol.Trailer) {
	d.put(name, kvList(t.VisitAll), t.Header(), t.Empty())
}

func dumpURI(d dump, p string, u *protocol.URI) {
	d.put(p+"scheme", u.Scheme())
	d.put(p+"host", u.Host())
	d.put(p+"path", u.Path())
	d.put(p+"pathOriginal", u.PathOriginal())
	d.put(p+"queryString", u.QueryString())
	d.put(p+"hash", u.Hash())
	d.put(p+"username", u.Username())
	d.put(p+"password", u.Password())
	d.put(p+"disablePathNormalizing", u.DisablePathNormalizing)
	dumpArgs(d, p+"queryArgs", u.QueryArgs())
	d.put(p+"full", u.FullURI(), u.RequestURI(), u.String(), u.LastPathSegment())
}

func dumpReqHeader(d dump, p string, h *protocol.RequestHeader) {
	d.put(p+"method", h.Method(), h.IsGet(), h.IsPost(), h.IsHead(), h.IsPut(), h.IsDelete(), h.IsConnect(), h.IsOptions(), h.IsTrace())
	d.put(p+"requestURI", h.RequestURI())
	d.put(p+"host", h.Host())
	d.put(p+"contentType", h.ContentType(), h.MultipartFormBoundary())
	d.put(p+"userAgent", h.UserAgent())
	d.put(p+"contentLength", h.ContentLength(), h.ContentLengthBytes(), h.IgnoreBody())
	d.put(p+"protocol", h.GetProtocol(), h.IsHTTP11())
	d.put(p+"connectionClose", h.ConnectionClose())
	d.put(p+"disableNormalizing", h.IsDisableNormalizing(), h.Trailer().IsDisableNormalizing())
	d.put(p+"rawHeaders", h.RawHeaders())
	d.put(p+"cookies", kvList(h.VisitAllCookie), h.FullCookie(), len(h.Cookies()))
	d.put(p+"custom", kvList(h.VisitAllCustomHeader), h.Len())
	d.put(p+"all", kvList(h.VisitAll), h.Peek("X-C09"), len(h.PeekAll("X-C09")), h.Get("Accept-Encoding"), h.PeekRange(),
		h.PeekContentEncoding(), h.PeekIfModifiedSinceBytes(), h.HasAcceptEncodingBytes([]byte("gzip")))
	dumpTrailer(d, p+"trailer", h.Trailer())
	d.put(p+"bytes", h.Header(), h.String())
	// noDefaultContentType has no getter; it decides whether a body-carrying method gets the default content type
	var c protocol.RequestHeader
	h.CopyTo(&c)
	c.SetMethod("POST")
	c.SetContentTypeBytes(nil)
	d.put(p+"noDefaultContentType", !bytes.Contains(c.Header(), []byte("Content-Type")))
}

func dumpReq(d dump, p string, r *protocol.Request, rs bool) {
	d.put(p+"parsedURI", r.IsURIParsed())
	dumpReqHeader(d, p+"h.", &r.Header)
	// isTLS has no getter: it decides the scheme a (re)parse of an origin-form target yields
	var t protocol.Request
	r.CopyToSkipBody(&t)
	t.SetRequestURI("/c09")
	t.Header.SetHost("c09")
	d.put(p+"isTLS", t.URI().Scheme())
	dumpURI(d, p+"uri.", r.URI())
	d.put(p+"derived", r.Method(), r.Host(), r.Path(), r.QueryString(), r.RequestURI(), r.ConnectionClose(), r.MayContinue())
	u, pw, ok := r.BasicAuth()
	d.put(p+"basicAuth", u, pw, ok)
	d.put(p+"mp.boundary", r.MultipartFormBoundary())
	d.put(p+"mp.files", len(r.MultipartFiles()))
	d.put(p+"mp.fields", len(r.MultipartFields()))
	// X06: only whether a parsed form is there; whether the body bytes are kept next to it (OnlyMultipartForm) is storage
	d.put(p+"mp.flags", r.HasMultipartForm())
	d.put(p+"bodyStream.is", r.IsBodyStream())
	if r.HasMultipartForm() { // X06: the raw buffer of a request whose form is parsed may hold the serialised form or nothing
		d.put(p+"bodyBytes", "multipart")
	} else {
		d.put(p+"bodyBytes", r.BodyBytes())
	}
	dumpArgs(d, p+"postArgs", r.PostArgs())
	d.put(p+"postArgString", r.PostArgString())
	mf, err := r.MultipartForm()
	if err != nil {
		d.put(p+"mp.form", "err")
	} else {
		keys := []string{}
		for k, v := range mf.Value {
			keys = append(keys, fmt.Sprintf("%s=%v", k, v))
		}
		for k, v := range mf.File {
			keys = append(keys, fmt.Sprintf("file:%s=%d", k, len(v)))
		}
		sort.Strings(keys)
		d.put(p+"mp.form", strings.Join(keys, ";"))
	}
	o := r.Options()
	tags := []string{}
	for k, v := range o.Tags() {
		tags = append(tags, k+"="+v)
	}
	sort.Strings(tags)
	d.put(p+"options", strings.Join(tags, ";"), o.IsSD(), o.DialTimeout(), o.ReadTimeout(), o.WriteTimeout(), o.RequestTimeout())
	// last: the body (reading a stream consumes it)
	if r.IsBodyStream() && !rs {
		d.put(p+"body", "stream")
	} else if r.IsBodyStream() {
		d.put(p+"body", "stream", readAllLimited(r.BodyStream()))
	} else {
		b, err := r.BodyE()
		d.put(p+"body", canonBody(r, b), err != nil)
	}
}

// canonBody: a request whose multipart form is parsed serialises the form anew, in map order, on every Body() call
// when it keeps no body bytes: the lines are sorted so that two looks at the same form give the same value.
func canonBody(r *protocol.Request, b []byte) string {
	if !r.HasMultipartForm() {
		return string(b)
	}
	lines := strings.Split(string(b), "\r\n")
	sort.Strings(lines)
	return "multipart-lines:" + strings.Join(lines, "|")
}

func dumpRespHeader(d dump, p string, h *protocol.ResponseHeader) {
	d.put(p+"status", h.StatusCode())
	d.put(p+"contentType", h.ContentType())
	d.put(p+"contentLength", h.ContentLength(), h.ContentLengthBytes(), h.MustSkipContentLength())
	d.put(p+"contentEncoding", h.ContentEncoding())
	d.put(p+"server", h.Server())
	d.put(p+"connectionClose", h.ConnectionClose())
	d.put(p+"protocol", h.GetProtocol(), h.IsHTTP11())
	d.put(p+"noDefaultContentType", h.NoDefaultContentType())
	d.put(p+"disableNormalizing", h.IsDisableNormalizing(), h.Trailer().IsDisableNormalizing())
	d.put(p+"headerLength", h.GetHeaderLength())
	d.put(p+"cookies", kvList(h.VisitAllCookie), h.FullCookie(), len(h.GetCookies()))
	var custom strings.Builder
	for _, kv := range h.GetHeaders() {
		fmt.Fprintf(&custom, "%q=%q;", kv.GetKey(), kv.GetValue())
	}
	d.put(p+"custom", custom.String(), h.Len())
	all := kvList(func(f func(k, v []byte)) {
		h.VisitAll(func(k, v []byte) {
			if !strings.EqualFold(string(k), "Date") {
				f(k, v)
			}
		})
	})
	d.put(p+"all", all, h.Peek("X-C09"), len(h.PeekAll("X-C09")), h.Get("Location"), h.PeekLocation())
	dumpTrailer(d, p+"trailer", h.Trailer())
	// serialized form without the Date line (volatile); its presence is the only view of noDefaultDate
	lines := strings.Split(string(h.Header()), "\r\n")
	hasDate := false
	keep := lines[:0]
	for _, l := range lines {
		if strings.HasPrefix(strings.ToLower(l), "date:") {
			hasDate = true
			continue
		}
		keep = append(keep, l)
	}
	d.put(p+"noDefaultDate", !hasDate)
	d.put(p+"bytes", strings.Join(keep, "\r\n"))
}

func dumpResp(d dump, p string, r *protocol.Response, rs bool) {
	dumpRespHeader(d, p+"h.", &r.Header)
	d.put(p+"skipBody", r.SkipBody, r.MustSkipBody())
	d.put(p+"immediateHeaderFlush", r.ImmediateHeaderFlush)
	d.put(p+"hijackWriter", r.GetHijackWriter() != nil)
	d.put(p+"addrs", r.RemoteAddr() != nil, r.LocalAddr() != nil)
	d.put(p+"derived", r.StatusCode(), r.ConnectionClose())
	d.put(p+"bodyStream.is", r.IsBodyStream())
	d.put(p+"bodyBytes", r.BodyBytes(), r.HasBodyBytes())
	_, herr := r.Hijack()
	d.put(p+"hijack", herr != nil)
	if r.IsBodyStream() && !rs {
		d.put(p+"body", "stream")
	} else if r.IsBodyStream() {
		d.put(p+"body", "stream", readAllLimited(r.BodyStream()))
	} else {
		b, err := r.BodyE()
		d.put(p+"body", b, err != nil)
	}
}

func dumpCookie(d dump, p string, c *protocol.Cookie) {
	d.put(p+"key", c.Key())
	d.put(p+"value", c.Value())
	d.put(p+"expire", c.Expire().Equal(protocol.CookieExpireUnlimited), c.Expire().Unix())
	d.put(p+"maxAge", c.MaxAge())
	d.put(p+"domain", c.Domain())
	d.put(p+"path", c.Path())
	d.put(p+"flags", c.HTTPOnly(), c.Secure(), c.Partitioned(), int(c.SameSite()))
	d.put(p+"bytes", c.Cookie(), c.String())
}

var statEvents = []struct {
	n string
	e stats.Event
}{{"HTTPStart", stats.HTTPStart}, {"HTTPFinish", stats.HTTPFinish}, {"ServerHandleStart", stats.ServerHandleStart},
	{"ServerHandleFinish", stats.ServerHandleFinish}, {"ReadHeaderStart", stats.ReadHeaderStart}, {"ReadHeaderFinish", stats.ReadHeaderFinish},
	{"ReadBodyStart", stats.ReadBodyStart}, {"ReadBodyFinish", stats.ReadBodyFinish}, {"WriteStart", stats.WriteStart}, {"WriteFinish", stats.WriteFinish}}

// dumpCtx looks twice and reports the second look: the lazy getters (parsed URI, post arguments, multipart form and
// its boundary, cookies, Finished) have then all run, so that two dumps of an unchanged context are equal.
func dumpCtx(ctx *app.RequestContext, rs bool) dump {
	dumpOnce(ctx, rs)
	return dumpOnce(ctx, rs)
}

func dumpOnce(ctx *app.RequestContext, rs bool) dump {
	d := dump{}
	// context-level components first (the request/response dumps below are lazy-parsing)
	var ps strings.Builder
	for _, p := range ctx.Params {
		fmt.Fprintf(&ps, "%q=%q;", p.Key, p.Value)
	}
	d.put("ctx.params", ps.String(), len(ctx.Params), ctx.Param("p1"), ctx.Param("pp"))
	if len(ctx.Keys) == 0 { // X06: a nil and an empty map are the same key/value store for every getter
		d.put("ctx.keys", "empty", ctx.Value("c09") == nil)
	} else {
		ks := []string{}
		ctx.ForEachKey(func(k string, v interface{}) { ks = append(ks, fmt.Sprintf("%s=%v", k, v)) })
		sort.Strings(ks)
		v, ok := ctx.Get("c09")
		d.put("ctx.keys", strings.Join(ks, ";"), v, ok, ctx.GetString("c09"), ctx.Value("c09") == nil)
	}
	es := []string{}
	for _, e := range ctx.Errors {
		es = append(es, e.Error())
	}
	d.put("ctx.errors", len(ctx.Errors), strings.Join(es, ";"), ctx.Errors.String())
	d.put("ctx.handlers", len(ctx.Handlers()), ctx.Handler() != nil)
	d.put("ctx.index", ctx.GetIndex(), ctx.IsAborted())
	d.put("ctx.fullPath", ctx.FullPath())
	d.put("ctx.hijackHandler", ctx.Hijacked(), ctx.GetHijackHandler() != nil)
	d.put("ctx.htmlRender", ctx.HTMLRender != nil)
	d.put("ctx.exiled", ctx.IsExiled())
	d.put("ctx.enableTrace", ctx.IsEnableTrace())
	d.put("ctx.conn", ctx.GetConn() != nil, ctx.GetReader() != nil, ctx.GetWriter() != nil)
	ti := ctx.GetTraceInfo()
	d.put("ctx.traceInfo", ti != nil)
	if ti != nil && ti.Stats() != nil {
		st := ti.Stats()
		d.put("trace.sendSize", st.SendSize())
		d.put("trace.recvSize", st.RecvSize())
		d.put("trace.error", st.Error())
		pk, pv := st.Panicked()
		d.put("trace.panicked", pk, pv)
		evs := []string{}
		for _, e := range statEvents {
			if ev := st.GetEvent(e.e); ev != nil {
				evs = append(evs, fmt.Sprintf("%s:%v:%s", e.n, ev.Status(), ev.Info()))
			}
		}
		d.put("trace.events", strings.Join(evs, ";"))
		d.put("trace.level", int(st.Level()))
	}
	select {
	case <-ctx.Finished():
		d.put("ctx.finished", "closed")
	default:
		d.put("ctx.finished", "open")
	}
	d.put("ctx.clientIPFunc", ctx.ClientIP())
	d.put("ctx.derived", ctx.Host(), ctx.Path(), ctx.Method(), ctx.ContentType(), ctx.UserAgent(), ctx.IsGet(), ctx.IsPost(), ctx.IsHead(),
		ctx.Cookie("pc"), ctx.GetHeader("X-C09"), ctx.Query("pq"), ctx.PostForm("pa"), ctx.URI() != nil, canonBody(&ctx.Request, ctx.GetRawData()))
	dumpReq(d, "req.", &ctx.Request, rs)
	d.put("ctx.formValueFunc", ctx.FormValue("pa"), ctx.FormValue("c09-fvprobe"))
	dumpResp(d, "resp.", &ctx.Response, rs)
	return d
}
