// Driver for X05 -- the client's host-client map and its cleaner (pkg/app/client/client.go).
// Every case is a script (calls to symbolic URLs with a peer behaviour, parking between lookup and use, waiting for
// cleaner ticks, CloseIdleConnections, observer windows) run against a fresh REAL client.NewClient with an in-memory
// dialer.  All cases run side by side (the cleaner's 10 s sleep is hard-coded: the cases wait for it in parallel).
// Recorded: Begin/End per call, New/Config/Use/Done, Cnt/Dial (hook H2), Req/Resp/Closed (peer), Should/Close
// (cleaner), CIBegin/CIVisit/CIEnd, Observe/ObsCount, Final.  The driver never decides pass/fail.
package main

import (
	"bufio"
	"encoding/json"
	"flag"
	"fmt"
	"os"
	"path/filepath"
	"sync"

	"verif/harness/vtrace"
)

func main() {
	casesF := flag.String("cases", "", "ndjson case file")
	out := flag.String("out", "", "output directory")
	chunks := flag.Int("chunks", 4, "trace files")
	par := flag.Int("par", 400, "cases run side by side")
	flag.Parse()
	f, err := os.Open(*casesF)
	if err != nil {
		fmt.Fprintln(os.Stderr, err)
		os.Exit(2)
	}
	type item struct {
		c    *Case
		raw  json.RawMessage
		recs []vtrace.Rec
	}
	var all []*item
	sc := bufio.NewScanner(f)
	sc.Buffer(make([]byte, 1<<20), 1<<26)
	for sc.Scan() {
		raw := append([]byte(nil), sc.Bytes()...)
		c := &Case{}
		if err := json.Unmarshal(raw, c); err != nil {
			fmt.Fprintln(os.Stderr, "bad case line:", err)
			os.Exit(2)
		}
		all = append(all, &item{c: c, raw: raw})
	}
	if len(all) == 0 {
		fmt.Fprintln(os.Stderr, "no cases")
		os.Exit(2)
	}
	installHooks()
	sem := make(chan struct{}, *par)
	var wg sync.WaitGroup
	for _, it := range all {
		it := it
		sem <- struct{}{}
		wg.Add(1)
		go func() {
			defer func() { <-sem; wg.Done() }()
			it.recs = runCase(it.c, it.raw)
		}()
	}
	wg.Wait()
	n := *chunks
	if n > len(all) {
		n = len(all)
	}
	if err := os.MkdirAll(*out, 0o755); err != nil {
		panic(err)
	}
	for k := 0; k < n; k++ {
		tr, err := vtrace.Create(filepath.Join(*out, fmt.Sprintf("trace_%03d.ndjson", k)))
		if err != nil {
			panic(err)
		}
		for i := k; i < len(all); i += n {
			for _, r := range all[i].recs {
				tr.Emit(r["ev"].(string), r)
			}
		}
		tr.Close()
	}
	fmt.Printf("{\"cases\":%d,\"chunks\":%d}\n", len(all), n)
}
