package main

import (
	"encoding/json"
	"time"

	"verif/harness/vtrace"
)

const (
	stepWait  = 8 * time.Second  // a call / an arrival the script waits for
	tickEvery = 10 * time.Second // what client.go sleeps between two cleaner ticks
	tickSlack = 6 * time.Second
)

// runCase executes the script of one case on a fresh real client and returns the recorded lines.
func runCase(c *Case, raw json.RawMessage) []vtrace.Rec {
	r := &runner{c: c, conns: map[int64]*peerConn{}, calls: map[int]*callState{}, gnums: map[int64]int{},
		abort: make(chan struct{})}
	r.recs = append(r.recs, caseHead(raw))
	r.setup()
	ok := true
	for _, st := range c.Steps {
		if !r.step(st) {
			ok = false
			break
		}
	}
	// quiesce: let every call finish, then read the pools
	close(r.abort)
	r.mu.Lock()
	var all []*callState
	for _, cs := range r.calls {
		all = append(all, cs)
	}
	r.mu.Unlock()
	for _, cs := range all {
		if !waitCh(cs.done, stepWait) {
			r.emit("Hang", map[string]interface{}{"p": cs.p})
			ok = false
		}
	}
	if ok {
		r.final()
	}
	r.mu.Lock()
	r.recs = append(r.recs, vtrace.Rec{"ev": "End"})
	r.over = true
	recs := r.recs
	hcs := append([]*hcInfo(nil), r.hcs...)
	r.mu.Unlock()
	// let the background goroutines of this client end: no connection left => the cleaner empties the maps
	for _, h := range hcs {
		func() {
			defer func() { recover() }() //nolint:errcheck
			h.inner.CloseIdleConnections()
		}()
	}
	return recs
}

// final reads every host client's pool; a reading is kept only if no Cnt event of that host client slipped in.
func (r *runner) final() {
	r.mu.Lock()
	hcs := append([]*hcInfo(nil), r.hcs...)
	r.mu.Unlock()
	for _, h := range hcs {
		for try := 0; ; try++ {
			r.mu.Lock()
			s := h.seq
			r.mu.Unlock()
			st := h.inner.ConnPoolState()
			cc := h.inner.ConnectionCount()
			r.mu.Lock()
			if h.seq == s || try >= 20 {
				r.emitLocked("Final", map[string]interface{}{"hc": h.id, "total": st.TotalConnNum, "pool": st.PoolConnNum,
					"cc": cc, "wait": st.WaitConnNum, "sure": h.seq == s})
				r.mu.Unlock()
				break
			}
			r.mu.Unlock()
		}
	}
}

func (r *runner) call(p int) *callState { r.mu.Lock(); defer r.mu.Unlock(); return r.calls[p] }

func (r *runner) step(st Step) bool {
	switch st.Op {
	case "call":
		r.startCall(st)
	case "arrive":
		cs := r.call(st.P)
		if cs == nil {
			return true
		}
		ch := cs.atGate.ch
		if st.F == "peer" {
			ch = cs.atPeer.ch
		}
		if !waitCh(ch, stepWait) {
			r.emit("Hang", map[string]interface{}{"p": st.P})
			return false
		}
	case "unpark":
		if cs := r.call(st.P); cs != nil {
			close(cs.unpark)
		}
	case "release":
		if cs := r.call(st.P); cs != nil {
			close(cs.release)
		}
	case "wait":
		r.mu.Lock()
		var ws []*callState
		for _, cs := range r.calls {
			if st.P == 0 || cs.p == st.P {
				ws = append(ws, cs)
			}
		}
		r.mu.Unlock()
		for _, cs := range ws {
			if !waitCh(cs.done, stepWait) {
				r.emit("Hang", map[string]interface{}{"p": cs.p})
				return false
			}
		}
	case "tick":
		// wait until the cleaner of flavour F has been seen working on its N-th tick, and that tick is over
		fl := r.flav(st.F == "s")
		r.mu.Lock()
		left := st.N - fl.t
		if left < 1 {
			left = 1
		}
		deadline := time.Now().Add(time.Duration(left)*tickEvery + tickSlack)
		for fl.t < st.N || time.Since(fl.last) < 150*time.Millisecond {
			if time.Now().After(deadline) {
				r.emitLocked("TickTimeout", map[string]interface{}{"f": st.F, "n": st.N, "t": fl.t})
				r.mu.Unlock()
				return false
			}
			r.mu.Unlock()
			time.Sleep(20 * time.Millisecond)
			r.mu.Lock()
		}
		r.emitLocked("Ticked", map[string]interface{}{"f": st.F, "n": st.N})
		r.mu.Unlock()
	case "sleep":
		r.emit("SleepBegin", map[string]interface{}{"ms": st.N})
		t0 := time.Now()
		time.Sleep(time.Duration(st.N) * time.Millisecond)
		r.emit("Sleep", map[string]interface{}{"ms": st.N, "real": ms(time.Since(t0))})
	case "closeidle":
		r.emit("CIBegin", nil)
		r.cli.CloseIdleConnections()
		r.emit("CIEnd", nil)
	case "getname":
		name, err := r.cli.GetDialerName()
		r.emit("GetName", map[string]interface{}{"typ": r.typeName(), "name": name, "err": err != nil})
	case "obs":
		// the observers are given time to notice a removal, then their callbacks are counted for a while
		iv := time.Duration(r.c.ObsMs) * time.Millisecond
		r.emit("ObsPre", nil)
		time.Sleep(5 * iv)
		t0 := time.Now() // the window [open, close] lies inside [t0, t1]
		r.mu.Lock()
		for _, h := range r.hcs {
			h.win = 0
		}
		r.obsOpen = true
		r.emitLocked("ObsBegin", nil)
		r.mu.Unlock()
		time.Sleep(20 * iv)
		r.mu.Lock()
		r.obsOpen = false
		r.mu.Unlock()
		ivs := int((time.Since(t0) + iv - 1) / iv)
		r.mu.Lock()
		for _, h := range r.hcs {
			r.emitLocked("ObsCount", map[string]interface{}{"hc": h.id, "n": h.win, "ivs": ivs})
		}
		r.mu.Unlock()
	}
	return true
}
