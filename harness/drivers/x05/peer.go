package main

// Scripted in-memory peer and dialer for X05 (approach of harness/drivers/x02/peer.go, reduced).
// peerConn is the net.Conn handed (wrapped in the production buffered standard.Conn) to the real client by the
// custom dialer.  Everything happens on the goroutine that calls the client: Write captures the request bytes, the
// first Read after a Write decodes the request, logs what the peer SAW (Req) and behaves as the call's script says:
//   ka     200, connection kept alive            close  200 + "Connection: close"
//   hold   the answer (ka) is held until the script releases the call      holdclose  the same with close
//   drop   the peer closes without a byte (the client sees EOF)
// No expected values here.

import (
	"bufio"
	"bytes"
	"crypto/tls"
	"errors"
	"io"
	"net"
	"net/http"
	"os"
	"strconv"
	"sync"
	"sync/atomic"
	"time"

	"github.com/cloudwego/hertz/pkg/network"
	"github.com/cloudwego/hertz/pkg/network/standard"
)

type paddr string

func (a paddr) Network() string { return "tcp" }
func (a paddr) String() string  { return string(a) }

var connSeq int64     // process-wide connection numbers (what http1.VerifConnID reports)
var connReg sync.Map // network.Conn -> *peerConn

type peerConn struct {
	mu   sync.Mutex
	gid  int64 // process-wide
	id   int   // per case
	addr string
	tls  bool
	r    *runner

	req        []byte
	in         []byte
	peerClosed bool
	closed     bool
}

func timeoutError() error {
	return &net.OpError{Op: "read", Net: "tcp", Addr: paddr("peer"), Err: os.ErrDeadlineExceeded}
}

func (c *peerConn) Read(p []byte) (int, error) {
	c.mu.Lock()
	defer c.mu.Unlock()
	if c.closed {
		return 0, net.ErrClosed
	}
	if len(p) == 0 {
		return 0, nil
	}
	if len(c.in) == 0 && len(c.req) > 0 && !c.peerClosed {
		req := c.req
		c.req = nil
		c.mu.Unlock()
		wire, closeAfter := c.r.onRequest(c, req) // may block (hold)
		c.mu.Lock()
		if c.closed {
			return 0, net.ErrClosed
		}
		c.in = wire
		if closeAfter {
			c.peerClosed = true
		}
	}
	if len(c.in) == 0 {
		if c.peerClosed {
			return 0, io.EOF
		}
		c.r.emit("BlockedRead", map[string]interface{}{"conn": c.id})
		return 0, timeoutError()
	}
	n := copy(p, c.in)
	c.in = c.in[n:]
	return n, nil
}

func (c *peerConn) Write(p []byte) (int, error) {
	c.mu.Lock()
	defer c.mu.Unlock()
	if c.closed {
		return 0, net.ErrClosed
	}
	if c.peerClosed {
		return 0, errors.New("x05 peer: broken pipe")
	}
	c.req = append(c.req, p...)
	return len(p), nil
}

func (c *peerConn) Close() error {
	c.mu.Lock()
	was := c.closed
	c.closed = true
	c.mu.Unlock()
	if !was {
		c.r.emit("Closed", map[string]interface{}{"conn": c.id})
	}
	return nil
}

func (c *peerConn) LocalAddr() net.Addr                { return paddr("127.0.0.1:50000") }
func (c *peerConn) RemoteAddr() net.Addr               { return paddr(c.addr) }
func (c *peerConn) SetDeadline(t time.Time) error      { return nil }
func (c *peerConn) SetReadDeadline(t time.Time) error  { return nil }
func (c *peerConn) SetWriteDeadline(t time.Time) error { return nil }

// ---------------------------------------------------------------- dialer

// recDialer is the network.Dialer given to client.NewClient (GetDialerName reports its package).
type recDialer struct{ r *runner }

func (d *recDialer) DialConnection(nw, address string, timeout time.Duration, tlsConfig *tls.Config) (network.Conn, error) {
	r := d.r
	pc := &peerConn{gid: atomic.AddInt64(&connSeq, 1), addr: address, tls: tlsConfig != nil, r: r}
	r.mu.Lock()
	r.nconn++
	pc.id = r.nconn
	r.conns[pc.gid] = pc
	r.mu.Unlock()
	nc := standard.NewConnForVerif(pc, 4096)
	connReg.Store(nc, pc)
	return nc, nil
}

func (d *recDialer) DialTimeout(nw, address string, timeout time.Duration, tlsConfig *tls.Config) (net.Conn, error) {
	return nil, errors.New("x05: DialTimeout not supported")
}

func (d *recDialer) AddTLS(conn network.Conn, tlsConfig *tls.Config) (network.Conn, error) {
	return nil, errors.New("x05: AddTLS not supported")
}

func verifConnID(c network.Conn) int64 {
	if v, ok := connReg.Load(c); ok {
		return v.(*peerConn).gid
	}
	return -1
}

// ---------------------------------------------------------------- what the peer does with a request

func respWire(closeHdr bool, body string) []byte {
	s := "HTTP/1.1 200 OK\r\nContent-Type: text/plain\r\nContent-Length: " + strconv.Itoa(len(body)) + "\r\n"
	if closeHdr {
		s += "Connection: close\r\n"
	}
	return []byte(s + "\r\n" + body)
}

// onRequest runs on the caller's goroutine, without c.mu.
func (r *runner) onRequest(c *peerConn, raw []byte) (wire []byte, closeAfter bool) {
	p, host := 0, "?"
	if hr, err := http.ReadRequest(bufio.NewReader(bytes.NewReader(raw))); err == nil {
		p, _ = strconv.Atoi(hr.Header.Get("X-Call"))
		host = hr.Host
	}
	r.mu.Lock()
	cs := r.calls[p]
	beh := "ka"
	att := 0
	if cs != nil {
		cs.attempts++
		att = cs.attempts
		beh = cs.behAt(att)
	}
	r.mu.Unlock()
	r.emit("Req", map[string]interface{}{"conn": c.id, "p": p, "host": host, "addr": c.addr, "tls": c.tls, "att": att})
	switch beh {
	case "drop":
		r.emit("Resp", map[string]interface{}{"conn": c.id, "p": p, "how": "drop"})
		return nil, true
	case "hold", "holdclose":
		if cs != nil {
			cs.atPeer.set()
			select {
			case <-cs.release:
			case <-r.abort:
			}
		}
	}
	cl := beh == "close" || beh == "holdclose"
	how := "ka"
	if cl {
		how = "close"
	}
	r.emit("Resp", map[string]interface{}{"conn": c.id, "p": p, "how": how})
	return respWire(cl, "r"+strconv.Itoa(p)), cl
}
