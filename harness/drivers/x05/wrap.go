package main

// Recording wrappers and the process-wide hook routing for X05.
//
//   - wfactory / whc (mode "wrap"): a suite.ClientFactory given to Client.SetClientFactory that creates REAL
//     http1.HostClients and hands the client a thin recording wrapper around each.  Every callback the client makes
//     on a host client while it holds mLock is thereby visible in lock order: NewHostClient (New), ShouldRemove
//     (Should), Close (Close), CloseIdleConnections (CIVisit); Do (Use ... Done) runs after the unlock.
//   - hook H2 (pkg/protocol/http1/verif_on.go, build tag verif): connsCount changes (Cnt), dials (Dial) and, in mode
//     "plain" (the client's own default factory), do.enter / do.exit as Use / Done; the gate "do.top" parks a call.
// The hooks are process-wide; events are routed to the case by host-client pointer / goroutine id.

import (
	"bytes"
	"context"
	"errors"
	"fmt"
	"io"
	"runtime"
	"strconv"
	"sync"
	"time"

	"github.com/cloudwego/hertz/pkg/common/config"
	"github.com/cloudwego/hertz/pkg/protocol"
	pclient "github.com/cloudwego/hertz/pkg/protocol/client"
	"github.com/cloudwego/hertz/pkg/protocol/http1"
	"github.com/cloudwego/hertz/pkg/protocol/http1/factory"
	"github.com/cloudwego/hertz/pkg/protocol/suite"
)

func goid() int64 {
	var buf [64]byte
	n := runtime.Stack(buf[:], false)
	b := buf[10:n] // "goroutine 123 ["
	i := bytes.IndexByte(b, ' ')
	id, _ := strconv.ParseInt(string(b[:i]), 10, 64)
	return id
}

var (
	hcReg sync.Map // http1.VerifHostID -> *hcInfo
	goReg sync.Map // goroutine id -> *callState
)

type hcInfo struct {
	r     *runner
	id    int
	inner *http1.HostClient
	seq   int64 // number of Cnt events emitted for this host client (guarded by r.mu)
	tls   bool
	nobs  int // observer callbacks seen (guarded by r.mu)
	win   int // ... inside the current observation window
}

func callOfGoroutine() *callState {
	if v, ok := goReg.Load(goid()); ok {
		return v.(*callState)
	}
	return nil
}

func installHooks() {
	http1.VerifConnID = verifConnID
	http1.VerifHook = func(ev string, a ...int64) {
		v, ok := hcReg.Load(a[0])
		if !ok {
			return
		}
		h := v.(*hcInfo)
		r := h.r
		switch ev {
		case "acq.create", "dec.count":
			r.mu.Lock()
			h.seq++
			r.emitLocked("Cnt", map[string]interface{}{"hc": h.id, "n": a[3]})
			r.mu.Unlock()
		case "dial.ok", "bg.dial.ok":
			r.mu.Lock()
			cn := 0
			if pc := r.conns[a[1]]; pc != nil {
				cn = pc.id
			}
			r.emitLocked("Dial", map[string]interface{}{"hc": h.id, "conn": cn, "ok": true})
			r.mu.Unlock()
		case "dial.fail", "bg.dial.fail":
			r.emit("Dial", map[string]interface{}{"hc": h.id, "conn": 0, "ok": false})
		case "do.enter":
			if r.c.Mode == "plain" {
				p := 0
				if cs := callOfGoroutine(); cs != nil && cs.r == r {
					p = cs.p
				}
				r.emit("Use", map[string]interface{}{"p": p, "hc": h.id})
			}
		case "do.exit", "do.ctxdone":
			if r.c.Mode == "plain" {
				p := 0
				if cs := callOfGoroutine(); cs != nil && cs.r == r {
					p = cs.p
				}
				r.emit("Done", map[string]interface{}{"p": p, "hc": h.id})
			}
		}
	}
	http1.VerifGate = func(label string) {
		if label != "do.top" {
			return
		}
		if cs := callOfGoroutine(); cs != nil && cs.r.c.Mode == "plain" {
			cs.parkHere()
		}
	}
}

// ---------------------------------------------------------------- mode "wrap"

type wfactory struct {
	r     *runner
	inner suite.ClientFactory
}

var errFactory = errors.New("x05: the factory refuses")

func (f *wfactory) NewHostClient() (pclient.HostClient, error) {
	r := f.r
	p := 0
	if cs := callOfGoroutine(); cs != nil && cs.r == r {
		p = cs.p
	}
	if r.c.FacErr != 0 && r.c.FacErr == p {
		r.emit("New", map[string]interface{}{"p": p, "hc": 0, "err": true})
		return nil, errFactory
	}
	in, _ := f.inner.NewHostClient()
	r.mu.Lock()
	h := r.newHCLocked(in.(*http1.HostClient))
	r.emitLocked("New", map[string]interface{}{"p": p, "hc": h.id, "err": false})
	r.mu.Unlock()
	return &whc{r: r, h: h, inner: in}, nil
}

func newInnerFactory(r *runner, o *config.ClientOptions) suite.ClientFactory {
	// what client.go's newHttp1OptionFromClient does (mode "plain" runs the real one)
	return factory.NewClientFactory(&http1.ClientOptions{
		Name: o.Name, Dialer: o.Dialer, DialTimeout: o.DialTimeout, MaxConns: o.MaxConnsPerHost,
		MaxConnDuration: o.MaxConnDuration, MaxIdleConnDuration: o.MaxIdleConnDuration, ReadTimeout: o.ReadTimeout,
		WriteTimeout: o.WriteTimeout, MaxConnWaitTimeout: o.MaxConnWaitTimeout, RetryConfig: o.RetryConfig,
		StateObserve: o.HostClientStateObserve, ObservationInterval: o.ObservationInterval,
	})
}

type whc struct {
	r     *runner
	h     *hcInfo
	inner pclient.HostClient
}

func (w *whc) Do(ctx context.Context, req *protocol.Request, resp *protocol.Response) error {
	r := w.r
	cs := callOfGoroutine()
	p := 0
	if cs != nil && cs.r == r {
		p = cs.p
	}
	r.emit("Use", map[string]interface{}{"p": p, "hc": w.h.id})
	if cs != nil {
		cs.parkHere()
	}
	err := w.inner.Do(ctx, req, resp)
	r.emit("Done", map[string]interface{}{"p": p, "hc": w.h.id})
	return err
}

func (w *whc) SetDynamicConfig(dc *pclient.DynamicConfig) {
	w.h.tls = dc.IsTLS
	w.inner.SetDynamicConfig(dc)
}

func (w *whc) CloseIdleConnections() {
	w.r.emit("CIVisit", map[string]interface{}{"hc": w.h.id})
	w.inner.CloseIdleConnections()
}

func (w *whc) ConnectionCount() int { return w.inner.ConnectionCount() }

// ShouldRemove is called by the cleaner while it holds mLock.  The answer is logged together with the certainty
// that no Cnt event of this host client slipped in between the evaluation and the log line (else: evaluated again).
func (w *whc) ShouldRemove() bool {
	r, h := w.r, w.h
	g := goid()
	now := time.Now()
	r.mu.Lock()
	fl := r.flav(h.tls)
	if g != fl.lastG || now.Sub(fl.last) > tickGap {
		fl.t++
	}
	fl.lastG, fl.last = g, now
	t := fl.t
	r.mu.Unlock()
	for try := 0; ; try++ {
		r.mu.Lock()
		s := h.seq
		r.mu.Unlock()
		res := w.inner.ShouldRemove()
		r.mu.Lock()
		if h.seq == s || try >= 20 {
			r.emitLocked("Should", map[string]interface{}{"hc": h.id, "g": r.gnum(g), "t": t, "res": res, "sure": h.seq == s})
			fl.last = time.Now()
			r.mu.Unlock()
			return res
		}
		r.mu.Unlock()
	}
}

func (w *whc) Close() error {
	w.r.emit("Close", map[string]interface{}{"hc": w.h.id, "g": w.r.gnumOf(goid())})
	if c, ok := w.inner.(io.Closer); ok {
		defer func() { // e.g. a second Close of the same host client: the cleaner goroutine must not take the run down
			if x := recover(); x != nil {
				w.r.emit("Panic", map[string]interface{}{"p": 0, "what": fmt.Sprint(x)})
			}
		}()
		return c.Close()
	}
	return nil
}

// tickGap: two ShouldRemove calls of one cleaner goroutine belong to the same tick when they are closer than this;
// the code under test sleeps 10 s between two ticks (time.Sleep never returns early).
const tickGap = 5 * time.Second
