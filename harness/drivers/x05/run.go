package main

import (
	"context"
	"encoding/json"
	"errors"
	"fmt"
	"reflect"
	"strings"
	"sync"
	"time"

	"github.com/cloudwego/hertz/pkg/app/client"
	"github.com/cloudwego/hertz/pkg/app/client/retry"
	"github.com/cloudwego/hertz/pkg/common/config"
	errs "github.com/cloudwego/hertz/pkg/common/errors"
	"github.com/cloudwego/hertz/pkg/protocol"
	"github.com/cloudwego/hertz/pkg/protocol/http1"
	"verif/harness/vtrace"
)

type URL struct {
	Sch  string `json:"sch"`  // http | https
	Host string `json:"host"` // symbolic: a | b   (a.test, b.test on the wire)
	Port string `json:"port"` // "" | 80 | 443 | 8080
	Up   int    `json:"up"`   // 1: host written in upper case
	Via  string `json:"via"`  // url | hosthdr | sethost
}

type Step struct {
	Op   string `json:"op"` // call arrive unpark release wait tick sleep closeidle obs getname
	P    int    `json:"p"`
	U    URL    `json:"u"`
	Beh  string `json:"beh"`  // peer behaviour per attempt: ka close hold holdclose drop, joined with "+"
	Park int    `json:"park"` // 1: the call parks between lookup and use
	N    int    `json:"n"`
	F    string `json:"f"` // arrive: gate|peer   tick: h|s
}

type Case struct {
	ID       int    `json:"id"`
	Kind     string `json:"kind"`
	Mode     string `json:"mode"` // wrap | plain
	MaxConns int    `json:"maxConns"`
	WaitMs   int    `json:"waitMs"`
	IdleMs   int    `json:"idleMs"`
	ObsMs    int    `json:"obsMs"`   // 0: no state observer
	HookErr  int    `json:"hookErr"` // the call whose HostClientConfigHook fails
	FacErr   int    `json:"facErr"`  // the call whose factory fails (mode wrap)
	RetryMs  int    `json:"retryMs"` // > 0: retry configuration, 2 attempts, fixed delay
	Steps    []Step `json:"steps"`
}

type latch struct {
	once sync.Once
	ch   chan struct{}
}

func newFlag() *latch { return &latch{ch: make(chan struct{})} }
func (f *latch) set() { f.once.Do(func() { close(f.ch) }) }

type callState struct {
	r        *runner
	p        int
	st       Step
	attempts int
	park     bool
	atGate   *latch
	unpark   chan struct{}
	atPeer   *latch
	release  chan struct{}
	done     chan struct{}
}

func (cs *callState) behAt(att int) string {
	b := strings.Split(cs.st.Beh, "+")
	if att > len(b) {
		att = len(b)
	}
	if att < 1 {
		att = 1
	}
	return b[att-1]
}

// parkHere: the first time a parking call comes by, it stays until the script lets it go.
func (cs *callState) parkHere() {
	if !cs.park {
		return
	}
	cs.park = false
	cs.atGate.set()
	select {
	case <-cs.unpark:
	case <-cs.r.abort:
	}
}

type flavour struct {
	t     int
	lastG int64
	last  time.Time
}

type runner struct {
	c   *Case
	cli *client.Client

	mu       sync.Mutex
	recs     []vtrace.Rec
	over     bool
	nconn    int
	conns    map[int64]*peerConn
	calls    map[int]*callState
	hcs      []*hcInfo
	gnums    map[int64]int
	fh, fs   flavour
	abort    chan struct{}
	obsOpen  bool
}

func (r *runner) flav(tls bool) *flavour {
	if tls {
		return &r.fs
	}
	return &r.fh
}

func (r *runner) gnum(g int64) int {
	n, ok := r.gnums[g]
	if !ok {
		n = len(r.gnums) + 1
		r.gnums[g] = n
	}
	return n
}

func (r *runner) gnumOf(g int64) int { r.mu.Lock(); defer r.mu.Unlock(); return r.gnum(g) }

func (r *runner) emitLocked(ev string, f map[string]interface{}) {
	if r.over {
		return
	}
	rec := vtrace.Rec{"ev": ev}
	for k, v := range f {
		rec[k] = v
	}
	r.recs = append(r.recs, rec)
}

func (r *runner) emit(ev string, f map[string]interface{}) {
	r.mu.Lock()
	r.emitLocked(ev, f)
	r.mu.Unlock()
}

// newHCLocked numbers a host client and makes it known to the hook routing; the caller holds r.mu and emits the
// line that introduces it (New / Config) before it lets go: no event of the host client can precede that line.
func (r *runner) newHCLocked(in *http1.HostClient) *hcInfo {
	h := &hcInfo{r: r, id: len(r.hcs) + 1, inner: in}
	r.hcs = append(r.hcs, h)
	hcReg.Store(http1.VerifHostID(in), h)
	return h
}

func hostPort(u URL) string {
	h := u.Host + ".test"
	if u.Up == 1 {
		h = strings.ToUpper(h)
	}
	if u.Port != "" {
		h += ":" + u.Port
	}
	return h
}

var errHook = errors.New("x05: the configuration hook refuses")

func ms(d time.Duration) int { return int(d / time.Millisecond) }

func (r *runner) setup() {
	c := r.c
	opts := []config.ClientOption{
		client.WithDialer(&recDialer{r: r}),
		client.WithMaxConnsPerHost(c.MaxConns),
		client.WithMaxIdleConnDuration(time.Duration(c.IdleMs) * time.Millisecond),
		client.WithMaxConnWaitTimeout(time.Duration(c.WaitMs) * time.Millisecond),
		client.WithHostClientConfigHook(r.configHook),
	}
	if c.ObsMs > 0 {
		opts = append(opts, client.WithConnStateObserve(r.observe, time.Duration(c.ObsMs)*time.Millisecond))
	}
	if c.RetryMs > 0 {
		opts = append(opts, client.WithRetryConfig(retry.WithMaxAttemptTimes(2),
			retry.WithInitDelay(time.Duration(c.RetryMs)*time.Millisecond),
			retry.WithMaxDelay(time.Duration(c.RetryMs)*time.Millisecond), retry.WithMaxJitter(0),
			retry.WithDelayPolicy(retry.FixedDelayPolicy)))
	}
	cli, err := client.NewClient(opts...)
	if err != nil {
		panic(err)
	}
	r.cli = cli
	if c.Mode == "wrap" {
		cli.SetClientFactory(&wfactory{r: r, inner: newInnerFactory(r, cli.GetOptions())})
	}
}

// configHook runs inside Client.do while mLock is held, after SetDynamicConfig, before the insert.
func (r *runner) configHook(x interface{}) error {
	var h *hcInfo
	r.mu.Lock()
	defer r.mu.Unlock()
	switch v := x.(type) {
	case *whc:
		h = v.h
	case *http1.HostClient:
		h = r.newHCLocked(v)
		h.tls = v.IsTLS
	default:
		r.emitLocked("Config", map[string]interface{}{"p": 0, "hc": 0, "addr": fmt.Sprintf("%T", x), "tls": false, "max": 0,
			"idleMs": 0, "waitMs": 0, "obs": false, "obsMs": 0, "err": false})
		return nil
	}
	p := 0
	if cs := callOfGoroutine(); cs != nil && cs.r == r {
		p = cs.p
	}
	in := h.inner
	fail := r.c.HookErr != 0 && r.c.HookErr == p
	r.emitLocked("Config", map[string]interface{}{"p": p, "hc": h.id, "addr": in.Addr, "tls": in.IsTLS, "max": in.MaxConns,
		"idleMs": ms(in.MaxIdleConnDuration), "waitMs": ms(in.MaxConnWaitTimeout), "obs": in.StateObserve != nil,
		"obsMs": ms(in.ObservationInterval), "err": fail})
	if fail {
		return errHook
	}
	return nil
}

func (r *runner) observe(s config.HostClientState) {
	in, ok := s.(*http1.HostClient)
	id := 0
	var h *hcInfo
	if ok {
		if v, ok := hcReg.Load(http1.VerifHostID(in)); ok && v.(*hcInfo).r == r {
			h = v.(*hcInfo)
			id = h.id
		}
	}
	st := s.ConnPoolState()
	r.mu.Lock()
	first := true
	if h != nil {
		h.nobs++
		first = h.nobs <= 3
		if r.obsOpen {
			h.win++
		}
	}
	if first {
		r.emitLocked("Observe", map[string]interface{}{"hc": id, "addr": st.Addr, "max": st.MaxConns,
			"total": st.TotalConnNum, "pool": st.PoolConnNum, "wait": st.WaitConnNum})
	}
	r.mu.Unlock()
}

func (r *runner) startCall(st Step) {
	cs := &callState{r: r, p: st.P, st: st, park: st.Park == 1, atGate: newFlag(), unpark: make(chan struct{}),
		atPeer: newFlag(), release: make(chan struct{}), done: make(chan struct{})}
	r.mu.Lock()
	r.calls[st.P] = cs
	r.mu.Unlock()
	go func() {
		g := goid()
		goReg.Store(g, cs)
		defer goReg.Delete(g)
		defer close(cs.done)
		req, resp := protocol.AcquireRequest(), protocol.AcquireResponse()
		u := st.U
		switch u.Via {
		case "hosthdr":
			req.SetRequestURI("/x")
			req.Header.SetHost(hostPort(u))
		case "sethost":
			req.SetRequestURI(u.Sch + "://placeholder.test/x")
			req.SetHost(hostPort(u))
		default:
			req.SetRequestURI(u.Sch + "://" + hostPort(u) + "/x")
		}
		req.Header.Set("X-Call", fmt.Sprint(st.P))
		r.emit("Begin", map[string]interface{}{"p": st.P, "sch": u.Sch, "host": u.Host, "port": u.Port, "up": u.Up, "via": u.Via})
		var err error
		func() {
			defer func() {
				if x := recover(); x != nil {
					r.emit("Panic", map[string]interface{}{"p": st.P, "what": fmt.Sprint(x)})
					err = errors.New("panic")
				}
			}()
			err = r.cli.Do(context.Background(), req, resp)
		}()
		res := "err"
		switch {
		case err == nil && resp.StatusCode() == 200:
			res = "ok"
		case errors.Is(err, errs.ErrNoFreeConns):
			res = "nofree"
		case errors.Is(err, errHook):
			res = "hookerr"
		case errors.Is(err, errFactory):
			res = "facerr"
		}
		body := ""
		if err == nil {
			body = string(resp.Body())
		}
		r.emit("End", map[string]interface{}{"p": st.P, "res": res, "body": body})
	}()
}

func waitCh(ch <-chan struct{}, d time.Duration) bool {
	select {
	case <-ch:
		return true
	case <-time.After(d):
		return false
	}
}

func (r *runner) typeName() string { return reflect.TypeOf(r.cli.GetOptions().Dialer).String() }

func caseHead(raw json.RawMessage) vtrace.Rec {
	head := vtrace.Rec{}
	json.Unmarshal(raw, &head) //nolint:errcheck
	head["ev"] = "Case"
	return head
}
