package main

// Real-socket mode (-net netpoll|standard): the script is sent over loopback TCP to a real server.Hertz running the
// real transport. Fragment boundaries are not controllable here, and client-side and server-side observations are
// made by different goroutines; the recorded trace is therefore assembled after the connection has ended:
// Deliver(total) first (the bytes the client is going to send: an upper bound for what the server can consume), then the
// server-side events in their own order, with every response the client decoded placed directly behind the HandleEnd of
// the handler that produced it (responses are decoded strictly in order by the client; interim responses are placed
// before the next Handle). rd is reported as -1 (unknown). Expected results do not depend on any of this.

import (
	"bufio"
	"context"
	"fmt"
	"io"
	"net"
	"net/http"
	"strings"
	"sync"
	"time"

	"github.com/cloudwego/hertz/pkg/app"
	"github.com/cloudwego/hertz/pkg/app/server"
	"github.com/cloudwego/hertz/pkg/common/config"
	"github.com/cloudwego/hertz/pkg/network"
	"github.com/cloudwego/hertz/pkg/network/netpoll"
	"github.com/cloudwego/hertz/pkg/network/standard"

	"verif/harness/vtrace"
)

type tcpServer struct {
	h    *server.Hertz
	addr string
}

type bufEvent struct {
	ev  string
	rec vtrace.Rec
}

// bufTrace collects events of one connection (server side) for later merging.
type bufTrace struct {
	mu  sync.Mutex
	evs []bufEvent
}

func (b *bufTrace) Emit(ev string, r vtrace.Rec) {
	b.mu.Lock()
	b.evs = append(b.evs, bufEvent{ev, r})
	b.mu.Unlock()
}

func freePort() string {
	l, err := net.Listen("tcp", "127.0.0.1:0")
	if err != nil {
		panic(err)
	}
	a := l.Addr().String()
	l.Close()
	return a
}

func (w *worker) tcpServer(kind string, streaming bool) *tcpServer {
	key := fmt.Sprintf("%s/%v", kind, streaming)
	if s, ok := w.tcp[key]; ok {
		return s
	}
	var h *server.Hertz
	var addr string
	for attempt := 0; attempt < 8; attempt++ { // another process may grab the port between probing and binding
		addr = freePort()
		tr := standard.NewTransporter
		if kind == "netpoll" {
			tr = netpoll.NewTransporter
		}
		h = server.New(server.WithHostPorts(addr), server.WithTransport(func(o *config.Options) network.Transporter { return tr(o) }),
			server.WithStreamBody(streaming), server.WithDisablePrintRoute(true), server.WithExitWaitTime(100*time.Millisecond))
		hf := func(c context.Context, ctx *app.RequestContext) { w.handle(ctx) }
		h.Any("/*p", hf)
		h.NoRoute(hf)
		go h.Spin()
		up := false
		for i := 0; i < 200 && !up; i++ {
			c, err := net.Dial("tcp", addr)
			if err == nil {
				c.Close()
				up = true
			} else {
				time.Sleep(10 * time.Millisecond)
			}
		}
		if up {
			break
		}
	}
	time.Sleep(20 * time.Millisecond)
	s := &tcpServer{h: h, addr: addr}
	if w.tcp == nil {
		w.tcp = map[string]*tcpServer{}
	}
	w.tcp[key] = s
	return s
}

// runTCP runs one case over loopback TCP and writes the assembled trace.
func (w *worker) runTCP(c *Case, kind string) {
	wire := wireBytes(c)
	w.prepare(c)
	srv := w.tcpServer(kind, c.Cfg.Streaming)
	final := w.tr
	buf := &bufTrace{}
	w.trb = buf
	w.tcpMode = true
	defer func() { w.trb = nil; w.tcpMode = false }()
	c.Cfg.Idle = "inloop"
	if kind == "netpoll" {
		c.Cfg.Idle = "poller"
	}
	final.Emit("Case", vtrace.Rec{"id": c.ID, "loose": false, "corpus": 0, "mut": "", "p": 0, "t": "", "behs": []string{}, "resps": c.Resps, "cfg": c.Cfg, "script": c.Script,
		"wire": c.Wire, "offs": c.Offs, "cuts": c.Cuts, "cutTag": "tcp:" + kind, "progs": c.Progs, "gate": false, "wireLen": len(wire)})
	final.Emit("Deliver", vtrace.Rec{"n": len(wire)})
	conn, err := net.Dial("tcp", srv.addr)
	if err != nil {
		final.Emit("DialFailed", vtrace.Rec{"err": err.Error()})
		final.Emit("End", vtrace.Rec{"digest": "", "ref": ""})
		return
	}
	go func() {
		// fragments as the case says (best effort: the kernel may coalesce)
		at := 0
		for _, n := range c.Cuts {
			if at+n > len(wire) {
				break
			}
			conn.Write(wire[at : at+n]) //nolint:errcheck
			at += n
			time.Sleep(200 * time.Microsecond)
		}
		conn.Write(wire[at:]) //nolint:errcheck
	}()
	// client side: decode responses in order until one final response per request arrived, the server closed, or time-out
	type cresp struct {
		rec     vtrace.Rec
		interim bool
	}
	var resps []cresp
	br := bufio.NewReader(conn)
	finals := 0
	garbage := ""
	conn.SetReadDeadline(time.Now().Add(20 * time.Second)) //nolint:errcheck
	for finals < len(w.metas) {
		m := "GET"
		if finals < len(w.metas) {
			m = w.metas[finals].Method
		}
		r, err := http.ReadResponse(br, &http.Request{Method: m})
		if err != nil {
			if err != io.EOF && !strings.Contains(err.Error(), "closed") && !strings.Contains(err.Error(), "reset") {
				garbage = err.Error()
			}
			break
		}
		body, err := io.ReadAll(r.Body)
		if err != nil {
			garbage = "body: " + err.Error()
			break
		}
		interim := r.StatusCode/100 == 1
		kindS := "final"
		if interim {
			kindS = "interim"
		} else {
			finals++
		}
		seq := 0
		fmt.Sscan(r.Header.Get("X-Seq"), &seq)
		resps = append(resps, cresp{vtrace.Rec{"kind": kindS, "status": r.StatusCode, "close": r.Close, "keepalive": strings.Contains(strings.ToLower(strings.Join(r.Header.Values("Connection"), ",")), "keep-alive"), "seq": seq,
			"bodyLen": len(body), "cl": r.ContentLength, "ncl": len(r.Header.Values("Content-Length")), "chunked": len(r.TransferEncoding) > 0, "proto": r.Proto, "body": shortBody(body),
			"hdrs": []NV{}, "runs": [][]int{}}, interim})
		if r.Close {
			break
		}
	}
	conn.Close()
	time.Sleep(2 * time.Millisecond) // let the server side finish logging HandleEnd of an aborted exchange
	// assemble
	buf.mu.Lock()
	evs := append([]bufEvent(nil), buf.evs...)
	buf.mu.Unlock()
	ri := 0
	emitInterims := func() {
		for ri < len(resps) && resps[ri].interim {
			final.Emit("Response", resps[ri].rec)
			ri++
		}
	}
	for _, e := range evs {
		if e.ev == "Handle" {
			emitInterims()
		}
		final.Emit(e.ev, e.rec)
		if e.ev == "HandleEnd" && ri < len(resps) && !resps[ri].interim {
			final.Emit("Response", resps[ri].rec)
			ri++
		}
	}
	for ri < len(resps) {
		final.Emit("Response", resps[ri].rec)
		ri++
	}
	if garbage != "" {
		final.Emit("Garbage", vtrace.Rec{"err": garbage, "at": -1})
	}
	final.Emit("Eof", nil)
	final.Emit("ConnClosed", nil)
	final.Emit("End", vtrace.Rec{"digest": "", "ref": ""})
}
