// Driver for C13: executes reader/writer operation sequences on the REAL buffered connection
// (standard.NewConnForVerif = newConn, build tag verif) over a scripted in-memory net.Conn, and on the real
// network.NewWriter, and records what was observed.  No expected values and no pass/fail here: observed bytes are
// only projected back to offsets ("runs") of the fixed pattern stream; the specification (ByteQueueTrace.tla)
// decides.
//
// Trace (ndjson), per case:
//   Case{...echo of the case...}
//   SrcRead{n,calls,cls}   bytes the connection pulled from the scripted source during the following op
//                          (all socket reads of one op aggregated), cls = error class the source returned ("none")
//   Sink{f,t,nr,n}         bytes the peer received during the following op, projected to runs
//   Op{i,k,n,cnt,f,t,nr,cls,len,pk}
//                          operation i of kind k with size n returned cnt bytes that are pattern run [f,t) (nr = number
//                          of maximal runs, 1 on a faithful stream, 0 if cnt=0), error class cls, Len() after the
//                          op, and pk = what every still outstanding peeked slice shows NOW (re-read after the op)
//                          m = reader behaviour of ReadFrom; big = 1 if ReadFrom started on an output tail node
//                          with cap > 8 KiB (signature of known finding C13-readfrom-noprogress)
//                          ab = number of bytes of the caller's own backing array (arena of the WriteBinary/Write
//                          arguments incl. its spare capacity) that no longer hold what the caller put there
//   Geo{in,out}            (optional, -geo) link-buffer node geometry after the op (stage 2)
//   End{cp}                cp = what the first `ncp` slices returned by ReadBinary show at the end of the case
//   Panic{msg}             the code under test panicked (no spec action => rejected)
//   Crash{msg}             (-isolate) the process running this single case died or hung: a panic outside the calling
//                          goroutine (finalizer), a fatal runtime error, an endless loop (no spec action => rejected)
package main

import (
	"bufio"
	"bytes"
	"encoding/json"
	"errors"
	"flag"
	"fmt"
	"io"
	"net"
	"os"
	"os/exec"
	"path/filepath"
	"runtime"
	"strings"
	"sync"
	"time"

	"github.com/bytedance/gopkg/lang/mcache"
	"github.com/cloudwego/hertz/pkg/network"
	"github.com/cloudwego/hertz/pkg/network/standard"

	"verif/harness/vtrace"
)

// ---------------------------------------------------------------- pattern stream

// MaxOff: the pattern identifies offsets below 2^26.
const MaxOff = 1 << 26

// pat(k): byte k of the pattern stream.  Group q = k/4, position r = k%4: (r<<6) | 6 bits r of q.
// Any 4 consecutive bytes identify k (see decode4).
func pat(k int) byte {
	q, r := k>>2, k&3
	return byte(r<<6) | byte((q>>(6*uint(r)))&63)
}

func fillPat(p []byte, from int) {
	for i := range p {
		p[i] = pat(from + i)
	}
}

// decode4 returns the offset k such that b[0..4) = pat(k..k+4), or -1.
func decode4(b []byte) int {
	r0 := int(b[0] >> 6)
	// bytes b[0..4-r0) belong to group q (positions r0..3), the rest to group q+1 (positions 0..r0-1)
	for i := 0; i < 4; i++ {
		if int(b[i]>>6) != (r0+i)&3 {
			return -1
		}
	}
	q := 0
	for i := 0; i < 4-r0; i++ {
		r := r0 + i
		q |= int(b[i]&63) << (6 * uint(r))
	}
	if r0 > 0 {
		q1low := 0
		for i := 4 - r0; i < 4; i++ {
			r := i - (4 - r0)
			q1low |= int(b[i]&63) << (6 * uint(r))
		}
		mask := (1 << (6 * uint(r0))) - 1
		q |= (q1low - 1) & mask
	}
	k := q<<2 | r0
	if k < 0 || k+4 > MaxOff+8 {
		return -1
	}
	for i := 0; i < 4; i++ {
		if b[i] != pat(k+i) {
			return -1
		}
	}
	return k
}

type run struct{ F, T int }

// project maps observed bytes to maximal runs of the pattern stream.  hint is only used to place slices shorter than
// 4 bytes (which do not identify their offset on their own): the candidate nearest to hint is taken.
// Bytes that are not pattern bytes give a run {-1,-1} (one per byte).  At most maxRuns runs are listed, nr counts all.
func project(b []byte, hint int) (first run, nr int) {
	pos := 0
	first = run{0, 0}
	for pos < len(b) {
		rest := b[pos:]
		from := -1
		if len(rest) >= 4 {
			from = decode4(rest)
		} else {
			from = nearest(rest, hint)
		}
		n := 1
		if from >= 0 {
			for n < len(rest) && rest[n] == pat(from+n) {
				n++
			}
		}
		if nr == 0 {
			if from >= 0 {
				first = run{from, from + n}
			} else {
				first = run{-1, -1}
			}
		}
		nr++
		pos += n
		hint = from + n
		if nr >= 1000 {
			break
		}
	}
	return
}

func matchAt(b []byte, k int) bool {
	if k < 0 {
		return false
	}
	for i := range b {
		if b[i] != pat(k+i) {
			return false
		}
	}
	return true
}

func nearest(b []byte, hint int) int {
	if hint < 0 {
		hint = 0
	}
	for d := 0; d < 1<<21; d++ {
		if matchAt(b, hint+d) {
			return hint + d
		}
		if d > 0 && matchAt(b, hint-d) {
			return hint - d
		}
	}
	return -1
}

// ---------------------------------------------------------------- scripted net.Conn

type timeoutErr struct{}

func (timeoutErr) Error() string   { return "verif: scripted i/o timeout" }
func (timeoutErr) Timeout() bool   { return true }
func (timeoutErr) Temporary() bool { return true }

var errScriptedOther = errors.New("verif: scripted connection reset")

func classify(err error) string {
	if err == nil {
		return "ok"
	}
	if errors.Is(err, io.EOF) {
		return "eof"
	}
	if errors.Is(err, io.ErrNoProgress) {
		return "noprogress"
	}
	var ne net.Error
	if errors.As(err, &ne) && ne.Timeout() {
		return "timeout"
	}
	if errors.Is(err, errScriptedOther) {
		return "reset"
	}
	return "other"
}

type sconn struct {
	// script
	frag   []int // fragment sizes, used cyclically; 0 = as much as the caller's buffer takes
	eofAt  int
	with   bool  // the final data-carrying read returns its error in the same call
	endErr error // io.EOF or errScriptedOther
	tmoAt  int   // >= 0: once, when off has reached tmoAt, a read returns (0, timeout)
	// state
	off, fi int
	tmoDone bool
	ended   bool // the terminal error has been returned
	empties int
	// per-op statistics
	rn, rcalls int
	rcls       string
	sink       []byte
}

func (s *sconn) Read(p []byte) (int, error) {
	if len(p) == 0 {
		s.empties++
		if s.empties > 10000 {
			panic("verif: connection keeps reading into an empty buffer (no progress)")
		}
		return 0, nil
	}
	s.empties = 0
	s.rcalls++
	if s.tmoAt >= 0 && !s.tmoDone && !s.ended && s.off >= s.tmoAt {
		s.tmoDone = true
		s.rcls = "timeout"
		return 0, timeoutErr{}
	}
	if s.off >= s.eofAt {
		s.ended = true
		s.rcls = classify(s.endErr)
		return 0, s.endErr
	}
	n := len(p)
	if f := s.frag[s.fi%len(s.frag)]; f > 0 && f < n {
		n = f
	}
	s.fi++
	if s.eofAt-s.off < n {
		n = s.eofAt - s.off
	}
	if s.tmoAt >= 0 && !s.tmoDone && s.off < s.tmoAt && s.tmoAt-s.off < n {
		n = s.tmoAt - s.off
	}
	fillPat(p[:n], s.off)
	s.off += n
	s.rn += n
	if s.with && s.off == s.eofAt {
		s.ended = true
		s.rcls = classify(s.endErr)
		return n, s.endErr
	}
	return n, nil
}

func (s *sconn) Write(p []byte) (int, error) {
	s.sink = append(s.sink, p...)
	return len(p), nil
}

type addr struct{}

func (addr) Network() string { return "verif" }
func (addr) String() string  { return "verif" }

func (s *sconn) Close() error                     { return nil }
func (s *sconn) LocalAddr() net.Addr              { return addr{} }
func (s *sconn) RemoteAddr() net.Addr             { return addr{} }
func (s *sconn) SetDeadline(time.Time) error      { return nil }
func (s *sconn) SetReadDeadline(time.Time) error  { return nil }
func (s *sconn) SetWriteDeadline(time.Time) error { return nil }

// ---------------------------------------------------------------- cases

type Op struct {
	K string `json:"k"`
	N int    `json:"n"`
	M int    `json:"m"` // ReadFrom: behaviour of the reader
}

// patReader is the io.Reader handed to ReadFrom.
type patReader struct {
	off, left, mode int
	calls, empties  int
	deliv           int
}

func (r *patReader) Read(p []byte) (int, error) {
	r.calls++
	if r.calls > 10000000 {
		panic("verif: ReadFrom keeps calling Read (no progress)")
	}
	if r.left == 0 { // like bytes.Reader: EOF even for an empty p
		return 0, io.EOF
	}
	if len(p) == 0 {
		return 0, nil
	}
	if r.mode == 4 && r.deliv%3 == 0 && r.empties < 3 {
		r.empties++
		return 0, nil
	}
	r.empties = 0
	r.deliv++
	n := len(p)
	switch r.mode {
	case 1, 4:
		if n > 1000 {
			n = 1000
		}
	case 2:
		n = 1
	}
	if n > r.left {
		n = r.left
	}
	fillPat(p[:n], r.off)
	r.off += n
	r.left -= n
	if r.mode == 3 && r.left == 0 {
		return n, io.EOF
	}
	return n, nil
}

type Case struct {
	ID      int    `json:"id"`
	Part    string `json:"part"`   // rd | wr | mix | sim
	Target  string `json:"target"` // conn | nw (network.NewWriter, writer ops only)
	Size    int    `json:"size"`   // initial buffer size given to newConn
	Frag    []int  `json:"frag"`
	EofAt   int    `json:"eofAt"`
	EofMode string `json:"eofMode"` // sep | with
	EndCls  string `json:"endCls"`  // eof | reset
	TmoAt   int    `json:"tmoAt"`
	Ncp     int    `json:"ncp"`
	Arena   int    `json:"arena"` // 1: WriteBinary/Write arguments are consecutive sub-slices (len < cap) of ONE caller array
	Ops     []Op   `json:"ops"`
}

type pk struct {
	F  int `json:"f"`
	T  int `json:"t"`
	Nr int `json:"nr"`
}

type outstanding struct {
	b    []byte
	from int
}

// scribble: take blocks out of the mcache free lists, overwrite them and give them back.  A block the connection
// has freed while a slice into it is still supposed to be valid is thereby overwritten deterministically instead of
// "whenever somebody else happens to reuse it".  Harmless for memory that is not free.
var fives = func() []byte {
	b := make([]byte, 1<<16)
	for i := range b {
		b[i] = 0x5A
	}
	return b
}()

var ones = func() []byte {
	b := make([]byte, 1<<19)
	for i := range b {
		b[i] = 0xFF
	}
	return b
}()

func scribble() {
	var held [][]byte
	for cls := 10; cls <= 19; cls++ {
		k := 2
		if cls > 16 {
			k = 1
		}
		for j := 0; j < k; j++ {
			b := mcache.Malloc(1 << uint(cls))
			copy(b, ones)
			held = append(held, b)
		}
	}
	for i := len(held) - 1; i >= 0; i-- {
		mcache.Free(held[i])
	}
}

func pkOf(b []byte, hint int) pk {
	r, nr := project(b, hint)
	return pk{r.F, r.T, nr}
}

func runCase(tr *vtrace.Writer, c *Case, geo bool) {
	b, _ := json.Marshal(c)
	var rec vtrace.Rec
	json.Unmarshal(b, &rec)
	tr.Emit("Case", rec)

	if len(c.Frag) == 0 {
		c.Frag = []int{0}
	}
	s := &sconn{frag: c.Frag, eofAt: c.EofAt, with: c.EofMode == "with", endErr: io.EOF, tmoAt: c.TmoAt}
	if c.EndCls == "reset" {
		s.endErr = errScriptedOther
	}
	var conn network.Conn
	var w network.Writer
	var sc *standard.Conn
	if c.Target == "nw" {
		w = network.NewWriter(s)
	} else {
		conn = standard.NewConnForVerif(s, c.Size)
		w = conn
		sc, _ = conn.(*standard.Conn)
	}

	var peeks []outstanding
	var copies []outstanding
	cur := 0 // bytes the API reported as consumed so far: hint for placing slices shorter than 4 bytes
	wr := 0  // bytes handed to the writer so far: offset of the next written pattern byte
	snk := 0 // bytes seen at the sink so far (hint only)

	// The caller's buffers.  arena=1: every WriteBinary/Write argument is the next sub-slice of one backing array, so
	// it has spare capacity (len < cap) and the following argument lies right behind it, the way one payload is sent
	// in pieces; arena=0: a fresh tight buffer per call.  `own` lists every buffer the caller has handed to the writer
	// with a shadow of what the caller itself put there (arena mode: one shadow of the whole array, 0xA5 where the
	// caller has put nothing yet).  Once Flush / Write has returned the caller owns its buffers again and REUSES them:
	// it overwrites them with junk (0x5A), again before every later Flush / Write.  ab (altered) = bytes of the
	// caller's memory that do not hold what the caller put there.
	type owned struct {
		b, shadow []byte // shadow nil: the buffer has been flushed and junked
	}
	var arena, shadow []byte
	var own []owned
	apos, junked := 0, 0 // arena: next free offset; prefix [0, junked) has been flushed and junked
	if c.Arena == 1 {
		total := 0
		for _, op := range c.Ops {
			if op.K == "WriteBinary" || op.K == "Write" {
				total += op.N
			}
		}
		if total > 0 {
			arena = make([]byte, total+65536)
			for i := range arena {
				arena[i] = 0xA5
			}
			shadow = append([]byte(nil), arena...)
		}
	}
	callerBuf := func(n int) []byte {
		if arena == nil {
			p := make([]byte, n)
			fillPat(p, wr)
			if n > 0 {
				own = append(own, owned{p, append([]byte(nil), p...)})
			}
			return p
		}
		p := arena[apos : apos+n] // cap(p) reaches to the end of the arena
		fillPat(p, wr)
		copy(shadow[apos:apos+n], p)
		apos += n
		return p
	}
	junk := func(b []byte) {
		for len(b) > 0 {
			b = b[copy(b, fives):]
		}
	}
	// the caller reuses everything that has been flushed (all = true: everything handed over so far is flushed now)
	reuse := func(all bool) {
		if arena != nil {
			if all {
				junked = apos
			}
			junk(arena[:junked])
			junk(shadow[:junked])
			return
		}
		keep := 0
		for i := range own {
			if all {
				own[i].shadow = nil
			}
			if own[i].shadow == nil {
				junk(own[i].b)
			}
		}
		// bound the memory kept under observation (oldest flushed buffers first)
		total := 0
		for i := len(own) - 1; i >= 0; i-- {
			total += len(own[i].b)
			if total > 16<<20 && own[i].shadow == nil {
				keep = i + 1
				break
			}
		}
		own = own[keep:]
	}
	diff := func(x, y []byte) int {
		if bytes.Equal(x, y) {
			return 0
		}
		d := 0
		for i := range x {
			if x[i] != y[i] {
				d++
			}
		}
		return d
	}
	altered := func() int {
		if arena != nil {
			return diff(arena, shadow)
		}
		d := 0
		for _, o := range own {
			if o.shadow != nil {
				d += diff(o.b, o.shadow)
				continue
			}
			for b := o.b; len(b) > 0; {
				k := len(b)
				if k > len(fives) {
					k = len(fives)
				}
				d += diff(b[:k], fives[:k])
				b = b[k:]
			}
		}
		return d
	}

	defer func() {
		if r := recover(); r != nil {
			tr.Emit("Panic", vtrace.Rec{"msg": fmt.Sprint(r)})
			tr.Emit("End", vtrace.Rec{"cp": []pk{}, "ab": 0})
		}
	}()

	for i, op := range c.Ops {
		s.rn, s.rcalls, s.rcls, s.sink = 0, 0, "none", s.sink[:0]
		cnt, cls := 0, "ok"
		big := 0
		var r run
		nr := 0
		switch op.K {
		case "Peek":
			p, err := conn.Peek(op.N)
			cnt, cls = len(p), classify(err)
			r, nr = project(p, cur)
			if len(p) > 0 {
				peeks = append(peeks, outstanding{p, r.F})
			}
		case "Skip":
			err := conn.Skip(op.N)
			cls = classify(err)
			if err == nil {
				cur += op.N
			}
		case "ReadByte":
			v, err := conn.ReadByte()
			cls = classify(err)
			if err == nil {
				cnt = 1
				r, nr = project([]byte{v}, cur)
				cur++
			}
		case "ReadBinary":
			p, err := conn.ReadBinary(op.N)
			cnt, cls = len(p), classify(err)
			r, nr = project(p, cur)
			if len(p) > 0 && len(copies) < c.Ncp {
				copies = append(copies, outstanding{p, r.F})
			}
			if err == nil {
				cur += len(p)
			}
		case "Read":
			p := make([]byte, op.N)
			n, err := conn.Read(p)
			cnt, cls = n, classify(err)
			if n >= 0 && n <= len(p) {
				r, nr = project(p[:n], cur)
				cur += n
			} else {
				nr = -1
			}
			// Read may release the buffers (documented: peeked bytes stop being valid at the next read call)
			peeks = peeks[:0]
		case "Release":
			err := conn.Release()
			cls = classify(err)
			peeks = peeks[:0]
		case "Len":
			cnt = conn.Len()
		case "Malloc":
			p, err := w.Malloc(op.N)
			cnt, cls = len(p), classify(err)
			fillPat(p, wr)
			wr += len(p)
		case "WriteBinary":
			p := callerBuf(op.N)
			n, err := w.WriteBinary(p)
			cnt, cls = n, classify(err)
			wr += op.N
		case "Flush":
			reuse(false)
			err := w.Flush()
			cls = classify(err)
			if err == nil {
				reuse(true)
			}
		case "Write":
			reuse(false)
			p := callerBuf(op.N)
			n, err := conn.Write(p)
			cnt, cls = n, classify(err)
			wr += op.N
			if err == nil {
				reuse(true)
			}
		case "ReadFrom":
			// io.ReaderFrom: the path of streamed bodies.  The reader yields the next op.N bytes of the written
			// stream in the manner op.M: 0 whatever fits, 1 at most 1000 bytes per call, 2 one byte per call,
			// 3 whatever fits and io.EOF together with the last bytes, 4 like 1 with three (0, nil) reads before
			// every third delivery.
			rd := &patReader{off: wr, left: op.N, mode: op.M}
			if sc != nil { // observation only: is the current output tail node one that Flush never resets (cap > 8 KiB)?
				if on := sc.VerifOutputNodes(); len(on) > 0 && on[len(on)-1].Cap > 8192 && !on[len(on)-1].ReadOnly {
					big = 1
				}
			}
			n, err := conn.(io.ReaderFrom).ReadFrom(rd)
			cnt, cls = int(n), classify(err)
			wr += op.N
		default:
			panic("verif: unknown op " + op.K)
		}
		scribble()
		if s.rcalls > 0 {
			tr.Emit("SrcRead", vtrace.Rec{"n": s.rn, "calls": s.rcalls, "cls": s.rcls})
		}
		if len(s.sink) > 0 {
			sr, snr := project(s.sink, snk)
			tr.Emit("Sink", vtrace.Rec{"f": sr.F, "t": sr.T, "nr": snr, "n": len(s.sink)})
			snk += len(s.sink)
		}
		ln := 0
		if conn != nil {
			ln = conn.Len()
		}
		ab := 0
		switch op.K {
		case "Malloc", "WriteBinary", "Flush", "Write", "ReadFrom":
			ab = altered()
		}
		pks := make([]pk, 0, len(peeks))
		for _, o := range peeks {
			pks = append(pks, pkOf(o.b, o.from))
		}
		tr.Emit("Op", vtrace.Rec{"i": i + 1, "k": op.K, "n": op.N, "cnt": cnt, "f": r.F, "t": r.T, "nr": nr,
			"cls": cls, "len": ln, "pk": pks, "ab": ab, "m": op.M, "big": big})
		if geo && sc != nil {
			tr.Emit("Geo", vtrace.Rec{"in": geoOf(sc.VerifInputNodes()), "out": geoOf(sc.VerifOutputNodes())})
		}
	}
	cps := make([]pk, 0, len(copies))
	for _, o := range copies {
		cps = append(cps, pkOf(o.b, o.from))
	}
	tr.Emit("End", vtrace.Rec{"cp": cps, "ab": altered()})
}

type gnode struct {
	Cap int `json:"cap"`
	Off int `json:"off"`
	Mal int `json:"mal"`
	RO  int `json:"ro"`
	R   int `json:"r"`
	W   int `json:"w"`
}

func b2i(b bool) int {
	if b {
		return 1
	}
	return 0
}

func geoOf(ns []standard.VerifNode) []gnode {
	out := make([]gnode, 0, len(ns))
	for _, n := range ns {
		out = append(out, gnode{n.Cap, n.Off, n.Malloc, b2i(n.ReadOnly), b2i(n.IsRead), b2i(n.IsWrite)})
	}
	return out
}

func main() {
	cases := flag.String("cases", "", "ndjson case file written by TLC")
	out := flag.String("out", "", "output directory for trace chunks")
	chunks := flag.Int("chunks", 16, "number of trace files")
	geo := flag.Bool("geo", false, "log link-buffer geometry after every op")
	selftest := flag.Bool("patcheck", false, "check the pattern projection (driver self-check) and exit")
	isolate := flag.Bool("isolate", false, "run the cases in child processes (used after a crash/hang of the plain run, and for re-runs)")
	gc := flag.Bool("gc", false, "force a garbage collection and wait for finalizers after every case")
	flag.Parse()
	if *selftest {
		patcheck()
		return
	}
	// pass 1: count the cases; pass 2: stream them, whole cases per chunk, chunks run by a bounded worker pool
	total, err := countLines(*cases)
	if err != nil {
		fmt.Fprintln(os.Stderr, err)
		os.Exit(2)
	}
	n := *chunks
	if n > total {
		n = total
	}
	if n < 1 {
		n = 1
	}
	parse := func(line []byte) *Case {
		c := &Case{TmoAt: -1}
		if err := json.Unmarshal(line, c); err != nil {
			fmt.Fprintln(os.Stderr, "bad case line:", err)
			os.Exit(2)
		}
		if c.EofAt > MaxOff {
			fmt.Fprintln(os.Stderr, "eofAt beyond the pattern range")
			os.Exit(2)
		}
		return c
	}
	f, err := os.Open(*cases)
	if err != nil {
		fmt.Fprintln(os.Stderr, err)
		os.Exit(2)
	}
	sc := bufio.NewScanner(f)
	sc.Buffer(make([]byte, 1<<20), 1<<26)
	if *isolate {
		var all []*Case
		for sc.Scan() {
			all = append(all, parse(sc.Bytes()))
		}
		runIsolated(all, *out, n, *geo)
		fmt.Printf("{\"cases\":%d,\"chunks\":%d,\"isolated\":true}\n", len(all), n)
		return
	}
	type job struct {
		k     int
		lines [][]byte
	}
	jobs := make(chan job, 2)
	var wg sync.WaitGroup
	workers := runtime.NumCPU()
	if workers > n {
		workers = n
	}
	for w := 0; w < workers; w++ {
		wg.Add(1)
		go func() {
			defer wg.Done()
			for j := range jobs {
				tr, err := vtrace.Create(filepath.Join(*out, fmt.Sprintf("trace_%03d.ndjson", j.k)))
				if err != nil {
					panic(err)
				}
				for _, line := range j.lines {
					runCase(tr, parse(line), *geo)
					if *gc {
						collect()
					}
				}
				tr.Close()
			}
		}()
	}
	idx := 0
	for k := 0; k < n; k++ {
		lo, hi := total*k/n, total*(k+1)/n
		lines := make([][]byte, 0, hi-lo)
		for idx < hi && sc.Scan() {
			lines = append(lines, append([]byte(nil), sc.Bytes()...))
			idx++
		}
		_ = lo
		jobs <- job{k, lines}
	}
	close(jobs)
	wg.Wait()
	collect() // finalizers of the connections (linkBuffer.release) run before the process reports success
	fmt.Printf("{\"cases\":%d,\"chunks\":%d}\n", total, n)
}

func countLines(path string) (int, error) {
	f, err := os.Open(path)
	if err != nil {
		return 0, err
	}
	defer f.Close()
	sc := bufio.NewScanner(f)
	sc.Buffer(make([]byte, 1<<20), 1<<26)
	n := 0
	for sc.Scan() {
		if len(sc.Bytes()) > 0 {
			n++
		}
	}
	return n, sc.Err()
}

// collect forces a garbage collection and waits until the finalizers queued by it have run (they run in order in
// one goroutine; a sentinel queued after them tells when they are done).
func collect() {
	type sentinel struct{ _ [64]byte }
	for round := 0; round < 2; round++ {
		done := make(chan struct{})
		func() {
			x := &sentinel{}
			runtime.SetFinalizer(x, func(*sentinel) { close(done) })
		}()
		runtime.GC()
		select {
		case <-done:
		case <-time.After(5 * time.Second):
		}
	}
}

// runIsolated runs groups of cases in child processes; a group whose child dies or hangs is re-run one case per
// child; a single case whose child dies is recorded as Case + Crash + End.
func runIsolated(all []*Case, out string, workers int, geo bool) {
	const group = 200
	var groups [][]*Case
	for i := 0; i < len(all); i += group {
		j := i + group
		if j > len(all) {
			j = len(all)
		}
		groups = append(groups, all[i:j])
	}
	if workers > len(groups) {
		workers = len(groups)
	}
	if workers > runtime.NumCPU() {
		workers = runtime.NumCPU()
	}
	results := make([][]byte, len(groups))
	var wg sync.WaitGroup
	next := make(chan int)
	for k := 0; k < workers; k++ {
		wg.Add(1)
		go func(k int) {
			defer wg.Done()
			for gi := range next {
				dir := filepath.Join(out, fmt.Sprintf("iso_%d", k))
				results[gi] = runGroup(groups[gi], dir, geo)
			}
		}(k)
	}
	for gi := range groups {
		next <- gi
	}
	close(next)
	wg.Wait()
	// whole cases per file, in order
	per := (len(groups) + workers - 1) / workers
	for k := 0; k < workers; k++ {
		f, err := os.Create(filepath.Join(out, fmt.Sprintf("trace_%03d.ndjson", k)))
		if err != nil {
			panic(err)
		}
		for gi := k * per; gi < (k+1)*per && gi < len(groups); gi++ {
			f.Write(results[gi])
		}
		f.Close()
	}
}

func runGroup(cs []*Case, dir string, geo bool) []byte {
	single := len(cs) == 1
	os.RemoveAll(dir)
	os.MkdirAll(dir, 0o755)
	defer os.RemoveAll(dir)
	cf := filepath.Join(dir, "cases.ndjson")
	f, _ := os.Create(cf)
	for _, c := range cs {
		b, _ := json.Marshal(c)
		f.Write(b)
		f.Write([]byte("\n"))
	}
	f.Close()
	args := []string{"-cases", cf, "-out", dir, "-chunks", "1"}
	if single {
		args = append(args, "-gc") // finalizers run right after the case: a crash there is attributed to it
	}
	if geo {
		args = append(args, "-geo")
	}
	cmd := exec.Command(os.Args[0], args...)
	var stderr strings.Builder
	cmd.Stderr = &stderr
	msg := ""
	if err := cmd.Start(); err != nil {
		panic(err)
	}
	done := make(chan error, 1)
	go func() { done <- cmd.Wait() }()
	select {
	case err := <-done:
		if err != nil {
			msg = strings.SplitN(strings.TrimSpace(stderr.String()), "\n", 2)[0]
			if msg == "" {
				msg = err.Error()
			}
		}
	case <-time.After(time.Duration(30+len(cs)) * time.Second):
		cmd.Process.Kill()
		<-done
		msg = "hang: the case did not finish (killed)"
	}
	if msg == "" {
		b, err := os.ReadFile(filepath.Join(dir, "trace_000.ndjson"))
		if err != nil {
			panic(err)
		}
		return b
	}
	if len(cs) > 1 {
		var outb []byte
		for _, c := range cs {
			outb = append(outb, runGroup([]*Case{c}, dir+"_1", geo)...)
		}
		return outb
	}
	var lines []byte
	for _, ev := range []map[string]interface{}{caseRec(cs[0]), {"ev": "Crash", "msg": msg}, {"ev": "End", "cp": []pk{}, "ab": 0}} {
		b, _ := json.Marshal(ev)
		lines = append(append(lines, b...), '\n')
	}
	return lines
}

func caseRec(c *Case) map[string]interface{} {
	b, _ := json.Marshal(c)
	var rec map[string]interface{}
	json.Unmarshal(b, &rec)
	rec["ev"] = "Case"
	return rec
}

// patcheck: the projection is the only "semantic" code of the driver; check it against its definition.
func patcheck() {
	buf := make([]byte, 70000)
	for _, from := range []int{0, 1, 2, 3, 4, 255, 256, 16383, 16384, 1 << 20, (1 << 24) - 3, MaxOff - 70000} {
		fillPat(buf, from)
		for _, n := range []int{4, 5, 7, 4096, 70000} {
			r, nr := project(buf[:n], 12345)
			if nr != 1 || r.F != from || r.T != from+n {
				fmt.Println("patcheck FAILED", from, n, r, nr)
				os.Exit(1)
			}
		}
		for _, n := range []int{1, 2, 3} {
			r, nr := project(buf[:n], from)
			if nr != 1 || r.F != from || r.T != from+n {
				fmt.Println("patcheck FAILED short", from, n, r, nr)
				os.Exit(1)
			}
		}
	}
	// every 4-byte window is unique over a range
	seen := map[[4]byte]int{}
	for k := 0; k < 1<<22; k++ {
		w := [4]byte{pat(k), pat(k + 1), pat(k + 2), pat(k + 3)}
		if o, ok := seen[w]; ok {
			fmt.Println("patcheck FAILED: window not unique", o, k)
			os.Exit(1)
		}
		seen[w] = k
	}
	fmt.Println("patcheck ok")
}
