// Driver for C17: walks the enumeration declared by spec/Codec.tla (blocks written by CodecGen), applies the REAL
// hertz setters / formatters / parsers (pkg/protocol URI, Args, Cookie) and net/url.ParseQuery to every input and
// records what they returned.  It contains no expected values and never decides pass/fail: the laws live in
// Codec.tla and are checked per recorded line by CodecTrace.tla, which also re-derives every input from the
// enumeration (`in = cur`, `cur' = Succ(blk, cur)`), so an input skipped or invented here is a rejected line.
//
// Byte strings are recorded as JSON strings: printable ASCII except backslash as itself, every other byte as \xHH
// (injective).  Token tables, hosts, schemes ... come from the first record of the case file (emitted by TLC from
// the spec's definitions).
package main

import (
	"bufio"
	"encoding/json"
	"flag"
	"fmt"
	"hash/fnv"
	"math/rand"
	"net/url"
	"os"
	"path/filepath"
	"sort"
	"strconv"
	"strings"
	"sync"
	"time"

	"github.com/cloudwego/hertz/pkg/common/hlog"
	"github.com/cloudwego/hertz/pkg/protocol"

	"verif/harness/vtrace"
)

type Tables struct {
	Tabs      map[string][]string `json:"tabs"` // token tables: gen, cookie, byte
	Hosts     []string            `json:"hosts"`
	ParseHost string              `json:"parsehost"`
	Schemes   []string            `json:"schemes"`
	Expiries  []string            `json:"expiries"`
	MaxAges   []int               `json:"maxages"`
	Domains   []string            `json:"domains"`
	CPaths    []string            `json:"cpaths"`
}

type Block struct {
	Kind   string  `json:"kind"` // "tables" | "block"
	T      *Tables `json:"tables,omitempty"`
	ID     int     `json:"id"`
	Mode   string  `json:"mode"`
	Tab    string  `json:"tab"`
	NC     int     `json:"nc"`
	N      int     `json:"n"`
	P      []int   `json:"p"`
	Cross  bool    `json:"cross"`
	Rand   bool    `json:"rand"`
	Count  int     `json:"count"`
	MaxLen int     `json:"maxlen"`
}

type In struct {
	W []int `json:"w"`
	C []int `json:"c"`
	V int   `json:"v"`
}

var (
	tab      Tables
	tokB     = map[string][][]byte{} // bytes of each token, per table
	seedFlag int64
)

// esc: the injective byte-string representation used in traces.
func esc(b []byte) string {
	const hex = "0123456789ABCDEF"
	plain := true
	for _, c := range b {
		if c < 0x20 || c > 0x7e || c == '\\' {
			plain = false
			break
		}
	}
	if plain {
		return string(b)
	}
	out := make([]byte, 0, len(b)+8)
	for _, c := range b {
		if c < 0x20 || c > 0x7e || c == '\\' {
			out = append(out, '\\', 'x', hex[c>>4], hex[c&15])
		} else {
			out = append(out, c)
		}
	}
	return string(out)
}

func unesc(s string) []byte {
	out := make([]byte, 0, len(s))
	for i := 0; i < len(s); i++ {
		if s[i] == '\\' && i+3 < len(s) && s[i+1] == 'x' {
			v, err := strconv.ParseUint(s[i+2:i+4], 16, 8)
			if err != nil {
				panic("bad token " + s)
			}
			out = append(out, byte(v))
			i += 3
		} else {
			out = append(out, s[i])
		}
	}
	return out
}

func nv(mode string) int {
	switch mode {
	case "uri":
		return len(tab.Hosts) * len(tab.Schemes) * 3
	case "args":
		return 4
	case "cookie":
		return 2 * 2 * 2 * 5 * len(tab.Expiries) * len(tab.MaxAges) * len(tab.Domains) * len(tab.CPaths)
	}
	return 1
}

func nt(tabName string) int { return len(tokB[tabName]) }

func hashSeq(h int, s []int) int {
	for _, x := range s {
		h = (h*31 + x + 1) % 65521
	}
	return h
}

func varOf(mode string, w, c []int) int { return hashSeq(hashSeq(7, w), c)%nv(mode) + 1 }

// aux: Codec!Aux -- two more bits derived from the whole input: api (string / []byte setters), pm (Parse host argument)
func aux(in *In) int   { return hashSeq(hashSeq(hashSeq(11, in.W), in.C), []int{in.V}) }
func apiOf(in *In) int { return aux(in) % 2 }
func ordOf(in *In) int { return (aux(in) / 4) % 2 }
func pmOf(in *In) int  { return (aux(in) / 2) % 2 }

// field j (1-based) of the input as bytes
func field(tabName string, in *In, j int) []byte {
	cut := func(k int) int {
		if k == 0 {
			return 0
		}
		if k > len(in.C) {
			return len(in.W)
		}
		return in.C[k-1]
	}
	tb := tokB[tabName]
	var out []byte
	for _, t := range in.W[cut(j-1):cut(j)] {
		out = append(out, tb[t-1]...)
	}
	return out
}

// ---------------------------------------------------------------- coverage statistics (measurement only, no verdict)

type stats struct {
	Lines      map[string]int      `json:"lines"`      // observation lines per mode/table
	Nontrivial map[string]int      `json:"nontrivial"` // ... whose string form is non-trivial (see nontrivial())
	Panics     int                 `json:"panics"`
	NetURLOk   int                 `json:"neturl_ok"` // Args lines on which net/url accepted the string (L3 applies)
	seen       map[uint64]struct{} // hashes of (mode, string form) of the non-trivial lines
}

func newStats() *stats {
	return &stats{Lines: map[string]int{}, Nontrivial: map[string]int{}, seen: map[uint64]struct{}{}}
}

// non-trivial: the codec had to do something -- the query string / URI contains an escape or a '+', the parser
// found at least one argument; the cookie is judged (non-empty key without '=') and carries at least one attribute.
func (st *stats) note(b *Block, ev string, rec vtrace.Rec) {
	key := b.Mode + "/" + b.Tab
	st.Lines[key]++
	var form string
	nt := false
	switch ev {
	case "Args":
		form = rec["enc"].(string)
		nt = strings.ContainsAny(form, "%+") && len(rec["parsed"].([][2]string)) > 0
		if rec["neturl"].(vtrace.Rec)["ok"].(bool) {
			st.NetURLOk++
		}
	case "Uri":
		form = rec["str"].(string)
		nt = strings.ContainsAny(form, "%+")
	case "Cookie":
		form = rec["str"].(string)
		key := rec["rec"].(vtrace.Rec)["key"].(string)
		nt = strings.Contains(form, "; ") && key != "" && !strings.Contains(key, "=") // judged (CookiePre) and has attributes
	case "Panic":
		st.Panics++
		return
	}
	if nt {
		st.Nontrivial[key]++
		h := fnv.New64a()
		h.Write([]byte(ev))
		h.Write([]byte(form))
		st.seen[h.Sum64()] = struct{}{}
	}
}

// ---------------------------------------------------------------- enumeration (order of Codec!Succ)

func walk(b *Block, visit func(in *In)) {
	if b.Rand {
		r := rand.New(rand.NewSource(seedFlag*1000003 + int64(b.ID)))
		for i := 0; i < b.Count; i++ {
			n := r.Intn(b.MaxLen + 1)
			in := In{W: make([]int, n), C: make([]int, b.NC)}
			for k := range in.W {
				in.W[k] = 1 + r.Intn(nt(b.Tab))
			}
			for k := range in.C {
				in.C[k] = r.Intn(n + 1)
			}
			sort.Ints(in.C)
			in.V = 1 + r.Intn(nv(b.Mode))
			visit(&in)
		}
		return
	}
	w := make([]int, b.N)
	for i := range w {
		if i < len(b.P) {
			w[i] = b.P[i]
		} else {
			w[i] = 1
		}
	}
	for {
		c := make([]int, b.NC)
		for {
			if b.Cross {
				for v := 1; v <= nv(b.Mode); v++ {
					visit(&In{W: w, C: c, V: v})
				}
			} else {
				visit(&In{W: w, C: c, V: varOf(b.Mode, w, c)})
			}
			// next cut vector
			j := -1
			for k := range c {
				if c[k] < b.N {
					j = k
				}
			}
			if j < 0 {
				break
			}
			x := c[j] + 1
			for k := j; k < len(c); k++ {
				c[k] = x
			}
		}
		// next word with the same prefix
		i := -1
		for k := len(b.P); k < len(w); k++ {
			if w[k] < nt(b.Tab) {
				i = k
			}
		}
		if i < 0 {
			return
		}
		w[i]++
		for k := i + 1; k < len(w); k++ {
			w[k] = 1
		}
	}
}

// ---------------------------------------------------------------- observations on the real code

// objects are reused across inputs, like pooled objects in a server
type objs struct {
	u, u2  protocol.URI
	a, a2  protocol.Args
	c, c2  protocol.Cookie
	future time.Time
}

func pairs(a *protocol.Args) [][2]string {
	out := [][2]string{}
	a.VisitAll(func(k, v []byte) { out = append(out, [2]string{esc(k), esc(v)}) })
	return out
}

func netURL(s []byte) vtrace.Rec {
	m, err := url.ParseQuery(string(s))
	keys := make([]string, 0, len(m))
	for k := range m {
		keys = append(keys, k)
	}
	sort.Strings(keys)
	ms := []vtrace.Rec{}
	for _, k := range keys {
		vs := []string{}
		for _, v := range m[k] {
			vs = append(vs, esc([]byte(v)))
		}
		ms = append(ms, vtrace.Rec{"k": esc([]byte(k)), "vs": vs})
	}
	return vtrace.Rec{"ok": err == nil, "m": ms}
}

func (o *objs) args(b *Block, in *In) vtrace.Rec {
	var enc []byte
	list := [][2]string{}
	passed := [][2]string{}
	api := 0
	pre := ""
	if b.Mode == "query" {
		enc = field(b.Tab, in, 1)
	} else {
		api = in.V
		type kv struct{ k, v []byte }
		var kvs []kv
		for i := 1; i+1 <= b.NC+1; i += 2 {
			kvs = append(kvs, kv{field(b.Tab, in, i), field(b.Tab, in, i+1)})
			passed = append(passed, [2]string{esc(kvs[len(kvs)-1].k), esc(kvs[len(kvs)-1].v)})
		}
		o.a.Reset()
		if api == 3 || api == 4 {
			// the keys alone, as a query string without '=': hertz' own encoding of the keys ('=' is always escaped
			// by it, so dropping every '=' of "k1=&k2=" leaves "k1&k2"); parsed into the SAME object first
			o.a2.Reset()
			for _, p := range kvs {
				o.a2.Add(string(p.k), "")
			}
			pre = strings.ReplaceAll(string(o.a2.QueryString()), "=", "")
			o.a.ParseBytes([]byte(pre))
		}
		for _, p := range kvs {
			if api == 1 || api == 4 {
				o.a.Add(string(p.k), string(p.v))
			} else {
				o.a.Set(string(p.k), string(p.v))
			}
		}
		list = pairs(&o.a)
		enc = append([]byte(nil), o.a.QueryString()...)
	}
	o.a2.ParseBytes(enc)
	parsed := pairs(&o.a2)
	reenc := append([]byte(nil), o.a2.QueryString()...)
	o.a.ParseBytes(reenc)
	return vtrace.Rec{"in": in, "api": api, "pairs": passed, "pre": esc([]byte(pre)), "list": list, "enc": esc(enc), "parsed": parsed, "neturl": netURL(enc),
		"reenc": esc(reenc), "reparsed": pairs(&o.a)}
}

func uriParts(u *protocol.URI) vtrace.Rec {
	r := vtrace.Rec{"scheme": esc(u.Scheme()), "host": esc(u.Host()), "path": esc(u.Path()),
		"qs": esc(u.QueryString()), "frag": esc(u.Hash())}
	r["query"] = pairs(u.QueryArgs()) // last: QueryArgs() parses the raw query string into the object
	return r
}

func (o *objs) uri(b *Block, in *In) vtrace.Rec {
	x := in.V - 1
	host := tab.Hosts[x%len(tab.Hosts)]
	scheme := tab.Schemes[(x/len(tab.Hosts))%len(tab.Schemes)]
	qmode := x / (len(tab.Hosts) * len(tab.Schemes))
	api, pm := apiOf(in), pmOf(in)
	path, key, value, frag := field(b.Tab, in, 1), field(b.Tab, in, 2), field(b.Tab, in, 3), field(b.Tab, in, 4)
	fragCtl := false
	for _, c := range frag {
		if c < 0x20 || c == 0x7f {
			fragCtl = true
		}
	}
	u := &o.u
	u.Reset()
	if api == 0 {
		u.SetScheme(scheme)
		u.SetHost(host)
		u.SetPath(string(path))
	} else {
		u.SetSchemeBytes([]byte(scheme))
		u.SetHostBytes([]byte(host))
		u.SetPathBytes(path)
	}
	if qmode == 0 {
		o.a.Reset()
		o.a.Add(string(key), string(value))
		if api == 0 {
			u.SetQueryString(string(o.a.QueryString()))
		} else {
			u.SetQueryStringBytes(o.a.QueryString())
		}
	} else if qmode == 1 {
		u.QueryArgs().Add(string(key), string(value))
	} // qmode 2: no query
	if api == 0 {
		u.SetHash(string(frag))
	} else {
		u.SetHashBytes(frag)
	}
	var phost []byte
	if pm == 1 {
		phost = []byte(tab.ParseHost)
	}
	str := u.String() // before any getter that could change the object
	parts := uriParts(u)
	o.u2.Parse(phost, []byte(str))
	restr := o.u2.String()
	re := uriParts(&o.u2)
	return vtrace.Rec{"in": in, "fragCtl": fragCtl,
		"set": vtrace.Rec{"scheme": scheme, "host": host, "path": esc(path), "key": esc(key), "value": esc(value),
			"frag": esc(frag), "qmode": qmode, "api": api, "phost": string(phost)},
		"parts": parts, "str": esc([]byte(str)), "reparsed": re, "restr": esc([]byte(restr))}
}

func cookieRec(c *protocol.Cookie) vtrace.Rec {
	e := c.Expire()
	var unix int64
	if !e.IsZero() {
		unix = e.Unix()
	}
	return vtrace.Rec{"key": esc(c.Key()), "value": esc(c.Value()), "domain": esc(c.Domain()), "path": esc(c.Path()),
		"httpOnly": c.HTTPOnly(), "secure": c.Secure(), "partitioned": c.Partitioned(), "sameSite": int(c.SameSite()),
		"maxAge": c.MaxAge(), "expSet": !e.IsZero(), "exp": unix}
}

func (o *objs) cookie(b *Block, in *In) vtrace.Rec {
	x := in.V - 1
	httpOnly, secure, partitioned := x%2 == 1, (x/2)%2 == 1, (x/4)%2 == 1
	sameSite := (x / 8) % 5
	api := apiOf(in)
	x /= 40
	exp := tab.Expiries[x%len(tab.Expiries)]
	x /= len(tab.Expiries)
	maxAge := tab.MaxAges[x%len(tab.MaxAges)]
	x /= len(tab.MaxAges)
	domain := tab.Domains[x%len(tab.Domains)]
	x /= len(tab.Domains)
	path := tab.CPaths[x%len(tab.CPaths)]
	key, value := field(b.Tab, in, 1), field(b.Tab, in, 2)

	c := &o.c
	c.Reset()
	if api == 0 {
		c.SetKey(string(key))
		c.SetValue(string(value))
	} else {
		c.SetKeyBytes(key)
		c.SetValueBytes(value)
	}
	switch exp {
	case "none":
		c.SetExpire(protocol.CookieExpireUnlimited)
	case "delete":
		c.SetExpire(protocol.CookieExpireDelete)
	case "future":
		c.SetExpire(o.future)
	default:
		panic("unknown expiry " + exp)
	}
	c.SetMaxAge(maxAge)
	c.SetDomain(domain)
	if path != "<unset>" {
		if api == 0 {
			c.SetPath(path)
		} else {
			c.SetPathBytes([]byte(path))
		}
	}
	c.SetHTTPOnly(httpOnly)
	ord := ordOf(in)
	if ord == 0 {
		c.SetSecure(secure)
	}
	c.SetSameSite(protocol.CookieSameSite(sameSite))
	c.SetPartitioned(partitioned)
	if ord == 1 {
		c.SetSecure(secure) // the caller has the last word: SameSite=None / Partitioned without Secure
	}
	str := c.String()
	rec := cookieRec(c)
	err := o.c2.Parse(str)
	return vtrace.Rec{"in": in,
		"set": vtrace.Rec{"key": esc(key), "value": esc(value), "httpOnly": httpOnly, "secure": secure,
			"partitioned": partitioned, "sameSite": sameSite, "exp": exp, "maxAge": maxAge, "domain": domain, "path": path, "api": api, "ord": ord},
		"rec": rec, "str": esc([]byte(str)), "ok": err == nil, "parsed": cookieRec(&o.c2)}
}

func runBlock(tr *vtrace.Writer, o *objs, st *stats, b *Block) {
	p := b.P
	if p == nil {
		p = []int{}
	}
	tr.Emit("Case", vtrace.Rec{"id": b.ID, "kind": "block", "mode": b.Mode, "tab": b.Tab, "nc": b.NC, "n": b.N, "p": p, "cross": b.Cross,
		"rand": b.Rand, "count": b.Count, "maxlen": b.MaxLen, "seed": seedFlag})
	walk(b, func(in *In) {
		// the walker reuses its slices: copy what is recorded
		cp := &In{W: append([]int{}, in.W...), C: append([]int{}, in.C...), V: in.V}
		var ev string
		var rec vtrace.Rec
		func() {
			defer func() {
				if r := recover(); r != nil {
					ev, rec = "Panic", vtrace.Rec{"in": cp, "msg": fmt.Sprint(r)}
					*o = objs{future: o.future} // do not carry a half-updated object into the next input
				}
			}()
			switch b.Mode {
			case "uri":
				ev, rec = "Uri", o.uri(b, cp)
			case "cookie":
				ev, rec = "Cookie", o.cookie(b, cp)
			case "query", "args":
				ev, rec = "Args", o.args(b, cp)
			default:
				panic("unknown mode " + b.Mode)
			}
		}()
		st.note(b, ev, rec)
		tr.Emit(ev, rec)
	})
	tr.Emit("End", nil)
}

func main() {
	cases := flag.String("cases", "", "ndjson file: tables record, then blocks (CodecGen)")
	out := flag.String("out", "", "output directory")
	chunks := flag.Int("chunks", 16, "number of trace files")
	flag.Int64Var(&seedFlag, "seed", 1, "seed of the random blocks")
	flag.Parse()
	hlog.SetLevel(hlog.LevelFatal) // Cookie.SetValue warns about every '"' (not a cookie-octet): thousands of log lines

	f, err := os.Open(*cases)
	if err != nil {
		fmt.Fprintln(os.Stderr, err)
		os.Exit(2)
	}
	var blocks []*Block
	sc := bufio.NewScanner(f)
	sc.Buffer(make([]byte, 1<<20), 1<<26)
	for sc.Scan() {
		if len(sc.Bytes()) == 0 {
			continue
		}
		b := &Block{}
		if err := json.Unmarshal(sc.Bytes(), b); err != nil {
			fmt.Fprintln(os.Stderr, "bad case line:", err)
			os.Exit(2)
		}
		if b.Kind == "tables" {
			tab = *b.T
			continue
		}
		blocks = append(blocks, b)
	}
	if len(tab.Tabs) == 0 {
		fmt.Fprintln(os.Stderr, "no tables record in case file")
		os.Exit(2)
	}
	for name, toks := range tab.Tabs {
		for _, t := range toks {
			tokB[name] = append(tokB[name], unesc(t))
		}
	}
	for _, b := range blocks {
		if nt(b.Tab) == 0 {
			fmt.Fprintln(os.Stderr, "block", b.ID, "uses unknown token table", b.Tab)
			os.Exit(2)
		}
	}

	// distribute blocks over the files, balancing the number of lines (largest first)
	size := func(b *Block) int {
		if b.Rand {
			return b.Count
		}
		n := 0
		walkCount(b, &n)
		return n
	}
	type sized struct {
		b *Block
		n int
	}
	sz := make([]sized, len(blocks))
	for i, b := range blocks {
		sz[i] = sized{b, size(b)}
	}
	sort.SliceStable(sz, func(i, j int) bool { return sz[i].n > sz[j].n })
	if *chunks < 1 {
		*chunks = 1
	}
	if *chunks > len(blocks) {
		*chunks = len(blocks)
	}
	bins := make([][]*Block, *chunks)
	load := make([]int, *chunks)
	for _, s := range sz {
		k := 0
		for i := range load {
			if load[i] < load[k] {
				k = i
			}
		}
		bins[k] = append(bins[k], s.b)
		load[k] += s.n + 2
	}
	var wg sync.WaitGroup
	all := make([]*stats, len(bins))
	for k := range bins {
		all[k] = newStats()
		sort.SliceStable(bins[k], func(i, j int) bool { return bins[k][i].ID < bins[k][j].ID })
		wg.Add(1)
		go func(k int) {
			defer wg.Done()
			tr, err := vtrace.Create(filepath.Join(*out, fmt.Sprintf("trace_%03d.ndjson", k)))
			if err != nil {
				fmt.Fprintln(os.Stderr, err)
				os.Exit(2)
			}
			o := &objs{future: time.Date(2033, 5, 18, 3, 33, 20, 999000000, time.FixedZone("plus1", 3600))}
			for _, b := range bins[k] {
				runBlock(tr, o, all[k], b)
			}
			if err := tr.Close(); err != nil {
				fmt.Fprintln(os.Stderr, err)
				os.Exit(2)
			}
		}(k)
	}
	wg.Wait()
	tot := newStats()
	for _, st := range all {
		for k, v := range st.Lines {
			tot.Lines[k] += v
		}
		for k, v := range st.Nontrivial {
			tot.Nontrivial[k] += v
		}
		tot.Panics += st.Panics
		tot.NetURLOk += st.NetURLOk
		for h := range st.seen {
			tot.seen[h] = struct{}{}
		}
		st.seen = nil
	}
	js, _ := json.Marshal(struct {
		*stats
		Distinct int `json:"distinct_nontrivial"`
		Blocks   int `json:"blocks"`
	}{tot, len(tot.seen), len(blocks)})
	fmt.Println(string(js))
}

// walkCount: number of inputs of an exhaustive block (closed form, mirrors Codec!BlockCount)
func walkCount(b *Block, n *int) {
	c := 1
	for i := len(b.P); i < b.N; i++ {
		c *= nt(b.Tab)
	}
	// C(n+nc, nc)
	bin := 1
	for k := 1; k <= b.NC; k++ {
		bin = bin * (b.N + k) / k
	}
	c *= bin
	if b.Cross {
		c *= nv(b.Mode)
	}
	*n = c
}
