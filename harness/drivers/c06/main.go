// Driver for C06: for every case (route set, registration orders, lookups) written by spec/RouterGen.tla it builds one
// REAL route.Engine per registration order, registers the routes in that order through the public RouterGroup API and
// serves every lookup through Engine.ServeHTTP, recording what the route handlers observed.  The driver holds no
// expectation: which handler should run, what the parameters should be and whether a registration should be refused
// is decided by TLC (spec/RouterTrace.tla).
//
// Trace per case:  Case{...}  ( Order{o,perm,mode}  Register{r,m,pat,outcome}*  Lookup{i,m,path,ran,mw,params,byName,
// fullPath,status,prev}* )*  End.   prev = the parameter strings recorded during the previous request of the same
// engine/context, read again after this request was served.   mode (from the case) says how the engine is set up before registration: no middleware,
// three separate Use(noop), or two Use(noop) + routes on Group("", noop); the middlewares only count their runs.   After a registration panic the order is abandoned (a program whose registration panics does not
// serve).  A panic while serving is logged as Panic (no spec action => rejected).
package main

import (
	"bufio"
	"context"
	"encoding/json"
	"flag"
	"fmt"
	"os"
	"path/filepath"
	"sort"
	"strings"
	"sync"

	"github.com/cloudwego/hertz/pkg/app"
	"github.com/cloudwego/hertz/pkg/common/config"
	"github.com/cloudwego/hertz/pkg/route"

	"verif/harness/vtrace"
)

type Route struct {
	M     string   `json:"m"`
	Pat   string   `json:"pat"`
	Names []string `json:"names"`
}

type Lookup struct {
	M    string `json:"m"`
	Path string `json:"path"`
}

type Case struct {
	ID      int      `json:"id"`
	Fam     string   `json:"fam"`
	Raw     bool     `json:"raw"`   // engine option UseRawPath
	Unesc   *bool    `json:"unesc"` // engine option UnescapePathValues (absent: the default, true)
	Esc     bool     `json:"esc"`
	Routes  []Route  `json:"routes"`
	Orders  [][]int  `json:"orders"`
	Modes   []string `json:"modes"` // engine set-up per order: plain | use3 | group
	Lookups []Lookup `json:"lookups"`
}

type kv struct {
	K string `json:"k"`
	V string `json:"v"`
}

// what the route handlers of one request observed
type obs struct {
	ran    []int
	mw     int
	params []kv
	byName []string
	full   string
}

func newEngine(raw, unesc bool) *route.Engine {
	opt := config.NewOptions(nil)
	opt.DisablePrintRoute = true
	// "no match" must be observable as such: no redirects, no 405 probing of the other trees
	opt.RedirectTrailingSlash = false
	opt.RedirectFixedPath = false
	opt.HandleMethodNotAllowed = false
	opt.UseRawPath = raw
	opt.UnescapePathValues = unesc
	return route.NewEngine(opt)
}

// setup prepares the engine as the case's mode says and returns the group the routes are registered on.
// use3: three separate Use calls (the chain's backing array grows 1 -> 2 -> 4, so it has spare capacity);
// group: two engine middlewares and a sub-group created with one more.
func setup(e *route.Engine, mode string, cur *obs) route.IRoutes {
	noop := func(c context.Context, ctx *app.RequestContext) { cur.mw++ }
	switch mode {
	case "use3":
		e.Use(noop)
		e.Use(noop)
		e.Use(noop)
		return e
	case "group":
		e.Use(noop)
		e.Use(noop)
		return e.Group("", noop)
	}
	return e
}

func register(e route.IRoutes, rt Route, id int, cur *obs) (outcome, msg string) {
	defer func() {
		if r := recover(); r != nil {
			outcome, msg = "panic", fmt.Sprint(r)
		}
	}()
	names := rt.Names
	e.Handle(rt.M, rt.Pat, func(c context.Context, ctx *app.RequestContext) {
		// like a handler earlier in the chain that rewrites the URI: overwrite the path buffer with junk of the same
		// length before the parameters are read (they must be the substrings matched at routing time)
		if n := len(ctx.Request.URI().Path()); n > 0 {
			ctx.Request.URI().SetPath("/" + strings.Repeat("~", n-1))
		}
		cur.ran = append(cur.ran, id)
		cur.full = ctx.FullPath()
		for _, p := range ctx.Params {
			cur.params = append(cur.params, kv{p.Key, p.Value})
		}
		for _, n := range names {
			cur.byName = append(cur.byName, ctx.Param(n))
		}
	})
	return "ok", ""
}

func runCase(tr *vtrace.Writer, c *Case) {
	unesc := c.Unesc == nil || *c.Unesc
	tr.Emit("Case", vtrace.Rec{"id": c.ID, "fam": c.Fam, "raw": c.Raw, "unesc": unesc, "esc": c.Esc, "routes": c.Routes,
		"orders": c.Orders, "modes": c.Modes, "lookups": c.Lookups})
	for o, perm := range c.Orders {
		mode := "plain"
		if o < len(c.Modes) {
			mode = c.Modes[o]
		}
		tr.Emit("Order", vtrace.Rec{"o": o + 1, "perm": perm, "mode": mode})
		e := newEngine(c.Raw, unesc)
		cur := &obs{}
		grp := setup(e, mode, cur)
		ok := true
		for _, idx := range perm {
			rt := c.Routes[idx-1]
			outcome, msg := register(grp, rt, idx, cur)
			rec := vtrace.Rec{"r": idx, "m": rt.M, "pat": rt.Pat, "outcome": outcome}
			if msg != "" {
				rec["msg"] = msg
			}
			tr.Emit("Register", rec)
			if outcome != "ok" {
				ok = false
				break
			}
		}
		if !ok {
			continue
		}
		// one context re-used for all requests of this engine, reset in between like the server's pool does
		ctx := e.NewContext()
		kept := []kv{} // parameter strings a handler kept from the previous request, re-read after the next one
		for i, lk := range c.Lookups {
			prev := kept
			*cur = obs{ran: []int{}, params: []kv{}, byName: []string{}}
			status := 0
			func() {
				defer func() {
					if r := recover(); r != nil {
						tr.Emit("Panic", vtrace.Rec{"i": i + 1, "m": lk.M, "path": lk.Path, "msg": fmt.Sprint(r)})
						ctx = e.NewContext()
						status = -1
					}
				}()
				ctx.Reset()
				ctx.Request.SetRequestURI(lk.Path)
				ctx.Request.Header.SetMethod(lk.M)
				ctx.Request.SetHost("h")
				e.ServeHTTP(context.Background(), ctx)
				status = ctx.Response.StatusCode()
			}()
			if status == -1 {
				continue
			}
			tr.Emit("Lookup", vtrace.Rec{"i": i + 1, "m": lk.M, "path": lk.Path, "ran": cur.ran, "mw": cur.mw, "params": cur.params,
				"byName": cur.byName, "fullPath": cur.full, "status": status, "prev": append([]kv{}, prev...)})
			kept = cur.params
		}
	}
	tr.Emit("End", nil)
}

func weight(c *Case) int { return len(c.Orders) * (1 + len(c.Routes) + len(c.Lookups)) }

func main() {
	cases := flag.String("cases", "", "ndjson case file written by TLC")
	out := flag.String("out", "", "output directory for trace chunks")
	chunks := flag.Int("chunks", 16, "number of trace files")
	flag.Parse()
	f, err := os.Open(*cases)
	if err != nil {
		fmt.Fprintln(os.Stderr, err)
		os.Exit(2)
	}
	var all []*Case
	sc := bufio.NewScanner(f)
	sc.Buffer(make([]byte, 1<<20), 1<<28)
	for sc.Scan() {
		c := &Case{}
		if err := json.Unmarshal(sc.Bytes(), c); err != nil {
			fmt.Fprintln(os.Stderr, "bad case line:", err)
			os.Exit(2)
		}
		all = append(all, c)
	}
	if err := sc.Err(); err != nil {
		fmt.Fprintln(os.Stderr, err)
		os.Exit(2)
	}
	n := *chunks
	if n > len(all) {
		n = len(all)
	}
	if n < 1 {
		n = 1
	}
	// whole cases per file, balanced by number of events (heaviest first onto the lightest file; deterministic)
	order := make([]int, len(all))
	for i := range order {
		order[i] = i
	}
	sort.SliceStable(order, func(a, b int) bool { return weight(all[order[a]]) > weight(all[order[b]]) })
	bins := make([][]int, n)
	load := make([]int, n)
	for _, ci := range order {
		k := 0
		for j := 1; j < n; j++ {
			if load[j] < load[k] {
				k = j
			}
		}
		bins[k] = append(bins[k], ci)
		load[k] += weight(all[ci])
	}
	var wg sync.WaitGroup
	events := make([]int, n)
	for k := 0; k < n; k++ {
		wg.Add(1)
		go func(k int) {
			defer wg.Done()
			tr, err := vtrace.Create(filepath.Join(*out, fmt.Sprintf("trace_%03d.ndjson", k)))
			if err != nil {
				panic(err)
			}
			sort.Ints(bins[k])
			for _, ci := range bins[k] {
				runCase(tr, all[ci])
			}
			events[k] = tr.Lines()
			tr.Close()
		}(k)
	}
	wg.Wait()
	total := 0
	for _, e := range events {
		total += e
	}
	fmt.Printf("{\"cases\":%d,\"chunks\":%d,\"events\":%d}\n", len(all), n, total)
}
