package main

// Scripted peer for the client direction (an addition to harness/vnet kept in this driver package: vnet.Conn has no
// hook *before* a Read, which a single-goroutine request/reply peer needs).
//
// peerConn is the net.Conn handed (wrapped in the production buffered standard.Conn) to the real client by the
// custom dialer.  Everything runs on the goroutine that calls client.Do / reads the body stream:
//   - Write captures the request bytes;
//   - the first Read after a Write means the client has flushed its request and now waits for the response: the
//     peer callback decodes the captured request, logs it and appends the scripted response bytes together with the
//     fragment schedule of the exchange;
//   - every Read hands over at most one fragment (Deliver event);
//   - after a response that ends the connection the peer is closed: further Reads see EOF, a Write is a reuse of a
//     connection the client had to give up (ReuseAfterClose event; there is no specification action for it);
//   - an exchange marked "early": the first Write finds the response already queued and the connection closed by the
//     peer (EarlyReply event); the Write fails with EPIPE and the client reads what is there;
//   - a Read while the peer has nothing to say would block for ever on a real socket: BlockedRead event (no
//     specification action) and a timeout error.

import (
	"errors"
	"io"
	"net"
	"os"
	"sync"
	"syscall"
	"time"
)

type timeoutErr struct{}

func (timeoutErr) Error() string   { return "c11 peer: i/o timeout (the peer has nothing more to send)" }
func (timeoutErr) Timeout() bool   { return true }
func (timeoutErr) Temporary() bool { return true }
func (timeoutErr) Unwrap() error   { return os.ErrDeadlineExceeded }

type paddr string

func (a paddr) Network() string { return "tcp" }
func (a paddr) String() string  { return string(a) }

type peerConn struct {
	mu sync.Mutex
	id int
	w  *worker

	req     []byte // request bytes written since the last reply
	in      []byte // response bytes appended so far
	pos     int    // delivered
	cuts    []int  // fragment sizes for the bytes not yet delivered (exhausted: the rest is one fragment)
	ci      int
	fragRem int

	peerClosed bool // the peer closes after the bytes in `in`
	eofSeen    bool
	closed     bool // the client closed
	muted      bool // case is over: no more events
	written    int  // total bytes written by the client
	earlyX     int  // exchange this connection answered early (0: none)
}

func (c *peerConn) Read(p []byte) (int, error) {
	c.mu.Lock()
	defer c.mu.Unlock()
	if c.closed {
		return 0, net.ErrClosed
	}
	if len(p) == 0 {
		return 0, nil
	}
	if c.pos == len(c.in) && len(c.req) > 0 && !c.peerClosed {
		// the client has sent a request and waits for the answer
		req := c.req
		c.req = nil
		c.mu.Unlock()
		wire, cuts, closeAfter := c.w.onRequest(c, req)
		c.mu.Lock()
		c.in = append(c.in, wire...)
		c.cuts, c.ci, c.fragRem = cuts, 0, 0
		c.peerClosed = closeAfter
	}
	if c.pos == len(c.in) {
		if c.peerClosed {
			if !c.eofSeen && !c.muted {
				c.eofSeen = true
				c.w.ev("Eof", map[string]interface{}{"conn": c.id})
			}
			return 0, io.EOF
		}
		if !c.muted {
			c.w.ev("BlockedRead", map[string]interface{}{"conn": c.id})
		}
		return 0, timeoutErr{}
	}
	if c.fragRem == 0 {
		if c.ci < len(c.cuts) {
			c.fragRem = c.cuts[c.ci]
			c.ci++
		}
		if c.fragRem <= 0 || c.fragRem > len(c.in)-c.pos {
			c.fragRem = len(c.in) - c.pos
		}
	}
	n := len(p)
	if n > c.fragRem {
		n = c.fragRem
	}
	copy(p, c.in[c.pos:c.pos+n])
	c.pos += n
	c.fragRem -= n
	if !c.muted {
		c.w.ev("Deliver", map[string]interface{}{"conn": c.id, "n": n})
	}
	return n, nil
}

func (c *peerConn) Write(p []byte) (int, error) {
	c.mu.Lock()
	defer c.mu.Unlock()
	if c.closed {
		return 0, net.ErrClosed
	}
	if c.peerClosed {
		if c.earlyX != 0 && c.earlyX == c.w.x {
			return 0, syscall.EPIPE // further writes of the exchange the peer answered early
		}
		if !c.muted {
			c.w.ev("ReuseAfterClose", map[string]interface{}{"conn": c.id, "n": len(p)})
		}
		return 0, errors.New("c11 peer: broken pipe (the peer has closed this connection)")
	}
	// early answer: the peer has queued its response and closed without reading; the write fails with EPIPE
	// (standard.Conn.ToHertzError turns that into errs.ErrConnectionClosed)
	if wire, cuts, ok := c.w.onEarly(c); ok {
		c.in = append(c.in, wire...)
		c.cuts, c.ci, c.fragRem = cuts, 0, 0
		c.peerClosed = true
		c.earlyX = c.w.x
		return 0, syscall.EPIPE
	}
	c.req = append(c.req, p...)
	c.written += len(p)
	return len(p), nil
}

func (c *peerConn) Close() error {
	c.mu.Lock()
	defer c.mu.Unlock()
	if c.closed {
		return nil
	}
	c.closed = true
	if !c.muted {
		c.w.ev("ConnClosed", map[string]interface{}{"conn": c.id, "undelivered": len(c.in) - c.pos})
	}
	return nil
}

func (c *peerConn) isClosed() bool { c.mu.Lock(); defer c.mu.Unlock(); return c.closed }

func (c *peerConn) mute() { c.mu.Lock(); c.muted = true; c.mu.Unlock() }

func (c *peerConn) LocalAddr() net.Addr                { return paddr("127.0.0.1:50000") }
func (c *peerConn) RemoteAddr() net.Addr               { return paddr("127.0.0.1:80") }
func (c *peerConn) SetDeadline(t time.Time) error      { return nil }
func (c *peerConn) SetReadDeadline(t time.Time) error  { return nil }
func (c *peerConn) SetWriteDeadline(t time.Time) error { return nil }
