// Driver c11: runs request programs through the REAL hertz client (pkg/app/client.Client -> http1.HostClient) against a
// scripted peer and records, as an ndjson trace validated by spec/H1ClientTrace.tla,
//   - the request bytes the client wrote, decoded (a) by net/http.ReadRequest and (b) by the real hertz server
//     (the captured bytes are replayed into route.Engine.Serve with a recording handler): OnWire{by, ...};
//   - the response the client returned for the scripted response wire, delivered in a chosen fragmentation:
//     Returned{status, fields, bodyRuns, trailers, err}, in buffered and in streaming mode;
//   - which scripted connection every exchange used (Dial / Sent / ConnClosed / ReuseAfterClose) and every socket
//     read (Deliver{n}).
// The driver contains no expectations: it builds API calls and wire bytes from what the case file says and logs
// what it observes.  Cases come from spec/H1ClientGen.tla.
package main

import (
	"bufio"
	"bytes"
	"context"
	"crypto/tls"
	"encoding/json"
	"errors"
	"flag"
	"fmt"
	"io"
	"math/rand"
	"mime"
	"mime/multipart"
	"net"
	"net/http"
	"net/url"
	"os"
	"path/filepath"
	"runtime/pprof"
	"sort"
	"strings"
	"sync"
	"time"

	"github.com/cloudwego/hertz/pkg/app"
	"github.com/cloudwego/hertz/pkg/app/client"
	"github.com/cloudwego/hertz/pkg/common/config"
	errs "github.com/cloudwego/hertz/pkg/common/errors"
	"github.com/cloudwego/hertz/pkg/network"
	"github.com/cloudwego/hertz/pkg/network/standard"
	"github.com/cloudwego/hertz/pkg/protocol"
	"github.com/cloudwego/hertz/pkg/route"

	"verif/harness/vnet"
	"verif/harness/vtrace"
)

type Seg struct {
	T string `json:"t"`
	S string `json:"s"`
	I int    `json:"i"`
	A int    `json:"a"`
	B int    `json:"b"`
}

type KV struct {
	K string `json:"k"`
	V string `json:"v"`
}

type Hdr struct {
	Name  string `json:"name"`
	Value string `json:"value"`
}

// FilePart is one multipart part with content: api "reader" = Request.SetFileReader(param, filename, r),
// api "field" = Request.SetMultipartField(param, filename, ctype, r).  Content = pattern bytes of origin I.
type FilePart struct {
	Param    string `json:"param"`
	Filename string `json:"filename"`
	Ctype    string `json:"ctype"`
	N        int    `json:"n"`
	I        int    `json:"i"`
	API      string `json:"api"`
}

type Body struct {
	Kind     string     `json:"kind"` // none | bytes | stream | form | multipart
	N        int        `json:"n"`
	I        int        `json:"i"`        // provenance origin of the body bytes
	Declared int        `json:"declared"` // stream: size passed to SetBodyStream (-1: unknown)
	Step     int        `json:"step"`     // stream: bytes per Read of the stream (0: everything)
	Rd       string     `json:"rd"`       // stream / file readers: how Read hands the bytes out (see patReader)
	Kvs      []KV       `json:"kvs"`      // form: SetFormDataFromValues / multipart: SetMultipartField(k, "", "", v)
	Files    []FilePart `json:"files"`
}

type Opts struct {
	Close   bool   `json:"close"`   // Request.SetConnectionClose()
	HostHdr string `json:"hostHdr"` // Request.Header.SetHost(...) ("": not set)
}

// Op is one operation on a specially stored request header, carried out in order after the header adds and the
// option setters and before the body is attached:
//   set name value (Header.Set) | del name (Header.Del) | setHost v | setUA v | setCT v | setClose | resetClose |
//   setCookie name value
type Op struct {
	Op    string `json:"op"`
	Name  string `json:"name"`
	Value string `json:"value"`
}

type Prog struct {
	Method  string `json:"method"`
	URL     string `json:"url"`
	Hdrs    []Hdr  `json:"hdrs"`
	Body    Body   `json:"body"`
	Opts    Opts   `json:"opts"`
	Special []Op   `json:"special"`
}

type Script struct {
	BodyLen int `json:"bodyLen"`
	I       int `json:"i"`    // provenance origin of the response body
	Pad     int `json:"pad"`  // length of the X-Pad header value (pattern bytes of origin PadI)
	PadI    int `json:"padI"`
}

type Exchange struct {
	Prog      json.RawMessage `json:"prog"`
	Script    json.RawMessage `json:"script"`
	Wire      []Seg           `json:"wire,omitempty"`
	HeadEnd   int             `json:"headEnd"`
	WireLen   int             `json:"wireLen"`
	PeerClose bool            `json:"peerClose"` // the scripted peer closes the connection after this response
	Early     bool            `json:"early"`     // the peer answers at once and closes, without reading the request
	prog      Prog
	script    Script
}

type Cfg struct {
	Stream     bool `json:"stream"`     // client.WithResponseBodyStream
	MaxResp    int  `json:"maxResp"`    // MaxResponseBodySize (0: unset)
	NoNormHdr  bool `json:"noNormHdr"`  // header-name normalisation off (request header and client option)
	NoNormPath bool `json:"noNormPath"` // client.WithDisablePathNormalizing
	Proxy      bool `json:"proxy"`      // requests go through an HTTP proxy (absolute-form targets)
	ReadSize   int  `json:"readSize"`   // streaming: size of the reads on the response body stream (0: 4096)
	ReuseResp  bool `json:"reuseResp"`  // the Response object of the previous exchange is handed to Do as it is (false: Response.Reset() first)
}

type Case struct {
	ID     int         `json:"id"`
	Cfg    Cfg         `json:"cfg"`
	Xs     []*Exchange `json:"xs"`
	Cuts   [][]int     `json:"cuts"` // per exchange: fragment sizes of the response delivery ([]: whole)
	CutX   int         `json:"cutX"` // exchange whose response the -cuts expansion fragments (0: the last one)
	CutTag string      `json:"cutTag"`
	Tag    string      `json:"tag"`
	Ev     string      `json:"ev,omitempty"`
}

const proxyAddr = "proxy.example:3128"

var controlNames = map[string]bool{"content-length": true, "transfer-encoding": true, "connection": true, "trailer": true, "host": true}

func collapse(s string) string { return strings.Join(strings.Fields(s), " ") }

func wireBytes(segs []Seg) []byte {
	var b []byte
	for _, s := range segs {
		if s.T == "lit" {
			b = append(b, s.S...)
		} else {
			b = append(b, vnet.Fill(s.I, s.A, s.B)...)
		}
	}
	return b
}

// patReader yields the pattern bytes of one origin as a plain io.Reader (no length is visible).  How it hands the bytes
// out is part of the case (io.Reader allows every one of these):
//   rd "full"      every Read fills as much as it is asked for (step > 0: at most step bytes per Read)
//   rd "first1" | "first8" | "first511"   the FIRST Read returns at most 1 / 8 / 511 bytes, the following ones are full
//   rd "bytewise"  one byte per Read
//   rd "eofLast"   full reads; the Read that returns the last bytes returns io.EOF together with them
type patReader struct {
	data  []byte
	pos   int
	step  int
	rd    string
	calls int
}

func (r *patReader) Read(p []byte) (int, error) {
	if r.pos >= len(r.data) {
		return 0, io.EOF
	}
	if len(p) == 0 {
		return 0, nil
	}
	n := len(p)
	if r.step > 0 && n > r.step {
		n = r.step
	}
	switch r.rd {
	case "first1", "first8", "first511":
		if r.calls == 0 {
			lim := map[string]int{"first1": 1, "first8": 8, "first511": 511}[r.rd]
			if n > lim {
				n = lim
			}
		}
	case "bytewise":
		n = 1
	}
	r.calls++
	if n > len(r.data)-r.pos {
		n = len(r.data) - r.pos
	}
	copy(p, r.data[r.pos:r.pos+n])
	r.pos += n
	if r.rd == "eofLast" && r.pos == len(r.data) {
		return n, io.EOF
	}
	return n, nil
}

type worker struct {
	tr     *vtrace.Writer
	engine *route.Engine
	// per case
	cur     *Case
	x       int // exchange in progress (1-based)
	conns   []*peerConn
	ncs     []network.Conn
	used    int // scripted connection the exchange in progress wrote its request to (0: none)
	earlyDone int // exchange whose early answer has been queued
	origins []vnet.Origin
	// hertz-side decode of the captured request
	hz []vtrace.Rec
}

func (w *worker) ev(name string, r map[string]interface{}) { w.tr.Emit(name, vtrace.Rec(r)) }

// ---------------------------------------------------------------- dialer

type dialer struct{ w *worker }

// netConns[i] is the production buffered connection wrapped around scripted connection i+1

func (d *dialer) DialConnection(nw, address string, timeout time.Duration, tlsConfig *tls.Config) (network.Conn, error) {
	w := d.w
	pc := &peerConn{id: len(w.conns) + 1, w: w}
	w.conns = append(w.conns, pc)
	w.ev("Dial", map[string]interface{}{"conn": pc.id, "addr": address, "x": w.x})
	nc := standard.NewConnForVerif(pc, 4096)
	w.ncs = append(w.ncs, nc)
	return nc, nil
}

func (d *dialer) DialTimeout(nw, address string, timeout time.Duration, tlsConfig *tls.Config) (net.Conn, error) {
	return nil, errors.New("c11: DialTimeout not supported")
}

func (d *dialer) AddTLS(conn network.Conn, tlsConfig *tls.Config) (network.Conn, error) {
	return nil, errors.New("c11: TLS not supported")
}

// ---------------------------------------------------------------- the peer: decode the request, reply

// fieldsOf lists header fields as {name (lower case), value}; framing / connection fields are left out; a long value
// is reported by provenance ("<run I A B>") or by length.
func (w *worker) fieldsOf(add func(f func(k, v string))) []map[string]string {
	out := []map[string]string{}
	add(func(k, v string) {
		n := strings.ToLower(k)
		if controlNames[n] {
			return
		}
		out = append(out, map[string]string{"name": n, "value": w.tagLong(collapse(v))})
	})
	return out
}

func (w *worker) tagLong(v string) string {
	if len(v) <= 200 {
		return v
	}
	rs := vnet.Runs([]byte(v), w.origins)
	if len(rs) == 1 && rs[0].I != 0 {
		return fmt.Sprintf("<run %d %d %d>", rs[0].I, rs[0].A, rs[0].B)
	}
	return fmt.Sprintf("<%d bytes>", len(v))
}

func short(b []byte) string {
	if len(b) <= 48 {
		return string(b)
	}
	return fmt.Sprintf("<%d bytes>", len(b))
}

func (w *worker) runs(b []byte, hint int) [][]int {
	return vnet.RunsJSON(vnet.RunsHint(b, w.origins, hint, 0))
}

func kvList(vals map[string][]string) []map[string]string {
	keys := make([]string, 0, len(vals))
	for k := range vals {
		keys = append(keys, k)
	}
	sort.Strings(keys)
	out := []map[string]string{}
	for _, k := range keys {
		for _, v := range vals[k] {
			out = append(out, map[string]string{"k": k, "v": v})
		}
	}
	return out
}

func (w *worker) part(name, filename, ctype string, content []byte) map[string]interface{} {
	return map[string]interface{}{"name": name, "filename": filename, "ctype": ctype, "n": len(content), "text": short(content),
		"runs": w.runs(content, 0)}
}

// decode by net/http (independent implementation)
func (w *worker) decodeNetHTTP(x int, raw []byte) {
	src := bytes.NewReader(raw)
	br := bufio.NewReader(src)
	r, err := http.ReadRequest(br)
	if err != nil {
		w.ev("OnWireError", map[string]interface{}{"x": x, "by": "nethttp", "err": err.Error()})
		return
	}
	body, err := io.ReadAll(r.Body)
	if err != nil {
		w.ev("OnWireError", map[string]interface{}{"x": x, "by": "nethttp", "err": "body: " + err.Error()})
		return
	}
	extra := src.Len() + br.Buffered()
	fields := w.fieldsOf(func(f func(k, v string)) {
		keys := make([]string, 0, len(r.Header))
		for k := range r.Header {
			keys = append(keys, k)
		}
		sort.Strings(keys)
		for _, k := range keys {
			for _, v := range r.Header[k] {
				f(k, v)
			}
		}
	})
	rec := map[string]interface{}{"x": x, "by": "nethttp", "method": r.Method, "target": r.RequestURI, "host": r.Host, "fields": fields,
		"bodyLen": len(body), "bodyRuns": w.runs(body, w.progBodyOrigin(x)), "close": r.Close, "extra": extra,
		"chunked": len(r.TransferEncoding) > 0, "form": []map[string]string{}, "parts": []map[string]interface{}{}, "formErr": ""}
	mt, params, _ := mime.ParseMediaType(r.Header.Get("Content-Type"))
	if len(body) > 2048 && mt == "application/x-www-form-urlencoded" {
		mt = "" // only small bodies are decoded as forms (a large pattern body under the default content type is not a form)
	}
	switch mt {
	case "application/x-www-form-urlencoded":
		vals, err := url.ParseQuery(string(body))
		if err != nil {
			rec["formErr"] = err.Error()
		}
		rec["form"] = kvList(vals)
	case "multipart/form-data":
		mr := multipart.NewReader(bytes.NewReader(body), params["boundary"])
		parts := []map[string]interface{}{}
		for {
			p, err := mr.NextPart()
			if err == io.EOF {
				break
			}
			if err != nil {
				rec["formErr"] = err.Error()
				break
			}
			content, err := io.ReadAll(p)
			if err != nil {
				rec["formErr"] = err.Error()
				break
			}
			parts = append(parts, w.part(p.FormName(), p.FileName(), p.Header.Get("Content-Type"), content))
		}
		rec["parts"] = parts
	}
	w.ev("OnWire", rec)
}

func (w *worker) progBodyOrigin(x int) int {
	if x >= 1 && x <= len(w.cur.Xs) {
		return w.cur.Xs[x-1].prog.Body.I
	}
	return 0
}

// the recording handler of the real hertz server
func (w *worker) handle(ctx *app.RequestContext) {
	x := w.x
	fields := w.fieldsOf(func(f func(k, v string)) {
		ctx.Request.Header.VisitAll(func(k, v []byte) { f(string(k), string(v)) })
	})
	body := ctx.Request.Body()
	rec := vtrace.Rec{"x": x, "by": "hertz", "method": string(ctx.Request.Header.Method()), "target": string(ctx.Request.Header.RequestURI()),
		"host": string(ctx.Request.Host()), "fields": fields, "bodyLen": len(body), "bodyRuns": w.runs(body, w.progBodyOrigin(x)),
		"close": ctx.Request.ConnectionClose(), "extra": 0, "chunked": ctx.Request.Header.ContentLength() == -1,
		"form": []map[string]string{}, "parts": []map[string]interface{}{}, "formErr": ""}
	ct := string(ctx.Request.Header.ContentType())
	mt, _, _ := mime.ParseMediaType(ct)
	if len(body) > 2048 && mt == "application/x-www-form-urlencoded" {
		mt = ""
	}
	switch mt {
	case "application/x-www-form-urlencoded":
		vals := map[string][]string{}
		ctx.PostArgs().VisitAll(func(k, v []byte) { vals[string(k)] = append(vals[string(k)], string(v)) })
		rec["form"] = kvList(vals)
	case "multipart/form-data":
		form, err := ctx.MultipartForm()
		if err != nil {
			rec["formErr"] = err.Error()
			break
		}
		parts := []map[string]interface{}{}
		names := make([]string, 0)
		for k := range form.Value {
			names = append(names, k)
		}
		sort.Strings(names)
		for _, k := range names {
			for _, v := range form.Value[k] {
				parts = append(parts, w.part(k, "", "", []byte(v)))
			}
		}
		names = names[:0]
		for k := range form.File {
			names = append(names, k)
		}
		sort.Strings(names)
		for _, k := range names {
			for _, fh := range form.File[k] {
				var content []byte
				if f, err := fh.Open(); err == nil {
					content, _ = io.ReadAll(f)
					f.Close()
				} else {
					rec["formErr"] = err.Error()
				}
				parts = append(parts, w.part(k, fh.Filename, fh.Header.Get("Content-Type"), content))
			}
		}
		rec["parts"] = parts
	}
	w.hz = append(w.hz, rec)
	ctx.SetStatusCode(200)
}

// decode by the real hertz server: replay the captured bytes into Engine.Serve
func (w *worker) decodeHertz(x int, raw []byte) {
	w.hz = w.hz[:0]
	conn := vnet.New(append([]byte(nil), raw...), nil)
	var perr interface{}
	func() {
		defer func() {
			if r := recover(); r != nil {
				perr = r
				conn.Close()
			}
		}()
		vnet.ServeConn(w.engine, conn, "inloop", 0)
	}()
	if perr != nil {
		w.ev("OnWireError", map[string]interface{}{"x": x, "by": "hertz", "err": fmt.Sprint("panic: ", perr)})
		return
	}
	if len(w.hz) == 0 {
		// the server did not hand the bytes to a handler: report what it answered
		rs := &vnet.RespStream{}
		rs.Feed(conn.Out)
		st := 0
		if r, _ := rs.Next(true); r != nil {
			st = r.Status
		}
		w.ev("OnWireError", map[string]interface{}{"x": x, "by": "hertz", "err": fmt.Sprintf("no handler ran; server answered %d", st)})
		return
	}
	for _, rec := range w.hz {
		w.tr.Emit("OnWire", rec)
	}
}

// rawHead splits the head of the captured request at CRLF and at the first colon (no interpretation)
func rawHead(raw []byte) (start string, lines []map[string]string) {
	lines = []map[string]string{}
	head := raw
	if i := bytes.Index(raw, []byte("\r\n\r\n")); i >= 0 {
		head = raw[:i]
	}
	for k, ln := range strings.Split(string(head), "\r\n") {
		if k == 0 {
			start = ln
			continue
		}
		if c := strings.IndexByte(ln, ':'); c >= 0 {
			lines = append(lines, map[string]string{"name": ln[:c], "lname": strings.ToLower(ln[:c]), "value": strings.TrimSpace(ln[c+1:])})
		} else {
			lines = append(lines, map[string]string{"name": "", "lname": "", "value": ln})
		}
	}
	return
}

// onRequest is called by a scripted connection when the client, having written req, starts to read.
func (w *worker) onRequest(c *peerConn, req []byte) (wire []byte, cuts []int, closeAfter bool) {
	x := w.x
	w.used = c.id
	start, lines := rawHead(req)
	w.ev("Sent", map[string]interface{}{"x": x, "conn": c.id, "n": len(req), "start": start, "lines": lines})
	w.decodeNetHTTP(x, req)
	w.decodeHertz(x, req)
	if x < 1 || x > len(w.cur.Xs) {
		return nil, nil, true
	}
	e := w.cur.Xs[x-1]
	wire = wireBytes(e.Wire)
	if x-1 < len(w.cur.Cuts) {
		cuts = w.cur.Cuts[x-1]
	}
	w.ev("PeerReply", map[string]interface{}{"x": x, "conn": c.id, "n": len(wire), "close": e.PeerClose})
	return wire, cuts, e.PeerClose
}

// onEarly is called by a scripted connection at the first write of an exchange whose peer answers early: the response
// is queued, the connection closed by the peer, the write fails.
func (w *worker) onEarly(c *peerConn) (wire []byte, cuts []int, ok bool) {
	x := w.x
	if x < 1 || x > len(w.cur.Xs) || !w.cur.Xs[x-1].Early || w.earlyDone == x {
		return nil, nil, false
	}
	w.earlyDone = x
	w.used = c.id
	e := w.cur.Xs[x-1]
	wire = wireBytes(e.Wire)
	if x-1 < len(w.cur.Cuts) {
		cuts = w.cur.Cuts[x-1]
	}
	w.ev("EarlyReply", map[string]interface{}{"x": x, "conn": c.id, "n": len(wire)})
	return wire, cuts, true
}

// ---------------------------------------------------------------- the client side

func errClass(err error) string {
	switch {
	case err == nil:
		return ""
	case errors.Is(err, errs.ErrBodyTooLarge):
		return "tooLarge"
	case errors.Is(err, errs.ErrTimeout) || errors.Is(err, os.ErrDeadlineExceeded):
		return "timeout"
	case errors.Is(err, errs.ErrConnectionClosed) || errors.Is(err, io.EOF) || errors.Is(err, io.ErrUnexpectedEOF):
		return "eof"
	case errors.Is(err, errs.ErrBadPoolConn):
		return "badPoolConn"
	case errors.Is(err, errs.ErrNoFreeConns):
		return "noFreeConns"
	}
	var ne net.Error
	if errors.As(err, &ne) && ne.Timeout() {
		return "timeout"
	}
	return "other"
}

func (w *worker) buildRequest(req *protocol.Request, p *Prog, cfg *Cfg) {
	req.Reset()
	if cfg.NoNormHdr {
		req.Header.DisableNormalizing()
	}
	req.SetMethod(p.Method)
	req.SetRequestURI(p.URL)
	for _, h := range p.Hdrs {
		req.Header.Add(h.Name, h.Value)
	}
	if p.Opts.HostHdr != "" {
		req.Header.SetHost(p.Opts.HostHdr)
	}
	if p.Opts.Close {
		req.SetConnectionClose()
	}
	for _, o := range p.Special {
		switch o.Op {
		case "set":
			req.Header.Set(o.Name, o.Value)
		case "del":
			req.Header.Del(o.Name)
		case "setHost":
			req.Header.SetHost(o.Value)
		case "setUA":
			req.Header.SetUserAgentBytes([]byte(o.Value))
		case "setCT":
			req.Header.SetContentTypeBytes([]byte(o.Value))
		case "setClose":
			req.SetConnectionClose()
		case "resetClose":
			req.Header.ResetConnectionClose()
		case "setCookie":
			req.Header.SetCookie(o.Name, o.Value)
		default:
			panic("c11: unknown header operation " + o.Op)
		}
	}
	b := &p.Body
	switch b.Kind {
	case "bytes":
		req.SetBody(vnet.Fill(b.I, 0, b.N))
	case "stream":
		req.SetBodyStream(&patReader{data: vnet.Fill(b.I, 0, b.N), step: b.Step, rd: b.Rd}, b.Declared)
	case "form":
		vals := url.Values{}
		for _, kv := range b.Kvs {
			vals.Add(kv.K, kv.V)
		}
		req.SetFormDataFromValues(vals)
	case "multipart":
		for _, kv := range b.Kvs {
			req.SetMultipartField(kv.K, "", "", strings.NewReader(kv.V))
		}
		for _, f := range b.Files {
			rd := &patReader{data: vnet.Fill(f.I, 0, f.N), step: b.Step, rd: b.Rd}
			if f.API == "reader" {
				req.SetFileReader(f.Param, f.Filename, rd)
			} else {
				req.SetMultipartField(f.Param, f.Filename, f.Ctype, rd)
			}
		}
	}
}

func (w *worker) run(c *Case) {
	tr := w.tr
	w.cur = c
	w.x = 0
	w.conns = w.conns[:0]
	w.earlyDone = 0
	w.ncs = w.ncs[:0]
	w.origins = w.origins[:0]
	for len(c.Cuts) < len(c.Xs) {
		c.Cuts = append(c.Cuts, []int{})
	}
	for i := range c.Cuts {
		if c.Cuts[i] == nil {
			c.Cuts[i] = []int{}
		}
	}
	echo := make([]map[string]interface{}, 0, len(c.Xs))
	for _, e := range c.Xs {
		json.Unmarshal(e.Prog, &e.prog)
		json.Unmarshal(e.Script, &e.script)
		if e.prog.Body.N > 0 && e.prog.Body.I > 0 {
			w.origins = append(w.origins, vnet.Origin{I: e.prog.Body.I, Len: e.prog.Body.N})
		}
		for _, f := range e.prog.Body.Files {
			if f.N > 0 {
				w.origins = append(w.origins, vnet.Origin{I: f.I, Len: f.N})
			}
		}
		if e.script.BodyLen > 0 {
			w.origins = append(w.origins, vnet.Origin{I: e.script.I, Len: e.script.BodyLen})
		}
		if e.script.Pad > 0 {
			w.origins = append(w.origins, vnet.Origin{I: e.script.PadI, Len: e.script.Pad})
		}
		echo = append(echo, map[string]interface{}{"prog": e.Prog, "script": e.Script, "wire": e.Wire, "headEnd": e.HeadEnd, "wireLen": e.WireLen, "peerClose": e.PeerClose, "early": e.Early})
	}
	tr.Emit("Case", vtrace.Rec{"id": c.ID, "cfg": c.Cfg, "xs": echo, "cuts": c.Cuts, "cutTag": c.CutTag, "tag": c.Tag, "cutX": c.CutX})

	opts := []config.ClientOption{client.WithDialer(&dialer{w}), client.WithResponseBodyStream(c.Cfg.Stream),
		client.WithDisableHeaderNamesNormalizing(c.Cfg.NoNormHdr), client.WithDisablePathNormalizing(c.Cfg.NoNormPath),
		client.WithMaxIdleConnDuration(5 * time.Second), client.WithDialTimeout(time.Second)}
	if c.Cfg.MaxResp > 0 {
		n := c.Cfg.MaxResp
		opts = append(opts, config.ClientOption{F: func(o *config.ClientOptions) { o.MaxResponseBodySize = n }})
	}
	cl, err := client.NewClient(opts...)
	if err != nil {
		panic(err)
	}
	if c.Cfg.Proxy {
		cl.SetProxy(protocol.ProxyURI(protocol.ParseURI("http://" + proxyAddr)))
	}
	// one Request and one Response object serve the whole sequence (the usual way to use the client): Request.Reset
	// between exchanges, the Response is handed to Do as it is
	req, resp := protocol.AcquireRequest(), protocol.AcquireResponse()
	for i, e := range c.Xs {
		w.x = i + 1
		w.exchange(cl, c, e, req, resp)
	}
	for _, pc := range w.conns {
		pc.mute()
	}
	cl.CloseIdleConnections()
	tr.Emit("End", nil)
}

func (w *worker) exchange(cl *client.Client, c *Case, e *Exchange, req *protocol.Request, resp *protocol.Response) {
	x := w.x
	defer func() {
		if r := recover(); r != nil {
			w.ev("Panic", map[string]interface{}{"x": x, "msg": fmt.Sprint(r)})
		}
	}()
	w.buildRequest(req, &e.prog, &c.Cfg)
	if !c.Cfg.ReuseResp {
		resp.Reset()
	}
	w.used = 0
	err := cl.Do(context.Background(), req, resp)
	rec := map[string]interface{}{"x": x, "err": errClass(err), "errText": "", "status": 0, "fields": []map[string]string{}, "names": []string{},
		"bodyLen": 0, "bodyRuns": [][]int{}, "trailers": []map[string]string{}, "streamed": false, "readErr": "", "reads": 0, "buffered": -1,
		"cl": ""}
	// bytes the client has read from the socket of the connection it used but not consumed (-1: connection closed)
	buffered := func() int {
		if w.used >= 1 && w.used <= len(w.conns) && !w.conns[w.used-1].isClosed() {
			return w.ncs[w.used-1].Len()
		}
		return -1
	}
	if err != nil {
		rec["errText"] = err.Error()
		rec["buffered"] = buffered()
		w.ev("Returned", rec)
		return
	}
	rec["status"] = resp.StatusCode()
	rec["fields"] = w.fieldsOf(func(f func(k, v string)) {
		resp.Header.VisitAll(func(k, v []byte) { f(string(k), string(v)) })
	})
	// names as returned (case matters when header-name normalisation is off)
	names := []string{}
	resp.Header.VisitAll(func(k, v []byte) {
		if !controlNames[strings.ToLower(string(k))] {
			names = append(names, string(k))
		}
	})
	rec["names"] = names
	// the Content-Length field as the returned header shows it ("": none)
	resp.Header.VisitAll(func(k, v []byte) {
		if strings.EqualFold(string(k), "Content-Length") && rec["cl"] == "" {
			rec["cl"] = string(v)
		}
	})
	var body []byte
	if resp.IsBodyStream() {
		rec["streamed"] = true
		sz := c.Cfg.ReadSize
		if sz <= 0 {
			sz = 4096
		}
		buf := make([]byte, sz)
		bs := resp.BodyStream()
		reads := 0
		for {
			n, rerr := bs.Read(buf)
			reads++
			body = append(body, buf[:n]...)
			if rerr != nil {
				if rerr != io.EOF {
					rec["readErr"] = errClass(rerr)
					rec["errText"] = rerr.Error()
				}
				break
			}
			if reads > 1<<22 {
				rec["readErr"] = "endless"
				break
			}
		}
		rec["reads"] = reads
	} else {
		body = resp.Body()
	}
	rec["bodyLen"] = len(body)
	rec["bodyRuns"] = w.runs(body, e.script.I)
	trailers := []map[string]string{}
	resp.Header.Trailer().VisitAll(func(k, v []byte) {
		trailers = append(trailers, map[string]string{"name": strings.ToLower(string(k)), "value": collapse(string(v))})
	})
	rec["trailers"] = trailers
	if resp.IsBodyStream() {
		if cerr := resp.CloseBodyStream(); cerr != nil {
			rec["closeErr"] = cerr.Error()
		}
	}
	rec["buffered"] = buffered()
	w.ev("Returned", rec)
}

// ---------------------------------------------------------------- fragmentations

func fromPoints(pts map[int]bool, total int) []int {
	var cs []int
	prev := 0
	for p := 1; p < total; p++ {
		if pts[p] {
			cs = append(cs, p-prev)
			prev = p
		}
	}
	return cs
}

// cutsFor produces the fragmentations to try for one response wire.
func cutsFor(e *Exchange, kinds []string, rng *rand.Rand, maxWire int) (out [][]int, tags []string) {
	total := e.WireLen
	for _, k := range kinds {
		switch {
		case k == "whole":
			out, tags = append(out, []int{}), append(tags, "whole")
		case k == "bytewise":
			if total > maxWire {
				continue
			}
			cs := make([]int, total)
			for i := range cs {
				cs[i] = 1
			}
			out, tags = append(out, cs), append(tags, "bytewise")
		case strings.HasPrefix(k, "rand"):
			var n, parts int
			fmt.Sscanf(k, "rand%dx%d", &n, &parts)
			for j := 0; j < n && total > 1; j++ {
				p := 2 + rng.Intn(parts-1)
				pts := map[int]bool{}
				for len(pts) < p-1 && len(pts) < total-1 {
					pts[1+rng.Intn(total-1)] = true
				}
				out, tags = append(out, fromPoints(pts, total)), append(tags, k)
			}
		case k == "bounds":
			// 2-way cuts at b-1, b, b+1 of every structural boundary (segment edges: head end, chunk edges, trailers, end)
			pts := map[int]bool{}
			at := 0
			for _, s := range e.Wire {
				l := len(s.S)
				if s.T == "run" {
					l = s.B - s.A
				}
				at += l
				for d := -1; d <= 1; d++ {
					pts[at+d] = true
				}
			}
			for d := -1; d <= 1; d++ {
				pts[e.HeadEnd+d] = true
			}
			ps := make([]int, 0, len(pts))
			for p := range pts {
				if p > 0 && p < total {
					ps = append(ps, p)
				}
			}
			sort.Ints(ps)
			for _, p := range ps {
				out, tags = append(out, []int{p}), append(tags, "bound")
			}
		case k == "every":
			// every 2-way cut of the head bytes, and of whole small messages
			if total > maxWire && e.HeadEnd > maxWire {
				continue
			}
			hi := e.HeadEnd
			if total-e.HeadEnd <= 64 {
				hi = total
			}
			for p := 1; p <= hi && p < total; p++ {
				out, tags = append(out, []int{p}), append(tags, "every")
			}
		}
	}
	return
}

func main() {
	casesF := flag.String("cases", "", "ndjson case file")
	out := flag.String("out", "", "output directory")
	chunks := flag.Int("chunks", 16, "trace files / workers")
	cutKinds := flag.String("cuts", "", "expand every case by fragmentations of the response of exchange cutX: whole,bytewise,randNxP,bounds,every")
	seed := flag.Int64("seed", 1, "seed")
	maxWire := flag.Int("maxwire", 400, "skip bytewise/every for response wires longer than this")
	cpuprof := flag.String("cpuprofile", "", "write a CPU profile (development aid)")
	flag.Parse()
	if *cpuprof != "" {
		pf, err := os.Create(*cpuprof)
		if err == nil {
			pprof.StartCPUProfile(pf)
			defer pprof.StopCPUProfile()
		}
	}
	f, err := os.Open(*casesF)
	if err != nil {
		fmt.Fprintln(os.Stderr, err)
		os.Exit(2)
	}
	var all []*Case
	sc := bufio.NewScanner(f)
	sc.Buffer(make([]byte, 1<<20), 1<<28)
	rng := rand.New(rand.NewSource(*seed))
	for sc.Scan() {
		c := &Case{}
		if err := json.Unmarshal(sc.Bytes(), c); err != nil {
			fmt.Fprintln(os.Stderr, "bad case line:", err)
			os.Exit(2)
		}
		if c.Ev != "" || *cutKinds == "" || len(c.Cuts) > 0 { // fully specified case (replay) or no expansion
			all = append(all, c)
			continue
		}
		cx := c.CutX
		if cx < 1 || cx > len(c.Xs) {
			cx = len(c.Xs)
		}
		cutsets, tags := cutsFor(c.Xs[cx-1], strings.Split(*cutKinds, ","), rng, *maxWire)
		for ci, cs := range cutsets {
			cc := *c
			cc.Xs = make([]*Exchange, len(c.Xs))
			for i, e := range c.Xs {
				ce := *e
				cc.Xs[i] = &ce
			}
			cc.Cuts = make([][]int, len(c.Xs))
			for i := range cc.Cuts {
				cc.Cuts[i] = []int{}
			}
			cc.Cuts[cx-1] = cs
			cc.CutTag = tags[ci]
			all = append(all, &cc)
		}
	}
	n := *chunks
	if n > len(all) {
		n = len(all)
	}
	if n == 0 {
		fmt.Fprintln(os.Stderr, "no cases")
		os.Exit(2)
	}
	var wg sync.WaitGroup
	for k := 0; k < n; k++ {
		wg.Add(1)
		go func(k int) {
			defer wg.Done()
			tr, err := vtrace.Create(filepath.Join(*out, fmt.Sprintf("trace_%03d.ndjson", k)))
			if err != nil {
				panic(err)
			}
			w := &worker{tr: tr}
			w.engine = vnet.NewEngine(vnet.EngineConfig{Idle: "inloop"})
			h := func(c context.Context, ctx *app.RequestContext) { w.handle(ctx) }
			w.engine.Any("/*p", h)
			w.engine.NoRoute(h)
			if err := vnet.Start(w.engine); err != nil {
				panic(err)
			}
			for i := k; i < len(all); i += n {
				w.run(all[i])
			}
			tr.Close()
		}(k)
	}
	wg.Wait()
	fmt.Printf("{\"cases\":%d,\"chunks\":%d}\n", len(all), n)
}
