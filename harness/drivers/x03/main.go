// Driver for X03 (extension): part "ip" runs client-address-resolution cases (spec/ClientIP.tla) against the real
// app.ClientIPWithOption / (*RequestContext).ClientIP; part "timer" replays timer-pool scenarios (spec/TimerPool.tla)
// against the real timer.AcquireTimer / ReleaseTimer.  It records what the code returned; it holds no expected values.
package main

import (
	"bufio"
	"encoding/json"
	"flag"
	"fmt"
	"os"

	"verif/harness/vtrace"
)

func main() {
	part := flag.String("part", "ip", "ip | timer")
	cases := flag.String("cases", "", "ndjson case file")
	out := flag.String("out", "", "ndjson trace file")
	flag.Parse()
	f, err := os.Open(*cases)
	if err != nil {
		fmt.Fprintln(os.Stderr, err)
		os.Exit(2)
	}
	defer f.Close()
	w, err := vtrace.Create(*out)
	if err != nil {
		fmt.Fprintln(os.Stderr, err)
		os.Exit(2)
	}
	sc := bufio.NewScanner(f)
	sc.Buffer(make([]byte, 1<<20), 1<<26)
	var run func(raw []byte, echo vtrace.Rec, w *vtrace.Writer) error
	switch *part {
	case "ip":
		run = newIPRunner()
	case "timer":
		run = newTimerRunner()
	default:
		fmt.Fprintln(os.Stderr, "unknown part", *part)
		os.Exit(2)
	}
	n := 0
	for sc.Scan() {
		line := sc.Bytes()
		if len(line) == 0 {
			continue
		}
		echo := vtrace.Rec{}
		if err := json.Unmarshal(line, &echo); err != nil {
			fmt.Fprintln(os.Stderr, "bad case line:", err)
			os.Exit(2)
		}
		if err := run(append([]byte(nil), line...), echo, w); err != nil {
			fmt.Fprintln(os.Stderr, "case", n+1, ":", err)
			os.Exit(2)
		}
		n++
	}
	if err := sc.Err(); err != nil {
		fmt.Fprintln(os.Stderr, err)
		os.Exit(2)
	}
	w.Emit("End", vtrace.Rec{"n": n})
	if err := w.Close(); err != nil {
		fmt.Fprintln(os.Stderr, err)
		os.Exit(2)
	}
}
