package main

import "verif/harness/vtrace"

func newTimerRunner() func(raw []byte, echo vtrace.Rec, w *vtrace.Writer) error {
	return func(raw []byte, echo vtrace.Rec, w *vtrace.Writer) error { return nil }
}
