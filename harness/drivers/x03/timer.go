package main

import (
	"encoding/json"
	"fmt"
	"runtime"
	"sync"
	"sync/atomic"
	"time"

	"github.com/cloudwego/hertz/pkg/common/timer"

	"verif/harness/vtrace"
)

// One timer case: kind "scn" = a scenario (steps of two users, replayed in order by one goroutine on one P, so that
// sync.Pool hands a released timer to the next AcquireTimer); kind "storm" = several goroutines acquire a very short
// timer, release it around its expiry and look whether a timer acquired for an hour right afterwards has a tick.
type timerCase struct {
	Kind    string `json:"kind"`
	Ms      int    `json:"ms"`
	Workers int    `json:"workers"`
	Steps   []struct {
		Op string `json:"op"`
		U  int    `json:"u"`
		D  string `json:"d"`
	} `json:"steps"`
}

const (
	shortD  = 2 * time.Millisecond
	longD   = 1000 * time.Second
	patient = 2 * time.Second // generous one-sided bound: a 2 ms timer that has not fired after 2 s never will
)

func durOf(d string) time.Duration {
	if d == "s" {
		return shortD
	}
	return longD
}

func newTimerRunner() func(raw []byte, echo vtrace.Rec, w *vtrace.Writer) error {
	// the scenarios need the buffered timer channel of Go < 1.23 (len(t.C) shows an unreceived tick)
	probe := time.NewTimer(time.Nanosecond)
	time.Sleep(5 * time.Millisecond)
	if len(probe.C) != 1 {
		panic("x03: this binary runs with Go 1.23 timer channels (asynctimerchan=0); the scenarios need the buffered channel")
	}
	procs := runtime.GOMAXPROCS(0)
	seen := map[*time.Timer]bool{} // every timer ever handed out in this process (kept alive: addresses stay unique)
	return func(raw []byte, echo vtrace.Rec, w *vtrace.Writer) error {
		var c timerCase
		if err := json.Unmarshal(raw, &c); err != nil {
			return err
		}
		w.Emit("Case", echo)
		if c.Kind == "storm" {
			runtime.GOMAXPROCS(procs)
			runStorm(&c, w)
			return nil
		}
		if runtime.GOMAXPROCS(0) != 1 {
			runtime.GOMAXPROCS(1)
		}
		return runScenario(&c, w, seen)
	}
}

// AcquireTimer / ReleaseTimer never block by contract; a call that has not returned after `patient` is recorded as
// Hang (no action of the specification).  After three hangs the remaining scenarios of this process are not run any
// more (every one would cost the full wait): each is recorded as Case + Hang{skipped}.
var hangs int

func bounded(f func()) (returned bool, panicked interface{}) {
	done := make(chan interface{}, 1)
	go func() {
		defer func() { done <- recover() }()
		f()
	}()
	giveUp := time.NewTimer(patient)
	defer giveUp.Stop()
	select {
	case p := <-done:
		return true, p
	case <-giveUp.C:
		return false, nil
	}
}

func runScenario(c *timerCase, w *vtrace.Writer, seen map[*time.Timer]bool) error {
	if hangs >= 3 {
		w.Emit("Hang", vtrace.Rec{"u": 0, "op": "-", "skipped": true})
		return nil
	}
	ids := map[*time.Timer]int{}
	var order []*time.Timer
	hold := map[int]*time.Timer{}
	last := map[int]*time.Timer{}
	start := map[int]time.Time{}
	el := func(u int) int64 { return time.Since(start[u]).Microseconds() }
	var infra error
	hung := false
	for _, st := range c.Steps {
		u := st.U
		if hung {
			break
		}
		func() {
			defer func() {
				if p := recover(); p != nil {
					ev := "Panic"
					if st.Op == "A" {
						ev = "AcqPanic"
					}
					w.Emit(ev, vtrace.Rec{"u": u, "op": st.Op, "value": fmt.Sprint(p)})
				}
			}()
			// a user whose AcquireTimer panicked (double-release scenarios) holds nothing: its steps are skipped
			if (st.Op == "W" || st.Op == "R" || st.Op == "T" || st.Op == "X") && hold[u] == nil ||
				st.Op == "Y" && last[u] == nil {
				w.Emit("Skip", vtrace.Rec{"u": u, "op": st.Op})
				return
			}
			switch st.Op {
			case "A":
				d := durOf(st.D)
				start[u] = time.Now()
				var t *time.Timer
				if ok, p := bounded(func() { t = timer.AcquireTimer(d) }); !ok {
					hung = true
					return
				} else if p != nil {
					panic(p)
				}
				peek := len(t.C)
				e := el(u)
				if _, ok := ids[t]; !ok {
					if seen[t] {
						infra = fmt.Errorf("a timer of an earlier case came out of the pool (clean-up failed)")
					}
					seen[t] = true
					ids[t] = len(ids) + 1
					order = append(order, t)
				}
				hold[u] = t
				w.Emit("Acq", vtrace.Rec{"u": u, "d_us": d.Microseconds(), "tid": ids[t], "peek": peek, "el_us": e})
			case "W":
				t := hold[u]
				fired := false
				for dl := time.Now().Add(patient); time.Now().Before(dl); {
					if len(t.C) == 1 {
						fired = true
						break
					}
					time.Sleep(50 * time.Microsecond)
				}
				w.Emit("Wait", vtrace.Rec{"u": u, "fired": fired, "el_us": el(u)})
			case "R":
				t := hold[u]
				got := false
				giveUp := time.NewTimer(patient)
				select {
				case <-t.C:
					got = true
				case <-giveUp.C:
				}
				e := el(u)
				giveUp.Stop()
				w.Emit("Recv", vtrace.Rec{"u": u, "got": got, "el_us": e})
			case "T":
				t := hold[u]
				got := false
				select {
				case <-t.C:
					got = true
				default:
				}
				w.Emit("Try", vtrace.Rec{"u": u, "got": got, "el_us": el(u)})
			case "X":
				t := hold[u]
				if ok, p := bounded(func() { timer.ReleaseTimer(t) }); !ok {
					hung = true
					return
				} else if p != nil {
					panic(p)
				}
				delete(hold, u)
				last[u] = t
				w.Emit("Rel", vtrace.Rec{"u": u, "left": len(t.C)})
			case "Y":
				t := last[u]
				if ok, p := bounded(func() { timer.ReleaseTimer(t) }); !ok {
					hung = true
					return
				} else if p != nil {
					panic(p)
				}
				w.Emit("RelAgain", vtrace.Rec{"u": u, "left": len(t.C)})
			default:
				infra = fmt.Errorf("unknown step %q", st.Op)
			}
		}()
		if infra != nil {
			return infra
		}
		if hung {
			hangs++
			w.Emit("Hang", vtrace.Rec{"u": u, "op": st.Op, "skipped": false})
		}
	}
	if !hung {
		w.Emit("Done", vtrace.Rec{"timers": len(ids)})
	}
	// clean-up (not judged): stop everything this case touched, then empty the pool
	for _, t := range order {
		t.Stop()
		select {
		case <-t.C:
		default:
		}
	}
	for i := 0; i < 64; i++ {
		var t *time.Timer
		func() {
			defer func() { recover() }()
			t = timer.AcquireTimer(longD)
		}()
		if t == nil {
			continue
		}
		t.Stop()
		if !seen[t] {
			return nil
		}
	}
	return fmt.Errorf("the timer pool could not be emptied")
}

func runStorm(c *timerCase, w *vtrace.Writer) {
	var stale, iters, panics int64
	var wg sync.WaitGroup
	stop := time.Now().Add(time.Duration(c.Ms) * time.Millisecond)
	for g := 0; g < c.Workers; g++ {
		wg.Add(1)
		go func(g int) {
			defer wg.Done()
			d := time.Duration(1000+g*300) * time.Nanosecond
			n := 0
			for time.Now().Before(stop) {
				storm500(d, &n, &stale, &panics)
				atomic.AddInt64(&iters, 500)
			}
		}(g)
	}
	fin := make(chan struct{})
	go func() { wg.Wait(); close(fin) }()
	hung := 0
	select {
	case <-fin:
	case <-time.After(time.Duration(c.Ms)*time.Millisecond + 2*patient):
		hung = 1 // some worker is stuck inside AcquireTimer / ReleaseTimer
	}
	// stale = how often a timer acquired for 1000 s had a tick in its channel 2 microseconds later
	w.Emit("Storm", vtrace.Rec{"iters": atomic.LoadInt64(&iters), "stale": atomic.LoadInt64(&stale),
		"panics": atomic.LoadInt64(&panics), "hung": hung})
}

func storm500(d time.Duration, np *int, stale, panics *int64) {
	defer func() {
		if p := recover(); p != nil {
			atomic.AddInt64(panics, 1)
		}
	}()
	n := *np
	defer func() { *np = n }()
	for k := 0; k < 500; k++ {
		t := timer.AcquireTimer(d)
		held := timer.AcquireTimer(longD)                   // a second, never-firing timer: its Put goes to the pool's
		spin := time.Duration(n%40) * 100 * time.Nanosecond // shared list, where other Ps steal from
		for s := time.Now(); time.Since(s) < spin; {        // release somewhere around the expiry of t
		}
		timer.ReleaseTimer(t)
		timer.ReleaseTimer(held)
		t2 := timer.AcquireTimer(longD)
		for s := time.Now(); time.Since(s) < 2*time.Microsecond; {
		}
		select {
		case <-t2.C:
			atomic.AddInt64(stale, 1)
		default:
		}
		t3 := timer.AcquireTimer(longD)
		select {
		case <-t3.C:
			atomic.AddInt64(stale, 1)
		default:
		}
		if n%5 == 0 { // lose a timer now and then, so that this P's pool runs dry and Get goes stealing
			t3.Stop()
		} else {
			timer.ReleaseTimer(t3)
		}
		timer.ReleaseTimer(t2)
		n++
	}
}
