package main

import (
	"bytes"
	"context"
	"encoding/json"
	"fmt"
	"net"

	"github.com/cloudwego/hertz/pkg/app"
	"github.com/cloudwego/hertz/pkg/common/test/mock"
	"github.com/cloudwego/hertz/pkg/network"
	"github.com/cloudwego/hertz/pkg/network/standard"
	"github.com/cloudwego/hertz/pkg/route"

	"verif/harness/vnet"
	"verif/harness/vtrace"
)

// the fields of a case the driver uses: texts only (the structure next to them is for the specification)
type ipCase struct {
	Via    string `json:"via"`
	Remote struct {
		K    string `json:"k"`
		Real bool   `json:"real"`
		Net  string `json:"net"`
		Host string `json:"host"`
		Txt  string `json:"txt"`
	} `json:"remote"`
	Nilc  bool `json:"nilc"`
	Cidrs []struct {
		Txt string `json:"txt"`
	} `json:"cidrs"`
	Names []struct {
		Txt string `json:"txt"`
	} `json:"names"`
	Lines []struct {
		Txt string `json:"txt"`
		Val string `json:"val"`
	} `json:"lines"`
}

type rawAddr struct{ network, s string }

func (a rawAddr) Network() string { return a.network }
func (a rawAddr) String() string  { return a.s }

type ctxConn struct {
	network.Conn
	ra net.Addr
}

func (c ctxConn) RemoteAddr() net.Addr { return c.ra }

type wireConn struct {
	*vnet.Conn
	ra net.Addr
}

func (c wireConn) RemoteAddr() net.Addr { return c.ra }

func (c *ipCase) remoteAddr() (net.Addr, error) {
	r := c.Remote
	switch {
	case r.K == "noconn":
		return nil, nil
	case r.K == "unix":
		return &net.UnixAddr{Name: r.Txt, Net: r.Net}, nil
	case r.Real:
		ip := net.ParseIP(r.Host)
		if ip == nil {
			return nil, fmt.Errorf("real remote %q is not an IP", r.Host)
		}
		return &net.TCPAddr{IP: ip, Port: 4321}, nil
	default:
		return rawAddr{r.Net, r.Txt}, nil
	}
}

func (c *ipCase) options() (app.ClientIPOptions, error) {
	o := app.ClientIPOptions{RemoteIPHeaders: []string{}}
	for _, n := range c.Names {
		o.RemoteIPHeaders = append(o.RemoteIPHeaders, n.Txt)
	}
	if !c.Nilc {
		o.TrustedCIDRs = []*net.IPNet{}
		for _, cd := range c.Cidrs {
			_, n, err := net.ParseCIDR(cd.Txt)
			if err != nil {
				return o, fmt.Errorf("cidr %q: %v", cd.Txt, err)
			}
			o.TrustedCIDRs = append(o.TrustedCIDRs, n)
		}
	}
	return o, nil
}

func newIPRunner() func(raw []byte, echo vtrace.Rec, w *vtrace.Writer) error {
	globalSet := false
	var got string
	var served bool
	// engine.SetClientIPFunc is a set-up time option (the function is copied into a RequestContext when the context
	// is allocated, not per request): one engine with nothing installed for the default-options cases, one engine
	// with a user function installed before the first request; that function applies the options of the current case
	var current app.ClientIP
	mk := func(install bool) *route.Engine {
		e := vnet.NewEngine(vnet.EngineConfig{Idle: "inloop"})
		e.GET("/x03", func(_ context.Context, ctx *app.RequestContext) {
			got = ctx.ClientIP()
			served = true
		})
		if install {
			e.SetClientIPFunc(func(ctx *app.RequestContext) string { return current(ctx) })
		}
		if err := vnet.Start(e); err != nil {
			panic(err)
		}
		return e
	}
	eDef, eOpt := mk(false), mk(true)
	decoy := func(*app.RequestContext) string { return "!global-default-used" }

	newCtx := func(c *ipCase, ra net.Addr) *app.RequestContext {
		ctx := app.NewContext(0)
		if ra != nil {
			ctx.SetConn(ctxConn{mock.NewConn(""), ra})
		}
		for _, l := range c.Lines {
			ctx.Request.Header.Add(l.Txt, l.Val)
		}
		return ctx
	}
	wire := func(e *route.Engine, c *ipCase, ra net.Addr) string {
		var b bytes.Buffer
		b.WriteString("GET /x03 HTTP/1.1\r\nHost: x03\r\n")
		for _, l := range c.Lines {
			b.WriteString(l.Txt + ": " + l.Val + "\r\n")
		}
		b.WriteString("\r\n")
		vc := vnet.New(b.Bytes(), nil)
		nc := standard.NewConnForVerif(wireConn{vc, ra}, 4096)
		got, served = "", false
		e.Serve(context.Background(), nc)
		if !vc.Closed() {
			vc.Close()
		}
		if !served {
			return "!not-served"
		}
		return got
	}

	return func(raw []byte, echo vtrace.Rec, w *vtrace.Writer) error {
		var c ipCase
		if err := json.Unmarshal(raw, &c); err != nil {
			return err
		}
		ra, err := c.remoteAddr()
		if err != nil {
			return err
		}
		w.Emit("Case", echo)
		modes, outs := []string{}, []string{}
		guard := func(mode string, f func() string) (ok bool) {
			defer func() {
				if p := recover(); p != nil {
					w.Emit("Panic", vtrace.Rec{"mode": mode, "value": fmt.Sprint(p)})
					ok = false
				}
			}()
			s := f()
			modes = append(modes, mode)
			outs = append(outs, s)
			return true
		}
		if c.Via == "default" {
			if globalSet {
				return fmt.Errorf("a default-options case after app.SetClientIPFunc was used in this process")
			}
			if !guard("ctx", func() string { return newCtx(&c, ra).ClientIP() }) {
				return nil
			}
			if ra != nil {
				if !guard("wire", func() string { return wire(eDef, &c, ra) }) {
					return nil
				}
			}
		} else {
			o, err := c.options()
			if err != nil {
				return err
			}
			globalSet = true
			app.SetClientIPFunc(decoy)
			if !guard("ctx", func() string {
				ctx := newCtx(&c, ra)
				ctx.SetClientIPFunc(app.ClientIPWithOption(o))
				return ctx.ClientIP()
			}) {
				return nil
			}
			if !guard("global", func() string {
				app.SetClientIPFunc(app.ClientIPWithOption(o))
				defer app.SetClientIPFunc(decoy)
				return newCtx(&c, ra).ClientIP()
			}) {
				return nil
			}
			if ra != nil {
				current = app.ClientIPWithOption(o)
				if !guard("wire", func() string { return wire(eOpt, &c, ra) }) {
					return nil
				}
			}
		}
		w.Emit("Out", vtrace.Rec{"modes": modes, "outs": outs})
		return nil
	}
}
