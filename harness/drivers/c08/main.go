// Driver for C08: serves generated requests through the real route.Engine + app.FS (StaticFS) / ctx.File over a
// temporary directory tree and records what the file handler answered.
//
//	<scratch>/c08tree_<pid>/OUTSIDE-c08-sentinel.bin      sentinel, OUTSIDE the root (reported as file "OUT")
//	<scratch>/c08tree_<pid>/root/f<n>                     one file of length n for every n in case.tree.lens
//	<scratch>/c08tree_<pid>/root/d/index.html             length case.tree.idxlen
//	<scratch>/c08tree_<pid>/root/e/                       empty directory
//	<scratch>/c08tree_<pid>/root/a/index.html             length case.tree.alen ("a" is also a virtual host name)
//	<scratch>/c08tree_<pid>/root/m/g000 ...               case.tree.many empty files (generated index page > 8 KiB)
//	<scratch>/c08tree_<pid>/index.html                    OUTSIDE the root, length case.tree.pidxlen (file "OUTIDX"):
//	                                                      what "index file of the parent of the root" would serve
//
// File contents are provenance patterns (see pat()): every byte of a "short" file (<= 8 bytes) is unique in the
// tree, every byte of a "long" file identifies its file and every 4 consecutive bytes identify the offset, and no
// pattern byte is printable ASCII (error texts and index pages never look like file bytes).  Observed bodies are
// mapped back to runs {f, from, to}; bytes that are not pattern bytes become runs of the pseudo file "?".
// Every reported run is literally true (the body bytes equal that slice of that file).  A fragment of a long file
// shorter than 4 bytes matches several offsets; the one announced by the response's own Content-Range header
// (first-byte-pos + position in body; 0 without the header) is preferred, then the lowest.
//
// A body with "Content-Encoding: gzip" is gunzipped before the mapping (enc, wlen = encoded length are recorded).
//
// The driver contains no expectations: it records status, Content-Length, Content-Range, body runs, panics.
package main

import (
	"bufio"
	"bytes"
	"compress/gzip"
	"context"
	"encoding/json"
	"flag"
	"fmt"
	"io"
	nethttp "net/http"
	"os"
	"path/filepath"
	"strconv"
	"strings"
	"sync"
	"time"

	"github.com/cloudwego/hertz/pkg/app"
	"github.com/cloudwego/hertz/pkg/common/config"
	"github.com/cloudwego/hertz/pkg/common/hlog"
	"github.com/cloudwego/hertz/pkg/route"

	"verif/harness/vtrace"
)

type Num struct {
	S  string `json:"s"`
	V  int    `json:"v"`
	Of bool   `json:"of"`
}

type Range struct {
	Kind string `json:"kind"` // none | empty | ab | a- | -n | invalid
	A    Num    `json:"a"`
	B    Num    `json:"b"`
	Str  string `json:"str"` // the header value sent (kind none: header not sent)
}

type Req struct {
	Path   string `json:"path"`
	Tgt    string `json:"tgt"`
	Method string `json:"method"`
	Range  Range  `json:"range"`
	Ae     bool   `json:"ae"`   // send "Accept-Encoding: gzip"
	Host   string `json:"host"` // Host header
	Ims    string `json:"ims"`  // "" | before | equal | after | bad  (relation of If-Modified-Since to the files' mtime)
	ImsStr string `json:"imsstr"`
}

type Tree struct {
	Lens    []int `json:"lens"`
	IdxLen  int   `json:"idxlen"`
	OutLen  int   `json:"outlen"`
	ALen    int   `json:"alen"`
	PIdxLen int   `json:"pidxlen"`
	Many    int   `json:"many"`
	MTime   string `json:"mtime"` // HTTP date: modification time given to every file of the tree
}

type Case struct {
	ID       int    `json:"id"`
	Route    string `json:"route"` // fs | fsrw | file | vhost
	Abr      bool   `json:"abr"`
	Compress bool   `json:"compress"`
	Idx      bool   `json:"idx"`
	Gen      bool   `json:"gen"`
	Mw       bool   `json:"mw"`  // a middleware sets a custom response header (string API) before the file handler
	Via      string `json:"via"` // read | writeto | iocopy
	Tree     Tree   `json:"tree"`
	Reqs     []Req  `json:"reqs"`
	raw      map[string]interface{}
}

// ---------------------------------------------------------------- tree with provenance patterns

const sentinelName = "OUTSIDE-c08-sentinel.bin"

type file struct {
	name    string // relative to root; "OUT" for the sentinel
	data    []byte
	long    bool
	longIdx int
	grams   map[[4]byte]int
}

type tree struct {
	dir, root string
	files     []*file
	byByte    [256]*file // pattern byte -> file (short and long)
	shortOff  [256]int   // offset of a short-file byte
}

var shortAlphabet = func() []byte {
	var a []byte
	for b := 0xE0; b <= 0xFF; b++ {
		a = append(a, byte(b))
	}
	for b := 0x01; b <= 0x08; b++ {
		a = append(a, byte(b))
	}
	return a
}()

const maxLong = 3 // long-file alphabets 0x80..0xDF, 32 values each

// pat: byte k of long file number li: 0x80 + 32*li + 8*(k%4) + 3 bits of k/4 (12 bits over the 4 phases)
func patLong(li, k int) byte {
	q, ph := k/4, k%4
	return byte(0x80 + 32*li + 8*ph + (q>>(3*uint(3-ph)))&7)
}

// where a tree file lives on disk
func (t *tree) diskPath(name string) string {
	switch name {
	case "OUT":
		return filepath.Join(t.dir, sentinelName)
	case "OUTIDX":
		return filepath.Join(t.dir, "index.html")
	}
	return filepath.Join(t.root, filepath.FromSlash(name))
}

func buildTree(scratch string, specs map[string]int, order []string, many int, mtime time.Time) (*tree, error) {
	dir, err := os.MkdirTemp(scratch, "c08tree_")
	if err != nil {
		return nil, err
	}
	t := &tree{dir: dir, root: filepath.Join(dir, "root")}
	for _, d := range []string{"", "d", "e", "a", "m"} {
		if err := os.MkdirAll(filepath.Join(t.root, d), 0o755); err != nil {
			return nil, err
		}
	}
	for i := 0; i < many; i++ {
		if err := os.WriteFile(filepath.Join(t.root, "m", fmt.Sprintf("g%03d", i)), nil, 0o644); err != nil {
			return nil, err
		}
	}
	nshort, nlong := 0, 0
	for _, name := range order {
		n := specs[name]
		f := &file{name: name, data: make([]byte, n)}
		if n <= 8 {
			for k := 0; k < n; k++ {
				if nshort >= len(shortAlphabet) {
					return nil, fmt.Errorf("short-file alphabet exhausted")
				}
				b := shortAlphabet[nshort]
				nshort++
				f.data[k] = b
				t.byByte[b] = f
				t.shortOff[b] = k
			}
		} else {
			if nlong >= maxLong {
				return nil, fmt.Errorf("more than %d long files", maxLong)
			}
			if n > 4*4096 {
				return nil, fmt.Errorf("long file too long for the pattern: %d", n)
			}
			f.long, f.longIdx = true, nlong
			f.grams = make(map[[4]byte]int, n)
			for k := 0; k < n; k++ {
				f.data[k] = patLong(nlong, k)
				t.byByte[f.data[k]] = f
			}
			for k := 0; k+4 <= n; k++ {
				var g [4]byte
				copy(g[:], f.data[k:k+4])
				if _, dup := f.grams[g]; dup {
					return nil, fmt.Errorf("pattern of %s is not 4-gram unique at %d", name, k)
				}
				f.grams[g] = k
			}
			nlong++
		}
		if err := os.WriteFile(t.diskPath(name), f.data, 0o644); err != nil {
			return nil, err
		}
		t.files = append(t.files, f)
	}
	// files must look old and never change: fixed mtime
	for _, f := range t.files {
		os.Chtimes(t.diskPath(f.name), mtime, mtime)
	}
	return t, nil
}

type run struct {
	f        *file // nil = foreign
	from, to int
}

// candidates: offsets of long file f where data[off:off+len(b)] == b
func (f *file) find(b []byte) []int {
	if len(b) == 4 {
		var g [4]byte
		copy(g[:], b)
		if k, ok := f.grams[g]; ok {
			return []int{k}
		}
		return nil
	}
	var out []int
	for off := 0; off+len(b) <= len(f.data); off++ {
		if bytes.Equal(f.data[off:off+len(b)], b) {
			out = append(out, off)
		}
	}
	return out
}

func (t *tree) toRuns(body []byte, hintOff int) []run {
	var runs []run
	p := 0
	for p < len(body) {
		c := body[p]
		if n := len(runs); n > 0 {
			last := &runs[n-1]
			if last.f != nil && last.to+1 < len(last.f.data) && last.f.data[last.to+1] == c {
				last.to++
				p++
				continue
			}
		}
		f := t.byByte[c]
		switch {
		case f == nil:
			if n := len(runs); n > 0 && runs[n-1].f == nil {
				runs[n-1].to = p
			} else {
				runs = append(runs, run{nil, p, p})
			}
			p++
		case !f.long:
			off := t.shortOff[c]
			runs = append(runs, run{f, off, off})
			p++
		default:
			m := 4
			if len(body)-p < m {
				m = len(body) - p
			}
			var cands []int
			for ; m >= 1; m-- {
				if cands = f.find(body[p : p+m]); len(cands) > 0 {
					break
				}
			}
			off := cands[0] // m=1 always matches: c is a byte of f
			for _, o := range cands {
				if o == hintOff+p {
					off = o
				}
			}
			runs = append(runs, run{f, off, off + m - 1})
			p += m
		}
	}
	return runs
}

func runsJSON(rs []run) []map[string]interface{} {
	out := make([]map[string]interface{}, 0, len(rs))
	for _, r := range rs {
		name := "?"
		if r.f != nil {
			name = r.f.name
		}
		out = append(out, map[string]interface{}{"f": name, "from": r.from, "to": r.to})
	}
	return out
}

// ---------------------------------------------------------------- serving

func newEngine() *route.Engine {
	opt := config.NewOptions(nil)
	opt.DisablePrintRoute = true
	return route.NewEngine(opt)
}

// first-byte-pos announced by a Content-Range header value "bytes a-b/len" (0 if there is none)
func crStart(cr string) int {
	s := strings.TrimPrefix(cr, "bytes ")
	if i := strings.IndexByte(s, '-'); i > 0 {
		if v, err := strconv.Atoi(s[:i]); err == nil && v >= 0 {
			return v
		}
	}
	return 0
}

type plainReader struct{ r io.Reader } // hides WriterTo so that io.Copy uses Read, as the http1 response writer does

func (p plainReader) Read(b []byte) (int, error) { return p.r.Read(b) }

type plainWriter struct{ w io.Writer } // a writer without ReadFrom: io.Copy(plainWriter, stream) takes the stream's WriteTo loop

func (p plainWriter) Write(b []byte) (int, error) { return p.w.Write(b) }

// watchdog: a request that does not return within this time is recorded as Hang (e.g. a lock left held by a panic)
var (
	hangMu      sync.Mutex
	hangCount   int
	hangTimeout = 4 * time.Second
)

func currentHangTimeout() time.Duration {
	hangMu.Lock()
	defer hangMu.Unlock()
	if hangCount >= 6 { // the run is rejected anyway; do not spend minutes on every further stuck handler
		return 700 * time.Millisecond
	}
	return hangTimeout
}

func runCase(tr *vtrace.Writer, t *tree, c *Case, cacheDur time.Duration) {
	tr.Emit("Case", vtrace.Rec(c.raw))
	e := newEngine()
	if c.Mw {
		e.Use(func(cc context.Context, ctx *app.RequestContext) { ctx.Response.Header.Set("X-C08-Policy", "DENY") })
	}
	// ONE RequestContext per case, recycled between its requests the way the http1 server does it for the requests of a
	// keep-alive connection (ctx.ResetWithoutConn()): the 2nd/3rd request sees whatever a reset leaves behind.
	rctx := e.NewContext()
	prefix := ""
	switch c.Route {
	case "fs", "fsrw", "vhost":
		fs := &app.FS{Root: t.root, AcceptByteRange: c.Abr, Compress: c.Compress, GenerateIndexPages: c.Gen,
			CacheDuration: cacheDur}
		if c.Idx {
			fs.IndexNames = []string{"index.html"}
		}
		if c.Route == "fsrw" {
			fs.PathRewrite = app.NewPathSlashesStripper(1)
			prefix = "/s"
			e.StaticFS("/s", fs)
		} else if c.Route == "vhost" {
			fs.PathRewrite = app.NewVHostPathRewriter(0) // serves <root>/<Host header><path>
			e.StaticFS("/", fs)
		} else {
			e.StaticFS("/", fs)
		}
	case "file":
		prefix = "/file"
		h := func(cc context.Context, ctx *app.RequestContext) {
			ctx.File(t.root + "/" + strings.TrimPrefix(ctx.Param("name"), "/"))
		}
		e.GET("/file/*name", h)
		e.HEAD("/file/*name", h)
	default:
		fmt.Fprintln(os.Stderr, "unknown route", c.Route)
		os.Exit(2)
	}
	for i, rq := range c.Reqs {
		type result struct {
			ev  string
			rec vtrace.Rec
		}
		done := make(chan result, 1)
		go func(i int, rq Req) {
			ev, rec := serveOne(t, e, rctx, c, i, prefix, rq)
			done <- result{ev, rec}
		}(i, rq)
		select {
		case r := <-done:
			tr.Emit(r.ev, r.rec)
		case <-time.After(currentHangTimeout()):
			hangMu.Lock()
			hangCount++
			hangMu.Unlock()
			tr.Emit("Hang", echo(t, i, rq))
			tr.Emit("End", nil) // the handler of this case is stuck: the remaining requests are not attempted
			return
		}
	}
	tr.Emit("End", nil)
}

// echo of the request (taken from the case, nothing computed) carried by every Served / Panic event
func echo(t *tree, i int, rq Req) vtrace.Rec {
	flen := -1
	for _, f := range t.files {
		if f.name == rq.Tgt {
			flen = len(f.data)
		}
	}
	return vtrace.Rec{"i": i + 1, "path": rq.Path, "method": rq.Method, "rstr": rq.Range.Str, "rkind": rq.Range.Kind,
		"ae": rq.Ae, "host": rq.Host, "ims": rq.Ims, "tgt": rq.Tgt, "flen": flen}
}

func serveOne(t *tree, e *route.Engine, ctx *app.RequestContext, c *Case, i int, prefix string, rq Req) (evName string, evRec vtrace.Rec) {
	defer func() {
		if r := recover(); r != nil {
			evRec = echo(t, i, rq)
			evRec["msg"] = fmt.Sprint(r)
			evName = "Panic"
		}
	}()
	if i > 0 {
		ctx.ResetWithoutConn()
	}
	ctx.Request.SetRequestURI(prefix + rq.Path)
	ctx.Request.Header.SetMethod(rq.Method)
	ctx.Request.SetHost(rq.Host)
	if rq.Range.Kind != "none" {
		ctx.Request.Header.Set("Range", rq.Range.Str)
	}
	if rq.Ae {
		ctx.Request.Header.Set("Accept-Encoding", "gzip")
	}
	if rq.Ims != "" {
		ctx.Request.Header.Set("If-Modified-Since", rq.ImsStr)
	}
	e.ServeHTTP(context.Background(), ctx)

	resp := &ctx.Response
	status := resp.StatusCode()
	cl := resp.Header.ContentLength()
	cr := string(resp.Header.Peek("Content-Range"))
	var body []byte
	rerr := ""
	stream := resp.IsBodyStream()
	if resp.SkipBody {
		resp.CloseBodyStream() //nolint:errcheck
	} else if stream {
		var buf bytes.Buffer
		var err error
		if c.Via == "writeto" {
			err = resp.BodyWriteTo(&buf)
		} else if c.Via == "iocopy" { // what user code / middleware does: io.Copy(w, ctx.Response.BodyStream())
			_, err = io.Copy(plainWriter{&buf}, resp.BodyStream())
			resp.CloseBodyStream() //nolint:errcheck
		} else {
			_, err = io.Copy(&buf, plainReader{resp.BodyStream()})
			resp.CloseBodyStream() //nolint:errcheck
		}
		if err != nil {
			rerr = "error"
		}
		body = buf.Bytes()
	} else {
		body = append(body, resp.Body()...)
	}
	// a gzip-encoded body is decoded before it is mapped to runs; wlen = bytes before decoding
	enc := string(resp.Header.Peek("Content-Encoding"))
	wlen := len(body)
	if enc == "gzip" && len(body) > 0 {
		if zr, err := gzip.NewReader(bytes.NewReader(body)); err != nil {
			enc = "gzip-undecodable"
		} else if dec, err := io.ReadAll(zr); err != nil {
			enc = "gzip-undecodable"
		} else {
			body = dec
		}
	}
	leak := bytes.Contains(body, []byte(sentinelName))
	runs := t.toRuns(body, crStart(cr))
	ev := echo(t, i, rq)
	for k, v := range (vtrace.Rec{"status": status, "cl": cl, "cr": cr, "blen": len(body), "runs": runsJSON(runs),
		"enc": enc, "wlen": wlen, "leak": leak, "rerr": rerr, "skip": resp.SkipBody, "stream": stream}) {
		ev[k] = v
	}
	return "Served", ev
}

func openFDs() int {
	ents, err := os.ReadDir("/proc/self/fd")
	if err != nil {
		return 0
	}
	return len(ents)
}

func main() {
	cases := flag.String("cases", "", "ndjson case file written by TLC")
	out := flag.String("out", "", "output directory for trace chunks")
	chunks := flag.Int("chunks", 16, "number of trace files")
	scratch := flag.String("scratch", "", "scratch directory in which the temporary tree is created (and removed)")
	cacheMs := flag.Int("cachems", 400, "FS.CacheDuration in ms (bounds the number of open files; every case has its own handler)")
	flag.Parse()
	hlog.SetOutput(io.Discard) // the handler logs every 404/416
	f, err := os.Open(*cases)
	if err != nil {
		fmt.Fprintln(os.Stderr, err)
		os.Exit(2)
	}
	var all []*Case
	specs := map[string]int{}
	var order []string
	many := 0
	mtimeStr := ""
	add := func(name string, n int) {
		if old, ok := specs[name]; ok {
			if old != n {
				fmt.Fprintf(os.Stderr, "file %s declared with lengths %d and %d\n", name, old, n)
				os.Exit(2)
			}
			return
		}
		specs[name] = n
		order = append(order, name)
	}
	sc := bufio.NewScanner(f)
	sc.Buffer(make([]byte, 1<<20), 1<<26)
	for sc.Scan() {
		c := &Case{}
		if err := json.Unmarshal(sc.Bytes(), c); err != nil {
			fmt.Fprintln(os.Stderr, "bad case line:", err)
			os.Exit(2)
		}
		dec := json.NewDecoder(bytes.NewReader(sc.Bytes()))
		dec.UseNumber()
		if err := dec.Decode(&c.raw); err != nil {
			fmt.Fprintln(os.Stderr, "bad case line:", err)
			os.Exit(2)
		}
		for _, n := range c.Tree.Lens {
			add("f"+strconv.Itoa(n), n)
		}
		add("d/index.html", c.Tree.IdxLen)
		add("OUT", c.Tree.OutLen)
		add("a/index.html", c.Tree.ALen)
		add("OUTIDX", c.Tree.PIdxLen)
		if many != 0 && many != c.Tree.Many {
			fmt.Fprintln(os.Stderr, "cases disagree on tree.many")
			os.Exit(2)
		}
		many = c.Tree.Many
		if mtimeStr != "" && mtimeStr != c.Tree.MTime {
			fmt.Fprintln(os.Stderr, "cases disagree on tree.mtime")
			os.Exit(2)
		}
		mtimeStr = c.Tree.MTime
		all = append(all, c)
	}
	mtime, err := time.Parse(nethttp.TimeFormat, mtimeStr)
	if err != nil {
		fmt.Fprintln(os.Stderr, "bad tree.mtime:", err)
		os.Exit(2)
	}
	t, err := buildTree(*scratch, specs, order, many, mtime)
	if err != nil {
		fmt.Fprintln(os.Stderr, "cannot build tree:", err)
		os.Exit(2)
	}
	defer os.RemoveAll(t.dir)
	n := *chunks
	if n > len(all) {
		n = len(all)
	}
	if n < 1 {
		n = 1
	}
	cacheDur := time.Duration(*cacheMs) * time.Millisecond
	var wg sync.WaitGroup
	for k := 0; k < n; k++ {
		wg.Add(1)
		go func(k int) {
			defer wg.Done()
			tr, err := vtrace.Create(filepath.Join(*out, fmt.Sprintf("trace_%03d.ndjson", k)))
			if err != nil {
				panic(err)
			}
			lo, hi := len(all)*k/n, len(all)*(k+1)/n
			for j, c := range all[lo:hi] {
				if j%128 == 127 {
					for openFDs() > 8000 { // handlers keep files open for CacheDuration
						time.Sleep(50 * time.Millisecond)
					}
				}
				runCase(tr, t, c, cacheDur)
			}
			tr.Close()
		}(k)
	}
	wg.Wait()
	os.RemoveAll(t.dir)
	fmt.Printf("{\"cases\":%d,\"chunks\":%d}\n", len(all), n)
}
