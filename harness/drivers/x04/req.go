package main

import (
	"bufio"
	"bytes"
	"errors"
	"fmt"
	"io"
	"net/http"
	"strings"

	"github.com/cloudwego/hertz/pkg/common/adaptor"
	"github.com/cloudwego/hertz/pkg/common/test/mock"
	"github.com/cloudwego/hertz/pkg/network"
	"github.com/cloudwego/hertz/pkg/protocol"
	h1req "github.com/cloudwego/hertz/pkg/protocol/http1/req"

	"verif/harness/vtrace"
)

type BodySpec struct {
	K string `json:"k"`
	N int    `json:"n"`
}

// failing reader: some bytes, then an error (a client that went away in the middle of a streamed body)
type errReader struct {
	data []byte
}

func (e *errReader) Read(p []byte) (int, error) {
	if len(e.data) == 0 {
		return 0, errors.New("verif: connection reset while reading the body")
	}
	n := copy(p, e.data)
	e.data = e.data[n:]
	return n, nil
}

// wireOf renders the case as the bytes of an HTTP/1.x request.
func wireOf(c *Case) string {
	var sb strings.Builder
	fmt.Fprintf(&sb, "%s %s %s\r\n", c.Method, c.Target, c.Proto)
	if c.Host != "" {
		fmt.Fprintf(&sb, "Host: %s\r\n", c.Host)
	}
	for _, h := range c.Hdrs {
		fmt.Fprintf(&sb, "%s: %s\r\n", h.N, h.V)
	}
	body := pattern(c.Body.N)
	switch c.Body.K {
	case "none":
		sb.WriteString("\r\n")
	case "bytes":
		fmt.Fprintf(&sb, "Content-Length: %d\r\n\r\n%s", len(body), body)
	case "chunked":
		sb.WriteString("Transfer-Encoding: chunked\r\n\r\n")
		for len(body) > 0 {
			k := 3
			if len(body) > 100 {
				k = 128
			}
			if k > len(body) {
				k = len(body)
			}
			fmt.Fprintf(&sb, "%x\r\n%s\r\n", k, body[:k])
			body = body[k:]
		}
		sb.WriteString("0\r\n\r\n")
	default:
		panic("body kind " + c.Body.K + " cannot be put on a wire")
	}
	return sb.String()
}

// buildHertz makes the hertz request of the case: parsed from wire bytes like a server does, or through the setters.
func buildHertz(c *Case) (*protocol.Request, error) {
	q := &protocol.Request{}
	if c.Via == "wire" {
		return q, h1req.Read(q, mock.NewZeroCopyReader(wireOf(c)))
	}
	if c.Nonorm {
		q.Header.DisableNormalizing()
	}
	rel := c.Target == "" || strings.HasPrefix(c.Target, "/")
	if rel && c.Host != "" {
		q.SetRequestURI(c.Scheme + "://" + c.Host + c.Target)
	} else {
		q.SetRequestURI(c.Target)
		if c.Host != "" {
			q.Header.SetHost(c.Host)
		}
	}
	if c.Method != "" {
		q.Header.SetMethod(c.Method)
	}
	for _, h := range c.Hdrs {
		q.Header.Add(h.N, h.V)
	}
	body := pattern(c.Body.N)
	switch c.Body.K {
	case "none":
	case "bytes":
		q.SetBody([]byte(body))
	case "stream":
		q.SetBodyStream(strings.NewReader(body), -1)
	case "streamlen":
		q.SetBodyStream(strings.NewReader(body), len(body))
	case "streamerr":
		q.SetBodyStream(&errReader{[]byte(body[:len(body)/2])}, len(body))
	default:
		panic("body kind " + c.Body.K + " cannot be set through the API")
	}
	return q, nil
}

func mustBuild(c *Case) *protocol.Request {
	q, err := buildHertz(c)
	if err != nil {
		panic(buildErr{err})
	}
	return q
}

type buildErr struct{ err error }

// a different request, parsed into the same object (what a pooled Request sees after it has been reset)
const otherWire = "PATCH /zzzzzzzzzzzzzzzzzzzzzzzzzzzzzzzz?zzzzzzzzzzzzzzzz=zzzzzzzz HTTP/1.1\r\nHost: zzzzzzzzzzzzzzzz.zz\r\n" +
	"X-A: ZZZZZZZZ\r\nX-A: ZZZZZZZZ\r\nX-Empty: ZZ\r\nX-B: ZZZZ\r\nCookie: a=Z; b=Z; c=Z; z=ZZZZZZZZZZ\r\nUser-Agent: ZZZZZZ\r\nAccept: ZZZ\r\n" +
	"Content-Type: ZZZZZZZZZZZZZZZZZZZZZZ\r\nAccept-Encoding: ZZZZZZZZZZ\r\nX-Odd: ZZZZZZZZZZZZZZZZZZZZ\r\nAuthorization: ZZZZZZZZZZZZZZZZZZZZZZ\r\n" +
	"X-Forwarded-For: ZZZZZZZ\r\nX-Forwarded-For: ZZZZZZZ\r\nContent-Length: 10\r\n\r\nZZZZZZZZZZ"

func runFwd(tr *vtrace.Writer, c *Case) {
	tr.Emit("H", hertzView(mustBuild(c)))
	r, err := adaptor.GetCompatRequest(mustBuild(c))
	tr.Emit("Conv", httpView(r, err))

	// isolation: change the converted request, look at the original; change (reset and reuse) the original, look at
	// the converted one
	q3 := mustBuild(c)
	r3, err3 := adaptor.GetCompatRequest(q3)
	if err3 == nil && r3 != nil {
		for _, vs := range r3.Header {
			for i := range vs {
				vs[i] = "MUT"
			}
		}
		r3.Header.Set("X-A", "mut")
		r3.Header.Add("X-New", "n")
		r3.Header.Del("Cookie")
		r3.Header.Del("User-Agent")
		r3.Method = "MUT"
		r3.URL.Path = "/mut"
		r3.Host = "mut"
	}
	q4 := mustBuild(c)
	r4, err4 := adaptor.GetCompatRequest(q4)
	q4.Header.Set("X-A", "ZZ")
	q4.Header.SetCookie("a", "ZZ")
	q4.Reset()
	_ = h1req.Read(q4, mock.NewZeroCopyReader(otherWire))
	obody := ""
	if err4 == nil && r4 != nil && r4.Body != nil {
		b, _ := io.ReadAll(r4.Body)
		obody = string(b)
	}
	tr.Emit("Iso", vtrace.Rec{"hh": hertzHdrs(q3), "oh": httpHdrs(r4), "obody": obody})
}

func readHTTP(wire string) *http.Request {
	n, err := http.ReadRequest(bufio.NewReader(strings.NewReader(wire)))
	if err != nil {
		panic(buildErr{err})
	}
	return n
}

func runRev(tr *vtrace.Writer, c *Case) {
	wire := wireOf(c)
	tr.Emit("N", httpView(readHTTP(wire), nil))

	q := &protocol.Request{}
	err := adaptor.CopyToHertzRequest(readHTTP(wire), q)
	v := hertzView(q)
	v["err"] = err != nil
	tr.Emit("Copy", v)
	tr.Emit("CopyLen", vtrace.Rec{"cl": v["cl"], "blen": len(v["body"].(string))})

	// the copy as hertz puts it on a wire (a proxy forwarding the request), read back by net/http
	q2 := &protocol.Request{}
	err = adaptor.CopyToHertzRequest(readHTTP(wire), q2)
	var buf bytes.Buffer
	if err == nil {
		zw := network.NewWriter(&buf)
		if err = h1req.Write(q2, zw); err == nil {
			err = zw.Flush()
		}
	}
	var back *http.Request
	if err == nil {
		back, err = http.ReadRequest(bufio.NewReader(bytes.NewReader(buf.Bytes())))
	}
	tr.Emit("Wire", httpView(back, err))

	// and converted back: http -> hertz -> http
	q3 := &protocol.Request{}
	err = adaptor.CopyToHertzRequest(readHTTP(wire), q3)
	var r3 *http.Request
	if err == nil {
		r3, err = adaptor.GetCompatRequest(q3)
	}
	tr.Emit("Back", httpView(r3, err))
}

func runReq(tr *vtrace.Writer, c *Case) {
	defer func() {
		if r := recover(); r != nil {
			if be, ok := r.(buildErr); ok {
				tr.Emit("BuildErr", vtrace.Rec{"msg": be.err.Error()})
			} else {
				tr.Emit("Panic", vtrace.Rec{"msg": fmt.Sprint(r)})
			}
			tr.Emit("End", nil)
		}
	}()
	if c.Kind == "fwd" {
		runFwd(tr, c)
	} else {
		runRev(tr, c)
	}
	tr.Emit("End", nil)
}
