package main

import (
	"bufio"
	"bytes"
	"fmt"
	"io"
	"net/http"
	"sort"
	"strings"

	"github.com/cloudwego/hertz/pkg/protocol"

	"verif/harness/vtrace"
)

// NV is one header name with all its values, in order.
type NV struct {
	N  string   `json:"n"`
	Vs []string `json:"vs"`
}

func sortedNV(m map[string][]string) []NV {
	out := make([]NV, 0, len(m))
	for k, vs := range m {
		out = append(out, NV{k, append([]string{}, vs...)})
	}
	sort.Slice(out, func(i, j int) bool { return out[i].N < out[j].N })
	return out
}

// hertzHdrs: what RequestHeader.VisitAll shows, grouped by name.
func hertzHdrs(q *protocol.Request) []NV {
	m := map[string][]string{}
	q.Header.VisitAll(func(k, v []byte) { m[string(k)] = append(m[string(k)], string(v)) })
	return sortedNV(m)
}

func httpHdrs(r *http.Request) []NV {
	if r == nil {
		return []NV{}
	}
	return sortedNV(r.Header)
}

func emptyView() vtrace.Rec {
	return vtrace.Rec{"method": "", "path": "", "query": "", "ruri": "", "host": "", "hhost": "", "scheme": "", "proto": "",
		"hdrs": []NV{}, "cookies": []string{}, "body": "", "cl": 0, "err": false, "berr": false}
}

// hertzView reads the request through its accessors (BodyE consumes a body stream: call once per object).
func hertzView(q *protocol.Request) vtrace.Rec {
	v := emptyView()
	v["method"] = string(q.Method())
	v["ruri"] = string(q.Header.RequestURI())
	v["path"] = string(q.URI().Path())
	v["query"] = string(q.URI().QueryString())
	v["host"] = string(q.URI().Host())
	v["hhost"] = string(q.Header.Host())
	v["scheme"] = string(q.URI().Scheme())
	v["proto"] = q.Header.GetProtocol()
	v["hdrs"] = hertzHdrs(q)
	ck := []string{}
	q.Header.VisitAllCookie(func(k, val []byte) { ck = append(ck, string(k)+"="+string(val)) })
	v["cookies"] = ck
	v["cl"] = q.Header.ContentLength()
	v["stream"] = q.IsBodyStream()
	b, err := q.BodyE()
	v["body"] = string(b)
	v["berr"] = err != nil
	return v
}

// httpView reads the request through the fields and methods of net/http (reads the body to its end).
func httpView(r *http.Request, err error) vtrace.Rec {
	v := emptyView()
	if err != nil || r == nil {
		v["err"] = true
		if err != nil {
			v["msg"] = err.Error()
		}
		return v
	}
	v["method"] = r.Method
	v["ruri"] = r.RequestURI
	if r.URL != nil {
		v["path"] = r.URL.Path
		v["query"] = r.URL.RawQuery
		v["host"] = r.URL.Host
		v["scheme"] = r.URL.Scheme
	}
	v["hhost"] = r.Host
	v["proto"] = r.Proto
	v["hdrs"] = httpHdrs(r)
	ck := []string{}
	for _, c := range r.Cookies() {
		ck = append(ck, c.Name+"="+c.Value)
	}
	v["cookies"] = ck
	v["cl"] = r.ContentLength
	v["te"] = append([]string{}, r.TransferEncoding...)
	v["remote"] = r.RemoteAddr
	if r.Body != nil {
		b, berr := io.ReadAll(r.Body)
		v["body"] = string(b)
		v["berr"] = berr != nil
	}
	return v
}

// cookieCanon renders what net/http's parser reads in one Set-Cookie line.
func cookieCanon(line string) string {
	res := http.Response{Header: http.Header{"Set-Cookie": {line}}}
	cs := res.Cookies()
	if len(cs) != 1 {
		return "unparsed:" + line
	}
	c := cs[0]
	ss := ""
	switch c.SameSite {
	case http.SameSiteLaxMode:
		ss = "Lax"
	case http.SameSiteStrictMode:
		ss = "Strict"
	case http.SameSiteNoneMode:
		ss = "None"
	}
	return fmt.Sprintf("%s=%s|%s|%s|%d|%t|%t|%s", c.Name, c.Value, c.Path, c.Domain, c.MaxAge, c.Secure, c.HttpOnly, ss)
}

// pick shows the values of the given header names (Set-Cookie lines as parsed cookies).
func pick(h http.Header, names []string) []NV {
	out := make([]NV, 0, len(names))
	for _, n := range names {
		vs := append([]string{}, h.Values(n)...)
		if n == "Set-Cookie" {
			for i := range vs {
				vs[i] = cookieCanon(vs[i])
			}
		}
		out = append(out, NV{n, vs})
	}
	return out
}

// respObs: status and headers as a client would parse them from the serialized header of the hertz Response.
func respObs(p *protocol.Response, names []string) (int, []NV, string) {
	raw := p.Header.Header()
	res, err := http.ReadResponse(bufio.NewReader(bytes.NewReader(raw)), nil)
	if err != nil {
		return -1, pick(http.Header{}, names), string(p.Body())
	}
	return res.StatusCode, pick(res.Header, names), string(p.Body())
}

func pattern(n int) string {
	const a = "abcdefghijklmnopqrstuvwxyz0123"
	var sb strings.Builder
	for sb.Len() < n {
		sb.WriteString(a)
	}
	return sb.String()[:n]
}
