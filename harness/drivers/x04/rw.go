package main

import (
	"fmt"
	"net/http"
	"net/http/httptest"
	"sort"

	"github.com/cloudwego/hertz/pkg/common/adaptor"
	"github.com/cloudwego/hertz/pkg/protocol"

	"verif/harness/vtrace"
)

type HV struct {
	N string `json:"n"`
	V string `json:"v"`
}

type Op struct {
	Op   string `json:"op"`
	N    string `json:"n"`
	V    string `json:"v"`
	Code int    `json:"code"`
	P    string `json:"p"`
}

func namesOf(c *Case) []string {
	set := map[string]bool{}
	for _, h := range c.Pre {
		set[h.N] = true
	}
	for _, o := range c.Ops {
		if o.N != "" {
			set[o.N] = true
		}
	}
	out := []string{}
	for n := range set {
		out = append(out, n)
	}
	sort.Strings(out)
	return out
}

// apply performs one call on the writer; ret/err are what Write returned.
func apply(w http.ResponseWriter, o Op) (int, bool) {
	switch o.Op {
	case "Set":
		w.Header().Set(o.N, o.V)
	case "Add":
		w.Header().Add(o.N, o.V)
	case "Del":
		w.Header().Del(o.N)
	case "WriteHeader":
		w.WriteHeader(o.Code)
	case "Write":
		n, err := w.Write([]byte(o.P))
		return n, err != nil
	default:
		panic("unknown op " + o.Op)
	}
	return 0, false
}

// recorderAfter: net/http's reference implementation after the first k calls.  ResponseRecorder.Result() freezes
// its answer at the first call, hence a fresh recorder per observation.
func recorderAfter(c *Case, k int, names []string) (int, []NV, string, []NV) {
	rec := httptest.NewRecorder()
	for _, h := range c.Pre {
		rec.Header().Add(h.N, h.V)
	}
	rec.Body.WriteString(c.PreBody)
	first := pick(rec.Header(), names)
	for _, o := range c.Ops[:k] {
		apply(rec, o)
	}
	res := rec.Result()
	return res.StatusCode, pick(res.Header, names), rec.Body.String(), first
}

func runRW(tr *vtrace.Writer, c *Case, impl string) {
	names := namesOf(c)
	defer func() {
		if r := recover(); r != nil {
			tr.Emit("Panic", vtrace.Rec{"msg": fmt.Sprint(r)})
			tr.Emit("End", nil)
		}
	}()
	var w http.ResponseWriter
	var obs func(k int) (int, []NV, string)
	if impl == "recorder" {
		_, _, _, first := recorderAfter(c, 0, names)
		tr.Emit("New", vtrace.Rec{"map": first, "flusher": true})
		live := httptest.NewRecorder() // only to get what Write returns
		w = live
		obs = func(k int) (int, []NV, string) { st, h, b, _ := recorderAfter(c, k, names); return st, h, b }
	} else {
		p := &protocol.Response{}
		for _, h := range c.Pre {
			p.Header.Add(h.N, h.V)
		}
		if c.PreBody != "" {
			p.SetBodyString(c.PreBody)
		}
		w = adaptor.GetCompatResponseWriter(p)
		_, fl := w.(http.Flusher)
		tr.Emit("New", vtrace.Rec{"map": pick(w.Header(), names), "flusher": fl})
		obs = func(k int) (int, []NV, string) { return respObs(p, names) }
	}
	after := false // a WriteHeader or Write call has been made before this call (a fact about the sequence)
	for i, o := range c.Ops {
		ret, werr := apply(w, o)
		st, hdr, body := obs(i + 1)
		tr.Emit(o.Op, vtrace.Rec{"i": i + 1, "n": o.N, "v": o.V, "code": o.Code, "p": o.P, "ret": ret, "err": werr,
			"after": after, "st": st, "hdr": hdr, "body": body})
		after = after || o.Op == "WriteHeader" || o.Op == "Write"
	}
	st, hdr, body := obs(len(c.Ops))
	tr.Emit("Fin", vtrace.Rec{"st": st, "hdr": hdr, "body": body})
	tr.Emit("End", nil)
}
