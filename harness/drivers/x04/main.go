// Driver for X04 (the net/http adaptor, pkg/common/adaptor).  Reads the cases written by spec/AdaptorGen.tla, runs
// each on the real adaptor and records what the objects show (views.go): per call of the http.ResponseWriter the
// status / headers / body of the hertz Response as a client would parse them; per request the views of the hertz
// request and of the converted one.  -impl recorder runs the "rw" cases on net/http's own httptest.ResponseRecorder
// instead (the reference implementation of the call-sequence semantics): same events, validated by the same
// specification.  The driver holds no expected values and decides nothing.
package main

import (
	"bufio"
	"encoding/json"
	"flag"
	"fmt"
	"os"
	"path/filepath"
	"sync"

	"verif/harness/vtrace"
)

type Case struct {
	ID   int    `json:"id"`
	Kind string `json:"kind"`
	Fam  string `json:"fam"`
	// kind rw
	Pre     []HV   `json:"pre"`
	PreBody string `json:"prebody"`
	Ops     []Op   `json:"ops"`
	// kinds fwd, rev
	Via    string   `json:"via"`
	Method string   `json:"method"`
	Proto  string   `json:"proto"`
	Host   string   `json:"host"`
	Scheme string   `json:"scheme"`
	Target string   `json:"target"`
	Hdrs   []HV     `json:"hdrs"`
	Body   BodySpec `json:"body"`
	Nonorm bool     `json:"nonorm"`
	Bad    bool     `json:"bad"`

	raw vtrace.Rec
}

func main() {
	cases := flag.String("cases", "", "ndjson case file written by TLC")
	out := flag.String("out", "", "output directory for trace chunks")
	chunks := flag.Int("chunks", 4, "number of trace files")
	impl := flag.String("impl", "adaptor", "adaptor | recorder (rw cases only)")
	flag.Parse()
	f, err := os.Open(*cases)
	if err != nil {
		fmt.Fprintln(os.Stderr, err)
		os.Exit(2)
	}
	var all []*Case
	sc := bufio.NewScanner(f)
	sc.Buffer(make([]byte, 1<<20), 1<<26)
	for sc.Scan() {
		c := &Case{}
		if err := json.Unmarshal(sc.Bytes(), c); err != nil {
			fmt.Fprintln(os.Stderr, "bad case line:", err)
			os.Exit(2)
		}
		if err := json.Unmarshal(sc.Bytes(), &c.raw); err != nil {
			fmt.Fprintln(os.Stderr, "bad case line:", err)
			os.Exit(2)
		}
		if *impl == "recorder" && c.Kind != "rw" {
			continue
		}
		all = append(all, c)
	}
	n := *chunks
	if n > len(all) {
		n = len(all)
	}
	if n < 1 {
		n = 1
	}
	var wg sync.WaitGroup
	for k := 0; k < n; k++ {
		wg.Add(1)
		go func(k int) {
			defer wg.Done()
			tr, err := vtrace.Create(filepath.Join(*out, fmt.Sprintf("trace_%03d.ndjson", k)))
			if err != nil {
				panic(err)
			}
			lo, hi := len(all)*k/n, len(all)*(k+1)/n
			for _, c := range all[lo:hi] {
				tr.Emit("Case", c.raw)
				if c.Kind == "rw" {
					runRW(tr, c, *impl)
				} else {
					runReq(tr, c)
				}
			}
			tr.Close()
		}(k)
	}
	wg.Wait()
	fmt.Printf("{\"cases\":%d,\"chunks\":%d}\n", len(all), n)
}
