// Driver for C15: builds struct types at run time (reflect.StructOf), binds generated requests into them with the
// real hertz binder (RequestContext.Bind / BindAndValidate -> binding.DefaultBinder()) and records, per bind, the
// resulting field values as text or the fact that an error was returned.  No expected values live here.
package main

import (
	"bufio"
	"encoding/json"
	"flag"
	"fmt"
	"os"
	"path/filepath"
	"reflect"
	"strconv"
	"strings"
	"sync"
	"sync/atomic"

	"github.com/cloudwego/hertz/pkg/app"
	"github.com/cloudwego/hertz/pkg/route/param"

	"verif/harness/vtrace"
)

type Tag struct {
	Src  string `json:"src"`
	Name string `json:"name"`
	Req  bool   `json:"req"`
}

type Field struct {
	Kind string   `json:"kind"`
	Tags []Tag    `json:"tags"`
	Def  []string `json:"def"`
}

type Type struct {
	Fields []Field `json:"fields"`
}

type Entry struct {
	Src   string   `json:"src"`
	Name  string   `json:"name"`
	Texts []string `json:"texts"`
	Lit   string   `json:"lit"`
}

type Req struct {
	Body string  `json:"body"`
	Vals []Entry `json:"vals"`
}

type Op struct {
	Op string `json:"op"` // first | again
	T  int    `json:"t"`
	R  int    `json:"r"`
}

type Case struct {
	ID     int    `json:"id"`
	Kind   string `json:"kind"`
	Shadow bool   `json:"shadow"`
	Conc   bool   `json:"conc"`
	Types  []Type `json:"types"`
	Reqs   []Req  `json:"reqs"`
	Prog   []Op   `json:"prog"`
}

var goTypes = map[string]reflect.Type{
	"bool":     reflect.TypeOf(false),
	"int8":     reflect.TypeOf(int8(0)),
	"int":      reflect.TypeOf(int(0)),
	"uint8":    reflect.TypeOf(uint8(0)),
	"uint":     reflect.TypeOf(uint(0)),
	"float64":  reflect.TypeOf(float64(0)),
	"string":   reflect.TypeOf(""),
	"*int":     reflect.TypeOf((*int)(nil)),
	"*string":  reflect.TypeOf((*string)(nil)),
	"[]int":    reflect.TypeOf([]int(nil)),
	"[]string": reflect.TypeOf([]string(nil)),
	"int16":    reflect.TypeOf(int16(0)),
	"int32":    reflect.TypeOf(int32(0)),
	"uint16":   reflect.TypeOf(uint16(0)),
	"uint32":   reflect.TypeOf(uint32(0)),
	"*int8":    reflect.TypeOf((*int8)(nil)),
	"*int16":   reflect.TypeOf((*int16)(nil)),
	"*int32":   reflect.TypeOf((*int32)(nil)),
	"*uint8":   reflect.TypeOf((*uint8)(nil)),
	"*uint16":  reflect.TypeOf((*uint16)(nil)),
	"*uint32":  reflect.TypeOf((*uint32)(nil)),
	"[]int8":   reflect.TypeOf([]int8(nil)),
	"[]int16":  reflect.TypeOf([]int16(nil)),
	"[]int32":  reflect.TypeOf([]int32(nil)),
	"[]uint16": reflect.TypeOf([]uint16(nil)),
	"[]uint32": reflect.TypeOf([]uint32(nil)),
}

var identity int64 // every instantiated type gets a unique inert tag => a fresh runtime type => a cold decoder cache

// instantiate builds a fresh Go struct type for the descriptor.  Tag syntax as documented by hertz:
// `src:"name"` / `src:"name,required"`, `default:"text"`; defaults of slice fields are JSON lists with single quotes.
func instantiate(t *Type) reflect.Type {
	id := atomic.AddInt64(&identity, 1)
	fs := make([]reflect.StructField, len(t.Fields))
	for i, f := range t.Fields {
		gt, ok := goTypes[f.Kind]
		if !ok {
			panic("unknown kind " + f.Kind)
		}
		var sb strings.Builder
		for _, tg := range f.Tags {
			sb.WriteString(tg.Src + `:"` + tg.Name)
			if tg.Req {
				sb.WriteString(",required")
			}
			sb.WriteString(`" `)
		}
		if len(f.Def) > 0 {
			d := f.Def[0]
			if f.Kind == "[]string" {
				d = "['" + d + "']"
			} else if strings.HasPrefix(f.Kind, "[]") {
				d = "[" + d + "]"
			}
			sb.WriteString(`default:"` + d + `" `)
		}
		sb.WriteString(`vcase:"` + strconv.FormatInt(id, 10) + `"`)
		fs[i] = reflect.StructField{Name: "F" + strconv.Itoa(i+1), Type: gt, Tag: reflect.StructTag(sb.String())}
	}
	return reflect.StructOf(fs)
}

// buildRequest assembles the request through public API only.
func buildRequest(ctx *app.RequestContext, r *Req) {
	var q, form, js []string
	for _, e := range r.Vals {
		switch e.Src {
		case "path":
			ctx.Params = append(ctx.Params, param.Param{Key: e.Name, Value: e.Texts[0]})
		case "query":
			for _, t := range e.Texts {
				q = append(q, e.Name+"="+t)
			}
		case "form":
			for _, t := range e.Texts {
				form = append(form, e.Name+"="+t)
			}
		case "cookie":
			ctx.Request.Header.SetCookie(e.Name, e.Texts[0])
		case "header":
			for _, t := range e.Texts {
				ctx.Request.Header.Add(e.Name, t)
			}
		case "json":
			js = append(js, `"`+e.Name+`":`+e.Lit)
		default:
			panic("unknown source " + e.Src)
		}
	}
	uri := "/bind"
	if len(q) > 0 {
		uri += "?" + strings.Join(q, "&")
	}
	ctx.Request.SetRequestURI(uri)
	ctx.Request.Header.SetMethod("POST")
	switch r.Body {
	case "form":
		b := strings.Join(form, "&")
		ctx.Request.Header.SetContentTypeBytes([]byte("application/x-www-form-urlencoded"))
		ctx.Request.SetBody([]byte(b))
		ctx.Request.Header.SetContentLength(len(b))
	case "json":
		b := "{" + strings.Join(js, ",") + "}"
		ctx.Request.Header.SetContentTypeBytes([]byte("application/json"))
		ctx.Request.SetBody([]byte(b))
		ctx.Request.Header.SetContentLength(len(b))
	}
}

func scalarText(v reflect.Value) string {
	switch v.Kind() {
	case reflect.Bool:
		return strconv.FormatBool(v.Bool())
	case reflect.Int, reflect.Int8, reflect.Int16, reflect.Int32, reflect.Int64:
		return strconv.FormatInt(v.Int(), 10)
	case reflect.Uint, reflect.Uint8, reflect.Uint16, reflect.Uint32, reflect.Uint64:
		return strconv.FormatUint(v.Uint(), 10)
	case reflect.Float32, reflect.Float64:
		return strconv.FormatFloat(v.Float(), 'g', -1, 64)
	case reflect.String:
		return v.String()
	}
	return "?" + v.Kind().String()
}

// observe renders every field of the bound struct as {k: v|nil|list, s: [texts]}.
func observe(v reflect.Value) []vtrace.Rec {
	out := make([]vtrace.Rec, v.NumField())
	for i := 0; i < v.NumField(); i++ {
		f := v.Field(i)
		switch f.Kind() {
		case reflect.Ptr:
			if f.IsNil() {
				out[i] = vtrace.Rec{"k": "nil", "s": []string{}}
			} else {
				out[i] = vtrace.Rec{"k": "v", "s": []string{scalarText(f.Elem())}}
			}
		case reflect.Slice:
			s := make([]string, f.Len())
			for j := range s {
				s[j] = scalarText(f.Index(j))
			}
			out[i] = vtrace.Rec{"k": "list", "s": s}
		default:
			out[i] = vtrace.Rec{"k": "v", "s": []string{scalarText(f)}}
		}
	}
	return out
}

func sanitize(s string) string {
	var sb strings.Builder
	for _, c := range s {
		if sb.Len() >= 100 {
			break
		}
		if c >= 'a' && c <= 'z' || c >= 'A' && c <= 'Z' || c >= '0' && c <= '9' || strings.ContainsRune(" .,_-'():=", c) {
			sb.WriteRune(c)
		} else {
			sb.WriteByte('~')
		}
	}
	return sb.String()
}

// bindOnce performs one Bind on the real binder and logs the Bound event.
func bindOnce(tr *vtrace.Writer, c *Case, typ reflect.Type, t, inst, r int, cold, validate bool) {
	defer func() {
		if p := recover(); p != nil {
			tr.Emit("Panic", vtrace.Rec{"t": t, "r": r, "msg": sanitize(fmt.Sprint(p))})
		}
	}()
	ctx := app.NewContext(0)
	buildRequest(ctx, &c.Reqs[r-1])
	obj := reflect.New(typ)
	var err error
	if validate {
		err = ctx.BindAndValidate(obj.Interface())
	} else {
		err = ctx.Bind(obj.Interface())
	}
	rec := vtrace.Rec{"t": t, "inst": inst, "r": r, "cold": cold, "api": map[bool]string{true: "BindAndValidate", false: "Bind"}[validate]}
	if err != nil {
		rec["err"] = true
		rec["fields"] = []vtrace.Rec{}
		rec["msg"] = sanitize(err.Error())
	} else {
		rec["err"] = false
		rec["fields"] = observe(obj.Elem())
		rec["msg"] = ""
	}
	tr.Emit("Bound", rec)
}

// runOps executes the ops of one goroutine (all ops of a sequential case, or the ops of one type of a concurrent case).
func runOps(tr *vtrace.Writer, c *Case, ops []Op, opBase int, cur map[int]reflect.Type, inst map[int]int, mu *sync.Mutex) {
	for k, op := range ops {
		validate := (c.ID+opBase+k)%2 == 1
		switch op.Op {
		case "first":
			typ := instantiate(&c.Types[op.T-1])
			mu.Lock()
			cur[op.T] = typ
			inst[op.T]++
			in := inst[op.T]
			mu.Unlock()
			tr.Emit("FirstUse", vtrace.Rec{"t": op.T, "inst": in})
			bindOnce(tr, c, typ, op.T, in, op.R, true, validate)
		case "again":
			mu.Lock()
			typ, in := cur[op.T], inst[op.T]
			mu.Unlock()
			if typ == nil {
				panic("again before first")
			}
			bindOnce(tr, c, typ, op.T, in, op.R, false, validate)
		default:
			panic("unknown op " + op.Op)
		}
	}
}

func runCase(tr *vtrace.Writer, c *Case) {
	tr.Emit("Case", vtrace.Rec{"id": c.ID, "kind": c.Kind, "shadow": c.Shadow, "conc": c.Conc, "types": c.Types, "reqs": c.Reqs, "prog": c.Prog})
	cur := map[int]reflect.Type{}
	inst := map[int]int{}
	var mu sync.Mutex
	if !c.Conc {
		runOps(tr, c, c.Prog, 0, cur, inst, &mu)
	} else {
		per := map[int][]Op{}
		for _, op := range c.Prog {
			per[op.T] = append(per[op.T], op)
		}
		start := make(chan struct{})
		var wg sync.WaitGroup
		for t, ops := range per {
			wg.Add(1)
			go func(t int, ops []Op) {
				defer wg.Done()
				<-start
				runOps(tr, c, ops, t, cur, inst, &mu)
			}(t, ops)
		}
		close(start)
		wg.Wait()
	}
	tr.Emit("End", nil)
}

func main() {
	cases := flag.String("cases", "", "ndjson case file written by TLC")
	out := flag.String("out", "", "output directory for trace chunks")
	chunks := flag.Int("chunks", 16, "number of trace files")
	flag.Parse()
	f, err := os.Open(*cases)
	if err != nil {
		fmt.Fprintln(os.Stderr, err)
		os.Exit(2)
	}
	var all []*Case
	sc := bufio.NewScanner(f)
	sc.Buffer(make([]byte, 1<<20), 1<<28)
	for sc.Scan() {
		if len(sc.Bytes()) == 0 {
			continue
		}
		c := &Case{}
		if err := json.Unmarshal(sc.Bytes(), c); err != nil {
			fmt.Fprintln(os.Stderr, "bad case line:", err)
			os.Exit(2)
		}
		all = append(all, c)
	}
	n := *chunks
	if n > len(all) {
		n = len(all)
	}
	if n < 1 {
		n = 1
	}
	var wg sync.WaitGroup
	for k := 0; k < n; k++ {
		wg.Add(1)
		go func(k int) {
			defer wg.Done()
			tr, err := vtrace.Create(filepath.Join(*out, fmt.Sprintf("trace_%03d.ndjson", k)))
			if err != nil {
				panic(err)
			}
			// interleave cases over chunks so that every chunk gets a similar mix of cheap and expensive cases
			for i := k; i < len(all); i += n {
				runCase(tr, all[i])
			}
			tr.Close()
		}(k)
	}
	wg.Wait()
	fmt.Printf("{\"cases\":%d,\"chunks\":%d}\n", len(all), n)
}
