// Driver for C05: executes API programs (sequences of header-writing calls with hostile byte-string arguments)
// against the real protocol.Request / protocol.Response / app.RequestContext objects and records what they
// serialise: RequestHeader.Header() / ResponseHeader.Header(), Trailer.Header(), and the whole message as written
// by http1/req.Write / http1/resp.Write into an in-memory network.Writer.  Bytes are recorded as small integers.
// The driver never looks into the bytes and holds no expected values; spec/HeaderWriteTrace.tla decides.
package main

import (
	"bufio"
	"bytes"
	"encoding/json"
	"flag"
	"fmt"
	"io"
	"os"
	"path/filepath"
	"strconv"
	"sync"

	"github.com/cloudwego/hertz/pkg/app"
	"github.com/cloudwego/hertz/pkg/common/hlog"
	"github.com/cloudwego/hertz/pkg/protocol"
	"github.com/cloudwego/hertz/pkg/protocol/http1/req"
	"github.com/cloudwego/hertz/pkg/protocol/http1/resp"

	"verif/harness/vtrace"
)

type Call struct {
	E string  `json:"e"`
	A [][]int `json:"a"`
}

type Case struct {
	ID      int    `json:"id"`
	Tgt     string `json:"tgt"`  // req | resp | ctx
	Body    string `json:"body"` // none | stream
	Calls   []Call `json:"calls"`
	Rawsink string `json:"rawsink"`
	// signature fields of known findings, computed by the generator specification and echoed unchanged
	EmptyTrailer    string `json:"emptytrailer"`
	ConnConflict    string `json:"connconflict"`
	FramingConflict string `json:"framingconflict"`
}

// memWriter is a network.Writer collecting everything written.
type memWriter struct{ b bytes.Buffer }

func (w *memWriter) Malloc(n int) ([]byte, error) {
	s := w.b.Len()
	w.b.Write(make([]byte, n))
	return w.b.Bytes()[s : s+n], nil
}
func (w *memWriter) WriteBinary(b []byte) (int, error) { return w.b.Write(b) }
func (w *memWriter) Flush() error                      { return nil }

func bs(a []int) []byte {
	b := make([]byte, len(a))
	for i, x := range a {
		b[i] = byte(x)
	}
	return b
}

func ints(b []byte) []int {
	r := make([]int, len(b))
	for i, x := range b {
		r[i] = int(x)
	}
	return r
}

type args [][]int

func (a args) b(i int) []byte { return bs(a[i]) }
func (a args) s(i int) string { return string(bs(a[i])) }

// n decodes a decimal integer argument (role "d" of the entry-point table).
func (a args) n(i int) int {
	v, err := strconv.Atoi(a.s(i))
	if err != nil {
		fatal("integer argument expected: " + err.Error())
	}
	return v
}

// reqCall executes one entry point of the request side. Returns false for an unknown entry.
func reqCall(r *protocol.Request, e string, a args) bool {
	h := &r.Header
	switch e {
	case "ReqHeader.Set":
		h.Set(a.s(0), a.s(1))
	case "ReqHeader.Add":
		h.Add(a.s(0), a.s(1))
	case "ReqHeader.SetBytesKV":
		h.SetBytesKV(a.b(0), a.b(1))
	case "ReqHeader.SetCanonical":
		h.SetCanonical(a.b(0), a.b(1))
	case "ReqHeader.SetArgBytes":
		h.SetArgBytes(a.b(0), a.b(1), protocol.ArgsHasValue)
	case "ReqHeader.AddArgBytes":
		h.AddArgBytes(a.b(0), a.b(1), protocol.ArgsHasValue)
	case "ReqHeader.SetArgBytesNoValue":
		h.SetArgBytes(a.b(0), a.b(1), true)
	case "ReqHeader.AddArgBytesNoValue":
		h.AddArgBytes(a.b(0), a.b(1), true)
	case "Request.SetHeader":
		r.SetHeader(a.s(0), a.s(1))
	case "Request.SetHeaders":
		r.SetHeaders(map[string]string{a.s(0): a.s(1)})
	case "ReqHeader.SetHost":
		h.SetHost(a.s(0))
	case "ReqHeader.SetHostBytes":
		h.SetHostBytes(a.b(0))
	case "Request.SetHost":
		r.SetHost(a.s(0))
	case "ReqHeader.SetUserAgentBytes":
		h.SetUserAgentBytes(a.b(0))
	case "ReqHeader.SetContentTypeBytes":
		h.SetContentTypeBytes(a.b(0))
	case "ReqHeader.SetMultipartFormBoundary":
		h.SetMultipartFormBoundary(a.s(0))
	case "ReqHeader.SetContentLengthBytes":
		h.SetContentLengthBytes(a.b(0))
	case "Request.SetAuthToken":
		r.SetAuthToken(a.s(0))
	case "Request.SetAuthSchemeToken":
		r.SetAuthSchemeToken(a.s(0), a.s(1))
	case "Request.SetBasicAuth":
		r.SetBasicAuth(a.s(0), a.s(1))
	case "Request.URI.SetUsername":
		r.URI().SetUsername(a.s(0))
	case "ReqHeader.SetContentLength":
		h.SetContentLength(a.n(0))
	case "ReqHeader.SetConnectionClose":
		h.SetConnectionClose(true)
	case "Request.SetConnectionClose":
		r.SetConnectionClose()
	case "ReqHeader.SetCookie":
		h.SetCookie(a.s(0), a.s(1))
	case "Request.SetCookie":
		r.SetCookie(a.s(0), a.s(1))
	case "Request.SetCookies":
		r.SetCookies(map[string]string{a.s(0): a.s(1)})
	case "ReqTrailer.Set":
		_ = h.Trailer().Set(a.s(0), a.s(1))
	case "ReqTrailer.Add":
		_ = h.Trailer().Add(a.s(0), a.s(1))
	case "ReqTrailer.UpdateArgBytes":
		_ = h.Trailer().UpdateArgBytes(a.b(0), a.b(1))
	case "ReqTrailer.SetTrailers":
		_ = h.Trailer().SetTrailers(a.b(0))
	case "ReqHeader.Del":
		h.Del(a.s(0))
	case "ReqHeader.DisableNormalizing":
		h.DisableNormalizing()
	default:
		return false
	}
	return true
}

func respCookie(a args, byteSetters bool) *protocol.Cookie {
	c := &protocol.Cookie{}
	if byteSetters {
		c.SetKeyBytes(a.b(0))
		c.SetValueBytes(a.b(1))
		c.SetDomain(a.s(2))
		c.SetPathBytes(a.b(3))
	} else {
		c.SetKey(a.s(0))
		c.SetValue(a.s(1))
		c.SetDomain(a.s(2))
		c.SetPath(a.s(3))
	}
	return c
}

func respCall(r *protocol.Response, e string, a args) bool {
	h := &r.Header
	switch e {
	case "RespHeader.Set":
		h.Set(a.s(0), a.s(1))
	case "RespHeader.Add":
		h.Add(a.s(0), a.s(1))
	case "RespHeader.SetBytesV":
		h.SetBytesV(a.s(0), a.b(1))
	case "RespHeader.SetCanonical":
		h.SetCanonical(a.b(0), a.b(1))
	case "RespHeader.SetArgBytes":
		h.SetArgBytes(a.b(0), a.b(1), protocol.ArgsHasValue)
	case "RespHeader.AddArgBytes":
		h.AddArgBytes(a.b(0), a.b(1), protocol.ArgsHasValue)
	case "RespHeader.SetArgBytesNoValue":
		h.SetArgBytes(a.b(0), a.b(1), true)
	case "RespHeader.AddArgBytesNoValue":
		h.AddArgBytes(a.b(0), a.b(1), true)
	case "RespHeader.SetContentType":
		h.SetContentType(a.s(0))
	case "RespHeader.SetContentTypeBytes":
		h.SetContentTypeBytes(a.b(0))
	case "RespHeader.SetContentEncoding":
		h.SetContentEncoding(a.s(0))
	case "RespHeader.SetContentEncodingBytes":
		h.SetContentEncodingBytes(a.b(0))
	case "RespHeader.SetServerBytes":
		h.SetServerBytes(a.b(0))
	case "RespHeader.SetContentLengthBytes":
		h.SetContentLengthBytes(a.b(0))
	case "RespHeader.SetContentLength":
		h.SetContentLength(a.n(0))
	case "RespHeader.SetConnectionClose":
		h.SetConnectionClose(true)
	case "Response.SetConnectionClose":
		r.SetConnectionClose()
	case "RespHeader.SetCookie":
		h.SetCookie(respCookie(a, false))
	case "RespHeader.SetCookieBytes":
		h.SetCookie(respCookie(a, true))
	case "RespHeader.ParseSetCookie":
		h.ParseSetCookie(a.b(0))
	case "RespHeader.SetCookieParsed": // Cookie.Parse fills key/value/attributes from a string, then SetCookie
		c := &protocol.Cookie{}
		_ = c.Parse(a.s(0))
		h.SetCookie(c)
	case "RespHeader.DelClientCookie":
		h.DelClientCookie(a.s(0))
	case "RespHeader.DelClientCookieBytes":
		h.DelClientCookieBytes(a.b(0))
	case "RespTrailer.Set":
		_ = h.Trailer().Set(a.s(0), a.s(1))
	case "RespTrailer.Add":
		_ = h.Trailer().Add(a.s(0), a.s(1))
	case "RespTrailer.UpdateArgBytes":
		_ = h.Trailer().UpdateArgBytes(a.b(0), a.b(1))
	case "RespTrailer.SetTrailers":
		_ = h.Trailer().SetTrailers(a.b(0))
	case "RespHeader.Del":
		h.Del(a.s(0))
	case "RespHeader.DisableNormalizing":
		h.DisableNormalizing()
	default:
		return false
	}
	return true
}

func ctxCall(c *app.RequestContext, e string, a args) bool {
	switch e {
	case "Ctx.Header":
		c.Header(a.s(0), a.s(1))
	case "Ctx.SetCookie": // name, value, path, domain
		c.SetCookie(a.s(0), a.s(1), 1, a.s(2), a.s(3), protocol.CookieSameSiteLaxMode, true, true)
	case "Ctx.SetPartitionedCookie":
		c.SetPartitionedCookie(a.s(0), a.s(1), 1, a.s(2), a.s(3), protocol.CookieSameSiteNoneMode, true, true)
	case "Ctx.Redirect":
		c.Redirect(302, a.b(0))
	case "Ctx.SetContentType":
		c.SetContentType(a.s(0))
	case "Ctx.SetContentTypeBytes":
		c.SetContentTypeBytes(a.b(0))
	case "Ctx.Data":
		c.Data(200, a.s(0), nil)
	case "Ctx.RespTrailer.Set":
		_ = c.Response.Header.Trailer().Set(a.s(0), a.s(1))
	case "Ctx.SetConnectionClose":
		c.SetConnectionClose()
	default:
		return false
	}
	return true
}

func emitSer(tr *vtrace.Writer, obs string, b []byte, err error) {
	if err != nil {
		// a refused message: the specification accepts it only if nothing was written
		tr.Emit("Serialized", vtrace.Rec{"obs": obs, "err": true, "bytes": ints(b), "msg": err.Error()})
		return
	}
	tr.Emit("Serialized", vtrace.Rec{"obs": obs, "err": false, "bytes": ints(b), "msg": ""})
}

func runCase(tr *vtrace.Writer, c *Case) {
	calls := make([]vtrace.Rec, len(c.Calls))
	for i, cl := range c.Calls {
		a := make([][]int, len(cl.A))
		for j := range cl.A {
			a[j] = append([]int{}, cl.A[j]...)
		}
		calls[i] = vtrace.Rec{"e": cl.E, "a": a}
	}
	tr.Emit("Case", vtrace.Rec{"id": c.ID, "tgt": c.Tgt, "body": c.Body, "calls": calls, "rawsink": c.Rawsink,
		"emptytrailer": c.EmptyTrailer, "connconflict": c.ConnConflict,
		"framingconflict": c.FramingConflict})
	defer tr.Emit("End", nil)
	defer func() {
		if r := recover(); r != nil {
			tr.Emit("Panic", vtrace.Rec{"msg": fmt.Sprint(r)})
		}
	}()
	stream := c.Body == "stream"
	switch c.Tgt {
	case "req":
		r := &protocol.Request{}
		r.SetRequestURI("http://example.com/p")
		if stream {
			r.SetMethod("POST")
		}
		for _, cl := range c.Calls {
			if !reqCall(r, cl.E, args(cl.A)) {
				fatal("unknown entry point " + cl.E)
			}
		}
		if stream {
			r.SetBodyStream(bytes.NewReader([]byte("B")), -1)
		}
		emitSer(tr, "header", r.Header.Header(), nil)
		emitSer(tr, "trailer", r.Header.Trailer().Header(), nil)
		w := &memWriter{}
		err := req.Write(r, w)
		emitSer(tr, "message", w.b.Bytes(), err)
	case "resp", "ctx":
		var r *protocol.Response
		if c.Tgt == "resp" {
			r = &protocol.Response{}
			for _, cl := range c.Calls {
				if !respCall(r, cl.E, args(cl.A)) {
					fatal("unknown entry point " + cl.E)
				}
			}
		} else {
			ctx := app.NewContext(0)
			for _, cl := range c.Calls {
				if !ctxCall(ctx, cl.E, args(cl.A)) {
					fatal("unknown entry point " + cl.E)
				}
			}
			r = &ctx.Response
		}
		if stream {
			r.SetBodyStream(bytes.NewReader([]byte("B")), -1)
		}
		emitSer(tr, "header", r.Header.Header(), nil)
		emitSer(tr, "trailer", r.Header.Trailer().Header(), nil)
		w := &memWriter{}
		err := resp.Write(r, w)
		emitSer(tr, "message", w.b.Bytes(), err)
	default:
		fatal("unknown target " + c.Tgt)
	}
}

func fatal(msg string) {
	fmt.Fprintln(os.Stderr, "c05 driver:", msg)
	os.Exit(2)
}

func main() {
	cases := flag.String("cases", "", "ndjson case file written by TLC")
	out := flag.String("out", "", "output directory for trace chunks")
	chunks := flag.Int("chunks", 16, "number of trace files")
	flag.Parse()
	hlog.SetOutput(io.Discard) // cookie.go warns about every invalid cookie byte
	f, err := os.Open(*cases)
	if err != nil {
		fatal(err.Error())
	}
	var all []*Case
	sc := bufio.NewScanner(f)
	sc.Buffer(make([]byte, 1<<20), 1<<26)
	for sc.Scan() {
		c := &Case{}
		if err := json.Unmarshal(sc.Bytes(), c); err != nil {
			fatal("bad case line: " + err.Error())
		}
		all = append(all, c)
	}
	n := *chunks
	if n > len(all) {
		n = len(all)
	}
	if n < 1 {
		fatal("no cases")
	}
	var wg sync.WaitGroup
	for k := 0; k < n; k++ {
		wg.Add(1)
		go func(k int) {
			defer wg.Done()
			tr, err := vtrace.Create(filepath.Join(*out, fmt.Sprintf("trace_%03d.ndjson", k)))
			if err != nil {
				panic(err)
			}
			lo, hi := len(all)*k/n, len(all)*(k+1)/n
			for _, c := range all[lo:hi] {
				runCase(tr, c)
			}
			tr.Close()
		}(k)
	}
	wg.Wait()
	fmt.Printf("{\"cases\":%d,\"chunks\":%d}\n", len(all), n)
}
