// Driver for C18: forces the shutdown schedule classes enumerated by spec/ShutdownGen.tla on a REAL server.Hertz
// listening on a loopback port (standard and netpoll transport), with raw TCP clients, and records what the
// public API lets an application observe (spec/ShutdownTrace.tla validates it):
//
//	Dial{c} Connected{c} DialFailed{c} Accept{c} OnConnect{c} OnConnectDone{c} HandlerEnter{c,r} HandlerExit{c,r,running}
//	ResponseComplete{c,r,status,close,bytesOk,n} ResponseTruncated{c,r} ResponseNone{c,r,why} SendFailed{c,r}
//	ShutdownCall{k} ShutdownReturn{k,err,elapsedMs} ShutdownHung{k} HookStart{h} HookEnd{h}
//	DialAfter{result} RunReturn{err} RaceTrial{t,callers,nils,errs} Panic{msg} End
//
// Events are appended to one log under a mutex; the log order is used by the specification only as "recorded
// before" (a happens-before edge through the mutex), never as wall-clock order.  The driver contains no expected
// values and never decides pass/fail; "patience" time-outs only bound how long it waits before it records that
// something did not happen (ShutdownHung, ResponseNone{why:"timeout"}).
//
// The order *status flip -> OnShutdown hooks* lets hook 1 signal "the shutdown has begun"; handlers are gated by
// channels, so each schedule class is forced without any hook in hertz.
package main

import (
	"bufio"
	"bytes"
	"context"
	"encoding/json"
	"flag"
	"fmt"
	"io"
	"math/rand"
	"net"
	"net/http"
	"os"
	"path/filepath"
	"runtime"
	"strconv"
	"sync"
	"sync/atomic"
	"time"

	"github.com/cloudwego/hertz/pkg/app"
	"github.com/cloudwego/hertz/pkg/app/server"
	"github.com/cloudwego/hertz/pkg/common/config"
	"github.com/cloudwego/hertz/pkg/common/hlog"
	"github.com/cloudwego/hertz/pkg/network"
	"github.com/cloudwego/hertz/pkg/network/netpoll"
	"github.com/cloudwego/hertz/pkg/network/standard"

	"verif/harness/vtrace"
)

type Case struct {
	ID     int      `json:"id"`
	Cls    string   `json:"cls"`
	Tp     string   `json:"tp"`
	WaitMs int      `json:"waitMs"`
	IdleMs int      `json:"idleMs"`
	Conns  []string `json:"conns"`
	Hooks  []string `json:"hooks"`
	Second string   `json:"second"`
	Jit    int      `json:"jit"`
	Seed   int      `json:"seed"`
	Trials int      `json:"trials"`
}

const (
	raceCallers = 4
	smallBody   = 64
	bigBody     = 8 << 20
	patience    = 20 * time.Second // how long a client / the driver waits before recording that nothing happened
	// a request sent after the shutdown began may never be looked at (connection left in the kernel backlog): the
	// client gives up after shortPatience unless the handler of that request has been entered
	shortPatience = 3 * time.Second
)

func slack(waitMs int) int {
	if 10*waitMs > 1000 {
		return 10 * waitMs
	}
	return 1000
}

// ---------------------------------------------------------------- event log

type evlog struct {
	mu    sync.Mutex
	evs   []vtrace.Rec
	addrs map[string]int // client local address -> connection id
}

func (l *evlog) emit(ev string, r vtrace.Rec) {
	if r == nil {
		r = vtrace.Rec{}
	}
	r["ev"] = ev
	l.mu.Lock()
	l.evs = append(l.evs, r)
	l.mu.Unlock()
}

func (l *evlog) register(addr string, c int) {
	l.mu.Lock()
	l.addrs[addr] = c
	l.mu.Unlock()
}

// lookup waits (briefly) until the client that owns the address has registered it; -1 if nobody does
func (l *evlog) lookup(addr string, wait time.Duration) int {
	deadline := time.Now().Add(wait)
	for {
		l.mu.Lock()
		c, ok := l.addrs[addr]
		l.mu.Unlock()
		if ok {
			return c
		}
		if time.Now().After(deadline) {
			return -1
		}
		time.Sleep(100 * time.Microsecond)
	}
}

func (l *evlog) flush(tr *vtrace.Writer) {
	l.mu.Lock()
	defer l.mu.Unlock()
	for _, r := range l.evs {
		ev := r["ev"].(string)
		if ev == "Accept" || ev == "OnConnect" || ev == "OnConnectDone" {
			c, ok := l.addrs[r["addr"].(string)]
			if !ok {
				c = -1
			}
			delete(r, "addr")
			r["c"] = c
		}
		delete(r, "ev")
		tr.Emit(ev, r)
	}
}

// ---------------------------------------------------------------- one running case

type connCtl struct {
	kind    string
	gate    chan struct{} // closed by the driver: the gated handler may return
	gated   bool
	entered chan int // handler entered (request number)
	lastEnt int32    // highest request number whose handler was entered

	cbGate    chan struct{} // kinds aL / cL: closed by the client, the OnAccept / OnConnect callback may return
	cbEntered chan struct{} // closed by the callback when it holds the connection
	cbOnce    sync.Once
}

type run struct {
	c      *Case
	log    *evlog
	h      *server.Hertz
	addr   string
	ctl    []*connCtl // index = connection id (0 = the DialAfter probe)
	phaseB chan struct{}
	phaseC chan struct{}
	conns  sync.Map // id -> net.Conn (closed at the end of the case)

	hookStarts int32
}

func body(c, r, n int) []byte {
	unit := []byte(fmt.Sprintf("c%d-r%d.", c, r))
	b := make([]byte, 0, n+len(unit))
	for len(b) < n {
		b = append(b, unit...)
	}
	return b[:n]
}

func bodySize(kind string) int {
	if kind == "bW" {
		return bigBody
	}
	return smallBody
}

type lnIface interface{ Listener() net.Listener }

// hold, when set, is called by the OnAccept ("aL") and OnConnect ("cL") callbacks with the peer address; it blocks
// while the driver holds that connection inside the callback
func newServer(c *Case, log *evlog, hold func(stage, addr string)) (*server.Hertz, func() network.Transporter) {
	var captured network.Transporter
	mk := standard.NewTransporter
	if c.Tp == "netpoll" {
		mk = netpoll.NewTransporter
	}
	opts := []config.Option{
		server.WithHostPorts("127.0.0.1:0"),
		server.WithExitWaitTime(time.Duration(c.WaitMs) * time.Millisecond),
		server.WithTransport(func(o *config.Options) network.Transporter { captured = mk(o); return captured }),
		server.WithDisablePrintRoute(true),
		server.WithOnAccept(func(conn net.Conn) context.Context {
			log.emit("Accept", vtrace.Rec{"addr": conn.RemoteAddr().String()})
			if hold != nil {
				hold("aL", conn.RemoteAddr().String())
			}
			return context.Background()
		}),
		server.WithOnConnect(func(ctx context.Context, conn network.Conn) context.Context {
			log.emit("OnConnect", vtrace.Rec{"addr": conn.RemoteAddr().String()})
			if hold != nil {
				hold("cL", conn.RemoteAddr().String())
			}
			log.emit("OnConnectDone", vtrace.Rec{"addr": conn.RemoteAddr().String()})
			return ctx
		}),
	}
	if c.IdleMs > 0 {
		opts = append(opts, server.WithIdleTimeout(time.Duration(c.IdleMs)*time.Millisecond))
	}
	return server.New(opts...), func() network.Transporter { return captured }
}

// hold runs inside the transport's OnAccept / OnConnect callback: a connection of kind `stage` is held there until
// its client opens the gate (after Shutdown has returned)
func (x *run) hold(stage, addr string) {
	c := x.log.lookup(addr, 2*time.Second)
	if c <= 0 || c >= len(x.ctl) || x.ctl[c].kind != stage {
		return
	}
	ctl := x.ctl[c]
	ctl.cbOnce.Do(func() { close(ctl.cbEntered) })
	select {
	case <-ctl.cbGate:
	case <-time.After(3 * patience):
	}
}

func (x *run) handler(_ context.Context, ctx *app.RequestContext) {
	c, _ := strconv.Atoi(ctx.Param("c"))
	r, _ := strconv.Atoi(ctx.Param("r"))
	x.log.emit("HandlerEnter", vtrace.Rec{"c": c, "r": r})
	kind := "probe"
	if c >= 0 && c < len(x.ctl) {
		ctl := x.ctl[c]
		kind = ctl.kind
		atomic.StoreInt32(&ctl.lastEnt, int32(r))
		select {
		case ctl.entered <- r:
		default:
		}
		if ctl.gated && r == 1 {
			<-ctl.gate
		}
		if kind == "rR" {
			d, _ := strconv.Atoi(string(ctx.QueryArgs().Peek("d")))
			time.Sleep(time.Duration(d) * time.Millisecond)
		}
	}
	ctx.Data(200, "text/plain", body(c, r, bodySize(kind)))
	running := x.h.IsRunning()
	x.log.emit("HandlerExit", vtrace.Rec{"c": c, "r": r, "running": running})
}

// ---------------------------------------------------------------- clients

type countReader struct {
	r io.Reader
	n int64
}

func (c *countReader) Read(p []byte) (int, error) {
	n, err := c.r.Read(p)
	c.n += int64(n)
	return n, err
}

type client struct {
	x    *run
	id   int
	kind string
	conn net.Conn
	cr   *countReader
	br   *bufio.Reader
	rng  *rand.Rand
}

func (cl *client) jitter() {
	if cl.x.c.Jit == 1 {
		time.Sleep(time.Duration(cl.rng.Intn(8000)) * time.Microsecond)
	}
}

func (cl *client) dial() bool {
	cl.x.log.emit("Dial", vtrace.Rec{"c": cl.id})
	conn, err := net.DialTimeout("tcp", cl.x.addr, 3*time.Second)
	if err != nil {
		cl.x.log.emit("DialFailed", vtrace.Rec{"c": cl.id})
		return false
	}
	if cl.kind == "bW" {
		conn.(*net.TCPConn).SetReadBuffer(64 << 10) //nolint:errcheck
	}
	cl.x.log.register(conn.LocalAddr().String(), cl.id)
	cl.x.conns.Store(cl.id, conn)
	cl.conn = conn
	cl.cr = &countReader{r: conn}
	cl.br = bufio.NewReaderSize(cl.cr, 64<<10)
	cl.x.log.emit("Connected", vtrace.Rec{"c": cl.id})
	return true
}

func (cl *client) reqBytes(r, d int) []byte {
	if cl.kind == "bH" { // an HTTP/1.0 client that asks for keep-alive
		return []byte(fmt.Sprintf("GET /c/%d/%d?d=%d HTTP/1.0\r\nHost: c18.verif\r\nUser-Agent: c18\r\nConnection: keep-alive\r\n\r\n", cl.id, r, d))
	}
	return []byte(fmt.Sprintf("GET /c/%d/%d?d=%d HTTP/1.1\r\nHost: c18.verif\r\nUser-Agent: c18\r\n\r\n", cl.id, r, d))
}

func (cl *client) write(r int, b []byte) bool {
	cl.conn.SetWriteDeadline(time.Now().Add(patience)) //nolint:errcheck
	if _, err := cl.conn.Write(b); err != nil {
		cl.x.log.emit("SendFailed", vtrace.Rec{"c": cl.id, "r": r})
		return false
	}
	return true
}

// read one response; returns (complete, close)
func (cl *client) read(r int) (bool, bool) {
	t0 := time.Now()
	for cl.id > 0 {
		cl.conn.SetReadDeadline(time.Now().Add(250 * time.Millisecond)) //nolint:errcheck
		_, err := cl.br.Peek(1)
		ne, isNet := err.(net.Error)
		if err == nil || !isNet || !ne.Timeout() {
			break // first byte of the response, or the connection ended
		}
		begun := false
		select {
		case <-cl.x.phaseB:
			begun = true
		default:
		}
		waited := time.Since(t0)
		enteredR := atomic.LoadInt32(&cl.x.ctl[cl.id].lastEnt) >= int32(r)
		if waited > patience || (begun && !enteredR && waited > shortPatience) {
			break
		}
	}
	cl.conn.SetReadDeadline(time.Now().Add(patience)) //nolint:errcheck
	start, buffered := cl.cr.n, cl.br.Buffered()
	resp, err := http.ReadResponse(cl.br, nil)
	if err != nil {
		if cl.cr.n == start && buffered == 0 { // not a single byte of a response arrived
			why := "eof"
			if ne, ok := err.(net.Error); ok && ne.Timeout() {
				why = "timeout"
			} else if err != io.EOF && err != io.ErrUnexpectedEOF {
				why = "reset"
			}
			cl.x.log.emit("ResponseNone", vtrace.Rec{"c": cl.id, "r": r, "why": why})
		} else {
			cl.x.log.emit("ResponseTruncated", vtrace.Rec{"c": cl.id, "r": r, "where": "head"})
		}
		return false, false
	}
	b, err := io.ReadAll(resp.Body)
	resp.Body.Close()
	if err != nil {
		cl.x.log.emit("ResponseTruncated", vtrace.Rec{"c": cl.id, "r": r, "where": "body", "n": len(b)})
		return false, false
	}
	want := body(cl.id, r, bodySize(cl.kind))
	cl.x.log.emit("ResponseComplete", vtrace.Rec{"c": cl.id, "r": r, "status": resp.StatusCode, "close": resp.Close,
		"bytesOk": resp.StatusCode == 200 && resp.ContentLength == int64(len(want)) && bytes.Equal(b, want), "n": len(b)})
	return true, resp.Close
}

func (cl *client) waitEntered() {
	select {
	case <-cl.x.ctl[cl.id].entered:
	case <-time.After(patience):
	}
}

// script of one connection; ready() is called once when its part before the shutdown call is done
func (cl *client) script(ready func()) {
	x := cl.x
	rdy := false
	defer func() {
		if !rdy {
			ready()
		}
	}()
	markReady := func() { rdy = true; ready() }
	switch cl.kind {
	case "sB", "iK", "iR":
		cl.jitter()
		if !cl.dial() || !cl.write(1, cl.reqBytes(1, 0)) {
			return
		}
		ok, cls := cl.read(1)
		if cl.kind == "sB" {
			cl.conn.Close()
		}
		markReady()
		if cl.kind == "iR" && ok && !cls {
			<-x.phaseB
			cl.jitter()
			if cl.write(2, cl.reqBytes(2, 0)) {
				cl.read(2)
			}
		}
	case "bA", "bL", "bH":
		cl.jitter()
		if !cl.dial() || !cl.write(1, cl.reqBytes(1, 0)) {
			return
		}
		cl.waitEntered()
		markReady()
		if cl.kind != "bL" {
			<-x.phaseB
		} else {
			<-x.phaseC
		}
		cl.jitter()
		close(x.ctl[cl.id].gate)
		cl.read(1)
	case "mR":
		cl.jitter()
		rq := cl.reqBytes(1, 0)
		if !cl.dial() || !cl.write(1, rq[:len(rq)/2]) {
			return
		}
		time.Sleep(20 * time.Millisecond) // let the half request reach the server (not relied upon by the specification)
		markReady()
		<-x.phaseB
		cl.jitter()
		if cl.write(1, rq[len(rq)/2:]) {
			cl.read(1)
		}
	case "fR":
		cl.jitter()
		if !cl.dial() {
			return
		}
		time.Sleep(20 * time.Millisecond)
		markReady()
		<-x.phaseB
		cl.jitter()
		if cl.write(1, cl.reqBytes(1, 0)) {
			cl.read(1)
		}
	case "bW":
		cl.jitter()
		if !cl.dial() || !cl.write(1, cl.reqBytes(1, 0)) {
			return
		}
		cl.waitEntered()
		time.Sleep(10 * time.Millisecond) // the handler returns at once; the server is now writing 8 MiB to a peer that does not read
		markReady()
		<-x.phaseB
		cl.jitter()
		cl.read(1)
	case "aL", "cL":
		// dialled by the driver after every other connection is through its first phase (the callback blocks the
		// accept loop of the standard transport)
		cl.jitter()
		if !cl.dial() || !cl.write(1, cl.reqBytes(1, 0)) {
			return
		}
		select {
		case <-x.ctl[cl.id].cbEntered: // the request is in the socket buffer, the connection is held in the callback
		case <-time.After(2 * time.Second): // (a second held connection behind a blocked accept loop never gets there)
		}
		markReady()
		<-x.phaseC
		cl.jitter()
		close(x.ctl[cl.id].cbGate)
		cl.read(1)
	case "dD":
		markReady()
		<-x.phaseB
		cl.jitter()
		if cl.dial() && cl.write(1, cl.reqBytes(1, 0)) {
			cl.read(1)
		}
	case "rR":
		cl.jitter()
		if !cl.dial() {
			return
		}
		n := 2 + cl.rng.Intn(4)
		for r := 1; r <= n; r++ {
			if !cl.write(r, cl.reqBytes(r, cl.rng.Intn(25))) {
				break
			}
			if r == 1 {
				markReady()
			}
			ok, cls := cl.read(r)
			if !ok || cls {
				break
			}
			time.Sleep(time.Duration(cl.rng.Intn(12000)) * time.Microsecond)
		}
	default:
		panic("unknown connection kind " + cl.kind)
	}
}

// ---------------------------------------------------------------- shutdown callers, hooks

func errClass(err error) string {
	switch {
	case err == nil:
		return "nil"
	case err.Error() == "engine is not running":
		return "notRunning"
	default:
		return "other"
	}
}

// call Shutdown as caller k; returns a channel closed when it has returned (and was logged)
func shutdownCaller(log *evlog, h *server.Hertz, k int, start <-chan struct{}) chan string {
	done := make(chan string, 1)
	go func() {
		if start != nil {
			<-start
		}
		log.emit("ShutdownCall", vtrace.Rec{"k": k})
		t0 := time.Now()
		err := h.Shutdown(context.Background())
		el := time.Since(t0)
		log.emit("ShutdownReturn", vtrace.Rec{"k": k, "err": errClass(err), "elapsedMs": int(el / time.Millisecond)})
		done <- errClass(err)
		close(done)
	}()
	return done
}

// wait for a caller; records ShutdownHung{k} when the patience is exhausted; returns the error class or "hung"
func awaitCaller(log *evlog, k int, done chan string, limit time.Duration) string {
	select {
	case e := <-done:
		return e
	case <-time.After(limit):
		log.emit("ShutdownHung", vtrace.Rec{"k": k, "waitedMs": int(limit / time.Millisecond)})
		return "hung"
	}
}

func (x *run) installHooks(begun chan struct{}, hooksDone *sync.WaitGroup) {
	wait := time.Duration(x.c.WaitMs) * time.Millisecond
	var begunOnce sync.Once
	for i, kind := range x.c.Hooks {
		i, kind := i+1, kind
		hooksDone.Add(1)
		var doneOnce sync.Once // a hook that is run twice is logged twice (and rejected by the specification)
		x.h.OnShutdown = append(x.h.OnShutdown, func(ctx context.Context) {
			x.log.emit("HookStart", vtrace.Rec{"h": i})
			atomic.AddInt32(&x.hookStarts, 1)
			if i == 1 {
				begunOnce.Do(func() { close(begun) })
			}
			switch kind {
			case "slow":
				time.Sleep(wait * 2 / 3)
			case "beyond":
				// ignores its context and overruns the bound on Shutdown's return; the case does not wait for it
				doneOnce.Do(hooksDone.Done)
				time.Sleep(wait + time.Duration(slack(x.c.WaitMs)+500)*time.Millisecond)
			}
			x.log.emit("HookEnd", vtrace.Rec{"h": i})
			doneOnce.Do(hooksDone.Done)
		})
	}
}

func waitTimeout(wg *sync.WaitGroup, d time.Duration) bool {
	ch := make(chan struct{})
	go func() { wg.Wait(); close(ch) }()
	select {
	case <-ch:
		return true
	case <-time.After(d):
		return false
	}
}

// ---------------------------------------------------------------- the three case classes

func runServerCase(c *Case, log *evlog) {
	x := &run{c: c, log: log, phaseB: make(chan struct{}), phaseC: make(chan struct{})}
	var hold func(stage, addr string)
	for _, k := range c.Conns {
		if k == "aL" || k == "cL" {
			hold = x.hold
		}
	}
	h, transporter := newServer(c, log, hold)
	x.h = h
	x.ctl = make([]*connCtl, len(c.Conns)+1)
	x.ctl[0] = &connCtl{kind: "probe", entered: make(chan int, 8)}
	for i, k := range c.Conns {
		x.ctl[i+1] = &connCtl{kind: k, gate: make(chan struct{}), gated: k == "bA" || k == "bL" || k == "bH", entered: make(chan int, 8),
			cbGate: make(chan struct{}), cbEntered: make(chan struct{})}
	}
	h.GET("/c/:c/:r", x.handler)
	begun := make(chan struct{})
	var hooksDone sync.WaitGroup
	x.installHooks(begun, &hooksDone)

	runRet := make(chan struct{})
	go func() {
		defer close(runRet)
		defer func() {
			if r := recover(); r != nil {
				log.emit("RunReturn", vtrace.Rec{"err": "panic"})
			}
		}()
		err := h.Run()
		log.emit("RunReturn", vtrace.Rec{"err": errClass(err)})
	}()
	// wait until the server is running and listening
	deadline := time.Now().Add(patience)
	for {
		if h.IsRunning() {
			if t, ok := transporter().(lnIface); ok && t.Listener() != nil {
				x.addr = t.Listener().Addr().String()
				break
			}
		}
		if time.Now().After(deadline) {
			fmt.Fprintln(os.Stderr, "server did not start")
			os.Exit(3)
		}
		time.Sleep(200 * time.Microsecond)
	}
	defer func() {
		x.conns.Range(func(_, v interface{}) bool { v.(net.Conn).Close(); return true })
		h.Close() //nolint:errcheck  // frees the port when the shutdown under test did not
	}()

	// phase A: every connection does its part before the shutdown call
	var ready, othersReady, finished sync.WaitGroup
	var heldTurn sync.Mutex // held connections dial one after the other
	for i, k := range c.Conns {
		cl := &client{x: x, id: i + 1, kind: k, rng: rand.New(rand.NewSource(int64(c.Seed)*31 + int64(i)))}
		held := k == "aL" || k == "cL"
		ready.Add(1)
		finished.Add(1)
		if !held {
			othersReady.Add(1)
		}
		go func() {
			defer finished.Done()
			defer func() {
				if r := recover(); r != nil {
					log.emit("Panic", vtrace.Rec{"msg": fmt.Sprint(r)})
				}
			}()
			if held {
				waitTimeout(&othersReady, patience)
				heldTurn.Lock()
				cl.script(func() { heldTurn.Unlock(); ready.Done() })
			} else {
				cl.script(func() { othersReady.Done(); ready.Done() })
			}
		}()
	}
	waitTimeout(&ready, patience)
	rng := rand.New(rand.NewSource(int64(c.Seed)))
	if c.Jit == 1 {
		time.Sleep(time.Duration(rng.Intn(30000)) * time.Microsecond)
	}

	// the shutdown call(s)
	wait := time.Duration(c.WaitMs) * time.Millisecond
	limit := wait + time.Duration(slack(c.WaitMs))*time.Millisecond + 5*time.Second
	var d1, d2 chan string
	if c.Second == "race" {
		start := make(chan struct{})
		d1 = shutdownCaller(log, h, 1, start)
		d2 = shutdownCaller(log, h, 2, start)
		close(start)
	} else {
		d1 = shutdownCaller(log, h, 1, nil)
	}
	// "the shutdown has begun": hook 1 ran (or, if it never does, the first call returned / the patience ran out)
	r1, r2 := "", ""
	select {
	case <-begun:
	case r1 = <-d1:
	case <-time.After(limit):
	}
	close(x.phaseB)
	if c.Second == "during" {
		r2 = awaitCaller(log, 2, shutdownCaller(log, h, 2, nil), limit)
	}
	if r1 == "" {
		r1 = awaitCaller(log, 1, d1, limit)
	}
	if d2 != nil {
		r2 = awaitCaller(log, 2, d2, limit)
	}
	close(x.phaseC)
	if c.Second == "after" {
		r2 = awaitCaller(log, 2, shutdownCaller(log, h, 2, nil), limit)
	}
	if r1 == "nil" || r2 == "nil" {
		// no new connection is accepted afterwards: probe with a fresh dial
		p := &client{x: x, id: 0, kind: "probe", rng: rng}
		log.emit("Dial", vtrace.Rec{"c": 0})
		conn, err := net.DialTimeout("tcp", x.addr, 2*time.Second)
		result := "refused"
		if err == nil {
			log.register(conn.LocalAddr().String(), 0)
			x.conns.Store(0, conn)
			p.conn = conn
			result = "connectedButNeverServed"
			conn.SetDeadline(time.Now().Add(2 * time.Second)) //nolint:errcheck
			if _, err := conn.Write(p.reqBytes(1, 0)); err == nil {
				if resp, err := http.ReadResponse(bufio.NewReader(conn), nil); err == nil {
					resp.Body.Close()
					result = "served"
				}
			}
		}
		log.emit("DialAfter", vtrace.Rec{"result": result})
	}
	if c.Second == "closed" {
		select {
		case <-runRet:
		case <-time.After(patience):
		}
		awaitCaller(log, 2, shutdownCaller(log, h, 2, nil), limit)
	}
	waitTimeout(&finished, 2*patience)
	if atomic.LoadInt32(&x.hookStarts) == 0 {
		waitTimeout(&hooksDone, time.Second) // no hook has started although every caller is back: do not wait for long
	} else {
		waitTimeout(&hooksDone, 2*wait+patience)
	}
}

func runNotRun(c *Case, log *evlog) {
	h, _ := newServer(c, log, nil)
	x := &run{c: c, log: log, h: h}
	var hooksDone sync.WaitGroup
	x.installHooks(make(chan struct{}), &hooksDone)
	limit := time.Duration(c.WaitMs+slack(c.WaitMs))*time.Millisecond + 5*time.Second
	awaitCaller(log, 1, shutdownCaller(log, h, 1, nil), limit)
	awaitCaller(log, 2, shutdownCaller(log, h, 2, nil), limit)
}

// raceCallers Shutdown calls released together by a spin barrier on an engine that is running (Init + MarkAsRunning;
// no listener, so a trial costs one 10 ms tick of the standard transport at most)
func runRaceN(c *Case, log *evlog) {
	for t := 1; t <= c.Trials; t++ {
		h, _ := newServer(c, log, nil)
		if err := h.Engine.Init(); err != nil {
			panic(err)
		}
		if err := h.Engine.MarkAsRunning(); err != nil {
			panic(err)
		}
		var start, rdy int32
		var res [raceCallers]string
		var wg sync.WaitGroup
		for k := 0; k < raceCallers; k++ {
			wg.Add(1)
			go func(k int) {
				defer wg.Done()
				atomic.AddInt32(&rdy, 1)
				for atomic.LoadInt32(&start) == 0 {
				}
				res[k] = errClass(h.Shutdown(context.Background()))
			}(k)
		}
		for atomic.LoadInt32(&rdy) < raceCallers {
			runtime.Gosched()
		}
		atomic.StoreInt32(&start, 1)
		wg.Wait()
		nils, errs := 0, 0
		for _, e := range res {
			if e == "nil" {
				nils++
			} else {
				errs++
			}
		}
		log.emit("RaceTrial", vtrace.Rec{"t": t, "callers": raceCallers, "nils": nils, "errs": errs})
	}
}

func runCase(tr *vtrace.Writer, c *Case) {
	log := &evlog{addrs: map[string]int{}}
	func() {
		defer func() {
			if r := recover(); r != nil {
				log.emit("Panic", vtrace.Rec{"msg": fmt.Sprint(r)})
			}
		}()
		switch c.Cls {
		case "run":
			runServerCase(c, log)
		case "notRun":
			runNotRun(c, log)
		case "raceN":
			runRaceN(c, log)
		default:
			panic("unknown case class " + c.Cls)
		}
	}()
	conns, hooks := c.Conns, c.Hooks
	if conns == nil {
		conns = []string{}
	}
	if hooks == nil {
		hooks = []string{}
	}
	tr.Emit("Case", vtrace.Rec{"id": c.ID, "cls": c.Cls, "tp": c.Tp, "waitMs": c.WaitMs, "idleMs": c.IdleMs, "conns": conns,
		"hooks": hooks, "second": c.Second, "jit": c.Jit, "seed": c.Seed, "trials": c.Trials})
	log.flush(tr)
	tr.Emit("End", nil)
}

func main() {
	cases := flag.String("cases", "", "ndjson case file written by TLC")
	out := flag.String("out", "", "output directory for trace chunks")
	chunks := flag.Int("chunks", 4, "number of trace files = number of cases run side by side")
	flag.Parse()
	hlog.SetLevel(hlog.LevelFatal)
	hlog.SetOutput(io.Discard)
	f, err := os.Open(*cases)
	if err != nil {
		fmt.Fprintln(os.Stderr, err)
		os.Exit(2)
	}
	var all []*Case
	sc := bufio.NewScanner(f)
	sc.Buffer(make([]byte, 1<<20), 1<<26)
	for sc.Scan() {
		c := &Case{}
		if err := json.Unmarshal(sc.Bytes(), c); err != nil {
			fmt.Fprintln(os.Stderr, "bad case line:", err)
			os.Exit(2)
		}
		all = append(all, c)
	}
	n := *chunks
	if n > len(all) {
		n = len(all)
	}
	if n < 1 {
		n = 1
	}
	// round-robin so that every worker gets a mix of short and long cases
	var wg sync.WaitGroup
	for k := 0; k < n; k++ {
		wg.Add(1)
		go func(k int) {
			defer wg.Done()
			tr, err := vtrace.Create(filepath.Join(*out, fmt.Sprintf("trace_%03d.ndjson", k)))
			if err != nil {
				panic(err)
			}
			for i := k; i < len(all); i += n {
				runCase(tr, all[i])
			}
			tr.Close()
		}(k)
	}
	wg.Wait()
	fmt.Printf("{\"cases\":%d,\"chunks\":%d}\n", len(all), n)
}
