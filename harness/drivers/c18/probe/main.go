// throw-away probe (deleted before delivery)
package main

import (
	"bufio"
	"context"
	"fmt"
	"net"
	"net/http"
	"os"
	"runtime"
	"sync"
	"sync/atomic"
	"time"

	"github.com/cloudwego/hertz/pkg/app"
	"github.com/cloudwego/hertz/pkg/app/server"
	"github.com/cloudwego/hertz/pkg/common/config"
	"github.com/cloudwego/hertz/pkg/common/hlog"
	"github.com/cloudwego/hertz/pkg/network"
	"github.com/cloudwego/hertz/pkg/network/netpoll"
	"github.com/cloudwego/hertz/pkg/network/standard"
	"github.com/cloudwego/hertz/pkg/route"
)

type lnIface interface{ Listener() net.Listener }

func mk(tp string, wait time.Duration) (*server.Hertz, func() string) {
	var captured network.Transporter
	f := standard.NewTransporter
	if tp == "netpoll" {
		f = netpoll.NewTransporter
	}
	h := server.New(server.WithHostPorts("127.0.0.1:0"), server.WithExitWaitTime(wait),
		server.WithTransport(func(o *config.Options) network.Transporter { captured = f(o); return captured }),
		server.WithDisablePrintRoute(true),
		server.WithOnAccept(func(c net.Conn) context.Context { fmt.Println("  onaccept", c.RemoteAddr()); return context.Background() }))
	return h, func() string {
		for i := 0; i < 2000; i++ {
			if h.IsRunning() {
				if l := captured.(lnIface).Listener(); l != nil {
					return l.Addr().String()
				}
			}
			time.Sleep(time.Millisecond)
		}
		return ""
	}
}

func req(c net.Conn, path string) {
	fmt.Fprintf(c, "GET %s HTTP/1.1\r\nHost: x\r\n\r\n", path)
}

func read(c net.Conn, br *bufio.Reader) string {
	c.SetReadDeadline(time.Now().Add(3 * time.Second))
	r, err := http.ReadResponse(br, nil)
	if err != nil {
		return "ERR " + err.Error()
	}
	b := make([]byte, 100)
	n, _ := r.Body.Read(b)
	return fmt.Sprintf("%d close=%v body=%q", r.StatusCode, r.Close, b[:n])
}

func main() {
	hlog.SetLevel(hlog.LevelFatal)
	for _, tp := range []string{} {
		fmt.Println("=====", tp)
		// 1. shutdown without run
		h, _ := mk(tp, 200*time.Millisecond)
		t0 := time.Now()
		err := h.Shutdown(context.Background())
		fmt.Println("shutdown w/o run:", err, time.Since(t0))

		// 2. busy + idle + fresh + mid
		h, addr := mk(tp, 300*time.Millisecond)
		gate := make(chan struct{})
		h.GET("/busy", func(c context.Context, ctx *app.RequestContext) {
			<-gate
			ctx.String(200, "busy running=%v", h.IsRunning())
		})
		h.GET("/fast", func(c context.Context, ctx *app.RequestContext) { ctx.String(200, "fast running=%v", h.IsRunning()) })
		begun := make(chan struct{})
		h.OnShutdown = append(h.OnShutdown, func(ctx context.Context) {
			fmt.Println("  hook1 start running=", h.IsRunning())
			close(begun)
		}, func(ctx context.Context) {
			fmt.Println("  hook2 start")
			time.Sleep(100 * time.Millisecond)
			fmt.Println("  hook2 end")
		})
		runRet := make(chan error, 1)
		go func() { runRet <- h.Run() }()
		a := addr()
		fmt.Println("addr", a)
		busy, _ := net.Dial("tcp", a)
		req(busy, "/busy")
		idle, _ := net.Dial("tcp", a)
		ibr := bufio.NewReader(idle)
		req(idle, "/fast")
		fmt.Println("idle first:", read(idle, ibr))
		fresh, _ := net.Dial("tcp", a)
		mid, _ := net.Dial("tcp", a)
		fmt.Fprintf(mid, "GET /fast HTTP/1.1\r\nHo")
		time.Sleep(50 * time.Millisecond)
		var wg sync.WaitGroup
		wg.Add(1)
		go func() {
			defer wg.Done()
			t0 := time.Now()
			err := h.Shutdown(context.Background())
			fmt.Println("shutdown 1:", err, time.Since(t0))
		}()
		<-begun
		t0 = time.Now()
		err = h.Shutdown(context.Background())
		fmt.Println("shutdown 2 (during):", err, time.Since(t0))
		time.Sleep(30 * time.Millisecond)
		req(idle, "/fast")
		fmt.Println("idle after begun:", read(idle, ibr))
		req(fresh, "/fast")
		fmt.Println("fresh after begun:", read(fresh, bufio.NewReader(fresh)))
		fmt.Fprintf(mid, "st: x\r\n\r\n")
		fmt.Println("mid after begun:", read(mid, bufio.NewReader(mid)))
		d, err := net.DialTimeout("tcp", a, time.Second)
		fmt.Println("dial during:", err)
		if err == nil {
			req(d, "/fast")
			fmt.Println("dial during resp:", read(d, bufio.NewReader(d)))
		}
		wg.Wait()
		d, err = net.DialTimeout("tcp", a, time.Second)
		fmt.Println("dial after:", err)
		close(gate)
		fmt.Println("busy after return:", read(busy, bufio.NewReader(busy)))
		select {
		case e := <-runRet:
			fmt.Println("run returned", e)
		case <-time.After(time.Second):
			fmt.Println("run did not return within 1s")
		}
		t0 = time.Now()
		err = h.Shutdown(context.Background())
		fmt.Println("shutdown 3 (after):", err, time.Since(t0))
	}

	// CAS race stress on bare engines
	tStart := time.Now()
	var bothNil, total int64
	stub := func(o *config.Options) network.Transporter { return stubT{} }
	for i := 0; i < 100000; i++ {
		opt := config.NewOptions([]config.Option{server.WithTransport(stub), server.WithExitWaitTime(time.Millisecond), server.WithDisablePrintRoute(true)})
		e := route.NewEngine(opt)
		e.Init()
		e.MarkAsRunning()
		var start, ready int32
		var r [2]error
		var wg sync.WaitGroup
		for k := 0; k < 2; k++ {
			wg.Add(1)
			go func(k int) { defer wg.Done(); atomic.AddInt32(&ready, 1); for atomic.LoadInt32(&start) == 0 {}; r[k] = e.Shutdown(context.Background()) }(k)
		}
		for atomic.LoadInt32(&ready) < 2 { runtime.Gosched() }; atomic.StoreInt32(&start, 1)
		wg.Wait()
		atomic.AddInt64(&total, 1)
		if r[0] == nil && r[1] == nil {
			bothNil++
		}
	}
	fmt.Println("race: both nil", bothNil, "of", total, time.Since(tStart))
	os.Exit(0)
}

type stubT struct{}

func (stubT) Close() error                               { return nil }
func (stubT) Shutdown(ctx context.Context) error          { return nil }
func (stubT) ListenAndServe(onData network.OnData) error { select {} }
