// Driver for C12: runs handler-chain cases on the real route.Engine and records Enter/Next/Resume/Abort/Exit.
package main

import (
	"bufio"
	"context"
	"encoding/json"
	"errors"
	"flag"
	"fmt"
	"os"
	"path/filepath"
	"sync"

	"github.com/cloudwego/hertz/pkg/app"
	"github.com/cloudwego/hertz/pkg/common/config"
	"github.com/cloudwego/hertz/pkg/route"

	"verif/harness/vtrace"
)

type Case struct {
	ID    int      `json:"id"`
	Kind  string   `json:"kind"`
	Chain []string `json:"chain"`
	Prog  []Op     `json:"prog"`
}

// Op is one builder operation (kind "build").
type Op struct {
	Op string `json:"op"` // Use | Group | Register | NoRoute | NoMethod
	G  int    `json:"g"`  // group the op applies to (0 = engine)
	N  int    `json:"n"`  // Group: number of middleware passed to Group(); Register: number of route handlers
}

func handler(tr *vtrace.Writer, h int, beh string) app.HandlerFunc {
	ev := func(name string) { tr.Emit(name, vtrace.Rec{"h": h}) }
	next := func(c context.Context, ctx *app.RequestContext) {
		ev("Next")
		ctx.Next(c)
		ev("Resume")
	}
	return func(c context.Context, ctx *app.RequestContext) {
		ev("Enter")
		switch beh {
		case "Ret":
		case "NextRet":
			next(c, ctx)
		case "Abort":
			ev("Abort")
			ctx.Abort()
		case "NextAbort":
			next(c, ctx)
			ev("Abort")
			ctx.Abort()
		case "AbortNext":
			ev("Abort")
			ctx.Abort()
			next(c, ctx)
		case "NextNext":
			next(c, ctx)
			next(c, ctx)
		case "AbortWithStatus":
			// the whole AbortWith* family has the chain semantics of Abort: the handler's position picks the member
			ev("Abort")
			switch h % 4 {
			case 0:
				ctx.AbortWithStatus(403)
			case 1:
				ctx.AbortWithMsg("stop", 403)
			case 2:
				ctx.AbortWithStatusJSON(403, map[string]int{"h": h})
			default:
				ctx.AbortWithError(403, errors.New("stop")) //nolint:errcheck
			}
		default:
			panic("unknown behaviour " + beh)
		}
		ev("Exit")
	}
}

func newEngine() *route.Engine {
	opt := config.NewOptions(nil)
	opt.DisablePrintRoute = true
	opt.HandleMethodNotAllowed = true
	return route.NewEngine(opt)
}

func serve(e *route.Engine, method, path string) *app.RequestContext {
	ctx := e.NewContext()
	ctx.Request.SetRequestURI(path)
	ctx.Request.Header.SetMethod(method)
	ctx.Request.SetHost("h")
	e.ServeHTTP(context.Background(), ctx)
	return ctx
}

func runChain(tr *vtrace.Writer, c *Case) {
	tr.Emit("Case", vtrace.Rec{"id": c.ID, "kind": "chain", "chain": c.Chain})
	e := newEngine()
	hs := make([]app.HandlerFunc, len(c.Chain))
	for i, b := range c.Chain {
		hs[i] = handler(tr, i, b)
	}
	e.GET("/x", hs...)
	func() {
		defer func() {
			if r := recover(); r != nil {
				tr.Emit("Panic", vtrace.Rec{"msg": fmt.Sprint(r)})
			}
		}()
		serve(e, "GET", "/x")
	}()
	tr.Emit("End", nil)
}

// runBuild executes a builder program: middleware and route handlers all behave as NextRet-less recorders:
// every middleware logs Mw{m} and falls through (the engine loop continues), route handlers log Handler{r,k}.
func runBuild(tr *vtrace.Writer, c *Case) {
	tr.Emit("Case", vtrace.Rec{"id": c.ID, "kind": "build", "prog": c.Prog})
	e := newEngine()
	groups := []*route.RouterGroup{&e.RouterGroup}
	nm, nr := 0, 0
	mw := func() app.HandlerFunc {
		m := nm
		nm++
		return func(c context.Context, ctx *app.RequestContext) { tr.Emit("Mw", vtrace.Rec{"m": m}) }
	}
	rh := func(kind string, r, k int) app.HandlerFunc {
		return func(c context.Context, ctx *app.RequestContext) {
			tr.Emit("Handler", vtrace.Rec{"kind": kind, "r": r, "k": k})
		}
	}
	paths := []string{}
	defer func() {
		if r := recover(); r != nil {
			tr.Emit("Panic", vtrace.Rec{"msg": fmt.Sprint(r)})
			tr.Emit("End", nil)
		}
	}()
	for _, op := range c.Prog {
		switch op.Op {
		case "Use":
			if op.G == 0 {
				e.Use(mw())
			} else {
				groups[op.G].Use(mw())
			}
		case "Group":
			hs := []app.HandlerFunc{}
			for i := 0; i < op.N; i++ {
				hs = append(hs, mw())
			}
			g := groups[op.G].Group(fmt.Sprintf("/g%d", len(groups)), hs...)
			groups = append(groups, g)
		case "Register":
			hs := []app.HandlerFunc{}
			for i := 0; i < op.N; i++ {
				hs = append(hs, rh("route", nr, i))
			}
			rel := fmt.Sprintf("/r%d", nr)
			// the registration entry point rotates with the route number (route 0 stays POST-only: it is also
			// the target of the method-not-allowed request)
			switch nr % 3 {
			case 1:
				groups[op.G].Any(rel, hs...)
			case 2:
				groups[op.G].Handle("POST", rel, hs...)
			default:
				groups[op.G].POST(rel, hs...)
			}
			paths = append(paths, groups[op.G].BasePath()+rel)
			nr++
		case "NoRoute":
			e.NoRoute(rh("noroute", 0, 0))
		case "NoMethod":
			e.NoMethod(rh("nomethod", 0, 0))
		default:
			panic("unknown op " + op.Op)
		}
	}
	for r, p := range paths {
		tr.Emit("Request", vtrace.Rec{"kind": "route", "r": r})
		ctx := serve(e, "POST", p)
		tr.Emit("Served", vtrace.Rec{"status": ctx.Response.StatusCode()})
	}
	tr.Emit("Request", vtrace.Rec{"kind": "noroute", "r": 0})
	ctx := serve(e, "POST", "/nowhere")
	tr.Emit("Served", vtrace.Rec{"status": ctx.Response.StatusCode()})
	if len(paths) > 0 {
		tr.Emit("Request", vtrace.Rec{"kind": "nomethod", "r": 0})
		ctx = serve(e, "GET", paths[0])
		tr.Emit("Served", vtrace.Rec{"status": ctx.Response.StatusCode()})
	}
	tr.Emit("End", nil)
}

func main() {
	cases := flag.String("cases", "", "ndjson case file written by TLC")
	out := flag.String("out", "", "output directory for trace chunks")
	chunks := flag.Int("chunks", 16, "number of trace files")
	flag.Parse()
	f, err := os.Open(*cases)
	if err != nil {
		fmt.Fprintln(os.Stderr, err)
		os.Exit(2)
	}
	var all []*Case
	sc := bufio.NewScanner(f)
	sc.Buffer(make([]byte, 1<<20), 1<<26)
	for sc.Scan() {
		c := &Case{}
		if err := json.Unmarshal(sc.Bytes(), c); err != nil {
			fmt.Fprintln(os.Stderr, "bad case line:", err)
			os.Exit(2)
		}
		all = append(all, c)
	}
	n := *chunks
	if n > len(all) {
		n = len(all)
	}
	var wg sync.WaitGroup
	for k := 0; k < n; k++ {
		wg.Add(1)
		go func(k int) {
			defer wg.Done()
			tr, err := vtrace.Create(filepath.Join(*out, fmt.Sprintf("trace_%03d.ndjson", k)))
			if err != nil {
				panic(err)
			}
			lo, hi := len(all)*k/n, len(all)*(k+1)/n
			for _, c := range all[lo:hi] {
				if c.Kind == "build" {
					runBuild(tr, c)
				} else {
					runChain(tr, c)
				}
			}
			tr.Close()
		}(k)
	}
	wg.Wait()
	fmt.Printf("{\"cases\":%d,\"chunks\":%d}\n", len(all), n)
}
