package main

import (
	"time"

	"github.com/cloudwego/hertz/pkg/app/client/retry"
	"verif/harness/vtrace"
)

// DelayQ: one question to the delay functions of pkg/app/client/retry.
type DelayQ struct {
	Pol       []string `json:"pol"`   // fixed backoff random default; empty = no policy (nil)
	Combine   bool     `json:"comb"`  // through retry.CombineDelay (always when more than one)
	Via       string   `json:"via"`   // delay (retry.Delay, applies MaxDelay) | policy (the function alone)
	Unit      string   `json:"unit"`  // ns | ms
	Delay     int      `json:"delay"` // in units
	MaxDelay  int      `json:"maxDelay"`
	MaxJitter int      `json:"maxJitter"`
	K         int      `json:"k"` // attempts made so far
	N         int      `json:"n"` // samples
}

func policyOf(name string) retry.DelayPolicyFunc {
	switch name {
	case "fixed":
		return retry.FixedDelayPolicy
	case "backoff":
		return retry.BackOffDelayPolicy
	case "random":
		return retry.RandomDelayPolicy
	case "default":
		return retry.DefaultDelayPolicy
	}
	panic("x02: unknown policy " + name)
}

func runDelayCase(c *Case, head vtrace.Rec) []vtrace.Rec {
	q := c.D
	unit := time.Nanosecond
	if q.Unit == "ms" {
		unit = time.Millisecond
	}
	var pol retry.DelayPolicyFunc
	if len(q.Pol) == 1 && !q.Combine {
		pol = policyOf(q.Pol[0])
	} else if len(q.Pol) > 0 {
		fs := make([]retry.DelayPolicyFunc, 0, len(q.Pol))
		for _, n := range q.Pol {
			fs = append(fs, policyOf(n))
		}
		pol = retry.CombineDelay(fs...)
	}
	cfg := &retry.Config{}
	cfg.Apply([]retry.Option{retry.WithMaxAttemptTimes(3), retry.WithInitDelay(time.Duration(q.Delay) * unit),
		retry.WithMaxDelay(time.Duration(q.MaxDelay) * unit), retry.WithMaxJitter(time.Duration(q.MaxJitter) * unit),
		retry.WithDelayPolicy(pol)})
	out := []vtrace.Rec{head}
	var lo, hi time.Duration
	n := q.N
	if n < 1 {
		n = 1
	}
	for i := 0; i < n; i++ {
		var d time.Duration
		if q.Via == "policy" && pol != nil {
			d = pol(uint(q.K), nil, cfg)
		} else {
			d = retry.Delay(uint(q.K), nil, cfg)
		}
		if i == 0 || d < lo {
			lo = d
		}
		if i == 0 || d > hi {
			hi = d
		}
	}
	// whole units, rounded towards minus infinity (so that a negative result stays visible as negative)
	fl := func(d time.Duration) int {
		v := d / unit
		if d%unit != 0 && d < 0 {
			v--
		}
		if v > 2000000000 {
			v = 2000000000
		}
		if v < -2000000000 {
			v = -2000000000
		}
		return int(v)
	}
	out = append(out, vtrace.Rec{"ev": "DelayOut", "min": fl(lo), "max": fl(hi), "n": n})
	return append(out, vtrace.Rec{"ev": "End"})
}
