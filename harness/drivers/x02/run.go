package main

import (
	"bytes"
	"context"
	"encoding/json"
	"errors"
	"fmt"
	"io"
	"net"
	"strconv"
	"strings"
	"sync"
	"time"

	"github.com/cloudwego/hertz/pkg/app/client"
	"github.com/cloudwego/hertz/pkg/app/client/retry"
	"github.com/cloudwego/hertz/pkg/common/config"
	errs "github.com/cloudwego/hertz/pkg/common/errors"
	"github.com/cloudwego/hertz/pkg/protocol"
	"verif/harness/vtrace"
)

func itoa(i int) string { return strconv.Itoa(i) }

// URLRec / Loc: the symbolic URL and Location of the specification; the driver only maps them to bytes.
type URLRec struct {
	Sch  string   `json:"sch"`
	Host string   `json:"host"`
	Port string   `json:"port"`
	Path []string `json:"path"`
	Q    string   `json:"q"`
}

type Loc struct {
	K    string   `json:"k"` // none abs schrel path rel query frag
	Sch  string   `json:"sch"`
	Host string   `json:"host"`
	Port string   `json:"port"`
	Path []string `json:"path"`
	Q    string   `json:"q"`
	Up   int      `json:"up"`
}

type Step struct {
	B      string `json:"b"` // resp dialerr closeBefore closePartial stall
	Status int    `json:"status"`
	Ka     string `json:"ka"` // close live stale
	Loc    Loc    `json:"loc"`
}

type Case struct {
	ID            int     `json:"id"`
	Kind          string  `json:"kind"` // loop | delay
	API           string  `json:"api"`  // do dotimeout dodeadline reqtimeout redirects get post gettimeout getdeadline
	Method        string  `json:"method"`
	Body          string  `json:"body"` // none bytes stream
	U             URLRec  `json:"u"`
	Rc            bool    `json:"rc"` // a retry configuration is given
	MaxAttempts   int     `json:"maxAttempts"`
	Policy        string  `json:"policy"`  // nil | rec (recording delay policy returning delayMs)
	RetryIf       string  `json:"retryIf"` // default always never err s5xx cancel
	Ctx           string  `json:"ctx"`     // live | pre (cancelled before the call)
	MaxRedirects  int     `json:"maxRedirects"`
	TimeoutMs     int     `json:"timeoutMs"` // request timeout / deadline; -1: already expired
	ReadTimeoutMs int     `json:"readTimeoutMs"`
	DelayMs       int     `json:"delayMs"`
	Warm          string  `json:"warm"` // none live stale
	Mw            int     `json:"mw"`   // 1: one middleware, 2: two, 3: two + last
	Script        []Step  `json:"script"`
	D             *DelayQ `json:"d,omitempty"`
}

func pathString(p []string) string { return "/" + strings.Join(p, "/") }

func hostPort(h, p string) string {
	if p != "" {
		return h + ":" + p
	}
	return h
}

// noFrag drops the fragment: it never reaches the peer and the specification does not speak about it.
func noFrag(s string) string {
	if i := strings.IndexByte(s, '#'); i >= 0 {
		return s[:i]
	}
	return s
}

func urlString(u URLRec) string {
	s := u.Sch + "://" + hostPort(u.Host, u.Port) + pathString(u.Path)
	if u.Q != "" {
		s += "?" + u.Q
	}
	return s
}

// locString returns "\x00" for "no Location header".
func locString(l Loc) string {
	q := ""
	if l.Q != "" {
		q = "?" + l.Q
	}
	switch l.K {
	case "abs":
		return l.Sch + "://" + hostPort(l.Host, l.Port) + pathString(l.Path) + q
	case "schrel":
		return "//" + hostPort(l.Host, l.Port) + pathString(l.Path) + q
	case "path":
		return pathString(l.Path) + q
	case "rel":
		return strings.Repeat("../", l.Up) + strings.Join(l.Path, "/") + q
	case "query":
		return "?" + l.Q
	case "frag":
		return "#f"
	}
	return "\x00"
}

type runner struct {
	mu    sync.Mutex
	c     *Case
	rec   []vtrace.Rec
	si    int // script entries consumed
	x     int // 0 warm-up call, 1 the call of the case
	nconn int
	conns []*peerConn
	done  chan struct{}
	muted bool
}

func (r *runner) ev(name string, m map[string]interface{}) {
	r.mu.Lock()
	defer r.mu.Unlock()
	if r.muted {
		return
	}
	rec := vtrace.Rec{"ev": name}
	for k, v := range m {
		rec[k] = v
	}
	r.rec = append(r.rec, rec)
}

func errClass(err error) string {
	var ne net.Error
	switch {
	case err == nil:
		return "none"
	case errors.Is(err, context.Canceled):
		return "canceled"
	case errors.Is(err, errDial):
		return "dial"
	case strings.Contains(err.Error(), "too many redirects"):
		return "toomany"
	case strings.Contains(err.Error(), "missing Location"):
		return "missingloc"
	case errors.Is(err, errs.ErrTimeout) || (errors.As(err, &ne) && ne.Timeout()):
		return "timeout"
	case errors.Is(err, errs.ErrBadPoolConn):
		return "badpool"
	case errors.Is(err, errs.ErrConnectionClosed) || errors.Is(err, io.EOF) || errors.Is(err, io.ErrUnexpectedEOF) ||
		strings.Contains(err.Error(), "closed connection before returning the first response byte"):
		return "closed"
	case errors.Is(err, errs.ErrNoFreeConns):
		return "nofree"
	}
	return "other"
}

func errMsg(err error) string {
	if err == nil {
		return ""
	}
	return err.Error()
}

func (r *runner) middleware(i int) client.Middleware {
	return func(next client.Endpoint) client.Endpoint {
		return func(ctx context.Context, req *protocol.Request, resp *protocol.Response) error {
			if r.x == 0 { // warm-up call: only what the peer sees is recorded
				return next(ctx, req, resp)
			}
			r.ev("MwIn", map[string]interface{}{"i": i, "url": noFrag(req.URI().String()), "method": string(req.Method())})
			err := next(ctx, req, resp)
			r.ev("MwOut", map[string]interface{}{"i": i, "errc": errClass(err), "status": resp.StatusCode()})
			return err
		}
	}
}

func (r *runner) retryIf(cancel context.CancelFunc) func(req *protocol.Request, resp *protocol.Response, err error) bool {
	kind := r.c.RetryIf
	return func(req *protocol.Request, resp *protocol.Response, err error) bool {
		if r.x == 0 { // warm-up call
			return false
		}
		st := resp.StatusCode()
		var ans bool
		switch kind {
		case "always":
			ans = true
		case "never":
			ans = false
		case "err":
			ans = err != nil
		case "s5xx":
			ans = err != nil || st >= 500
		case "cancel":
			cancel()
			ans = true
		}
		r.ev("RetryIf", map[string]interface{}{"errc": errClass(err), "status": st, "method": string(req.Method()), "ans": ans})
		return ans
	}
}

func (r *runner) run() {
	c := r.c
	defer func() {
		if p := recover(); p != nil {
			r.ev("Panic", map[string]interface{}{"msg": fmt.Sprint(p)})
		}
		r.mu.Lock()
		r.muted = true
		r.mu.Unlock()
		close(r.done)
	}()
	ctx, cancel := context.WithCancel(context.Background())
	defer cancel()

	opts := []config.ClientOption{client.WithDialer(&dialer{r}), client.WithDialTimeout(time.Second),
		client.WithMaxIdleConnDuration(time.Minute)}
	if c.ReadTimeoutMs > 0 {
		opts = append(opts, client.WithClientReadTimeout(time.Duration(c.ReadTimeoutMs)*time.Millisecond))
	}
	if c.Rc {
		ro := []retry.Option{retry.WithMaxAttemptTimes(uint(c.MaxAttempts))}
		if c.Policy == "rec" {
			d := time.Duration(c.DelayMs) * time.Millisecond
			ro = append(ro, retry.WithMaxDelay(time.Hour), retry.WithDelayPolicy(func(k uint, err error, _ *retry.Config) time.Duration {
				r.ev("Delay", map[string]interface{}{"k": int(k), "errc": errClass(err)})
				return d
			}))
		}
		opts = append(opts, client.WithRetryConfig(ro...))
	}
	cl, err := client.NewClient(opts...)
	if err != nil {
		panic(err)
	}
	if c.RetryIf != "default" {
		cl.SetRetryIfFunc(r.retryIf(cancel))
	}
	switch c.Mw {
	case 1:
		cl.Use(r.middleware(1))
	case 2:
		cl.Use(r.middleware(1), r.middleware(2))
	case 3:
		cl.Use(r.middleware(1), r.middleware(2))
		cl.UseAsLast(r.middleware(3)) //nolint:errcheck
	}

	url := urlString(c.U)
	if c.Warm != "none" {
		r.x = 0
		wu := c.U
		wu.Path, wu.Q = []string{"warm"}, ""
		req, resp := protocol.AcquireRequest(), protocol.AcquireResponse()
		req.SetRequestURI(urlString(wu))
		werr := cl.Do(context.Background(), req, resp)
		r.ev("WarmDone", map[string]interface{}{"errc": errClass(werr), "status": resp.StatusCode()})
	}
	r.x = 1
	if c.Ctx == "pre" {
		cancel()
	}

	req, resp := protocol.AcquireRequest(), protocol.AcquireResponse()
	req.SetRequestURI(url)
	req.SetMethod(c.Method)
	switch c.Body {
	case "bytes":
		req.SetBody([]byte("B1"))
	case "stream":
		req.SetBodyStream(bytes.NewReader([]byte("S1")), 2)
	}
	T := time.Duration(c.TimeoutMs) * time.Millisecond
	res := map[string]interface{}{"code": 0, "rbody": ""}
	t0 := time.Now()
	var rerr error
	fromResp := true
	switch c.API {
	case "do":
		rerr = cl.Do(ctx, req, resp)
	case "reqtimeout":
		req.SetOptions(config.WithRequestTimeout(T))
		rerr = cl.Do(ctx, req, resp)
	case "dotimeout":
		rerr = cl.DoTimeout(ctx, req, resp, T)
	case "dodeadline":
		rerr = cl.DoDeadline(ctx, req, resp, time.Now().Add(T))
	case "redirects":
		rerr = cl.DoRedirects(ctx, req, resp, c.MaxRedirects)
	case "get", "post", "gettimeout", "getdeadline":
		fromResp = false
		var code int
		var body []byte
		switch c.API {
		case "get":
			code, body, rerr = cl.Get(ctx, nil, url)
		case "gettimeout":
			code, body, rerr = cl.GetTimeout(ctx, nil, url, T)
		case "getdeadline":
			code, body, rerr = cl.GetDeadline(ctx, nil, url, time.Now().Add(T))
		case "post":
			args := &protocol.Args{}
			args.Set("k", "v")
			code, body, rerr = cl.Post(ctx, nil, url, args)
		}
		res["code"], res["rbody"] = code, string(body)
	}
	el := time.Since(t0)
	res["errc"], res["msg"], res["elapsedMs"] = errClass(rerr), errMsg(rerr), int(el/time.Millisecond)
	if fromResp {
		res["code"], res["rbody"] = resp.StatusCode(), string(resp.Body())
		res["uri"], res["method"] = noFrag(req.URI().String()), string(req.Method())
	} else {
		res["uri"], res["method"] = "", ""
	}
	r.ev("Result", res)
}

func runLoopCase(c *Case, raw json.RawMessage) []vtrace.Rec {
	r := &runner{c: c, done: make(chan struct{})}
	var echo map[string]interface{}
	json.Unmarshal(raw, &echo) //nolint:errcheck
	delete(echo, "ev")
	head := vtrace.Rec{"ev": "Case"}
	for k, v := range echo {
		head[k] = v
	}
	r.rec = append(r.rec, head)
	r.run()
	r.mu.Lock()
	defer r.mu.Unlock()
	return append(r.rec, vtrace.Rec{"ev": "End"})
}
