package main

// Scripted peer for X02 (the approach of harness/drivers/c11/peer.go, copied and reduced).
//
// peerConn is the net.Conn handed (wrapped in the production buffered standard.Conn) to the real client by the
// custom dialer.  Everything happens on the goroutine that calls the client:
//   - Write captures the request bytes;
//   - the first Read after a Write means the client has flushed a request and waits for the answer: the peer
//     decodes the request, logs what it SAW (Req event) and behaves as the next script entry says: a response
//     (kept alive, closed, or kept alive and silently closed afterwards), close without a byte, close inside the
//     response head, or say nothing until the read deadline the client has set;
//   - a connection the peer has silently closed accepts the next request bytes (as a TCP socket does) and answers
//     EOF: Stale event, no script entry is consumed.
// The driver contains no expected values.

import (
	"bufio"
	"bytes"
	"crypto/tls"
	"errors"
	"io"
	"net"
	"net/http"
	"os"
	"strings"
	"sync"
	"time"

	"github.com/cloudwego/hertz/pkg/network"
	"github.com/cloudwego/hertz/pkg/network/standard"
)

var errDial = errors.New("x02 peer: dial refused by script")

type paddr string

func (a paddr) Network() string { return "tcp" }
func (a paddr) String() string  { return string(a) }

type peerConn struct {
	mu   sync.Mutex
	id   int
	addr string
	r    *runner

	req        []byte // request bytes written since the last reply
	in         []byte // response bytes not yet delivered
	exchanges  int    // requests seen on this connection
	peerClosed bool   // EOF after the bytes in `in`
	stale      bool   // the peer has closed silently: the next request is answered by EOF
	closed     bool   // the client closed
	rdl        time.Time
}

func timeoutError() error {
	return &net.OpError{Op: "read", Net: "tcp", Addr: paddr("peer"), Err: os.ErrDeadlineExceeded}
}

func (c *peerConn) Read(p []byte) (int, error) {
	c.mu.Lock()
	defer c.mu.Unlock()
	if c.closed {
		return 0, net.ErrClosed
	}
	if len(p) == 0 {
		return 0, nil
	}
	if len(c.in) == 0 && len(c.req) > 0 && !c.peerClosed {
		req := c.req
		c.req = nil
		if c.stale {
			c.peerClosed = true
			c.r.onStale(c, req)
			return 0, io.EOF
		}
		c.exchanges++
		act := c.r.onRequest(c, req)
		switch act.kind {
		case "resp":
			c.in = act.wire
			if act.ka == "close" {
				c.peerClosed = true
			} else if act.ka == "stale" {
				c.stale = true
			}
		case "closeBefore":
			c.peerClosed = true
		case "closePartial":
			c.in = act.wire
			c.peerClosed = true
		case "stall":
			dl := c.rdl
			c.mu.Unlock()
			err := c.r.stall(c, dl)
			c.mu.Lock()
			c.peerClosed = true
			return 0, err
		}
	}
	if len(c.in) == 0 {
		if c.peerClosed {
			return 0, io.EOF
		}
		// a read with nothing asked: the client waits for bytes nobody will send
		c.r.ev("BlockedRead", map[string]interface{}{"conn": c.id})
		return 0, timeoutError()
	}
	n := copy(p, c.in)
	c.in = c.in[n:]
	return n, nil
}

func (c *peerConn) Write(p []byte) (int, error) {
	c.mu.Lock()
	defer c.mu.Unlock()
	if c.closed {
		return 0, net.ErrClosed
	}
	if c.peerClosed {
		c.r.ev("WriteAfterClose", map[string]interface{}{"conn": c.id, "n": len(p)})
		return 0, errors.New("x02 peer: broken pipe")
	}
	c.req = append(c.req, p...)
	return len(p), nil
}

func (c *peerConn) Close() error {
	c.mu.Lock()
	req := c.req
	c.req = nil
	was := c.closed
	c.closed = true
	c.mu.Unlock()
	if !was && len(req) > 0 {
		// request bytes went out on this connection and the client closed it without reading: on a real socket
		// they have reached the peer (there is no specification action for this event)
		rec := c.r.decode(c, req)
		c.r.ev("Sent", map[string]interface{}{"x": c.r.x, "conn": c.id, "method": rec["method"], "target": rec["target"]})
	}
	return nil
}

func (c *peerConn) LocalAddr() net.Addr               { return paddr("127.0.0.1:50000") }
func (c *peerConn) RemoteAddr() net.Addr              { return paddr(c.addr) }
func (c *peerConn) SetDeadline(t time.Time) error     { c.mu.Lock(); c.rdl = t; c.mu.Unlock(); return nil }
func (c *peerConn) SetReadDeadline(t time.Time) error { c.mu.Lock(); c.rdl = t; c.mu.Unlock(); return nil }
func (c *peerConn) SetWriteDeadline(time.Time) error  { return nil }

// ---------------------------------------------------------------- dialer

type dialer struct{ r *runner }

func (d *dialer) DialConnection(nw, address string, timeout time.Duration, tlsConfig *tls.Config) (network.Conn, error) {
	r := d.r
	r.mu.Lock()
	r.nconn++
	id := r.nconn
	refuse := r.x != 0 && r.si < len(r.c.Script) && r.c.Script[r.si].B == "dialerr"
	if refuse {
		r.si++
	}
	si := r.si
	r.mu.Unlock()
	r.ev("Dial", map[string]interface{}{"x": r.x, "conn": id, "addr": address, "tls": tlsConfig != nil, "ok": !refuse, "si": si})
	if refuse {
		return nil, errDial
	}
	pc := &peerConn{id: id, addr: address, r: r}
	r.mu.Lock()
	r.conns = append(r.conns, pc)
	r.mu.Unlock()
	return standard.NewConnForVerif(pc, 4096), nil
}

func (d *dialer) DialTimeout(nw, address string, timeout time.Duration, tlsConfig *tls.Config) (net.Conn, error) {
	return nil, errors.New("x02: DialTimeout not supported")
}

func (d *dialer) AddTLS(conn network.Conn, tlsConfig *tls.Config) (network.Conn, error) {
	return nil, errors.New("x02: AddTLS not supported")
}

// ---------------------------------------------------------------- what the peer does with a request

type action struct {
	kind string
	ka   string
	wire []byte
}

func (r *runner) decode(c *peerConn, raw []byte) map[string]interface{} {
	rec := map[string]interface{}{"x": r.x, "conn": c.id, "reused": c.exchanges > 1, "method": "?", "target": "?", "host": "?", "body": "", "ok": false}
	hr, err := http.ReadRequest(bufio.NewReader(bytes.NewReader(raw)))
	if err != nil {
		rec["raw"] = short(raw)
		return rec
	}
	b, berr := io.ReadAll(hr.Body)
	rec["method"], rec["target"], rec["host"], rec["body"], rec["ok"] = hr.Method, hr.RequestURI, hr.Host, string(b), berr == nil
	rec["ctype"] = hr.Header.Get("Content-Type")
	return rec
}

func (r *runner) onStale(c *peerConn, raw []byte) {
	rec := r.decode(c, raw)
	r.ev("Stale", map[string]interface{}{"x": r.x, "conn": c.id, "method": rec["method"], "target": rec["target"]})
}

func (r *runner) onRequest(c *peerConn, raw []byte) action {
	rec := r.decode(c, raw)
	if r.x == 0 { // warm-up exchange: always 200, kept alive as the case says
		r.ev("Req", rec)
		ka := "live"
		if r.c.Warm == "stale" {
			ka = "stale"
		}
		return action{kind: "resp", ka: ka, wire: respWire(200, "", ka, "w", rec["method"] == "HEAD")}
	}
	r.mu.Lock()
	var st Step
	if r.si < len(r.c.Script) {
		st = r.c.Script[r.si]
	} else {
		st = Step{B: "exhausted"}
	}
	r.si++
	si := r.si
	r.mu.Unlock()
	rec["si"] = si
	r.ev("Req", rec)
	switch st.B {
	case "resp":
		return action{kind: "resp", ka: st.Ka, wire: respWire(st.Status, locString(st.Loc), st.Ka, "r"+itoa(si), rec["method"] == "HEAD")}
	case "closeBefore", "stall":
		return action{kind: st.B}
	case "closePartial":
		return action{kind: "closePartial", wire: []byte("HTTP/1.1 200 OK\r\nContent-Le")}
	}
	// dialerr at a moment the client did not dial, or the script is used up: the case does not say what happens
	r.ev("ScriptMismatch", map[string]interface{}{"si": si, "b": st.B})
	return action{kind: "closeBefore"}
}

func (r *runner) stall(c *peerConn, dl time.Time) error {
	if dl.IsZero() {
		if r.c.API == "gettimeout" || r.c.API == "getdeadline" { // the call gives up by its own timer; the request stays behind
			<-r.done
			return net.ErrClosed
		}
		r.ev("Hang", map[string]interface{}{"conn": c.id})
		return timeoutError()
	}
	if d := time.Until(dl); d > 0 {
		time.Sleep(d + 2*time.Millisecond)
	}
	return timeoutError()
}

func respWire(status int, loc, ka, body string, head bool) []byte {
	var b strings.Builder
	b.WriteString("HTTP/1.1 " + itoa(status) + " S\r\nContent-Type: text/plain\r\nContent-Length: " + itoa(len(body)) + "\r\n")
	if loc != "\x00" {
		b.WriteString("Location: " + loc + "\r\n")
	}
	if ka == "close" {
		b.WriteString("Connection: close\r\n")
	}
	b.WriteString("\r\n")
	if !head {
		b.WriteString(body)
	}
	return []byte(b.String())
}

func short(b []byte) string {
	if len(b) > 120 {
		b = b[:120]
	}
	return string(b)
}
