// Driver for X02 -- the client request loop: retries and redirects.
// Runs every case (a client configuration + a peer script, or a question to the delay functions) against the
// REAL pkg/app/client talking to the scripted in-memory peer of peer.go; records what the PEER saw plus the
// callbacks the client made (middleware, RetryIf, delay policy) and the final result.  No expected values here.
package main

import (
	"bufio"
	"encoding/json"
	"flag"
	"fmt"
	"os"
	"path/filepath"
	"sync"

	"verif/harness/vtrace"
)

func main() {
	casesF := flag.String("cases", "", "ndjson case file")
	out := flag.String("out", "", "output directory")
	chunks := flag.Int("chunks", 8, "trace files")
	par := flag.Int("par", 8, "cases run side by side per trace file")
	flag.Parse()
	f, err := os.Open(*casesF)
	if err != nil {
		fmt.Fprintln(os.Stderr, err)
		os.Exit(2)
	}
	type item struct {
		c   *Case
		raw json.RawMessage
	}
	var all []item
	sc := bufio.NewScanner(f)
	sc.Buffer(make([]byte, 1<<20), 1<<26)
	for sc.Scan() {
		raw := append([]byte(nil), sc.Bytes()...)
		c := &Case{}
		if err := json.Unmarshal(raw, c); err != nil {
			fmt.Fprintln(os.Stderr, "bad case line:", err)
			os.Exit(2)
		}
		all = append(all, item{c, raw})
	}
	n := *chunks
	if n > len(all) {
		n = len(all)
	}
	if n == 0 {
		fmt.Fprintln(os.Stderr, "no cases")
		os.Exit(2)
	}
	var wg sync.WaitGroup
	for k := 0; k < n; k++ {
		wg.Add(1)
		go func(k int) {
			defer wg.Done()
			tr, err := vtrace.Create(filepath.Join(*out, fmt.Sprintf("trace_%03d.ndjson", k)))
			if err != nil {
				panic(err)
			}
			var mu sync.Mutex
			sem := make(chan struct{}, *par)
			var cw sync.WaitGroup
			for i := k; i < len(all); i += n {
				it := all[i]
				sem <- struct{}{}
				cw.Add(1)
				go func() {
					defer func() { <-sem; cw.Done() }()
					var recs []vtrace.Rec
					if it.c.Kind == "delay" {
						var echo map[string]interface{}
						json.Unmarshal(it.raw, &echo) //nolint:errcheck
						head := vtrace.Rec{}
						for k, v := range echo {
							head[k] = v
						}
						head["ev"] = "Case"
						recs = runDelayCase(it.c, head)
					} else {
						recs = runLoopCase(it.c, it.raw)
					}
					mu.Lock()
					for _, r := range recs {
						ev := r["ev"].(string)
						tr.Emit(ev, r)
					}
					mu.Unlock()
				}()
			}
			cw.Wait()
			tr.Close()
		}(k)
	}
	wg.Wait()
	fmt.Printf("{\"cases\":%d,\"chunks\":%d}\n", len(all), n)
}
