package main

import (
	"github.com/cloudwego/hertz/pkg/app/client/discovery"

	"verif/harness/vtrace"
)

// bal is the Loadbalancer handed to the real BalancerFactory: every call is forwarded to the real
// weighted-random balancer and recorded together with it under balmu (event order = order of the real effects).
type bal struct{ e *env }

func (b bal) Name() string { return b.e.real.Name() }

func (b bal) Rebalance(r discovery.Result) {
	e := b.e
	if e.isClosed() {
		return
	}
	p := e.who()
	all, pos := ids(r)
	e.balmu.Lock()
	e.real.Rebalance(r)
	e.emit("Rebalance", vtrace.Rec{"p": p, "ck": r.CacheKey, "ins": all, "pos": pos})
	e.balmu.Unlock()
	e.smu.Lock()
	e.live[r.CacheKey] = true
	e.cond.Broadcast()
	e.smu.Unlock()
}

func (b bal) Delete(key string) {
	e := b.e
	if e.isClosed() {
		return
	}
	e.balmu.Lock()
	e.real.Delete(key)
	e.emit("Delete", vtrace.Rec{"key": key, "t": e.ms(), "stall": stallSince(2 * e.c.ExpireMs)})
	e.balmu.Unlock()
	e.smu.Lock()
	// what the driver waits for: the watcher has dropped the entry (whatever key it names it by)
	delete(e.live, key)
	delete(e.live, e.rname+":"+key)
	e.nDelete[e.host(key)]++
	e.cond.Broadcast()
	e.smu.Unlock()
}

func (b bal) Pick(r discovery.Result) discovery.Instance {
	e := b.e
	p := e.who()
	if p > 0 {
		e.pass("pick:" + itoa(p))
	}
	all, pos := ids(r)
	e.balmu.Lock()
	in := e.real.Pick(r)
	x := 0
	if in != nil {
		x = -1
		if i, ok := in.(*inst); ok {
			x = i.id
		}
	}
	e.emit("Pick", vtrace.Rec{"p": p, "ck": r.CacheKey, "ins": all, "pos": pos, "x": x})
	e.balmu.Unlock()
	return in
}
