// Driver for X01 (spec/LBCache.tla): runs scripted histories against the REAL loadbalance.BalancerFactory
// (loadbalance.NewBalancerFactory, optionally through the real sd.Discovery middleware) with a scripted
// discovery.Resolver and a recording wrapper around the real weighted-random balancer, and records what the
// callbacks observe.  The driver contains no expected values and never decides pass/fail.
//
//	x01 -cases cases.ndjson -out trace.ndjson [-par 6]
package main

import (
	"bufio"
	"encoding/json"
	"flag"
	"fmt"
	"os"
	"strconv"
	"sync"
	"sync/atomic"
	"time"

	"verif/harness/vtrace"
)

type Step struct {
	Op  string `json:"op"`
	P   int    `json:"p"`
	Key string `json:"key"`
	S   string `json:"s"`
	N   int    `json:"n"`
}

type Case struct {
	ID        int    `json:"id"`
	Kind      string `json:"kind"`
	Ck        string `json:"ck"`  // aligned | plain: what Resolver.Target returns (see env.Target)
	Via       string `json:"via"` // factory | mw
	RefreshMs int    `json:"refreshMs"`
	ExpireMs  int    `json:"expireMs"`
	Steps     []Step `json:"steps"`
}

func itoa(i int) string { return strconv.Itoa(i) }

// ---- scheduling-stall detector: the largest gap between two wake-ups of a 2 ms sleeper, per time window.
// It is a measurement of the environment (is this machine starving the process?), logged with every Delete.

var (
	stallMu sync.Mutex
	stalls  []struct {
		at  time.Time
		gap int
	}
)

func heartbeat() {
	last := time.Now()
	for {
		time.Sleep(2 * time.Millisecond)
		now := time.Now()
		if gap := int(now.Sub(last) / time.Millisecond); gap > 4 {
			stallMu.Lock()
			stalls = append(stalls, struct {
				at  time.Time
				gap int
			}{now, gap})
			if len(stalls) > 4096 {
				stalls = stalls[2048:]
			}
			stallMu.Unlock()
		}
		last = now
	}
}

func stallSince(windowMs int) int {
	from := time.Now().Add(-time.Duration(windowMs) * time.Millisecond)
	m := 0
	stallMu.Lock()
	for i := len(stalls) - 1; i >= 0 && stalls[i].at.After(from); i-- {
		if stalls[i].gap > m {
			m = stalls[i].gap
		}
	}
	stallMu.Unlock()
	return m
}

var runSerial int64

func main() {
	cases := flag.String("cases", "", "ndjson case file")
	out := flag.String("out", "", "trace file")
	par := flag.Int("par", 6, "cases run side by side")
	flag.Parse()
	f, err := os.Open(*cases)
	if err != nil {
		fmt.Fprintln(os.Stderr, err)
		os.Exit(2)
	}
	var cs []*Case
	sc := bufio.NewScanner(f)
	sc.Buffer(make([]byte, 1<<20), 1<<26)
	for sc.Scan() {
		if len(sc.Bytes()) == 0 {
			continue
		}
		c := &Case{}
		if err := json.Unmarshal(sc.Bytes(), c); err != nil {
			fmt.Fprintln(os.Stderr, "bad case:", err)
			os.Exit(2)
		}
		cs = append(cs, c)
	}
	go heartbeat()
	results := make([][]vtrace.Rec, len(cs))
	var next int64 = -1
	var wg sync.WaitGroup
	for w := 0; w < *par; w++ {
		wg.Add(1)
		go func() {
			defer wg.Done()
			for {
				i := int(atomic.AddInt64(&next, 1))
				if i >= len(cs) {
					return
				}
				results[i] = runCase(cs[i])
			}
		}()
	}
	wg.Wait()
	w, err := vtrace.Create(*out)
	if err != nil {
		fmt.Fprintln(os.Stderr, err)
		os.Exit(2)
	}
	for _, lines := range results {
		for _, r := range lines {
			ev := r["ev"].(string)
			delete(r, "ev")
			w.Emit(ev, r)
		}
	}
	w.Close()
}
