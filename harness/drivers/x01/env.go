package main

// Scripted environment of one case: the discovery.Resolver the real BalancerFactory resolves through, and the
// recording wrapper around the real weighted-random load balancer.  Every callback takes its event under the
// recorder's lock, so the order of the lines of a case is a linearization consistent with causality.

import (
	"bytes"
	"context"
	"errors"
	"net"
	"runtime"
	"strconv"
	"strings"
	"sync"
	"time"

	"github.com/cloudwego/hertz/pkg/app/client/discovery"
	"github.com/cloudwego/hertz/pkg/app/client/loadbalance"
	"github.com/cloudwego/hertz/pkg/common/utils"

	"verif/harness/vtrace"
)

func goid() int64 {
	var buf [64]byte
	n := runtime.Stack(buf[:], false)
	f := bytes.Fields(buf[:n])
	if len(f) < 2 {
		return -1
	}
	id, _ := strconv.ParseInt(string(f[1]), 10, 64)
	return id
}

// inst is the driver's own discovery.Instance (weights <= 0 are possible, unlike discovery.NewInstance)
type inst struct {
	id   int
	w    int
	addr net.Addr
}

func (i *inst) Address() net.Addr               { return i.addr }
func (i *inst) Weight() int                     { return i.w }
func (i *inst) Tag(string) (string, bool)       { return "", false }
func newInst(id, w int) *inst {
	return &inst{id: id, w: w, addr: utils.NewNetAddr("tcp", "10.0."+strconv.Itoa(id/250)+"."+strconv.Itoa(id%250)+":80")}
}

type gate struct {
	closed  bool
	blocked int // goroutines waiting at it
	ch      chan struct{}
}

// env is the state of one running case
type env struct {
	c      *Case
	rname  string
	start  time.Time
	mu     sync.Mutex // recorder lock
	lines  []vtrace.Rec
	closed bool

	smu     sync.Mutex // script state
	cond    *sync.Cond
	mode    map[string]string  // key -> what Resolve answers next
	gates   map[string]*gate   // "call:A" "refresh:A" "pick:1"
	nver    int
	callers map[int64]int // goroutine id -> caller number
	byAddr  map[string]int
	live    map[string]bool // keys rebalanced and not deleted, as observed (only to know when to stop waiting)
	nDelete map[string]int
	nRefEnd map[string]int

	balmu sync.Mutex // serialises the real balancer with its events
	real  loadbalance.Loadbalancer
}

func newEnv(c *Case, rname string) *env {
	e := &env{c: c, rname: rname, start: time.Now(), mode: map[string]string{}, gates: map[string]*gate{},
		callers: map[int64]int{}, byAddr: map[string]int{}, live: map[string]bool{}, nDelete: map[string]int{},
		nRefEnd: map[string]int{}, real: loadbalance.NewWeightedBalancer()}
	e.cond = sync.NewCond(&e.smu)
	return e
}

func (e *env) ms() int { return int(time.Since(e.start) / time.Millisecond) }

func (e *env) emit(ev string, r vtrace.Rec) {
	e.mu.Lock()
	if !e.closed {
		r["ev"] = ev
		e.lines = append(e.lines, r)
	}
	e.mu.Unlock()
}

func (e *env) who() int {
	g := goid()
	e.smu.Lock()
	p := e.callers[g]
	e.smu.Unlock()
	return p
}

func (e *env) isClosed() bool { e.mu.Lock(); defer e.mu.Unlock(); return e.closed }

// host strips the resolver-name prefix the aligned Target adds
func (e *env) host(desc string) string { return strings.TrimPrefix(desc, e.rname+":") }

// pass blocks while the named gate is closed
func (e *env) pass(name string) {
	e.smu.Lock()
	g := e.gates[name]
	if g == nil || !g.closed {
		e.smu.Unlock()
		return
	}
	g.blocked++
	ch := g.ch
	e.cond.Broadcast()
	e.smu.Unlock()
	<-ch
	e.smu.Lock()
	g.blocked--
	e.smu.Unlock()
}

// ---- discovery.Resolver

func (e *env) Name() string { return e.rname }

func (e *env) Target(ctx context.Context, ti *discovery.TargetInfo) string {
	tk := ti.Host
	if e.c.Ck == "aligned" { // the cache key coincides with the key the balancer is rebalanced under
		tk = e.rname + ":" + ti.Host
	}
	e.emit("Target", vtrace.Rec{"p": e.who(), "key": ti.Host, "tk": tk, "t": e.ms()})
	return tk
}

func (e *env) Resolve(ctx context.Context, desc string) (discovery.Result, error) {
	if e.isClosed() {
		return discovery.Result{}, errors.New("case over")
	}
	key := e.host(desc)
	p := e.who()
	e.emit("ResolveBegin", vtrace.Rec{"p": p, "key": key, "desc": desc})
	if p > 0 {
		e.pass("call:" + key)
	} else {
		e.pass("refresh:" + key)
	}
	e.smu.Lock()
	m := e.mode[key]
	e.smu.Unlock()
	var ws []int // weights
	switch m {
	case "err":
		e.emit("ResolveEnd", vtrace.Rec{"p": p, "key": key, "v": 0, "err": true, "ck": "", "ins": []int{}, "pos": []int{}})
		e.noteRefresh(p, key)
		return discovery.Result{}, errors.New("scripted resolve error")
	case "empty":
	case "zero":
		ws = []int{0, -1}
	case "mixed":
		ws = []int{0, 7, 3}
	case "ok1":
		ws = []int{10}
	case "ok3":
		ws = []int{1, 5, 10}
	default: // ok2
		ws = []int{10, 20}
	}
	e.mu.Lock() // version numbers are handed out in the order of the ResolveEnd lines
	e.smu.Lock()
	e.nver++
	v := e.nver
	res := discovery.Result{CacheKey: key}
	ins, pos := []int{}, []int{}
	for i, w := range ws {
		in := newInst(v*10+i+1, w)
		e.byAddr[in.addr.String()] = in.id
		res.Instances = append(res.Instances, in)
		ins = append(ins, in.id)
		if w > 0 {
			pos = append(pos, in.id)
		}
	}
	e.smu.Unlock()
	if !e.closed {
		e.lines = append(e.lines, vtrace.Rec{"ev": "ResolveEnd", "p": p, "key": key, "v": v, "err": false,
			"ck": res.CacheKey, "ins": ins, "pos": pos})
	}
	e.mu.Unlock()
	e.noteRefresh(p, key)
	return res, nil
}

func (e *env) noteRefresh(p int, key string) {
	if p == 0 {
		e.smu.Lock()
		e.nRefEnd[key]++
		e.cond.Broadcast()
		e.smu.Unlock()
	}
}

// ---- loadbalance.Loadbalancer (recording wrapper around the real weightedBalancer)

func ids(r discovery.Result) (all, pos []int) {
	all, pos = []int{}, []int{}
	for _, i := range r.Instances {
		if x, ok := i.(*inst); ok {
			all = append(all, x.id)
			if x.w > 0 {
				pos = append(pos, x.id)
			}
		} else {
			all = append(all, -1)
		}
	}
	return
}
