package main

import (
	"context"
	"fmt"
	"os"
	"strconv"
	"sync/atomic"
	"time"

	"github.com/cloudwego/hertz/pkg/app/client"
	"github.com/cloudwego/hertz/pkg/app/client/discovery"
	"github.com/cloudwego/hertz/pkg/app/client/loadbalance"
	"github.com/cloudwego/hertz/pkg/app/middlewares/client/sd"
	"github.com/cloudwego/hertz/pkg/common/config"
	"github.com/cloudwego/hertz/pkg/protocol"

	"verif/harness/vtrace"
)

const nCallers = 3

type job struct {
	key  string
	done chan struct{}
}

type runner struct {
	e    *env
	get  func(ctx context.Context, key string) (x int, err error)
	jobs [nCallers + 1]chan job
	busy [nCallers + 1]chan struct{} // done channel of the call in progress (nil: none)
}

// waitUntil blocks until cond() (evaluated under e.smu) or the deadline; reports whether cond held
func (e *env) waitUntil(d time.Duration, cond func() bool) bool {
	deadline := time.Now().Add(d)
	t := time.AfterFunc(d, func() { e.smu.Lock(); e.cond.Broadcast(); e.smu.Unlock() })
	defer t.Stop()
	e.smu.Lock()
	defer e.smu.Unlock()
	for !cond() {
		if time.Now().After(deadline) {
			return false
		}
		e.cond.Wait()
	}
	return true
}

func (e *env) setGate(name string, closed bool) {
	e.smu.Lock()
	g := e.gates[name]
	if g == nil {
		g = &gate{}
		e.gates[name] = g
	}
	if closed && !g.closed {
		g.closed, g.ch = true, make(chan struct{})
	} else if !closed && g.closed {
		g.closed = false
		close(g.ch)
	}
	e.smu.Unlock()
}

func (e *env) openAll() {
	e.smu.Lock()
	for _, g := range e.gates {
		if g.closed {
			g.closed = false
			close(g.ch)
		}
	}
	e.smu.Unlock()
}

func runCase(c *Case) []vtrace.Rec {
	rname := fmt.Sprintf("x01r%d_%d_%d", os.Getpid(), c.ID, atomic.AddInt64(&runSerial, 1))
	e := newEnv(c, rname)
	cr := vtrace.Rec{"id": c.ID, "kind": c.Kind, "ck": c.Ck, "via": c.Via, "refreshMs": c.RefreshMs,
		"expireMs": c.ExpireMs, "rname": rname, "steps": c.Steps}
	e.emit("Case", cr)
	opts := loadbalance.Options{RefreshInterval: time.Duration(c.RefreshMs) * time.Millisecond,
		ExpireInterval: time.Duration(c.ExpireMs) * time.Millisecond}
	r := &runner{e: e}
	var resolver discovery.Resolver = e
	if c.Via == "mw" {
		// the real middleware: it builds the BalancerFactory itself and rewrites the request host
		mw := sd.Discovery(resolver, sd.WithLoadBalanceOptions(bal{e}, opts))
		r.get = func(ctx context.Context, key string) (int, error) {
			req := &protocol.Request{}
			req.SetOptions(config.WithSD(true))
			req.SetHost(key)
			host := ""
			var next client.Endpoint = func(ctx context.Context, rq *protocol.Request, rs *protocol.Response) error {
				host = string(rq.Host())
				return nil
			}
			if err := mw(next)(ctx, req, &protocol.Response{}); err != nil {
				return 0, err
			}
			e.smu.Lock()
			x, ok := e.byAddr[host]
			e.smu.Unlock()
			if !ok {
				x = -1
			}
			return x, nil
		}
	} else {
		f := loadbalance.NewBalancerFactory(loadbalance.Config{Resolver: resolver, Balancer: bal{e}, LbOpts: opts})
		r.get = func(ctx context.Context, key string) (int, error) {
			req := &protocol.Request{}
			req.SetOptions(config.WithSD(true))
			req.SetHost(key)
			in, err := f.GetInstance(ctx, req)
			if err != nil {
				return 0, err
			}
			if in == nil {
				return -2, nil
			}
			if i, ok := in.(*inst); ok {
				return i.id, nil
			}
			return -1, nil
		}
	}
	for p := 1; p <= nCallers; p++ {
		r.jobs[p] = make(chan job, 1)
		ready := make(chan struct{})
		go r.caller(p, ready)
		<-ready
	}
	hung := false
	for _, s := range c.Steps {
		if !r.step(s) {
			hung = true
			break
		}
	}
	if !hung && !r.waitCaller(0) {
		hung = true
	}
	if hung {
		e.emit("Hang", vtrace.Rec{})
	}
	e.mu.Lock() // End and "closed" in one critical section: nothing is recorded behind End
	e.lines = append(e.lines, vtrace.Rec{"ev": "End"})
	e.closed = true
	lines := e.lines
	e.mu.Unlock()
	e.openAll()
	for p := 1; p <= nCallers; p++ {
		close(r.jobs[p])
	}
	return lines
}

func (r *runner) caller(p int, ready chan struct{}) {
	e := r.e
	e.smu.Lock()
	e.callers[goid()] = p
	e.smu.Unlock()
	close(ready)
	for j := range r.jobs[p] {
		func() {
			defer close(j.done)
			defer func() {
				if x := recover(); x != nil {
					e.emit("Panic", vtrace.Rec{"p": p, "msg": fmt.Sprint(x)})
				}
			}()
			e.emit("Call", vtrace.Rec{"p": p, "key": j.key})
			x, err := r.get(context.Background(), j.key)
			e.emit("Return", vtrace.Rec{"p": p, "key": j.key, "x": x, "err": err != nil})
		}()
	}
}

// waitCaller waits for the call in progress of caller p (0: of every caller); false = hang
func (r *runner) waitCaller(p int) bool {
	for q := 1; q <= nCallers; q++ {
		if (p == 0 || p == q) && r.busy[q] != nil {
			select {
			case <-r.busy[q]:
				r.busy[q] = nil
			case <-time.After(8 * time.Second):
				return false
			}
		}
	}
	return true
}

func (r *runner) call(p int, key string) bool {
	if !r.waitCaller(p) {
		return false
	}
	d := make(chan struct{})
	r.busy[p] = d
	r.jobs[p] <- job{key, d}
	return true
}

func (r *runner) step(s Step) bool {
	e := r.e
	switch s.Op {
	case "mode":
		e.smu.Lock()
		e.mode[s.Key] = s.S
		e.smu.Unlock()
	case "gate", "open":
		name := s.S + ":" + s.Key
		if s.S == "pick" {
			name = "pick:" + itoa(s.P)
		}
		e.setGate(name, s.Op == "gate")
	case "await": // until somebody is blocked at the gate (bounded; not a judgement)
		name := s.S + ":" + s.Key
		if s.S == "pick" {
			name = "pick:" + itoa(s.P)
		}
		d := 3 * time.Second
		if s.N > 0 {
			d = time.Duration(s.N) * time.Millisecond
		}
		e.waitUntil(d, func() bool { g := e.gates[name]; return g != nil && g.blocked > 0 })
	case "openall":
		e.openAll()
	case "call":
		return r.call(s.P, s.Key)
	case "wait":
		return r.waitCaller(s.P)
	case "sleep":
		time.Sleep(time.Duration(s.N) * time.Millisecond)
	case "awaitrefresh": // until refresh has finished N more resolves of the key (bounded)
		e.smu.Lock()
		want := e.nRefEnd[s.Key] + s.N
		e.smu.Unlock()
		d := 3 * time.Second
		if s.S != "" { // bound in ms
			if ms, err := strconv.Atoi(s.S); err == nil {
				d = time.Duration(ms) * time.Millisecond
			}
		}
		e.waitUntil(d, func() bool { return e.nRefEnd[s.Key] >= want })
	case "awaitdelete": // until the watcher has dropped the key (bounded)
		bk := e.rname + ":" + s.Key
		e.waitUntil(r.patience(), func() bool { return !e.live[bk] })
	case "busy": // caller P asks for the key again and again for N ms
		end := time.Now().Add(time.Duration(s.N) * time.Millisecond)
		gap := time.Duration(e.c.ExpireMs) * time.Millisecond / 20
		for time.Now().Before(end) {
			if !r.call(s.P, s.Key) || !r.waitCaller(s.P) {
				return false
			}
			time.Sleep(gap)
		}
	case "quiesce": // every call has returned; wait (bounded, generously) until the watcher has dropped every key
		if !r.waitCaller(0) {
			return false
		}
		t0 := time.Now()
		ok := e.waitUntil(r.patience(), func() bool { return len(e.live) == 0 })
		e.emit("Quiesce", vtrace.Rec{"timeout": !ok, "ms": int(time.Since(t0) / time.Millisecond)})
	}
	return true
}

// patience: how long the driver waits for the watcher: max(1.5 s, 15 x ExpireInterval); 2 ticks suffice
func (r *runner) patience() time.Duration {
	d := 15 * time.Duration(r.e.c.ExpireMs) * time.Millisecond
	if d < 1500*time.Millisecond {
		d = 1500 * time.Millisecond
	}
	return d
}
