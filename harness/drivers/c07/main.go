// Driver for C07: runs request targets through the REAL hertz path normalisation and records what it returns.
//
//	protocol.URI.Parse(host, target).Path()   (reused URI with a Host value / fresh URI without) -> Norm{out, out0}
//	utils.CleanPath(target)                                                           -> Clean{out}
//	app.FS request handler over a sandbox tree with sentinel files outside the root   -> Served{path, status, sentinel, vh}
//	  (vh: short targets also through app.NewVHostPathRewriter(0) with Host "..", ".", "a": sentinel served?)
//
// The targets are (a) every token string of length <= maxlen over the alphabet of bounds.json, enumerated here in
// the shortlex order of spec/PathNorm.tla (the trace spec re-derives the order with Succ/Rank and rejects a gap),
// split in contiguous chunks (one trace file each), (b) seeded random longer strings over randAlphabet, and (c) the
// first padTotal strings of the enumeration wrapped in each of the long pads of bounds.json (targets > 128 bytes).
// The driver contains no expected values and never decides pass/fail.
package main

import (
	"bufio"
	"bytes"
	"context"
	"encoding/json"
	"flag"
	"fmt"
	"io"
	"math/rand"
	"os"
	"path/filepath"
	"sync"
	"sync/atomic"
	"time"

	"github.com/cloudwego/hertz/pkg/app"
	"github.com/cloudwego/hertz/pkg/common/hlog"
	"github.com/cloudwego/hertz/pkg/common/utils"
	"github.com/cloudwego/hertz/pkg/protocol"

	"verif/harness/vtrace"
)

// Bounds is written by TLC from the constants of PathNormGen (one ndjson line).
type Bounds struct {
	Alphabet     []string `json:"alphabet"`
	MaxLen       int      `json:"maxlen"`
	Total        int64    `json:"total"`
	RandAlphabet []string `json:"randAlphabet"`
	RandMin      int      `json:"randMin"`
	RandMax      int      `json:"randMax"`
	PadMax       int      `json:"padMax"`   // cores of length <= PadMax are also run wrapped in every pad
	PadTotal     int64    `json:"padTotal"` // number of those cores
	Pads         []struct {
		Pre  []string `json:"pre"`
		Post []string `json:"post"`
	} `json:"pads"`
}

const marker = "SENTINEL-C07"

// chars renders bytes the way the specification sees them: one string per byte, "<HH>" outside 0x20..0x7E.
func chars(b []byte) []string {
	out := make([]string, len(b))
	for i, c := range b {
		if c >= 0x20 && c <= 0x7e {
			out[i] = string(rune(c))
		} else {
			out[i] = fmt.Sprintf("<%02X>", c)
		}
	}
	return out
}

func concat(tok []string) []byte {
	var b []byte
	for _, t := range tok {
		b = append(b, t...)
	}
	return b
}

// sandbox builds   top/{a, SENTINEL-C07-top.txt}  top/mid/{a, aa/a, SENTINEL-C07-mid.txt}  top/mid/root/<served tree>
// Every file outside root contains (or is named) the marker; nothing inside root does.
type sandbox struct {
	top, root string
	h         app.HandlerFunc
	vh        app.HandlerFunc // same root behind app.NewVHostPathRewriter(0): serves root/<Host>/<path>
}

// Host values tried with the virtual-host rewriter (short targets only)
var vhosts = []string{"..", ".", "a"}

func newSandbox() (*sandbox, error) {
	top, err := os.MkdirTemp("", "wt_c07_fs_")
	if err != nil {
		return nil, err
	}
	root := filepath.Join(top, "mid", "root")
	files := map[string]string{
		"a":                          marker,
		".a":                         marker,
		"...":                        marker,
		"%":                          marker,
		marker + "-top.txt":          marker,
		"mid/a":                      marker,
		"mid/.a":                     marker,
		"mid/...":                    marker,
		"mid/%":                      marker,
		"mid/\\":                     marker,
		"mid/aa/a":                   marker,
		"mid/" + marker + "-mid.txt": marker,
		"mid/root/a/a":               "inside a/a",
		"mid/root/a/.a":              "inside a/.a",
		"mid/root/aa":                "inside aa",
		"mid/root/a.a":               "inside a.a",
		"mid/root/...":               "inside ...",
		"mid/root/.a":                "inside .a",
		"mid/root/%":                 "inside %",
		"mid/root/\\":                "inside backslash",
		"mid/root/%a":                "inside %a",
		"mid/root/a./a":              "inside a./a",
		"mid/root/\xaa":              "inside 0xAA",
		"mid/root/%2e%2e/a":          "inside literal %2e%2e",
		"mid/root/%2e":               "",
	}
	for name, content := range files {
		p := filepath.Join(top, name)
		if err := os.MkdirAll(filepath.Dir(p), 0o755); err != nil {
			return nil, err
		}
		if err := os.WriteFile(p, []byte(content), 0o644); err != nil {
			return nil, err
		}
	}
	fs := &app.FS{Root: root, GenerateIndexPages: true, CacheDuration: time.Hour}
	vfs := &app.FS{Root: root, GenerateIndexPages: true, CacheDuration: time.Hour, PathRewrite: app.NewVHostPathRewriter(0)}
	return &sandbox{top: top, root: root, h: fs.NewRequestHandler(), vh: vfs.NewRequestHandler()}, nil
}

// serveVHost requests target with the given Host through the rewriting handler; only "was a sentinel served".
func (s *sandbox) serveVHost(target []byte, host string) bool {
	ctx := app.NewContext(0)
	ctx.Request.Header.SetMethod("GET")
	ctx.Request.SetRequestURI(string(target))
	ctx.Request.Header.SetHost(host)
	s.vh(context.Background(), ctx)
	return bytes.Contains(ctx.Response.Body(), []byte(marker))
}

func (s *sandbox) serve(target []byte) (path []byte, status int, sentinel bool) {
	ctx := app.NewContext(0)
	ctx.Request.Header.SetMethod("GET")
	ctx.Request.SetRequestURI(string(target))
	ctx.Request.Header.SetHost("sandbox.test")
	path = append([]byte(nil), ctx.Path()...)
	s.h(context.Background(), ctx)
	status = ctx.Response.StatusCode()
	body := ctx.Response.Body() // drains and closes the file stream
	sentinel = bytes.Contains(body, []byte(marker))
	return
}

// ------------------------------------------------------------------ enumeration (shortlex, like PathNorm!Succ)

func unrank(r int64, n int) []int {
	// strings of length 0 come first, then length 1 in alphabet order, ...
	l, cnt := 0, int64(1)
	for r >= cnt {
		r -= cnt
		l++
		cnt *= int64(n)
	}
	idx := make([]int, l)
	for i := l - 1; i >= 0; i-- {
		idx[i] = int(r % int64(n))
		r /= int64(n)
	}
	return idx
}

func succ(idx []int, n int) []int {
	for i := len(idx) - 1; i >= 0; i-- {
		if idx[i] < n-1 {
			idx[i]++
			return idx
		}
		idx[i] = 0
	}
	return append(idx, 0) // all were last: next length, all first (idx is all zeros now)
}

// ------------------------------------------------------------------ one target

type runner struct {
	tr *vtrace.Writer
	sb *sandbox
	u  protocol.URI // reused for every target of the chunk, like the URI of a pooled request
}

// measured counts for the evidence file (no verdicts): cases run; cases whose Path() differs from the target with
// a leading slash (the normaliser decoded or removed something); cases whose Path() has fewer '/' than the target
// has slashes (raw or as %2f/%2F), i.e. at least one segment was dropped or popped; FS responses by kind
var stats struct {
	Cases, Changed, Resolved, Served, Served200, Sentinel, VHost, Panics int64
}

func (r *runner) one(tok []string, withFS bool) {
	r.tr.Emit("Case", vtrace.Rec{"in": tok})
	target := concat(tok)
	func() {
		defer func() {
			if p := recover(); p != nil {
				r.tr.Emit("Panic", vtrace.Rec{"where": "URI.Parse", "msg": fmt.Sprint(p)})
				atomic.AddInt64(&stats.Panics, 1)
			}
		}()
		var u0 protocol.URI
		u := &r.u
		u.Parse([]byte("example.com"), append([]byte(nil), target...))
		out := chars(u.Path())
		u0.Parse(nil, append([]byte(nil), target...))
		r.tr.Emit("Norm", vtrace.Rec{"out": out, "out0": chars(u0.Path())})
		atomic.AddInt64(&stats.Cases, 1)
		plain := target
		if len(plain) == 0 || plain[0] != '/' {
			plain = append([]byte{'/'}, plain...)
		}
		if !bytes.Equal(plain, u.Path()) {
			atomic.AddInt64(&stats.Changed, 1)
		}
		if bytes.Count(u.Path(), []byte("/")) < bytes.Count(plain, []byte("/"))+bytes.Count(bytes.ToLower(plain), []byte("%2f")) {
			atomic.AddInt64(&stats.Resolved, 1)
		}
	}()
	func() {
		defer func() {
			if p := recover(); p != nil {
				r.tr.Emit("Panic", vtrace.Rec{"where": "CleanPath", "msg": fmt.Sprint(p)})
				atomic.AddInt64(&stats.Panics, 1)
			}
		}()
		r.tr.Emit("Clean", vtrace.Rec{"out": chars([]byte(utils.CleanPath(string(target))))})
	}()
	if withFS {
		func() {
			defer func() {
				if p := recover(); p != nil {
					r.tr.Emit("Panic", vtrace.Rec{"where": "FS", "msg": fmt.Sprint(p)})
					atomic.AddInt64(&stats.Panics, 1)
				}
			}()
			path, status, sentinel := r.sb.serve(target)
			vh := []bool{}
			if len(tok) <= *vhmax {
				for _, h := range vhosts {
					vh = append(vh, r.sb.serveVHost(target, h))
					atomic.AddInt64(&stats.VHost, 1)
				}
			}
			r.tr.Emit("Served", vtrace.Rec{"path": chars(path), "status": status, "sentinel": sentinel, "vh": vh})
			atomic.AddInt64(&stats.Served, 1)
			if status == 200 {
				atomic.AddInt64(&stats.Served200, 1)
			}
			if sentinel {
				atomic.AddInt64(&stats.Sentinel, 1)
			}
		}()
	}
}

func must(err error) {
	if err != nil {
		fmt.Fprintln(os.Stderr, "c07 driver:", err)
		os.Exit(3)
	}
}

var vhmax = flag.Int("vhmax", 3, "targets of at most this many tokens are also requested through the vhost-rewriting FS handler")

func main() {
	boundsF := flag.String("bounds", "", "bounds.json written by PathNormGen")
	out := flag.String("out", "", "output directory")
	chunks := flag.Int("chunks", 16, "number of enumeration trace files")
	nrand := flag.Int("rand", 0, "number of random longer targets")
	seed := flag.Int64("seed", 1, "seed for the random targets")
	fsmax := flag.Int("fsmax", -1, "serve enumerated targets of length <= fsmax (and all random ones) through app.FS; -1 = none")
	caseF := flag.String("case", "", "run the single Case line(s) of this file instead of enumerating")
	par := flag.Int("par", 8, "goroutines")
	randper := flag.Int("randper", 2000, "random targets per trace file")
	padchunks := flag.Int("padchunks", 2, "trace files per pad")
	flag.Parse()
	hlog.SetOutput(io.Discard)
	hlog.SetLevel(hlog.LevelFatal)

	var sb *sandbox
	if *fsmax >= 0 {
		var err error
		sb, err = newSandbox()
		must(err)
		defer os.RemoveAll(sb.top)
	}
	must(os.MkdirAll(*out, 0o755))

	if *caseF != "" { // re-run single cases: mode "free", no order obligation
		f, err := os.Open(*caseF)
		must(err)
		var cases [][]string
		sc := bufio.NewScanner(f)
		sc.Buffer(make([]byte, 1<<20), 1<<26)
		for sc.Scan() {
			var c struct {
				Ev string   `json:"ev"`
				In []string `json:"in"`
			}
			if json.Unmarshal(sc.Bytes(), &c) == nil && c.Ev == "Case" {
				if c.In == nil {
					c.In = []string{}
				}
				cases = append(cases, c.In)
			}
		}
		tr, err := vtrace.Create(filepath.Join(*out, "trace_000.ndjson"))
		must(err)
		tr.Emit("Chunk", vtrace.Rec{"mode": "free", "rank": 0, "n": len(cases), "fsmax": *fsmax, "pre": []string{}, "post": []string{}})
		r := &runner{tr: tr, sb: sb}
		for _, c := range cases {
			r.one(c, sb != nil)
		}
		tr.Emit("End", nil)
		must(tr.Close())
		if sb != nil {
			os.RemoveAll(sb.top)
		}
		return
	}

	var b Bounds
	raw, err := os.ReadFile(*boundsF)
	must(err)
	must(json.Unmarshal(bytes.TrimSpace(raw), &b))
	n := len(b.Alphabet)
	if n == 0 || b.Total <= 0 {
		must(fmt.Errorf("bad bounds %s", raw))
	}

	type job struct {
		file        string
		mode        string
		first, cnt  int64
		randTargets [][]string
		pre, post   []string
	}
	none := []string{}
	var jobs []job
	nc := int64(*chunks)
	if nc > b.Total {
		nc = b.Total
	}
	per, rem := b.Total/nc, b.Total%nc
	var at int64
	for i := int64(0); i < nc; i++ {
		c := per
		if i < rem {
			c++
		}
		jobs = append(jobs, job{file: fmt.Sprintf("trace_%03d.ndjson", i), mode: "enum", first: at, cnt: c, pre: none, post: none})
		at += c
	}
	if b.PadTotal > 0 {
		pc := int64(*padchunks)
		if pc > b.PadTotal {
			pc = b.PadTotal
		}
		for pi, pad := range b.Pads {
			per, rem, at := b.PadTotal/pc, b.PadTotal%pc, int64(0)
			for i := int64(0); i < pc; i++ {
				c := per
				if i < rem {
					c++
				}
				pre, post := append([]string{}, pad.Pre...), append([]string{}, pad.Post...)
				jobs = append(jobs, job{file: fmt.Sprintf("pad_%d_%03d.ndjson", pi, i), mode: "pad", first: at, cnt: c, pre: pre, post: post})
				at += c
			}
		}
	}
	if *nrand > 0 {
		rng := rand.New(rand.NewSource(*seed))
		perFile := *randper
		var cur [][]string
		flush := func() {
			if len(cur) > 0 {
				jobs = append(jobs, job{file: fmt.Sprintf("rand_%03d.ndjson", len(jobs)), mode: "free", randTargets: cur, pre: none, post: none})
				cur = nil
			}
		}
		for i := 0; i < *nrand; i++ {
			l := b.RandMin + rng.Intn(b.RandMax-b.RandMin+1)
			t := make([]string, l)
			// every other target draws from a random sub-alphabet of 2..5 tokens only (more structure, e.g. only
			// "/", "%2E", "."); the others draw uniformly from the whole alphabet
			alpha := b.RandAlphabet
			if i%2 == 1 {
				k := 2 + rng.Intn(4)
				alpha = nil
				for _, x := range rng.Perm(len(b.RandAlphabet))[:k] {
					alpha = append(alpha, b.RandAlphabet[x])
				}
			}
			for j := range t {
				t[j] = alpha[rng.Intn(len(alpha))]
			}
			cur = append(cur, t)
			if len(cur) == perFile {
				flush()
			}
		}
		flush()
	}

	sem := make(chan struct{}, *par)
	var wg sync.WaitGroup
	for _, j := range jobs {
		wg.Add(1)
		sem <- struct{}{}
		go func(j job) {
			defer wg.Done()
			defer func() { <-sem }()
			tr, err := vtrace.Create(filepath.Join(*out, j.file))
			must(err)
			r := &runner{tr: tr, sb: sb}
			if j.mode == "enum" || j.mode == "pad" {
				tr.Emit("Chunk", vtrace.Rec{"mode": j.mode, "rank": j.first, "n": j.cnt, "fsmax": *fsmax, "pre": j.pre, "post": j.post})
				idx := unrank(j.first, n)
				tok := make([]string, 0, b.MaxLen+1+len(j.pre)+len(j.post))
				for k := int64(0); k < j.cnt; k++ {
					tok = append(tok[:0], j.pre...)
					for _, x := range idx {
						tok = append(tok, b.Alphabet[x])
					}
					tok = append(tok, j.post...)
					r.one(tok, j.mode == "enum" && sb != nil && len(tok) <= *fsmax)
					idx = succ(idx, n)
				}
			} else {
				tr.Emit("Chunk", vtrace.Rec{"mode": "free", "rank": 0, "n": len(j.randTargets), "fsmax": *fsmax, "pre": none, "post": none})
				for _, t := range j.randTargets {
					r.one(t, sb != nil)
				}
			}
			tr.Emit("End", nil)
			must(tr.Close())
		}(j)
	}
	wg.Wait()
	if sb != nil {
		os.RemoveAll(sb.top)
	}
	st, _ := json.Marshal(stats)
	must(os.WriteFile(filepath.Join(*out, "stats.json"), st, 0o644))
}
