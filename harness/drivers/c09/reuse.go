package main

// What the user of a recycled object DOES with it.  After the first look (dump) the probe applies one fixed program of
// setters -- short values, shorter than what mutators and requests leave behind -- to the recycled object, dumps
// again, and compares with the dump a brand-new object gives after the same program.  Setters write into the buffers
// and slots the previous use left behind (append(x[:0], ...), reused argsKV slots, Cookie.buf, ...): a byte of the
// earlier content that shows up afterwards is visible only this way.  Three program variants, one per history:
//
//	bytes   the []byte variants of the setters (SetXBytes, SetBytesKV, SetBytesV, SetArgBytes, ParseBytes, SetBody ...)
//	string  the string variants (SetX, Set, Add, SetBodyString ...)
//	copy    X.CopyTo(recycled): the object is the DESTINATION of CopyTo from a small source (Cookie has no CopyTo: ParseBytes)
//
// A step that panics is recorded (component "set.panic") instead of killing the history: a brand-new object may well
// panic where a recycled one silently produces garbage, and the other way round.

import (
	"fmt"
	"strings"

	"github.com/cloudwego/hertz/pkg/protocol"
)

type step struct {
	class string // receiver class, as in mutators.go
	name  string
	f     func(e *env)
}

func smallCookie() *protocol.Cookie {
	c := &protocol.Cookie{}
	c.SetKey("c")
	c.SetValue("1")
	return c
}

func smallArgs() *protocol.Args {
	a := &protocol.Args{}
	a.ParseBytes([]byte("k&a=1&j&b=2"))
	return a
}

func smallRequest() *protocol.Request {
	r := &protocol.Request{}
	r.SetRequestURI("/s?k&a=1")
	r.Header.SetMethod("PUT")
	r.Header.SetHost("e")
	r.Header.Set("X-S", "1")
	r.Header.SetCookie("c", "1")
	r.PostArgs().ParseBytes([]byte("k&a=1&j"))
	r.SetBodyString("b")
	r.ParseURI()
	return r
}

func smallResponse() *protocol.Response {
	r := &protocol.Response{}
	r.SetStatusCode(201)
	r.Header.Set("X-S", "1")
	r.Header.SetContentType("t/s")
	r.Header.SetCookie(smallCookie())
	r.SetBodyString("b")
	return r
}

func smallURI() *protocol.URI {
	u := &protocol.URI{}
	u.Parse([]byte("e"), []byte("/s?k&a=1&j#f"))
	u.QueryArgs()
	return u
}

var programs = map[string][]step{
	"bytes": {
		{"URI", "SetSchemeBytes", func(e *env) { e.URI().SetSchemeBytes([]byte("h")) }},
		{"URI", "SetHostBytes", func(e *env) { e.URI().SetHostBytes([]byte("e")) }},
		{"URI", "SetPathBytes", func(e *env) { e.URI().SetPathBytes([]byte("/p")) }},
		{"URI", "SetQueryStringBytes", func(e *env) { e.URI().SetQueryStringBytes([]byte("k&q=1")) }},
		{"URI", "SetHashBytes", func(e *env) { e.URI().SetHashBytes([]byte("f")) }},
		{"URI", "SetUsernameBytes", func(e *env) { e.URI().SetUsernameBytes([]byte("u")) }},
		{"URI", "SetPasswordBytes", func(e *env) { e.URI().SetPasswordBytes([]byte("w")) }},
		{"QArgs", "DelBytes", func(e *env) { e.URI().QueryArgs().DelBytes([]byte("zz")) }},
		{"PArgs", "ParseBytes", func(e *env) { e.Req().PostArgs().ParseBytes([]byte("k&a=1&j")) }},
		{"Args", "ParseBytes", func(e *env) { e.args.ParseBytes([]byte("k&a=1&j")) }},
		{"Args", "DelBytes", func(e *env) { e.args.DelBytes([]byte("j")) }},
		{"ReqH", "SetMethodBytes", func(e *env) { e.Req().Header.SetMethodBytes([]byte("PUT")) }},
		{"ReqH", "SetRequestURIBytes", func(e *env) { e.Req().Header.SetRequestURIBytes([]byte("/r")) }},
		{"ReqH", "SetHostBytes", func(e *env) { e.Req().Header.SetHostBytes([]byte("e")) }},
		{"ReqH", "SetContentTypeBytes", func(e *env) { e.Req().Header.SetContentTypeBytes([]byte("t/x")) }},
		{"ReqH", "SetUserAgentBytes", func(e *env) { e.Req().Header.SetUserAgentBytes([]byte("a")) }},
		{"ReqH", "SetContentLengthBytes", func(e *env) { e.Req().Header.SetContentLengthBytes([]byte("1")) }},
		{"ReqH", "SetBytesKV", func(e *env) { e.Req().Header.SetBytesKV([]byte("X-A"), []byte("1")) }},
		{"ReqH", "SetArgBytes", func(e *env) { e.Req().Header.SetArgBytes([]byte("X-B"), []byte("2"), false) }},
		{"ReqH", "AddArgBytes", func(e *env) { e.Req().Header.AddArgBytes([]byte("X-B"), []byte("3"), false) }},
		{"ReqH", "SetCanonical", func(e *env) { e.Req().Header.SetCanonical([]byte("X-C"), []byte("4")) }},
		{"ReqH", "DelBytes", func(e *env) { e.Req().Header.DelBytes([]byte("X-Zz")) }},
		{"Req", "SetBody", func(e *env) { e.Req().SetBody([]byte("b")) }},
		{"Req", "AppendBody", func(e *env) { e.Req().AppendBody([]byte("c")) }},
		{"RespH", "SetContentTypeBytes", func(e *env) { e.Resp().Header.SetContentTypeBytes([]byte("t/y")) }},
		{"RespH", "SetContentEncodingBytes", func(e *env) { e.Resp().Header.SetContentEncodingBytes([]byte("z")) }},
		{"RespH", "SetServerBytes", func(e *env) { e.Resp().Header.SetServerBytes([]byte("s")) }},
		{"RespH", "SetBytesV", func(e *env) { e.Resp().Header.SetBytesV("X-D", []byte("5")) }},
		{"RespH", "SetCanonical", func(e *env) { e.Resp().Header.SetCanonical([]byte("X-E"), []byte("6")) }},
		{"RespH", "SetArgBytes", func(e *env) { e.Resp().Header.SetArgBytes([]byte("X-F"), []byte("7"), false) }},
		{"RespH", "AddArgBytes", func(e *env) { e.Resp().Header.AddArgBytes([]byte("X-F"), []byte("8"), false) }},
		{"RespH", "ParseSetCookie", func(e *env) { e.Resp().Header.ParseSetCookie([]byte("c=1")) }},
		{"RespH", "DelBytes", func(e *env) { e.Resp().Header.DelBytes([]byte("X-Zz")) }},
		{"Resp", "SetBody", func(e *env) { e.Resp().SetBody([]byte("b")) }},
		{"Resp", "AppendBody", func(e *env) { e.Resp().AppendBody([]byte("c")) }},
		{"Cookie", "SetKeyBytes", func(e *env) { e.cookie.SetKeyBytes([]byte("a")) }},
		{"Cookie", "SetValueBytes", func(e *env) { e.cookie.SetValueBytes([]byte("v")) }},
		{"Cookie", "SetPathBytes", func(e *env) { e.cookie.SetPathBytes([]byte("/x")) }},
		{"Ctx", "SetContentTypeBytes", func(e *env) { e.ctx.SetContentTypeBytes([]byte("t/c")) }},
		{"Ctx", "Set", func(e *env) { e.ctx.Set("k", "v") }},
	},
	"string": {
		{"URI", "SetScheme", func(e *env) { e.URI().SetScheme("h") }},
		{"URI", "SetHost", func(e *env) { e.URI().SetHost("e") }},
		{"URI", "SetPath", func(e *env) { e.URI().SetPath("/p") }},
		{"URI", "SetQueryString", func(e *env) { e.URI().SetQueryString("k&q=1") }},
		{"URI", "SetHash", func(e *env) { e.URI().SetHash("f") }},
		{"URI", "SetUsername", func(e *env) { e.URI().SetUsername("u") }},
		{"URI", "SetPassword", func(e *env) { e.URI().SetPassword("w") }},
		{"QArgs", "Set", func(e *env) { e.URI().QueryArgs().Set("a", "1") }},
		{"QArgs", "Add", func(e *env) { e.URI().QueryArgs().Add("b", "2") }},
		{"PArgs", "Set", func(e *env) { e.Req().PostArgs().Set("a", "1") }},
		{"PArgs", "Add", func(e *env) { e.Req().PostArgs().Add("b", "2") }},
		{"Args", "Set", func(e *env) { e.args.Set("a", "1") }},
		{"Args", "Add", func(e *env) { e.args.Add("b", "2") }},
		{"Args", "Del", func(e *env) { e.args.Del("zz") }},
		{"ReqH", "SetMethod", func(e *env) { e.Req().Header.SetMethod("PUT") }},
		{"ReqH", "SetRequestURI", func(e *env) { e.Req().Header.SetRequestURI("/r") }},
		{"ReqH", "SetHost", func(e *env) { e.Req().Header.SetHost("e") }},
		{"ReqH", "Set", func(e *env) { e.Req().Header.Set("X-A", "1") }},
		{"ReqH", "Add", func(e *env) { e.Req().Header.Add("X-A", "2") }},
		{"ReqH", "Set:User-Agent", func(e *env) { e.Req().Header.Set("User-Agent", "a") }},
		{"ReqH", "Set:Content-Type", func(e *env) { e.Req().Header.Set("Content-Type", "t/x") }},
		{"ReqH", "SetCookie", func(e *env) { e.Req().Header.SetCookie("c", "1") }},
		{"ReqTr", "Set", func(e *env) { e.Req().Header.Trailer().Set("X-T", "1") }}, //nolint:errcheck
		{"Req", "SetHeader", func(e *env) { e.Req().SetHeader("X-H", "1") }},
		{"Req", "SetBodyString", func(e *env) { e.Req().SetBodyString("b") }},
		{"Req", "AppendBodyString", func(e *env) { e.Req().AppendBodyString("c") }},
		{"RespH", "SetContentType", func(e *env) { e.Resp().Header.SetContentType("t/y") }},
		{"RespH", "SetContentEncoding", func(e *env) { e.Resp().Header.SetContentEncoding("z") }},
		{"RespH", "Set", func(e *env) { e.Resp().Header.Set("X-D", "5") }},
		{"RespH", "Add", func(e *env) { e.Resp().Header.Add("X-D", "6") }},
		{"RespH", "Set:Server", func(e *env) { e.Resp().Header.Set("Server", "s") }},
		{"RespH", "SetCookie", func(e *env) { e.Resp().Header.SetCookie(smallCookie()) }},
		{"RespTr", "Set", func(e *env) {
			if e.ctx == nil { // not on a live context: a response trailer changes the framing of the probe's own response
				e.Resp().Header.Trailer().Set("X-T", "1") //nolint:errcheck
			}
		}},
		{"Resp", "SetBodyString", func(e *env) { e.Resp().SetBodyString("b") }},
		{"Resp", "AppendBodyString", func(e *env) { e.Resp().AppendBodyString("c") }},
		{"Cookie", "SetKey", func(e *env) { e.cookie.SetKey("a") }},
		{"Cookie", "SetValue", func(e *env) { e.cookie.SetValue("v") }},
		{"Cookie", "SetPath", func(e *env) { e.cookie.SetPath("/x") }},
		{"Cookie", "SetDomain", func(e *env) { e.cookie.SetDomain("d") }},
		{"Ctx", "SetContentType", func(e *env) { e.ctx.SetContentType("t/c") }},
		{"Ctx", "Header", func(e *env) { e.ctx.Header("X-G", "9") }},
		{"Ctx", "Set", func(e *env) { e.ctx.Set("k", "v") }},
	},
	"copy": {
		{"Req", "CopyTo:dst", func(e *env) { smallRequest().CopyTo(e.Req()) }},
		{"Resp", "CopyTo:dst", func(e *env) { smallResponse().CopyTo(e.Resp()) }},
		{"URI", "CopyTo:dst", func(e *env) {
			if e.ctx == nil && e.req == nil { // for a context/request the URI came with Request.CopyTo
				smallURI().CopyTo(e.URI())
			}
		}},
		{"Args", "CopyTo:dst", func(e *env) { smallArgs().CopyTo(e.args) }},
		{"Cookie", "ParseBytes", func(e *env) { e.cookie.ParseBytes([]byte("a=v; path=/x")) }}, //nolint:errcheck
	},
}

func classApplies(class, kind string) bool {
	for _, k := range classKinds[class] {
		if k == kind {
			return true
		}
	}
	return false
}

// applyProgram runs the steps of the variant that apply to the object kind; it returns the steps that panicked.
func applyProgram(variant, kind string, e *env) string {
	var panics []string
	for _, s := range programs[variant] {
		if !classApplies(s.class, kind) {
			continue
		}
		func() {
			defer func() {
				if p := recover(); p != nil {
					panics = append(panics, fmt.Sprintf("%s.%s", s.class, s.name))
				}
			}()
			s.f(e)
		}()
	}
	return strings.Join(panics, ",")
}
