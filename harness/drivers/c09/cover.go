package main

// Coverage of the public API by the mutator alphabet.  Every exported method and exported field of the nine types
// is either (a) a mutator of the table, (b) declared read-only here (it cannot change what a later request
// observes: plain getters, serializers into caller-owned buffers, copies *from* the receiver), or (c) reported as
// Uncovered{type, method}.  The trace specification accepts an Uncovered event only when (type, method) is in its
// exclusion list, which carries a reason per entry -- so a method added to hertz cannot silently escape the alphabet.

import (
	"reflect"
	"sort"
	"strings"

	"github.com/cloudwego/hertz/pkg/app"
	"github.com/cloudwego/hertz/pkg/protocol"
)

var readOnly = map[string]string{
	"RequestContext": "ClientIP ContentType Cookie DefaultPostForm DefaultQuery FullPath GetBool GetConn GetDuration " +
		"GetFloat32 GetFloat64 GetHeader GetHijackHandler GetIndex GetInt GetInt32 GetInt64 GetPostForm GetQuery GetRawData GetReader " +
		"GetRequest GetResponse GetStringMap GetStringMapString GetStringMapStringSlice GetStringSlice GetTime " +
		"GetUint GetUint32 GetUint64 GetWriter Handler HandlerName Handlers Hijacked Host IfModifiedSince IsAborted IsEnableTrace IsExiled " +
		"IsGet IsHead IsPost Method MustGet Param Path PostFormArray Query RemoteAddr UserAgent VisitAllCookie " +
		"VisitAllHeaders VisitAllPostArgs VisitAllQueryArgs",
	"Request": "BasicAuth BodyBytes BodyStream ConnectionClose HasMultipartForm Host IsBodyStream IsURIParsed MayContinue Method " +
		"MultipartFields MultipartFiles MultipartFormBoundary OnlyMultipartForm Path PostArgString QueryString RequestURI Scheme",
	"Response": "BodyBytes BodyGunzip BodyStream ConnectionClose GetHijackWriter HasBodyBytes Hijack IsBodyStream LocalAddr MustSkipBody " +
		"RemoteAddr StatusCode",
	"RequestHeader": "AppendBytes ConnectionClose ContentLength ContentLengthBytes ContentType Cookie CopyTo FullCookie Get GetAll GetBufValue " +
		"GetProtocol HasAcceptEncodingBytes Header Host IgnoreBody IsConnect IsDelete IsDisableNormalizing IsGet IsHTTP11 IsHead IsOptions " +
		"IsPost IsPut IsTrace Len Method MultipartFormBoundary Peek PeekAll PeekArgBytes PeekContentEncoding PeekIfModifiedSinceBytes " +
		"PeekRange RawHeaders RequestURI String Trailer UserAgent VisitAll VisitAllCookie VisitAllCustomHeader",
	"ResponseHeader": "AppendBytes ConnectionClose ContentEncoding ContentLength ContentLengthBytes ContentType Cookie CopyTo FullCookie Get GetAll " +
		"GetCookies GetHeaderLength GetHeaders GetProtocol Header IsDisableNormalizing IsHTTP11 Len MustSkipContentLength NoDefaultContentType " +
		"Peek PeekAll PeekArgBytes PeekLocation Server StatusCode Trailer VisitAll VisitAllCookie",
	"URI":     "AppendBytes FullURI Hash Host LastPathSegment Password Path PathOriginal QueryString RequestURI Scheme String Username",
	"Args":    "AppendBytes Has Len Peek PeekAll PeekExists QueryString String VisitAll WriteTo",
	"Cookie":  "AppendBytes Cookie Domain Expire HTTPOnly Key MaxAge Partitioned Path SameSite Secure String Value",
	"Trailer": "AppendBytes Empty Get GetBytes GetTrailers Header IsDisableNormalizing Peek VisitAll",
}

// exported fields that are themselves covered objects (their methods are in the table)
var structuralFields = map[string]string{"RequestContext": "Request Response", "Request": "Header", "Response": "Header"}

type uncovered struct{ Type, Method string }

// CopyTo of a covered type mutates its argument, not its receiver: the table has it as "<Class>.CopyTo:dst";
// for the receiver it is read-only.
func coverage() []uncovered {
	covered := map[string]bool{}
	for _, m := range table {
		meth := m.Method
		if i := strings.IndexByte(meth, ':'); i >= 0 && !strings.HasPrefix(meth, "field:") && !strings.HasPrefix(meth, "pkg:") {
			meth = meth[:i]
		}
		covered[m.Type+"."+meth] = true
	}
	for t, l := range readOnly {
		for _, m := range strings.Fields(l) {
			covered[t+"."+m] = true
		}
	}
	for t, l := range structuralFields {
		for _, m := range strings.Fields(l) {
			covered[t+".field:"+m] = true
		}
	}
	var out []uncovered
	for _, v := range []interface{}{&app.RequestContext{}, &protocol.Request{}, &protocol.Response{}, &protocol.RequestHeader{},
		&protocol.ResponseHeader{}, &protocol.URI{}, &protocol.Args{}, &protocol.Cookie{}, &protocol.Trailer{}} {
		rt := reflect.TypeOf(v)
		tn := rt.Elem().Name()
		for i := 0; i < rt.NumMethod(); i++ {
			if n := rt.Method(i).Name; !covered[tn+"."+n] {
				out = append(out, uncovered{tn, n})
			}
		}
		st := rt.Elem()
		for i := 0; i < st.NumField(); i++ {
			f := st.Field(i)
			if f.PkgPath == "" && !covered[tn+".field:"+f.Name] { // exported
				out = append(out, uncovered{tn, "field:" + f.Name})
			}
		}
	}
	sort.Slice(out, func(i, j int) bool {
		if out[i].Type != out[j].Type {
			return out[i].Type < out[j].Type
		}
		return out[i].Method < out[j].Method
	})
	return out
}
