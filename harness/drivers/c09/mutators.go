package main

// The mutator alphabet: every exported method (and exported field) of app.RequestContext, protocol.Request,
// protocol.Response, RequestHeader, ResponseHeader, URI, Args, Cookie and Trailer that changes (or may lazily
// change) the state of its receiver, as a table name -> closure.  Names are "<Class>.<Method>[:variant]"; the class
// says how the receiver is reached from the object under test:
//
//	Ctx    the *app.RequestContext                      (object kind Ctx)
//	Req    ctx.Request / the acquired *Request          (Ctx, Request)
//	ReqH   its Header   ReqTr its Header.Trailer()   PArgs its PostArgs()
//	URI    req.URI() / the acquired *URI                (Ctx, Request, URI)     QArgs  its QueryArgs()
//	Resp   ctx.Response / the acquired *Response        (Ctx, Response)
//	RespH  its Header   RespTr its Header.Trailer()
//	Args   a stand-alone protocol.Args                  (Args)
//	Cookie the acquired *Cookie                         (Cookie)
//
// cover.go compares this table with the reflected method sets; what is neither here nor a declared read-only method
// is reported as Uncovered and must be listed (with a reason) in the specification.

import (
	"bytes"
	"context"
	"errors"
	"io"
	"net/url"
	"os"
	"strings"
	"time"

	"github.com/cloudwego/hertz/pkg/app"
	"github.com/cloudwego/hertz/pkg/common/bytebufferpool"
	"github.com/cloudwego/hertz/pkg/common/config"
	"github.com/cloudwego/hertz/pkg/common/tracer/stats"
	"github.com/cloudwego/hertz/pkg/common/tracer/traceinfo"
	"github.com/cloudwego/hertz/pkg/network"
	"github.com/cloudwego/hertz/pkg/protocol"
	"github.com/cloudwego/hertz/pkg/route/param"
)

// env is the object under test plus what closures need.
type env struct {
	c      context.Context
	ctx    *app.RequestContext
	req    *protocol.Request
	resp   *protocol.Response
	uri    *protocol.URI
	args   *protocol.Args
	cookie *protocol.Cookie
	files  string // directory holding small.txt
}

func (e *env) Req() *protocol.Request {
	if e.ctx != nil {
		return &e.ctx.Request
	}
	return e.req
}

func (e *env) Resp() *protocol.Response {
	if e.ctx != nil {
		return &e.ctx.Response
	}
	return e.resp
}

func (e *env) URI() *protocol.URI {
	if e.uri != nil {
		return e.uri
	}
	return e.Req().URI()
}

type mutator struct {
	Name   string   `json:"name"`
	Class  string   `json:"class"`
	Type   string   `json:"type"`   // Go type whose method/field this is
	Method string   `json:"method"` // method name, or "field:<Name>", or "pkg:<Func>"
	Kinds  []string `json:"kinds"`  // object kinds it applies to
	f      func(e *env)
}

var classType = map[string]string{"Ctx": "RequestContext", "Req": "Request", "ReqH": "RequestHeader", "ReqTr": "Trailer",
	"PArgs": "Args", "URI": "URI", "QArgs": "Args", "Resp": "Response", "RespH": "ResponseHeader", "RespTr": "Trailer",
	"Args": "Args", "Cookie": "Cookie"}

var classKinds = map[string][]string{"Ctx": {"Ctx"}, "Req": {"Ctx", "Request"}, "ReqH": {"Ctx", "Request"}, "ReqTr": {"Ctx", "Request"},
	"PArgs": {"Ctx", "Request"}, "URI": {"Ctx", "Request", "URI"}, "QArgs": {"Ctx", "Request", "URI"},
	"Resp": {"Ctx", "Response"}, "RespH": {"Ctx", "Response"}, "RespTr": {"Ctx", "Response"}, "Args": {"Args"}, "Cookie": {"Cookie"}}

var table []*mutator
var byName = map[string]*mutator{}

func add(class, method, variant string, f func(e *env)) {
	name := class + "." + method
	if variant != "" {
		name += ":" + variant
	}
	if byName[name] != nil {
		panic("duplicate mutator " + name)
	}
	m := &mutator{Name: name, Class: class, Type: classType[class], Method: method, Kinds: classKinds[class], f: f}
	table = append(table, m)
	byName[name] = m
}

// ---------------------------------------------------------------- helpers used by closures

type nopExtWriter struct{ bytes.Buffer }

func (w *nopExtWriter) Flush() error    { return nil }
func (w *nopExtWriter) Finalize() error { return nil }

var _ network.ExtWriter = (*nopExtWriter)(nil)

type textRender struct{}

func (textRender) Render(resp *protocol.Response) error {
	resp.AppendBodyString("c09-render")
	return nil
}
func (textRender) WriteContentType(resp *protocol.Response) { resp.Header.SetContentType("text/c09") }

type bindTarget struct {
	A string `query:"x" form:"fa" header:"X-Custom" path:"p1" json:"a"`
	B int    `query:"y" form:"fb" json:"b"`
}

func rd(s string) io.Reader { return strings.NewReader(s) }

// errCloser is a body stream that reads fine but whose Close always fails (what an *os.File, pipe or connection
// reports when the handler has closed it already): closing is part of every reset path.
type errCloser struct{ io.Reader }

func (errCloser) Close() error { return errors.New("c09: close failed") }

func rdBadClose(s string) io.Reader { return errCloser{strings.NewReader(s)} }

// closedFile opens the small file and closes it at once, as `defer f.Close()` in a handler does before the
// server writes the response: reads and Close both fail from then on.
func closedFile(e *env) io.Reader {
	f, err := os.Open(e.files + "/small.txt")
	if err != nil {
		panic(err)
	}
	f.Close()
	return f
}

func richRequest() *protocol.Request {
	r := &protocol.Request{}
	r.SetRequestURI("http://user:pw@copy.example/cp/ath?cq=1#ch")
	r.Header.SetMethod("PUT")
	r.Header.Set("X-Copy", "1")
	r.Header.SetCookie("cc", "1")
	r.Header.SetUserAgentBytes([]byte("copy-agent"))
	r.Header.SetContentTypeBytes([]byte("text/copy"))
	r.Header.Trailer().Set("X-Copy-T", "1") //nolint:errcheck
	r.SetBodyString("copy-body")
	r.PostArgs().Set("cpa", "1")
	r.SetOptions(config.WithTag("copy", "1"))
	r.ParseURI()
	return r
}

func richResponse() *protocol.Response {
	r := &protocol.Response{}
	r.SetStatusCode(418)
	r.Header.Set("X-Copy", "1")
	r.Header.SetContentType("text/copy")
	r.Header.SetContentEncoding("gzip")
	r.Header.SetServerBytes([]byte("copy-server"))
	ck := &protocol.Cookie{}
	ck.SetKey("cc")
	ck.SetValue("1")
	r.Header.SetCookie(ck)
	r.Header.Trailer().Set("X-Copy-T", "1") //nolint:errcheck
	r.SetBodyString("copy-body")
	r.SkipBody = true
	return r
}

func richURI() *protocol.URI {
	u := &protocol.URI{}
	u.Parse([]byte("copy.example"), []byte("https://u:p@copy.example/a/b?x=1&y=2#frag"))
	u.QueryArgs()
	return u
}

func someCookie() *protocol.Cookie {
	c := &protocol.Cookie{}
	c.SetKey("c09ck")
	c.SetValue("v")
	c.SetPath("/p")
	c.SetDomain("d.example")
	c.SetMaxAge(60)
	c.SetHTTPOnly(true)
	return c
}

var reqHeaderNames = []string{"X-C09", "Host", "Content-Type", "User-Agent", "Content-Length", "Connection", "Cookie", "Transfer-Encoding", "Trailer"}
var respHeaderNames = []string{"X-C09", "Content-Type", "Server", "Content-Length", "Connection", "Set-Cookie", "Transfer-Encoding", "Trailer", "Content-Encoding", "Date"}

func hv(name string) string {
	switch name {
	case "Content-Length":
		return "5"
	case "Connection":
		return "close"
	case "Cookie", "Set-Cookie":
		return "hc=1"
	case "Transfer-Encoding":
		return "chunked"
	case "Trailer":
		return "X-C09-T"
	case "Content-Type":
		return "text/c09"
	}
	return "c09-" + strings.ToLower(name)
}

func init() {
	// ------------------------------------------------------------ RequestContext
	C := func(method, variant string, f func(e *env)) { add("Ctx", method, variant, f) }
	C("Abort", "", func(e *env) { e.ctx.Abort() })
	C("AbortWithError", "", func(e *env) { e.ctx.AbortWithError(500, errors.New("c09-abort-err")) })
	C("AbortWithMsg", "", func(e *env) { e.ctx.AbortWithMsg("c09-msg", 400) })
	C("AbortWithStatus", "", func(e *env) { e.ctx.AbortWithStatus(403) })
	C("AbortWithStatusJSON", "", func(e *env) { e.ctx.AbortWithStatusJSON(409, map[string]int{"c09": 1}) })
	C("Bind", "", func(e *env) { e.ctx.Bind(&bindTarget{}) })                           //nolint:errcheck
	C("BindAndValidate", "", func(e *env) { e.ctx.BindAndValidate(&bindTarget{}) })     //nolint:errcheck
	C("BindByContentType", "", func(e *env) { e.ctx.BindByContentType(&bindTarget{}) }) //nolint:errcheck
	C("BindForm", "", func(e *env) { e.ctx.BindForm(&bindTarget{}) })                   //nolint:errcheck
	C("BindHeader", "", func(e *env) { e.ctx.BindHeader(&bindTarget{}) })               //nolint:errcheck
	C("BindJSON", "", func(e *env) { e.ctx.BindJSON(&bindTarget{}) })                   //nolint:errcheck
	C("BindPath", "", func(e *env) { e.ctx.BindPath(&bindTarget{}) })                   //nolint:errcheck
	C("BindProtobuf", "", func(e *env) { e.ctx.BindProtobuf(&bindTarget{}) })           //nolint:errcheck
	C("BindQuery", "", func(e *env) { e.ctx.BindQuery(&bindTarget{}) })                 //nolint:errcheck
	C("Validate", "", func(e *env) { e.ctx.Validate(&bindTarget{}) })                   //nolint:errcheck
	C("Body", "", func(e *env) { e.ctx.Body() })                                        //nolint:errcheck
	// read-only by contract, but they take the context's lock: a lock left held is state that survives recycling
	C("Copy", "", func(e *env) { _ = e.ctx.Copy() })
	C("ForEachKey", "", func(e *env) { e.ctx.ForEachKey(func(string, interface{}) {}) })
	C("ForEachKey", "panic", func(e *env) { // the callback is user code: its panic (recovered here) must not leave ctx.mu held
		e.ctx.Set("c09fk", 1)
		defer func() { recover() }() //nolint:errcheck
		e.ctx.ForEachKey(func(string, interface{}) { panic("c09: ForEachKey callback") })
	})
	C("Get", "", func(e *env) { e.ctx.Get("c09") })
	C("GetString", "", func(e *env) { _ = e.ctx.GetString("c09") })
	C("Value", "", func(e *env) { _ = e.ctx.Value("c09") })
	C("Data", "", func(e *env) { e.ctx.Data(201, "application/c09", []byte("c09-data")) })
	C("Error", "", func(e *env) { e.ctx.Error(errors.New("c09-err")) }) //nolint:errcheck
	C("Exile", "", func(e *env) { e.ctx.Exile() })
	C("File", "", func(e *env) { e.ctx.File(e.files + "/small.txt") })
	C("FileAttachment", "", func(e *env) { e.ctx.FileAttachment(e.files+"/small.txt", "att.txt") })
	C("FileFromFS", "", func(e *env) { e.ctx.FileFromFS("/small.txt", &app.FS{Root: e.files, CacheDuration: time.Hour}) })
	C("Finished", "", func(e *env) { e.ctx.Finished() })
	C("Flush", "", func(e *env) { e.ctx.Flush() })               //nolint:errcheck
	C("FormFile", "", func(e *env) { e.ctx.FormFile("upfile") }) //nolint:errcheck
	C("FormValue", "", func(e *env) { e.ctx.FormValue("fa") })   //nolint:errcheck
	C("PostArgs", "", func(e *env) { e.ctx.PostArgs() })         //nolint:errcheck
	C("PostForm", "", func(e *env) { e.ctx.PostForm("fa") })     //nolint:errcheck
	C("GetPostFormArray", "", func(e *env) { e.ctx.GetPostFormArray("fa") })
	C("MultipartForm", "", func(e *env) { e.ctx.MultipartForm() }) //nolint:errcheck
	C("QueryArgs", "", func(e *env) { e.ctx.QueryArgs() })
	C("URI", "", func(e *env) { e.ctx.URI() })
	C("RequestBodyStream", "", func(e *env) { io.Copy(io.Discard, io.LimitReader(e.ctx.RequestBodyStream(), 1<<16)) }) //nolint:errcheck
	C("HTML", "", func(e *env) { e.ctx.HTML(200, "c09.tmpl", nil) })
	C("Header", "", func(e *env) { e.ctx.Header("X-C09-Ctx", "v") })
	C("Header", "del", func(e *env) { e.ctx.Header("Server", "") })
	C("Hijack", "", func(e *env) { e.ctx.Hijack(func(network.Conn) {}) })
	C("SetHijackHandler", "", func(e *env) { e.ctx.SetHijackHandler(func(network.Conn) {}) })
	C("IndentedJSON", "", func(e *env) { e.ctx.IndentedJSON(200, map[string]int{"c09": 1}) })
	C("JSON", "", func(e *env) { e.ctx.JSON(200, map[string]int{"c09": 1}) })
	C("PureJSON", "", func(e *env) { e.ctx.PureJSON(200, map[string]string{"c09": "<>"}) })
	C("XML", "", func(e *env) { e.ctx.XML(200, bindTarget{A: "x"}) })
	C("ProtoBuf", "", func(e *env) { e.ctx.ProtoBuf(200, &bindTarget{}) })
	C("Render", "", func(e *env) { e.ctx.Render(202, textRender{}) })
	C("String", "", func(e *env) { e.ctx.String(203, "c09-%d", 1) })
	C("Next", "", func(e *env) { e.ctx.Next(e.c) })
	C("NotFound", "", func(e *env) { e.ctx.NotFound() })
	C("NotModified", "", func(e *env) { e.ctx.NotModified() })
	C("Redirect", "", func(e *env) { e.ctx.Redirect(302, []byte("/c09/redirect")) })
	C("ResetWithoutConn", "", func(e *env) { e.ctx.ResetWithoutConn() })
	C("Set", "", func(e *env) { e.ctx.Set("c09", "v") })
	C("SetBodyStream", "", func(e *env) { e.ctx.SetBodyStream(rd("c09-ctx-stream"), 14) })
	C("SetBodyStream", "chunked", func(e *env) { e.ctx.SetBodyStream(rd("c09-ctx-stream"), -1) })
	C("SetBodyStream", "closeErr", func(e *env) { e.ctx.SetBodyStream(rdBadClose("c09-ctx-stream"), 14) })
	C("SetBodyStream", "closedFile", func(e *env) { e.ctx.SetBodyStream(closedFile(e), -1) })
	C("SetBodyString", "", func(e *env) { e.ctx.SetBodyString("c09-ctx-body") })
	C("SetClientIPFunc", "", func(e *env) { e.ctx.SetClientIPFunc(func(*app.RequestContext) string { return "c09-ip" }) })
	C("SetFormValueFunc", "", func(e *env) {
		e.ctx.SetFormValueFunc(func(*app.RequestContext, string) []byte { return []byte("c09-fv") })
	})
	C("SetConnectionClose", "", func(e *env) { e.ctx.SetConnectionClose() })
	C("SetContentType", "", func(e *env) { e.ctx.SetContentType("text/c09") })
	C("SetContentTypeBytes", "", func(e *env) { e.ctx.SetContentTypeBytes([]byte("text/c09b")) })
	C("SetCookie", "", func(e *env) {
		e.ctx.SetCookie("c09c", "v", 60, "/", "c09.example", protocol.CookieSameSiteLaxMode, true, true)
	})
	C("SetPartitionedCookie", "", func(e *env) {
		e.ctx.SetPartitionedCookie("c09p", "v", 60, "/", "c09.example", protocol.CookieSameSiteNoneMode, true, true)
	})
	C("SetFullPath", "", func(e *env) { e.ctx.SetFullPath("/c09/full/:path") })
	C("SetHandlers", "", func(e *env) {
		nop := func(context.Context, *app.RequestContext) {}
		e.ctx.SetHandlers(app.HandlersChain{nop, nop, nop, nop, nop})
	})
	C("SetIndex", "", func(e *env) { e.ctx.SetIndex(7) })
	C("SetStatusCode", "", func(e *env) { e.ctx.SetStatusCode(207) })
	C("Status", "", func(e *env) { e.ctx.Status(208) })
	C("SetTraceInfo", "", func(e *env) {
		// the trace info object is connection/pool scoped and kept; replace it by an equivalent one that carries data
		old := e.ctx.GetTraceInfo()
		if old == nil {
			return
		}
		ti := traceinfo.NewTraceInfo()
		ti.Stats().SetLevel(old.Stats().Level())
		ti.Stats().SetSendSize(4242)
		ti.Stats().SetError(errors.New("c09-ti"))
		e.ctx.SetTraceInfo(ti)
	})
	C("Write", "", func(e *env) { e.ctx.Write([]byte("c09-write")) })           //nolint:errcheck
	C("WriteString", "", func(e *env) { e.ctx.WriteString("c09-writestring") }) //nolint:errcheck
	C("field:Params", "", func(e *env) { e.ctx.Params = append(e.ctx.Params, param.Param{Key: "c09k", Value: "c09v"}) })
	C("field:Params", "replace", func(e *env) { e.ctx.Params = param.Params{{Key: "c09k", Value: "c09v"}} })
	C("field:Keys", "", func(e *env) { e.ctx.Keys = map[string]interface{}{"c09": "field"} })
	C("field:Errors", "", func(e *env) { e.ctx.Errors = append(e.ctx.Errors, e.ctx.Error(errors.New("c09-e2"))) })
	// trace statistics reachable through GetTraceInfo().Stats()
	st := func(name string, f func(s traceinfo.HTTPStats)) {
		C("GetTraceInfo", name, func(e *env) {
			if ti := e.ctx.GetTraceInfo(); ti != nil {
				f(ti.Stats())
			}
		})
	}
	st("SetSendSize", func(s traceinfo.HTTPStats) { s.SetSendSize(777) })
	st("SetRecvSize", func(s traceinfo.HTTPStats) { s.SetRecvSize(778) })
	st("SetError", func(s traceinfo.HTTPStats) { s.SetError(errors.New("c09-stat")) })
	st("SetPanicked", func(s traceinfo.HTTPStats) { s.SetPanicked("c09-panicked") })
	st("Record", func(s traceinfo.HTTPStats) { s.Record(stats.WriteFinish, stats.StatusWarn, "c09-rec") })

	// ------------------------------------------------------------ Request
	R := func(method, variant string, f func(r *protocol.Request, e *env)) {
		add("Req", method, variant, func(e *env) { f(e.Req(), e) })
	}
	R("AppendBody", "", func(r *protocol.Request, e *env) { r.AppendBody([]byte("c09-append")) })
	R("AppendBodyString", "", func(r *protocol.Request, e *env) { r.AppendBodyString("c09-appends") })
	R("Body", "", func(r *protocol.Request, e *env) { r.Body() })
	R("BodyE", "", func(r *protocol.Request, e *env) { r.BodyE() })                                   //nolint:errcheck
	R("BodyBuffer", "", func(r *protocol.Request, e *env) { r.BodyBuffer().WriteString("c09-bb") })   //nolint:errcheck
	R("BodyWriteTo", "", func(r *protocol.Request, e *env) { r.BodyWriteTo(io.Discard) })             //nolint:errcheck
	R("BodyWriter", "", func(r *protocol.Request, e *env) { r.BodyWriter().Write([]byte("c09-bw")) }) //nolint:errcheck
	R("CloseBodyStream", "", func(r *protocol.Request, e *env) { r.CloseBodyStream() })               //nolint:errcheck
	R("ConstructBodyStream", "", func(r *protocol.Request, e *env) {
		b := &bytebufferpool.ByteBuffer{}
		b.WriteString("c09-cbs") //nolint:errcheck
		r.ConstructBodyStream(b, rd("c09-cbs-stream"))
	})
	R("CopyTo", "dst", func(r *protocol.Request, e *env) { richRequest().CopyTo(r) })
	R("CopyToSkipBody", "dst", func(r *protocol.Request, e *env) { richRequest().CopyToSkipBody(r) })
	R("FormFile", "", func(r *protocol.Request, e *env) { r.FormFile("upfile") })   //nolint:errcheck
	R("MultipartForm", "", func(r *protocol.Request, e *env) { r.MultipartForm() }) //nolint:errcheck
	R("Options", "", func(r *protocol.Request, e *env) { r.Options() })
	R("ParseURI", "", func(r *protocol.Request, e *env) { r.ParseURI() })
	R("PostArgs", "", func(r *protocol.Request, e *env) { r.PostArgs() })
	R("URI", "", func(r *protocol.Request, e *env) { r.URI() })
	R("RemoveMultipartFormFiles", "", func(r *protocol.Request, e *env) { r.RemoveMultipartFormFiles() })
	R("Reset", "", func(r *protocol.Request, e *env) { r.Reset() })
	R("ResetBody", "", func(r *protocol.Request, e *env) { r.ResetBody() })
	R("ResetSkipHeader", "", func(r *protocol.Request, e *env) { r.ResetSkipHeader() })
	R("ResetWithoutConn", "", func(r *protocol.Request, e *env) { r.ResetWithoutConn() })
	R("SetAuthSchemeToken", "", func(r *protocol.Request, e *env) { r.SetAuthSchemeToken("C09", "tok") })
	R("SetAuthToken", "", func(r *protocol.Request, e *env) { r.SetAuthToken("c09-bearer") })
	R("SetBasicAuth", "", func(r *protocol.Request, e *env) { r.SetBasicAuth("c09user", "c09pw") })
	R("SetBody", "", func(r *protocol.Request, e *env) { r.SetBody([]byte("c09-req-body")) })
	R("SetBodyRaw", "", func(r *protocol.Request, e *env) { r.SetBodyRaw([]byte("c09-req-raw")) })
	R("SetBodyStream", "", func(r *protocol.Request, e *env) { r.SetBodyStream(rd("c09-req-stream"), 14) })
	R("SetBodyStream", "chunked", func(r *protocol.Request, e *env) { r.SetBodyStream(rd("c09-req-stream"), -1) })
	R("SetBodyStream", "closeErr", func(r *protocol.Request, e *env) { r.SetBodyStream(rdBadClose("c09-req-stream"), 14) })
	R("ConstructBodyStream", "closeErr", func(r *protocol.Request, e *env) {
		b := &bytebufferpool.ByteBuffer{}
		b.WriteString("c09-cbs") //nolint:errcheck
		r.ConstructBodyStream(b, rdBadClose("c09-cbs-stream"))
	})
	R("SetBodyString", "", func(r *protocol.Request, e *env) { r.SetBodyString("c09-req-string") })
	R("SetConnectionClose", "", func(r *protocol.Request, e *env) { r.SetConnectionClose() })
	R("SetCookie", "", func(r *protocol.Request, e *env) { r.SetCookie("c09rc", "v") })
	R("SetCookies", "", func(r *protocol.Request, e *env) { r.SetCookies(map[string]string{"c09rc2": "v"}) })
	R("SetFile", "", func(r *protocol.Request, e *env) { r.SetFile("c09f", e.files+"/small.txt") })
	R("SetFileReader", "", func(r *protocol.Request, e *env) { r.SetFileReader("c09fr", "fr.txt", rd("c09-fr")) })
	R("SetFiles", "", func(r *protocol.Request, e *env) { r.SetFiles(map[string]string{"c09fs": e.files + "/small.txt"}) })
	R("SetFormData", "", func(r *protocol.Request, e *env) { r.SetFormData(map[string]string{"c09fd": "v"}) })
	R("SetFormDataFromValues", "", func(r *protocol.Request, e *env) { r.SetFormDataFromValues(url.Values{"c09fv": {"a", "b"}}) })
	R("SetHeader", "", func(r *protocol.Request, e *env) { r.SetHeader("X-C09-Req", "v") })
	R("SetHeaders", "", func(r *protocol.Request, e *env) { r.SetHeaders(map[string]string{"X-C09-Reqs": "v"}) })
	R("SetHost", "", func(r *protocol.Request, e *env) { r.SetHost("c09-host.example") })
	R("SetIsTLS", "", func(r *protocol.Request, e *env) { r.SetIsTLS(true) })
	R("SetMethod", "", func(r *protocol.Request, e *env) { r.SetMethod("PATCH") })
	R("SetMultipartField", "", func(r *protocol.Request, e *env) { r.SetMultipartField("c09mf", "mf.txt", "text/plain", rd("c09-mf")) })
	R("SetMultipartFields", "", func(r *protocol.Request, e *env) {
		r.SetMultipartFields(&protocol.MultipartField{Param: "c09mfs", FileName: "a", ContentType: "text/plain", Reader: rd("x")})
	})
	R("SetMultipartFormBoundary", "", func(r *protocol.Request, e *env) { r.SetMultipartFormBoundary("c09boundary") })
	R("SetMultipartFormData", "", func(r *protocol.Request, e *env) { r.SetMultipartFormData(map[string]string{"c09mfd": "v"}) })
	R("SetOptions", "", func(r *protocol.Request, e *env) {
		r.SetOptions(config.WithTag("c09", "tag"), config.WithSD(true), config.WithReadTimeout(3*time.Second))
	})
	R("SetQueryString", "", func(r *protocol.Request, e *env) { r.SetQueryString("c09q=1&c09r=2") })
	R("SetRequestURI", "", func(r *protocol.Request, e *env) { r.SetRequestURI("/c09/uri?c09=1#c09frag") })
	R("SetRequestURI", "abs", func(r *protocol.Request, e *env) { r.SetRequestURI("https://u:p@abs.example/c09/abs?a=1") })
	R("SwapBody", "", func(r *protocol.Request, e *env) { r.SwapBody([]byte("c09-swapped")) })
	R("pkg:SwapRequestBody", "", func(r *protocol.Request, e *env) { protocol.SwapRequestBody(r, richRequest()) })

	// ------------------------------------------------------------ RequestHeader
	H := func(method, variant string, f func(h *protocol.RequestHeader)) {
		add("ReqH", method, variant, func(e *env) { f(&e.Req().Header) })
	}
	for _, n := range reqHeaderNames {
		n := n
		H("Set", n, func(h *protocol.RequestHeader) { h.Set(n, hv(n)) })
		H("Add", n, func(h *protocol.RequestHeader) { h.Add(n, hv(n)) })
		H("Del", n, func(h *protocol.RequestHeader) { h.Del(n) })
	}
	H("AddArgBytes", "", func(h *protocol.RequestHeader) { h.AddArgBytes([]byte("X-C09-Arg"), []byte("v"), false) })
	H("SetArgBytes", "", func(h *protocol.RequestHeader) { h.SetArgBytes([]byte("X-C09-Arg"), []byte("w"), false) })
	H("SetBytesKV", "", func(h *protocol.RequestHeader) { h.SetBytesKV([]byte("X-C09-Kv"), []byte("v")) })
	H("SetBytesKV", "Cookie", func(h *protocol.RequestHeader) { h.SetBytesKV([]byte("Cookie"), []byte("kvc=1")) })
	H("SetCanonical", "", func(h *protocol.RequestHeader) { h.SetCanonical([]byte("X-C09-Canon"), []byte("v")) })
	H("SetCanonical", "Host", func(h *protocol.RequestHeader) { h.SetCanonical([]byte("Host"), []byte("canon.example")) })
	H("Cookies", "", func(h *protocol.RequestHeader) { h.Cookies() })
	H("DelAllCookies", "", func(h *protocol.RequestHeader) { h.DelAllCookies() })
	H("DelBytes", "", func(h *protocol.RequestHeader) { h.DelBytes([]byte("X-Custom")) })
	H("DelCookie", "", func(h *protocol.RequestHeader) { h.DelCookie("sid") })
	H("DisableNormalizing", "", func(h *protocol.RequestHeader) { h.DisableNormalizing() })
	H("InitBufValue", "", func(h *protocol.RequestHeader) { h.InitBufValue(64) })
	H("InitContentLengthWithValue", "", func(h *protocol.RequestHeader) { h.InitContentLengthWithValue(11) })
	H("ResetConnectionClose", "", func(h *protocol.RequestHeader) { h.ResetConnectionClose() })
	H("Reset", "", func(h *protocol.RequestHeader) { h.Reset() })
	H("ResetSkipNormalize", "", func(h *protocol.RequestHeader) { h.ResetSkipNormalize() })
	H("SetByteRange", "", func(h *protocol.RequestHeader) { h.SetByteRange(1, 5) })
	H("SetConnectionClose", "", func(h *protocol.RequestHeader) { h.SetConnectionClose(true) })
	H("SetContentLength", "", func(h *protocol.RequestHeader) { h.SetContentLength(5) })
	H("SetContentLength", "chunked", func(h *protocol.RequestHeader) { h.SetContentLength(-1) })
	H("SetContentLengthBytes", "", func(h *protocol.RequestHeader) { h.SetContentLengthBytes([]byte("12")) })
	H("SetContentTypeBytes", "", func(h *protocol.RequestHeader) { h.SetContentTypeBytes([]byte("text/c09h")) })
	H("SetCookie", "", func(h *protocol.RequestHeader) { h.SetCookie("c09hc", "v") })
	H("SetHost", "", func(h *protocol.RequestHeader) { h.SetHost("c09h.example") })
	H("SetHostBytes", "", func(h *protocol.RequestHeader) { h.SetHostBytes([]byte("c09hb.example")) })
	H("SetMethod", "", func(h *protocol.RequestHeader) { h.SetMethod("DELETE") })
	H("SetMethodBytes", "", func(h *protocol.RequestHeader) { h.SetMethodBytes([]byte("OPTIONS")) })
	H("SetMultipartFormBoundary", "", func(h *protocol.RequestHeader) { h.SetMultipartFormBoundary("c09hb") })
	H("SetNoDefaultContentType", "", func(h *protocol.RequestHeader) { h.SetNoDefaultContentType(true) })
	H("SetNoHTTP11", "", func(h *protocol.RequestHeader) { h.SetNoHTTP11(true) })
	H("SetProtocol", "", func(h *protocol.RequestHeader) { h.SetProtocol("HTTP/1.0") })
	H("SetRawHeaders", "", func(h *protocol.RequestHeader) { h.SetRawHeaders([]byte("X-Raw: c09\r\n\r\n")) })
	H("SetRequestURI", "", func(h *protocol.RequestHeader) { h.SetRequestURI("/c09/h/uri?x=1") })
	H("SetRequestURIBytes", "", func(h *protocol.RequestHeader) { h.SetRequestURIBytes([]byte("/c09/hb/uri")) })
	H("SetUserAgentBytes", "", func(h *protocol.RequestHeader) { h.SetUserAgentBytes([]byte("c09-agent")) })

	// ------------------------------------------------------------ Response
	P := func(method, variant string, f func(r *protocol.Response, e *env)) {
		add("Resp", method, variant, func(e *env) { f(e.Resp(), e) })
	}
	P("AppendBody", "", func(r *protocol.Response, e *env) { r.AppendBody([]byte("c09-rappend")) })
	P("AppendBodyString", "", func(r *protocol.Response, e *env) { r.AppendBodyString("c09-rappends") })
	P("Body", "", func(r *protocol.Response, e *env) { r.Body() })
	P("BodyE", "", func(r *protocol.Response, e *env) { r.BodyE() })                                    //nolint:errcheck
	P("BodyBuffer", "", func(r *protocol.Response, e *env) { r.BodyBuffer().WriteString("c09-rbb") })   //nolint:errcheck
	P("BodyWriteTo", "", func(r *protocol.Response, e *env) { r.BodyWriteTo(io.Discard) })              //nolint:errcheck
	P("BodyWriter", "", func(r *protocol.Response, e *env) { r.BodyWriter().Write([]byte("c09-rbw")) }) //nolint:errcheck
	P("CloseBodyStream", "", func(r *protocol.Response, e *env) { r.CloseBodyStream() })                //nolint:errcheck
	P("ConstructBodyStream", "", func(r *protocol.Response, e *env) {
		b := &bytebufferpool.ByteBuffer{}
		b.WriteString("c09-rcbs") //nolint:errcheck
		r.ConstructBodyStream(b, rd("c09-rcbs-stream"))
	})
	P("CopyTo", "dst", func(r *protocol.Response, e *env) { richResponse().CopyTo(r) })
	P("CopyToSkipBody", "dst", func(r *protocol.Response, e *env) { richResponse().CopyToSkipBody(r) })
	P("HijackWriter", "", func(r *protocol.Response, e *env) { r.HijackWriter(&nopExtWriter{}) })
	P("ParseNetAddr", "", func(r *protocol.Response, e *env) {
		if e.ctx != nil && e.ctx.GetConn() != nil {
			r.ParseNetAddr(e.ctx.GetConn())
		}
	})
	P("Reset", "", func(r *protocol.Response, e *env) { r.Reset() })
	P("ResetBody", "", func(r *protocol.Response, e *env) { r.ResetBody() })
	P("SetBody", "", func(r *protocol.Response, e *env) { r.SetBody([]byte("c09-resp-body")) })
	P("SetBodyRaw", "", func(r *protocol.Response, e *env) { r.SetBodyRaw([]byte("c09-resp-raw")) })
	P("SetBodyStream", "", func(r *protocol.Response, e *env) { r.SetBodyStream(rd("c09-resp-stream"), 15) })
	P("SetBodyStream", "chunked", func(r *protocol.Response, e *env) { r.SetBodyStream(rd("c09-resp-stream"), -1) })
	P("SetBodyStreamNoReset", "", func(r *protocol.Response, e *env) { r.SetBodyStreamNoReset(rd("c09-resp-nr"), 11) })
	P("SetBodyStream", "closeErr", func(r *protocol.Response, e *env) { r.SetBodyStream(rdBadClose("c09-resp-stream"), 15) })
	P("SetBodyStream", "closedFile", func(r *protocol.Response, e *env) { r.SetBodyStream(closedFile(e), -1) })
	P("SetBodyStreamNoReset", "closeErr", func(r *protocol.Response, e *env) { r.SetBodyStreamNoReset(rdBadClose("c09-resp-nr"), 11) })
	P("ConstructBodyStream", "closeErr", func(r *protocol.Response, e *env) {
		b := &bytebufferpool.ByteBuffer{}
		b.WriteString("c09-rcbs") //nolint:errcheck
		r.ConstructBodyStream(b, rdBadClose("c09-rcbs-stream"))
	})
	P("SetBodyString", "", func(r *protocol.Response, e *env) { r.SetBodyString("c09-resp-string") })
	P("SetConnectionClose", "", func(r *protocol.Response, e *env) { r.SetConnectionClose() })
	P("SetStatusCode", "", func(r *protocol.Response, e *env) { r.SetStatusCode(299) })
	P("field:SkipBody", "", func(r *protocol.Response, e *env) { r.SkipBody = true })
	P("field:ImmediateHeaderFlush", "", func(r *protocol.Response, e *env) { r.ImmediateHeaderFlush = true })
	P("pkg:SwapResponseBody", "", func(r *protocol.Response, e *env) { protocol.SwapResponseBody(r, richResponse()) })

	// ------------------------------------------------------------ ResponseHeader
	Q := func(method, variant string, f func(h *protocol.ResponseHeader)) {
		add("RespH", method, variant, func(e *env) { f(&e.Resp().Header) })
	}
	for _, n := range respHeaderNames {
		n := n
		Q("Set", n, func(h *protocol.ResponseHeader) { h.Set(n, hv(n)) })
		Q("Add", n, func(h *protocol.ResponseHeader) { h.Add(n, hv(n)) })
		Q("Del", n, func(h *protocol.ResponseHeader) { h.Del(n) })
	}
	Q("AddArgBytes", "", func(h *protocol.ResponseHeader) { h.AddArgBytes([]byte("X-C09-Arg"), []byte("v"), false) })
	Q("SetArgBytes", "", func(h *protocol.ResponseHeader) { h.SetArgBytes([]byte("X-C09-Arg"), []byte("w"), false) })
	Q("SetBytesV", "", func(h *protocol.ResponseHeader) { h.SetBytesV("X-C09-Bv", []byte("v")) })
	Q("SetCanonical", "", func(h *protocol.ResponseHeader) { h.SetCanonical([]byte("X-C09-Canon"), []byte("v")) })
	Q("SetCanonical", "Set-Cookie", func(h *protocol.ResponseHeader) { h.SetCanonical([]byte("Set-Cookie"), []byte("canon=1")) })
	Q("DelAllCookies", "", func(h *protocol.ResponseHeader) { h.DelAllCookies() })
	Q("DelBytes", "", func(h *protocol.ResponseHeader) { h.DelBytes([]byte("Server")) })
	Q("DelClientCookie", "", func(h *protocol.ResponseHeader) { h.DelClientCookie("c09dc") })
	Q("DelClientCookieBytes", "", func(h *protocol.ResponseHeader) { h.DelClientCookieBytes([]byte("c09dcb")) })
	Q("DelCookie", "", func(h *protocol.ResponseHeader) { h.DelCookie("c09c") })
	Q("DelCookieBytes", "", func(h *protocol.ResponseHeader) { h.DelCookieBytes([]byte("c09c")) })
	Q("DisableNormalizing", "", func(h *protocol.ResponseHeader) { h.DisableNormalizing() })
	Q("InitContentLengthWithValue", "", func(h *protocol.ResponseHeader) { h.InitContentLengthWithValue(13) })
	Q("ParseSetCookie", "", func(h *protocol.ResponseHeader) { h.ParseSetCookie([]byte("c09psc=1; Path=/")) })
	Q("ResetConnectionClose", "", func(h *protocol.ResponseHeader) { h.ResetConnectionClose() })
	Q("Reset", "", func(h *protocol.ResponseHeader) { h.Reset() })
	Q("ResetSkipNormalize", "", func(h *protocol.ResponseHeader) { h.ResetSkipNormalize() })
	Q("SetConnectionClose", "", func(h *protocol.ResponseHeader) { h.SetConnectionClose(true) })
	Q("SetContentEncoding", "", func(h *protocol.ResponseHeader) { h.SetContentEncoding("c09enc") })
	Q("SetContentEncodingBytes", "", func(h *protocol.ResponseHeader) { h.SetContentEncodingBytes([]byte("c09encb")) })
	Q("SetContentLength", "", func(h *protocol.ResponseHeader) { h.SetContentLength(5) })
	Q("SetContentLength", "chunked", func(h *protocol.ResponseHeader) { h.SetContentLength(-1) })
	Q("SetContentLength", "identity", func(h *protocol.ResponseHeader) { h.SetContentLength(-2) })
	Q("SetContentLengthBytes", "", func(h *protocol.ResponseHeader) { h.SetContentLengthBytes([]byte("14")) })
	Q("SetContentRange", "", func(h *protocol.ResponseHeader) { h.SetContentRange(1, 5, 10) })
	Q("SetContentType", "", func(h *protocol.ResponseHeader) { h.SetContentType("text/c09r") })
	Q("SetContentTypeBytes", "", func(h *protocol.ResponseHeader) { h.SetContentTypeBytes([]byte("text/c09rb")) })
	Q("SetCookie", "", func(h *protocol.ResponseHeader) { h.SetCookie(someCookie()) })
	Q("SetHeaderLength", "", func(h *protocol.ResponseHeader) { h.SetHeaderLength(4321) })
	Q("SetNoDefaultContentType", "", func(h *protocol.ResponseHeader) { h.SetNoDefaultContentType(true) })
	Q("SetNoDefaultDate", "", func(h *protocol.ResponseHeader) { h.SetNoDefaultDate(true) })
	Q("SetNoHTTP11", "", func(h *protocol.ResponseHeader) { h.SetNoHTTP11(true) })
	Q("SetProtocol", "", func(h *protocol.ResponseHeader) { h.SetProtocol("HTTP/1.0") })
	Q("SetServerBytes", "", func(h *protocol.ResponseHeader) { h.SetServerBytes([]byte("c09-server")) })
	Q("SetStatusCode", "", func(h *protocol.ResponseHeader) { h.SetStatusCode(298) })

	// ------------------------------------------------------------ URI
	U := func(method, variant string, f func(u *protocol.URI)) {
		add("URI", method, variant, func(e *env) { f(e.URI()) })
	}
	U("CopyTo", "dst", func(u *protocol.URI) { richURI().CopyTo(u) })
	U("Parse", "", func(u *protocol.URI) { u.Parse([]byte("c09p.example"), []byte("/c09/parsed?pp=1#ph")) })
	U("Parse", "abs", func(u *protocol.URI) { u.Parse(nil, []byte("https://pu:pp@c09pa.example/c09/abs?x=1")) })
	U("QueryArgs", "", func(u *protocol.URI) { u.QueryArgs() })
	U("Reset", "", func(u *protocol.URI) { u.Reset() })
	U("SetHash", "", func(u *protocol.URI) { u.SetHash("c09hash") })
	U("SetHashBytes", "", func(u *protocol.URI) { u.SetHashBytes([]byte("c09hashb")) })
	U("SetHost", "", func(u *protocol.URI) { u.SetHost("C09U.example") })
	U("SetHostBytes", "", func(u *protocol.URI) { u.SetHostBytes([]byte("c09ub.example")) })
	U("SetPassword", "", func(u *protocol.URI) { u.SetPassword("c09pw") })
	U("SetPasswordBytes", "", func(u *protocol.URI) { u.SetPasswordBytes([]byte("c09pwb")) })
	U("SetPath", "", func(u *protocol.URI) { u.SetPath("/c09/./set/../path") })
	U("SetPathBytes", "", func(u *protocol.URI) { u.SetPathBytes([]byte("/c09/pathb")) })
	U("SetQueryString", "", func(u *protocol.URI) { u.SetQueryString("c09uq=1") })
	U("SetQueryStringBytes", "", func(u *protocol.URI) { u.SetQueryStringBytes([]byte("c09uqb=1")) })
	U("SetScheme", "", func(u *protocol.URI) { u.SetScheme("FTP") })
	U("SetSchemeBytes", "", func(u *protocol.URI) { u.SetSchemeBytes([]byte("ws")) })
	U("SetUsername", "", func(u *protocol.URI) { u.SetUsername("c09user") })
	U("SetUsernameBytes", "", func(u *protocol.URI) { u.SetUsernameBytes([]byte("c09userb")) })
	U("Update", "", func(u *protocol.URI) { u.Update("c09/relative?ur=1") })
	U("Update", "abs", func(u *protocol.URI) { u.Update("https://upd.example/c09/upd?ua=1#uh") })
	U("UpdateBytes", "", func(u *protocol.URI) { u.UpdateBytes([]byte("//updb.example/c09/updb")) })
	U("field:DisablePathNormalizing", "", func(u *protocol.URI) { u.DisablePathNormalizing = true })

	// ------------------------------------------------------------ Args (query args, post args, stand-alone)
	for _, acc := range []struct {
		class string
		get   func(e *env) *protocol.Args
	}{{"QArgs", func(e *env) *protocol.Args { return e.URI().QueryArgs() }},
		{"PArgs", func(e *env) *protocol.Args { return e.Req().PostArgs() }},
		{"Args", func(e *env) *protocol.Args { return e.args }}} {
		acc := acc
		A := func(method string, f func(a *protocol.Args)) {
			add(acc.class, method, "", func(e *env) { f(acc.get(e)) })
		}
		A("Add", func(a *protocol.Args) { a.Add("c09a", "1") })
		A("Set", func(a *protocol.Args) { a.Set("c09s", "2") })
		A("Del", func(a *protocol.Args) { a.Del("x") })
		A("DelBytes", func(a *protocol.Args) { a.DelBytes([]byte("fa")) })
		A("ParseBytes", func(a *protocol.Args) { a.ParseBytes([]byte("c09p=1&c09q=%41&novalue")) })
		A("Reset", func(a *protocol.Args) { a.Reset() })
		A("CopyTo:dst", func(a *protocol.Args) {
			src := &protocol.Args{}
			src.Add("c09copied", "1")
			src.CopyTo(a)
		})
	}

	// ------------------------------------------------------------ Trailer (request, response)
	for _, acc := range []struct {
		class string
		get   func(e *env) *protocol.Trailer
	}{{"ReqTr", func(e *env) *protocol.Trailer { return e.Req().Header.Trailer() }},
		{"RespTr", func(e *env) *protocol.Trailer { return e.Resp().Header.Trailer() }}} {
		acc := acc
		T := func(method string, f func(t *protocol.Trailer)) {
			add(acc.class, method, "", func(e *env) { f(acc.get(e)) })
		}
		T("Add", func(t *protocol.Trailer) { t.Add("X-C09-Ta", "1") }) //nolint:errcheck
		T("Set", func(t *protocol.Trailer) { t.Set("X-C09-Ts", "2") }) //nolint:errcheck
		T("Del", func(t *protocol.Trailer) { t.Del("X-T") })
		T("DisableNormalizing", func(t *protocol.Trailer) { t.DisableNormalizing() })
		T("Reset", func(t *protocol.Trailer) { t.Reset() })
		T("ResetSkipNormalize", func(t *protocol.Trailer) { t.ResetSkipNormalize() })
		T("SetTrailers", func(t *protocol.Trailer) { t.SetTrailers([]byte("X-C09-T1, X-C09-T2")) }) //nolint:errcheck
		T("UpdateArgBytes", func(t *protocol.Trailer) {
			t.Set("X-C09-Tu", "")                               //nolint:errcheck
			t.UpdateArgBytes([]byte("X-C09-Tu"), []byte("upd")) //nolint:errcheck
		})
		T("CopyTo:dst", func(t *protocol.Trailer) {
			src := &protocol.Trailer{}
			src.Set("X-C09-Tc", "c") //nolint:errcheck
			src.CopyTo(t)
		})
	}

	// ------------------------------------------------------------ Cookie
	K := func(method, variant string, f func(c *protocol.Cookie)) {
		add("Cookie", method, variant, func(e *env) { f(e.cookie) })
	}
	K("Parse", "", func(c *protocol.Cookie) {
		c.Parse("c09k=c09v; Max-Age=77; Domain=c09.example; Path=/c09; HttpOnly; Secure; SameSite=Strict; Partitioned") //nolint:errcheck
	})
	K("ParseBytes", "", func(c *protocol.Cookie) {
		c.ParseBytes([]byte("c09kb=c09vb; Expires=Wed, 21 Oct 2065 07:28:00 GMT; SameSite=None")) //nolint:errcheck
	})
	K("Reset", "", func(c *protocol.Cookie) { c.Reset() })
	K("SetDomain", "", func(c *protocol.Cookie) { c.SetDomain("c09d.example") })
	K("SetExpire", "", func(c *protocol.Cookie) { c.SetExpire(time.Unix(3000000000, 0)) })
	K("SetHTTPOnly", "", func(c *protocol.Cookie) { c.SetHTTPOnly(true) })
	K("SetKey", "", func(c *protocol.Cookie) { c.SetKey("c09key") })
	K("SetKeyBytes", "", func(c *protocol.Cookie) { c.SetKeyBytes([]byte("c09keyb")) })
	K("SetMaxAge", "", func(c *protocol.Cookie) { c.SetMaxAge(99) })
	K("SetPartitioned", "", func(c *protocol.Cookie) { c.SetPartitioned(true) })
	K("SetPath", "", func(c *protocol.Cookie) { c.SetPath("/c09/./p") })
	K("SetPathBytes", "", func(c *protocol.Cookie) { c.SetPathBytes([]byte("/c09/pb")) })
	K("SetSameSite", "", func(c *protocol.Cookie) { c.SetSameSite(protocol.CookieSameSiteStrictMode) })
	K("SetSecure", "", func(c *protocol.Cookie) { c.SetSecure(true) })
	K("SetValue", "", func(c *protocol.Cookie) { c.SetValue("c09value") })
	K("SetValueBytes", "", func(c *protocol.Cookie) { c.SetValueBytes([]byte("c09valueb")) })
}
