// Driver for C09 (a recycled context, request or response is indistinguishable from a fresh one).
//
// Reads the histories enumerated by spec/CtxLifecycleGen.tla, runs each one against the real hertz code and records
// an ndjson trace validated by spec/CtxLifecycleTrace.tla:
//
//	Case{...}  Acquire{conn,obj,ptr}  Mutate{conn,m}  Ending{conn,kind}  EndRequest{conn}  Probe{conn,obj,dirty}
//	EndConn{conn}  Release{conn,obj}  Touched{m,comps}  Known{m}  Uncovered{type,method}  Panic{msg}  Hang{where}  End
//
// Context histories are served through the production path: a real route.Engine (vnet.NewEngine) with the recovery
// middleware, scripted in-memory connections (vnet.Conn) served by Engine.Serve.  The probe handler dumps every
// observable component of the context through public getters (dump.go) and reports which components differ from the
// dump a brand-new context produced for the same probe request on a brand-new engine: that list is a projection,
// the specification decides.  The driver holds no expected values.
package main

import (
	"bufio"
	"context"
	"encoding/json"
	"flag"
	"fmt"
	"os"
	"path/filepath"
	"runtime"
	"sort"
	"strings"
	"sync"
	"sync/atomic"
	"time"
	"unsafe"

	"github.com/cloudwego/hertz/pkg/app"
	"github.com/cloudwego/hertz/pkg/app/middlewares/server/recovery"
	"github.com/cloudwego/hertz/pkg/common/config"
	"github.com/cloudwego/hertz/pkg/network"
	"github.com/cloudwego/hertz/pkg/network/standard"
	"github.com/cloudwego/hertz/pkg/protocol"
	"github.com/cloudwego/hertz/pkg/route"

	"verif/harness/vnet"
	"verif/harness/vtrace"
)

type Case struct {
	ID     int      `json:"id"`
	Kind   string   `json:"kind"` // Ctx | Request | Response | URI | Cookie | Args | conc | touch | cover
	Obj    string   `json:"obj,omitempty"`
	Muts   []string `json:"muts"`
	Mode   string   `json:"mode,omitempty"`   // same | next | other
	Ending string   `json:"ending,omitempty"` // return | abort | panic
	Probe  string   `json:"probe,omitempty"`  // min | rich
	Shape  string   `json:"shape,omitempty"`  // get | form | multipart | chunked
	Trace  bool     `json:"trace"`
	Conns  int      `json:"conns,omitempty"`
	Rounds int      `json:"rounds,omitempty"`
	Idle   string   `json:"idle,omitempty"` // conc: inloop | poller
	Setv   string   `json:"setv,omitempty"` // setter program applied after the first look: bytes | string | copy | ""
}

const mpBody = "--c09b\r\nContent-Disposition: form-data; name=\"fa\"\r\n\r\nmv\r\n--c09b\r\nContent-Disposition: form-data; name=\"upfile\"; filename=\"u.txt\"\r\nContent-Type: text/plain\r\n\r\nfile-content\r\n--c09b--\r\n"

func mutRequest(shape, path string) string {
	switch shape {
	case "form":
		return "POST " + path + "?x=1&y=2 HTTP/1.1\r\nHost: mut.example\r\nContent-Type: application/x-www-form-urlencoded\r\nContent-Length: 9\r\nCookie: sid=abc\r\nX-Custom: v\r\nAuthorization: Basic dTpw\r\n\r\nfa=1&fb=2"
	case "multipart":
		return fmt.Sprintf("POST "+path+" HTTP/1.1\r\nHost: mut.example\r\nContent-Type: multipart/form-data; boundary=c09b\r\nContent-Length: %d\r\nX-Custom: v\r\n\r\n%s", len(mpBody), mpBody)
	case "chunked":
		return "POST " + path + "?x=1 HTTP/1.1\r\nHost: mut.example\r\nTransfer-Encoding: chunked\r\nTrailer: X-T\r\nContent-Type: text/plain\r\nX-Custom: v\r\n\r\n5\r\nhello\r\n0\r\nX-T: tv\r\n\r\n"
	}
	return "GET " + path + "?x=1&y=2 HTTP/1.1\r\nHost: mut.example\r\nUser-Agent: c09-client\r\nCookie: sid=abc; t=1\r\nX-Custom: v\r\nAccept-Encoding: gzip\r\n\r\n"
}

func probeRequest(kind string) string {
	if kind == "rich" {
		return "POST /probe/r1/r2?pq=1&pz=2 HTTP/1.1\r\nHost: p.example\r\nUser-Agent: probe-agent\r\nContent-Type: application/x-www-form-urlencoded\r\nContent-Length: 9\r\nCookie: pc=1\r\nX-C09: probe\r\n\r\npa=1&pb=2"
	}
	return "GET /probe HTTP/1.1\r\nHost: p.example\r\n\r\n"
}

const warmRequest = "GET /warm HTTP/1.1\r\nHost: w.example\r\n\r\n"

type nopTracer struct{}

func (nopTracer) Start(ctx context.Context, c *app.RequestContext) context.Context { return ctx }
func (nopTracer) Finish(ctx context.Context, c *app.RequestContext)                {}

type connKey struct{}

// connState is the driver's view of one scripted connection.
type connState struct {
	id       int
	conn     *vnet.Conn
	acquired bool // a handler already ran in the current Serve call
	obj      int
	muts     [][]string // mutator programs of the successive mutating requests
	endings  []string
	nmut     int
	probe    string
	setv     string
	pending  *probeRec
	probed   int
	off      int // len(conn.Out) when the pending probe's handler started
}

type probeRec struct {
	obj    int
	dirty  []string // components that differ at the first look
	dirty2 []string // components that differ after the setter program
}

type cfgKey struct {
	trace bool
	idle  string
	probe string
	setv  string
}

type ref struct {
	d    dump // first look
	d2   dump // after the setter program
	wire string
}

// lookTwice is the probe proper: dump, exercise the locks, apply the setter program of the variant, dump again.
// With a variant ending in "!" the program is applied BEFORE any look: the dump itself calls lazy and scratch-writing
// getters (URI parse, cookie collection, Cookie()/FullURI() scratch buffers) that could hide what a setter finds.
func lookTwice(c context.Context, ctx *app.RequestContext, setv, files string) (dump, dump) {
	d := dump{}
	if !strings.HasSuffix(setv, "!") {
		d = dumpCtx(ctx)
		probeLocks(ctx)
	}
	if setv == "" {
		return d, dump{}
	}
	pan := applyProgram(strings.TrimSuffix(setv, "!"), "Ctx", &env{c: c, ctx: ctx, files: files})
	if strings.HasSuffix(setv, "!") {
		probeLocks(ctx)
	}
	d2 := dumpCtx(ctx)
	d2.put("set.panic", pan)
	return d, d2
}

// worker runs cases one after the other on one locked OS thread.
type worker struct {
	tr    *vtrace.Writer
	files string
	refs  map[cfgKey]*ref
	stats *counters
	cur   atomic.Value // *run: the history being run (read by the watchdog)
	idx   int64        // index of that history in the case list
	t0    int64        // when it started (unix nanoseconds)
}

type counters struct {
	probes, recycled, dirty, fallback, hangs int64
}

// run is the state of one case.
type run struct {
	w       *worker
	c       *Case
	mu      sync.Mutex
	emu     sync.Mutex
	objs    map[uintptr]int
	keep    []interface{}
	mutated map[int]bool
	cur     *connState // connection being served when the engine is given context.Background()
	dead    int32      // set by the watchdog: the goroutine running this history is stuck, its events are dropped
	phase   atomic.Value
	refMode *ref // when set, the probe handler records the reference instead of diffing
	refSetv string
}

func (r *run) emit(ev string, rec vtrace.Rec) {
	r.emu.Lock()
	if atomic.LoadInt32(&r.dead) == 0 {
		r.w.tr.Emit(ev, rec)
	}
	r.emu.Unlock()
}

func (r *run) setPhase(p string) { r.phase.Store(p) }

// emitProbe writes the Probe line and one Dirty line per differing component, contiguously.
func (r *run) emitProbe(conn, obj int, dirty, dirty2 []string, setv string, recycled bool) {
	r.emu.Lock()
	if atomic.LoadInt32(&r.dead) != 0 {
		r.emu.Unlock()
		return
	}
	all := append(append([]string{}, dirty...), dirty2...)
	r.w.tr.Emit("Probe", vtrace.Rec{"conn": conn, "obj": obj, "dirty": all, "recycled": recycled, "setv": setv})
	for _, c := range dirty {
		r.w.tr.Emit("Dirty", vtrace.Rec{"conn": conn, "obj": obj, "comp": c, "phase": "look"})
	}
	for _, c := range dirty2 {
		r.w.tr.Emit("Dirty", vtrace.Rec{"conn": conn, "obj": obj, "comp": c, "phase": "set:" + setv})
	}
	r.emu.Unlock()
}

func (r *run) objID(p unsafe.Pointer, keep interface{}) int {
	r.mu.Lock()
	defer r.mu.Unlock()
	k := uintptr(p)
	if id, ok := r.objs[k]; ok {
		return id
	}
	id := len(r.objs) + 1
	r.objs[k] = id
	r.keep = append(r.keep, keep) // the object stays reachable: its address cannot be reused within the case
	return id
}

func (r *run) state(c context.Context) *connState {
	if v := c.Value(connKey{}); v != nil {
		return v.(*connState)
	}
	return r.cur
}

func (r *run) engine(idle string, trace bool) *route.Engine {
	cfg := vnet.EngineConfig{Idle: idle}
	if trace {
		cfg.Opts = []config.Option{{F: func(o *config.Options) { o.Tracers = append(o.Tracers, nopTracer{}) }}}
	}
	e := vnet.NewEngine(cfg)
	e.Use(recovery.Recovery())
	after := func(c context.Context, ctx *app.RequestContext) {}
	e.Any("/mut/:p1/*rest", r.mutH, after)
	e.Any("/touch/:p1/*rest", r.touchH)
	e.Any("/probe", r.probeH)
	e.Any("/probe/:pp/*pr", r.probeH)
	e.Any("/warm", r.warmH)
	if err := vnet.Start(e); err != nil {
		panic(err)
	}
	return e
}

// enter is called first by every handler: the first handler of a Serve call marks the pool Get, a later one marks
// that the server loop finished the previous request on this connection (ResetWithoutConn) and went on.
func (r *run) enter(c context.Context, ctx *app.RequestContext) *connState {
	st := r.state(c)
	if st == nil {
		return nil
	}
	if !st.acquired {
		st.acquired = true
		st.obj = r.objID(unsafe.Pointer(ctx), ctx)
		r.emit("Acquire", vtrace.Rec{"conn": st.id, "obj": st.obj, "ptr": fmt.Sprintf("%p", ctx)})
	} else {
		r.emit("EndRequest", vtrace.Rec{"conn": st.id})
	}
	return st
}

func (r *run) warmH(c context.Context, ctx *app.RequestContext) {
	st := r.enter(c, ctx)
	ctx.SetBodyString("warm")
	r.emit("Ending", vtrace.Rec{"conn": st.id, "kind": "return"})
}

func (r *run) mutH(c context.Context, ctx *app.RequestContext) {
	st := r.enter(c, ctx)
	r.setPhase("mutate")
	defer r.setPhase("")
	var muts []string
	ending := "return"
	if st.nmut < len(st.muts) {
		muts, ending = st.muts[st.nmut], st.endings[st.nmut]
	}
	st.nmut++
	e := &env{c: c, ctx: ctx, files: r.w.files}
	r.mu.Lock()
	r.mutated[st.obj] = true
	r.mu.Unlock()
	defer func() {
		if p := recover(); p != nil {
			r.emit("Ending", vtrace.Rec{"conn": st.id, "kind": "panic"})
			panic(p) // the recovery middleware is the one that handles it
		}
	}()
	for _, m := range muts {
		r.emit("Mutate", vtrace.Rec{"conn": st.id, "m": m})
		byName[m].f(e)
	}
	switch ending {
	case "abort":
		r.emit("Ending", vtrace.Rec{"conn": st.id, "kind": "abort"})
		ctx.Abort()
	case "panic":
		panic("c09: scripted handler panic")
	default:
		r.emit("Ending", vtrace.Rec{"conn": st.id, "kind": "return"})
	}
}

func (r *run) probeH(c context.Context, ctx *app.RequestContext) {
	if r.refMode != nil {
		r.refMode.d, r.refMode.d2 = lookTwice(c, ctx, r.refSetv, r.w.files)
		ctx.SetBodyString("probe-ok")
		return
	}
	st := r.enter(c, ctx)
	r.setPhase("probe")
	defer r.setPhase("")
	d, d2 := lookTwice(c, ctx, st.setv, r.w.files)
	rf := r.w.reference(cfgKey{r.c.Trace, r.idle(), st.probe, st.setv})
	st.pending = &probeRec{obj: st.obj, dirty: diff(d, rf.d), dirty2: diff(d2, rf.d2)}
	st.off = len(st.conn.Out)
	ctx.SetBodyString("probe-ok")
}

func (r *run) idle() string {
	if r.c.Kind == "conc" {
		return r.c.Idle
	}
	if r.c.Mode == "other" {
		return "poller"
	}
	return "inloop"
}

// probeLocks uses the write and read paths of the context's lock-protected stores (Keys under ctx.mu, the finished
// channel under finishedMu).  A lock that an earlier use of the object left held blocks here for ever; the watchdog
// of the worker turns that into a Hang event (there is no spec action for it).  Called after the dump.
func probeLocks(ctx *app.RequestContext) {
	ctx.Set("c09-lockprobe", 1)
	ctx.Get("c09-lockprobe")
	ctx.ForEachKey(func(string, interface{}) {})
	_ = ctx.Value("c09-lockprobe")
	ctx.Finished()
}

// wireOf canonicalises one response found at the start of b (status, header lines without Date, body).
func wireOf(b []byte) string {
	rs := &vnet.RespStream{}
	rs.Feed(b)
	resp, err := rs.Next(false)
	if err != nil || resp == nil {
		return fmt.Sprintf("unparsable(%d bytes)", len(b))
	}
	hs := []string{}
	for k, v := range resp.Header {
		if k == "Date" {
			continue
		}
		hs = append(hs, k+": "+strings.Join(v, ","))
	}
	sort.Strings(hs)
	return fmt.Sprintf("%d|%s|%v|%v|%q|%d", resp.Status, strings.Join(hs, ";"), resp.Close, resp.Chunked, resp.Body, rs.Leftover())
}

// resolve emits the Probe event of the pending probe once its response is on the wire (or the connection ended).
func (r *run) resolve(st *connState, ended bool) {
	p := st.pending
	if p == nil {
		return
	}
	st.pending = nil
	rf := r.w.reference(cfgKey{r.c.Trace, r.idle(), st.probe, st.setv})
	w := "none"
	if len(st.conn.Out) > st.off {
		w = wireOf(st.conn.Out[st.off:])
	}
	if w != rf.wire {
		p.dirty = append(p.dirty, "wire")
		sort.Strings(p.dirty)
	}
	r.mu.Lock()
	rec := r.mutated[p.obj]
	r.mu.Unlock()
	atomic.AddInt64(&r.w.stats.probes, 1)
	if rec {
		atomic.AddInt64(&r.w.stats.recycled, 1)
	}
	if len(p.dirty)+len(p.dirty2) > 0 {
		atomic.AddInt64(&r.w.stats.dirty, 1)
	}
	st.probed++
	r.emitProbe(st.id, p.obj, p.dirty, p.dirty2, st.setv, rec)
}

func (r *run) newConn(id int, in string, probe string) *connState {
	st := &connState{id: id, probe: probe, setv: r.c.Setv}
	st.conn = vnet.New([]byte(in), nil)
	st.conn.OnWrite = func([]byte) { r.resolve(st, false) }
	return st
}

// serveAll serves a scripted connection to its end through vnet.ServeConn (in-loop keep-alive).
func (r *run) serveAll(e *route.Engine, st *connState) {
	r.cur = st
	st.acquired = false
	vnet.ServeConn(e, st.conn, "inloop", 0)
	r.resolve(st, true)
	r.emit("EndConn", vtrace.Rec{"conn": st.id})
	r.cur = nil
}

// serveOnce performs one Engine.Serve call on an open connection (what a poller does when data arrived).
func (r *run) serveOnce(e *route.Engine, st *connState, nc network.Conn, c context.Context) {
	st.acquired = false
	e.Serve(c, nc) //nolint:errcheck
	r.resolve(st, true)
	r.emit("EndConn", vtrace.Rec{"conn": st.id})
}

// reference returns the dump and wire response a brand-new context gives for the probe on a brand-new engine.
func (w *worker) reference(k cfgKey) *ref {
	if rf, ok := w.refs[k]; ok {
		return rf
	}
	var got [2]*ref
	for i := range got {
		r := &run{w: w, c: &Case{Trace: k.trace}, objs: map[uintptr]int{}, mutated: map[int]bool{}}
		rf := &ref{}
		r.refMode = rf
		r.refSetv = k.setv
		e := r.engine(k.idle, k.trace)
		conn := vnet.New([]byte(probeRequest(k.probe)), nil)
		if k.idle == "poller" {
			e.Serve(context.Background(), standard.NewConnForVerif(conn, 4096)) //nolint:errcheck
		} else {
			vnet.ServeConn(e, conn, "inloop", 0)
		}
		rf.wire = wireOf(conn.Out)
		got[i] = rf
	}
	if d := append(diff(got[0].d, got[1].d), diff(got[0].d2, got[1].d2)...); len(d) > 0 || got[0].wire != got[1].wire || got[0].d == nil {
		fmt.Fprintf(os.Stderr, "c09: the reference dump is not reproducible (volatile components %v, wire %q vs %q)\n", d, got[0].wire, got[1].wire)
		os.Exit(2)
	}
	w.refs[k] = got[0]
	return got[0]
}

func caseRec(c *Case) vtrace.Rec {
	b, _ := json.Marshal(c)
	rec := vtrace.Rec{}
	json.Unmarshal(b, &rec) //nolint:errcheck
	if c.Muts == nil {
		rec["muts"] = []string{}
	}
	return rec
}

func (w *worker) runCase(c *Case) {
	r := &run{w: w, c: c, objs: map[uintptr]int{}, mutated: map[int]bool{}}
	r.setPhase("")
	w.cur.Store(r)
	r.emit("Case", caseRec(c))
	func() {
		defer func() {
			if p := recover(); p != nil {
				r.emit("Panic", vtrace.Rec{"msg": fmt.Sprint(p)})
			}
		}()
		switch c.Kind {
		case "Ctx":
			r.ctxCase()
		case "conc":
			r.concCase()
		case "touch":
			r.touchCase()
		case "cover":
			for _, m := range table {
				r.emit("Known", vtrace.Rec{"m": m.Name, "kinds": m.Kinds})
			}
			for _, u := range coverage() {
				r.emit("Uncovered", vtrace.Rec{"type": u.Type, "method": u.Method})
			}
		default:
			r.standaloneCase()
		}
	}()
	r.emit("End", nil)
}

// ctxCase: one mutating request, then the probe on the same keep-alive connection / the next connection / another
// connection that is open at the same time.
func (r *run) ctxCase() {
	c := r.c
	mut := mutRequest(c.Shape, "/mut/a/b")
	probe := probeRequest(c.Probe)
	prog := func(st *connState) { st.muts, st.endings = [][]string{c.Muts}, []string{c.Ending} }
	switch c.Mode {
	case "same":
		e := r.engine("inloop", c.Trace)
		st := r.newConn(1, mut+probe, c.Probe)
		prog(st)
		r.serveAll(e, st)
		if st.probed == 0 { // the mutators ended the connection: the probe goes to the next connection
			atomic.AddInt64(&r.w.stats.fallback, 1)
			r.serveAll(e, r.newConn(2, probe, c.Probe))
		}
	case "next":
		e := r.engine("inloop", c.Trace)
		st := r.newConn(1, mut, c.Probe)
		prog(st)
		r.serveAll(e, st)
		r.serveAll(e, r.newConn(2, probe, c.Probe))
	case "other":
		e := r.engine("poller", c.Trace)
		a, b := r.newConn(1, mut, c.Probe), r.newConn(2, warmRequest, c.Probe)
		prog(a)
		a.conn.End, b.conn.End = "stall", "stall"
		na, nb := standard.NewConnForVerif(a.conn, 4096), standard.NewConnForVerif(b.conn, 4096)
		ca, cb := context.WithValue(context.Background(), connKey{}, a), context.WithValue(context.Background(), connKey{}, b)
		r.serveOnce(e, b, nb, cb) // connection 2 is open and has been served once
		r.serveOnce(e, a, na, ca) // connection 1 (also open) serves the mutating request
		if !b.conn.Closed() {
			b.conn.Append([]byte(probe))
			r.serveOnce(e, b, nb, cb) // connection 2 goes on with the probe
		}
		a.conn.Close()
		b.conn.Close()
	default:
		panic("unknown mode " + c.Mode)
	}
}

// concCase: Conns goroutines, each serving Rounds connections [mutate, probe, mutate, probe] on one engine, so that
// pooled contexts migrate between goroutines.  Mutators are drawn from c.Muts by position.
func (r *run) concCase() {
	c := r.c
	e := r.engine(c.Idle, c.Trace)
	setvs := []string{"bytes", "string", "copy", "bytes!", "string!", "copy!"}
	for _, pk := range []string{"min", "rich"} { // the references are computed before the goroutines start (the cache is not locked)
		for _, sv := range setvs {
			r.w.reference(cfgKey{c.Trace, c.Idle, pk, sv})
		}
	}
	shapes := []string{"get", "form", "multipart", "chunked"}
	endings := []string{"return", "abort", "panic"}
	var wg sync.WaitGroup
	for g := 0; g < c.Conns; g++ {
		wg.Add(1)
		go func(g int) {
			defer wg.Done()
			defer func() { // a panic escaping Engine.Serve: recorded (no spec action => rejected), the process survives
				if p := recover(); p != nil {
					r.emit("Panic", vtrace.Rec{"msg": fmt.Sprint(p), "conn": g + 1})
				}
			}()
			for k := 0; k < c.Rounds; k++ {
				n := g*c.Rounds + k
				pick := func(i int) []string { return []string{c.Muts[(n*2+i)%len(c.Muts)]} }
				pk := []string{"min", "rich"}[n%2]
				in := mutRequest(shapes[n%4], "/mut/a/b") + probeRequest(pk) + mutRequest(shapes[(n+1)%4], "/mut/a/b") + probeRequest(pk)
				st := r.newConn(g+1, in, pk)
				st.setv = setvs[n%6]
				st.muts = [][]string{pick(0), pick(1)}
				st.endings = []string{endings[n%3], endings[(n+1)%3]}
				cc := context.WithValue(context.Background(), connKey{}, st)
				nc := standard.NewConnForVerif(st.conn, 4096)
				if c.Idle == "poller" {
					for i := 0; i < 8 && !st.conn.Closed() && (nc.Len() > 0 || st.conn.Remaining() > 0); i++ {
						r.serveOnce(e, st, nc, cc)
					}
				} else {
					r.serveOnce(e, st, nc, cc)
				}
				st.conn.Close()
			}
		}(g)
	}
	wg.Wait()
}

// touchH measures which components one mutator changes on a context that serves a request of the given shape.
func (r *run) touchH(c context.Context, ctx *app.RequestContext) {
	e := &env{c: c, ctx: ctx, files: r.w.files}
	for _, m := range r.c.Muts {
		before := dumpCtx(ctx)
		func() {
			defer func() { recover() }() //nolint:errcheck
			byName[m].f(e)
		}()
		r.emit("Touched", vtrace.Rec{"m": m, "obj": "Ctx", "comps": diff(before, dumpCtx(ctx))})
	}
}

func (r *run) touchCase() {
	c := r.c
	if c.Obj == "Ctx" {
		e := r.engine("inloop", c.Trace)
		conn := vnet.New([]byte(mutRequest(c.Shape, "/touch/a/b")), nil)
		vnet.ServeConn(e, conn, "inloop", 0)
		return
	}
	for _, m := range c.Muts {
		o := newStandalone(c.Obj, false)
		before := o.dump()
		func() {
			defer func() { recover() }() //nolint:errcheck
			byName[m].f(o.env(r.w.files))
		}()
		r.emit("Touched", vtrace.Rec{"m": m, "obj": c.Obj, "comps": diff(before, o.dump())})
	}
}

// ---------------------------------------------------------------- stand-alone objects

type standalone struct {
	kind   string
	req    *protocol.Request
	resp   *protocol.Response
	uri    *protocol.URI
	args   *protocol.Args
	cookie *protocol.Cookie
}

// newStandalone returns an object of the kind: from the public Acquire function, or newly allocated.
func newStandalone(kind string, acquire bool) *standalone {
	o := &standalone{kind: kind}
	switch kind {
	case "Request":
		if acquire {
			o.req = protocol.AcquireRequest()
		} else {
			o.req = &protocol.Request{}
		}
	case "Response":
		if acquire {
			o.resp = protocol.AcquireResponse()
		} else {
			o.resp = &protocol.Response{}
		}
	case "URI":
		if acquire {
			o.uri = protocol.AcquireURI()
		} else {
			o.uri = &protocol.URI{}
		}
	case "Cookie":
		if acquire {
			o.cookie = protocol.AcquireCookie()
		} else {
			o.cookie = &protocol.Cookie{}
		}
	case "Args":
		o.args = &protocol.Args{} // there is no public pool for Args: recycling is Reset() on the same value
	default:
		panic("unknown object kind " + kind)
	}
	return o
}

func (o *standalone) ptr() (unsafe.Pointer, interface{}) {
	switch o.kind {
	case "Request":
		return unsafe.Pointer(o.req), o.req
	case "Response":
		return unsafe.Pointer(o.resp), o.resp
	case "URI":
		return unsafe.Pointer(o.uri), o.uri
	case "Cookie":
		return unsafe.Pointer(o.cookie), o.cookie
	}
	return unsafe.Pointer(o.args), o.args
}

func (o *standalone) env(files string) *env {
	return &env{c: context.Background(), req: o.req, resp: o.resp, uri: o.uri, args: o.args, cookie: o.cookie, files: files}
}

func (o *standalone) dump() dump {
	switch o.kind {
	case "Request":
		return dumpReqObj(o.req)
	case "Response":
		return dumpRespObj(o.resp)
	case "URI":
		return dumpURIObj(o.uri)
	case "Cookie":
		return dumpCookieObj(o.cookie)
	}
	return dumpArgsObj(o.args)
}

// release hands the object back through the public Release function.
func (o *standalone) release() {
	switch o.kind {
	case "Request":
		protocol.ReleaseRequest(o.req)
	case "Response":
		protocol.ReleaseResponse(o.resp)
	case "URI":
		protocol.ReleaseURI(o.uri)
	case "Cookie":
		protocol.ReleaseCookie(o.cookie)
	default:
		o.args.Reset()
	}
}

func (r *run) standaloneCase() {
	c := r.c
	o := newStandalone(c.Kind, true)
	p, keep := o.ptr()
	id := r.objID(p, keep)
	r.emit("Acquire", vtrace.Rec{"conn": 0, "obj": id, "ptr": fmt.Sprintf("%p", p)})
	e := o.env(r.w.files)
	func() {
		defer func() {
			if p := recover(); p != nil {
				r.emit("Ending", vtrace.Rec{"conn": 0, "kind": "panic"})
			}
		}()
		for _, m := range c.Muts {
			r.emit("Mutate", vtrace.Rec{"conn": 0, "m": m})
			byName[m].f(e)
		}
		r.emit("Ending", vtrace.Rec{"conn": 0, "kind": "return"})
	}()
	r.mutated[id] = true
	o.release()
	r.emit("Release", vtrace.Rec{"conn": 0, "obj": id})
	var o2 *standalone
	if c.Kind == "Args" {
		o2 = o
	} else {
		o2 = newStandalone(c.Kind, true)
	}
	p2, keep2 := o2.ptr()
	id2 := r.objID(p2, keep2)
	r.emit("Acquire", vtrace.Rec{"conn": 0, "obj": id2, "ptr": fmt.Sprintf("%p", p2)})
	fresh := newStandalone(c.Kind, false)
	dirty := []string{}
	if !strings.HasSuffix(c.Setv, "!") {
		dirty = diff(o2.dump(), fresh.dump())
	}
	var dirty2 []string
	if c.Setv != "" {
		after := func(o *standalone) dump {
			pan := applyProgram(strings.TrimSuffix(c.Setv, "!"), c.Kind, o.env(r.w.files))
			d := o.dump()
			d.put("set.panic", pan)
			return d
		}
		dirty2 = diff(after(o2), after(fresh))
	}
	atomic.AddInt64(&r.w.stats.probes, 1)
	if r.mutated[id2] {
		atomic.AddInt64(&r.w.stats.recycled, 1)
	}
	if len(dirty)+len(dirty2) > 0 {
		atomic.AddInt64(&r.w.stats.dirty, 1)
	}
	r.emitProbe(0, id2, dirty, dirty2, c.Setv, r.mutated[id2])
	// the probed object is dropped, not released: the process-wide pools stay empty between cases
}

// ---------------------------------------------------------------- main

func main() {
	cases := flag.String("cases", "", "ndjson case file written by TLC")
	out := flag.String("out", "", "output directory for trace chunks")
	chunks := flag.Int("chunks", 16, "number of trace files / parallel workers")
	scratch := flag.String("scratch", "", "directory for the small files some mutators serve")
	hangSeq := flag.Duration("hang", 3*time.Second, "watchdog limit for one sequential history")
	hangConc := flag.Duration("hangconc", 90*time.Second, "watchdog limit for one concurrent history")
	list := flag.Bool("list", false, "print the mutator table as JSON and exit")
	obs := flag.Bool("obs", false, "print the observable components per object kind as JSON and exit")
	flag.Parse()
	if *list {
		b, _ := json.Marshal(table)
		fmt.Println(string(b))
		return
	}
	if *obs {
		w := &worker{refs: map[cfgKey]*ref{}, stats: &counters{}}
		o := map[string][]string{}
		keys := func(d dump) []string {
			ks := []string{}
			for k := range d {
				ks = append(ks, k)
			}
			sort.Strings(ks)
			return ks
		}
		o["Ctx"] = append(keys(w.reference(cfgKey{true, "inloop", "rich", ""}).d), "wire")
		for _, k := range []string{"Request", "Response", "URI", "Cookie", "Args"} {
			o[k] = keys(newStandalone(k, false).dump())
		}
		b, _ := json.Marshal(o)
		fmt.Println(string(b))
		return
	}
	if *scratch == "" {
		fmt.Fprintln(os.Stderr, "c09: -scratch is required")
		os.Exit(2)
	}
	if err := os.WriteFile(filepath.Join(*scratch, "small.txt"), []byte("c09 small file\n"), 0o644); err != nil {
		fmt.Fprintln(os.Stderr, err)
		os.Exit(2)
	}
	f, err := os.Open(*cases)
	if err != nil {
		fmt.Fprintln(os.Stderr, err)
		os.Exit(2)
	}
	var all []*Case
	sc := bufio.NewScanner(f)
	sc.Buffer(make([]byte, 1<<20), 1<<26)
	for sc.Scan() {
		c := &Case{}
		if err := json.Unmarshal(sc.Bytes(), c); err != nil {
			fmt.Fprintln(os.Stderr, "bad case line:", err)
			os.Exit(2)
		}
		for _, m := range c.Muts {
			if byName[m] == nil {
				fmt.Fprintf(os.Stderr, "c09: case %d names mutator %q which the driver's table does not have\n", c.ID, m)
				os.Exit(2)
			}
		}
		all = append(all, c)
	}
	n := *chunks
	if n > len(all) {
		n = len(all)
	}
	if n < 1 {
		n = 1
	}
	st := &counters{}
	var wg sync.WaitGroup
	for k := 0; k < n; k++ {
		wg.Add(1)
		go func(k int) {
			defer wg.Done()
			tr, err := vtrace.Create(filepath.Join(*out, fmt.Sprintf("trace_%03d.ndjson", k)))
			if err != nil {
				panic(err)
			}
			lo, hi := len(all)*k/n, len(all)*(k+1)/n
			// The histories of the chunk run one after the other on a worker goroutine; this goroutine is its
			// watchdog.  A history that makes no progress for `limit` (a call blocked for ever on a lock that an
			// earlier use of a recycled object left held, ...) is recorded as Hang{where} + End, its goroutine is
			// abandoned and a new worker goes on with the next history.
			for next := lo; next < hi; {
				w := &worker{tr: tr, files: *scratch, refs: map[cfgKey]*ref{}, stats: st}
				done := make(chan struct{})
				atomic.StoreInt64(&w.idx, int64(next))
				atomic.StoreInt64(&w.t0, time.Now().UnixNano())
				go func(from int) {
					defer close(done)
					// one OS thread per worker: the context released at the end of a connection sits in this P's
					// pool slot when the next connection of the case asks for one
					runtime.LockOSThread()
					for i := from; i < hi; i++ {
						atomic.StoreInt64(&w.idx, int64(i))
						atomic.StoreInt64(&w.t0, time.Now().UnixNano())
						w.runCase(all[i])
						if r, _ := w.cur.Load().(*run); r != nil && atomic.LoadInt32(&r.dead) != 0 {
							return // the watchdog gave this history up while it was (slowly) finishing: a new worker took over
						}
					}
				}(next)
				tick := time.NewTicker(50 * time.Millisecond)
			watch:
				for {
					select {
					case <-done:
						next = hi
						break watch
					case <-tick.C:
						i := int(atomic.LoadInt64(&w.idx))
						limit := *hangSeq
						if all[i].Kind == "conc" {
							limit = *hangConc
						}
						r, _ := w.cur.Load().(*run)
						if r == nil || r.c != all[i] || time.Since(time.Unix(0, atomic.LoadInt64(&w.t0))) < limit {
							continue
						}
						r.emu.Lock()
						if i != int(atomic.LoadInt64(&w.idx)) { // it moved on in the meantime
							r.emu.Unlock()
							continue
						}
						atomic.StoreInt32(&r.dead, 1)
						where, _ := r.phase.Load().(string)
						tr.Emit("Hang", vtrace.Rec{"where": where, "after_s": int(limit.Seconds())})
						tr.Emit("End", nil)
						r.emu.Unlock()
						atomic.AddInt64(&st.hangs, 1)
						next = i + 1
						break watch
					}
				}
				tick.Stop()
			}
			tr.Close()
		}(k)
	}
	wg.Wait()
	fmt.Printf("{\"cases\":%d,\"chunks\":%d,\"probes\":%d,\"probes_on_recycled\":%d,\"dirty_probes\":%d,\"probe_fallback_next_conn\":%d,\"hangs\":%d,\"mutators\":%d}\n",
		len(all), n, st.probes, st.recycled, st.dirty, st.fallback, st.hangs, len(table))
}
