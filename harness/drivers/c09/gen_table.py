#!/usr/bin/env python3
"""Development tool (not used by the check): regenerate spec/CtxLifecycleTable.tla from the driver's mutator table.

    c09 -list > table.json
    run the `touch` cases, collect Touched{m, comps} -> touched.json   ({mutator: [components]})
    python3 gen_table.py table.json touched.json > ../../../spec/CtxLifecycleTable.tla

TouchFam[m] = class default  U  home families of the measured components  U  the manual additions below (lazy
getters and effects that a before/after dump cannot see).  It is an over-approximation on purpose; the check verifies
on every run that what each mutator really changes stays inside it (Touched events)."""
import json, sys

DEFAULT = {"ReqH": ["req.h"], "ReqTr": ["req.h"], "URI": ["req.uri"], "QArgs": ["req.uri"], "PArgs": ["req.post"],
           "RespH": ["resp.h"], "RespTr": ["resp.h"], "Cookie": ["cookie"], "Args": ["args"]}

LAZY_REQ = ["req.post", "req.mp", "req.uri", "req.body", "req.h"]
MANUAL = {
    "Ctx.Finished": ["ctx.finished"], "Ctx.SetHandlers": ["ctx.handlers", "ctx.index"], "Ctx.Next": ["ctx.index"],
    "Ctx.ResetWithoutConn": ["ctx.params", "ctx.errors", "ctx.handlers", "ctx.index", "ctx.fullPath", "ctx.keys", "ctx.finished",
                             "req.h", "req.uri", "req.body", "req.mp", "req.post", "req.options", "resp.h", "resp.body",
                             "resp.skipBody", "resp.addrs", "resp.immediateHeaderFlush", "resp.hijackWriter", "trace"],
    "Ctx.Body": ["req.body"], "Ctx.RequestBodyStream": ["req.body"],
    "Ctx.MultipartForm": LAZY_REQ, "Ctx.FormFile": LAZY_REQ, "Ctx.FormValue": LAZY_REQ, "Ctx.PostForm": LAZY_REQ,
    "Ctx.GetPostFormArray": LAZY_REQ, "Ctx.PostArgs": LAZY_REQ, "Ctx.URI": ["req.uri"], "Ctx.QueryArgs": ["req.uri"],
    "Ctx.Bind": LAZY_REQ, "Ctx.BindAndValidate": LAZY_REQ, "Ctx.BindByContentType": LAZY_REQ, "Ctx.BindForm": LAZY_REQ,
    "Ctx.BindHeader": LAZY_REQ, "Ctx.BindJSON": LAZY_REQ, "Ctx.BindPath": LAZY_REQ, "Ctx.BindProtobuf": LAZY_REQ,
    "Ctx.BindQuery": LAZY_REQ, "Ctx.Validate": LAZY_REQ,
    "Ctx.HTML": ["resp.h", "resp.body"], "Ctx.ProtoBuf": ["resp.h", "resp.body"], "Ctx.Flush": ["resp.body"],
    "Ctx.SetTraceInfo": ["trace", "ctx.traceInfo"],
    "Ctx.File": ["req.h", "req.uri", "resp.h", "resp.body"], "Ctx.FileAttachment": ["req.h", "req.uri", "resp.h", "resp.body"],
    "Ctx.FileFromFS": ["req.h", "req.uri", "resp.h", "resp.body"],
    "Req.Body": ["req.body"], "Req.BodyE": ["req.body"], "Req.BodyWriteTo": ["req.body"], "Req.CloseBodyStream": ["req.body"],
    "Req.MultipartForm": LAZY_REQ, "Req.FormFile": LAZY_REQ, "Req.PostArgs": LAZY_REQ, "Req.URI": ["req.uri"],
    "Req.ParseURI": ["req.uri"], "Req.Options": ["req.options"],
    "Req.Reset": ["req.h", "req.uri", "req.body", "req.mp", "req.post", "req.options", "req.isTLS"],
    "Req.ResetWithoutConn": ["req.h", "req.uri", "req.body", "req.mp", "req.post", "req.options"],
    "Req.ResetSkipHeader": ["req.uri", "req.body", "req.mp", "req.post", "req.isTLS"],
    "Req.ResetBody": ["req.body", "req.mp"], "Req.RemoveMultipartFormFiles": ["req.mp"],
    "Req.CopyTo:dst": ["req.h", "req.uri", "req.body", "req.mp", "req.post", "req.options", "req.isTLS"],
    "Req.CopyToSkipBody:dst": ["req.h", "req.uri", "req.body", "req.mp", "req.post", "req.options", "req.isTLS"],
    "Req.pkg:SwapRequestBody": ["req.body", "req.mp"], "Req.SwapBody": ["req.body", "req.mp"],
    "Resp.Body": ["resp.body"], "Resp.BodyE": ["resp.body"], "Resp.BodyWriteTo": ["resp.body"], "Resp.CloseBodyStream": ["resp.body"],
    "Resp.ResetBody": ["resp.body"],
    "Resp.Reset": ["resp.h", "resp.body", "resp.skipBody", "resp.addrs", "resp.immediateHeaderFlush", "resp.hijackWriter"],
    "Resp.CopyTo:dst": ["resp.h", "resp.body", "resp.skipBody", "resp.addrs", "resp.immediateHeaderFlush", "resp.hijackWriter"],
    "Resp.CopyToSkipBody:dst": ["resp.h", "resp.body", "resp.skipBody", "resp.addrs", "resp.immediateHeaderFlush", "resp.hijackWriter"],
    "Resp.pkg:SwapResponseBody": ["resp.body"], "Resp.HijackWriter": ["resp.hijackWriter", "resp.body"],
}

VIEWS = {"ctx.derived", "req.derived", "req.basicAuth", "req.parsedURI", "resp.derived", "wire", "resp.hijack"}


def home(c):
    if c in VIEWS:
        return None
    p = c.split(".")
    if p[0] == "req":
        if p[1] in ("h", "uri", "mp"):
            return "req." + p[1]
        if p[1] in ("body", "bodyBytes", "bodyStream"):
            return "req.body"
        if p[1] in ("postArgs", "postArgString"):
            return "req.post"
        return c            # req.options, req.isTLS
    if p[0] == "resp":
        if p[1] == "h":
            return "resp.h"
        if p[1] in ("body", "bodyBytes", "bodyStream"):
            return "resp.body"
        return c            # resp.skipBody, resp.addrs, resp.immediateHeaderFlush, resp.hijackWriter
    if p[0] == "trace":
        return "trace"
    if p[0] == "cookie":
        return "cookie"
    if p[0] == "args":
        return "args"
    return c                # ctx.* singletons


def q(s):
    return '"' + s + '"'


def main():
    table = json.load(open(sys.argv[1]))
    touched = json.load(open(sys.argv[2]))
    out = []
    out.append("------------------------- MODULE CtxLifecycleTable -------------------------")
    out.append("(* GENERATED by harness/drivers/c09/gen_table.py from the driver's mutator table (c09 -list) and measured   *)")
    out.append("(* touch sets; reviewed by hand.  One line per mutator of the alphabet:                                      *)")
    out.append("(*   name :> [kinds |-> object kinds it applies to, fam |-> families of components it may change]           *)")
    out.append("(* Names are <Class>.<Method>[:variant]; see harness/drivers/c09/mutators.go for the closures.             *)")
    out.append("EXTENDS TLC")
    out.append("")
    out.append("MutTable ==")
    lines = []
    for m in table:
        fams = set(DEFAULT.get(m["class"], []))
        for c in touched.get(m["name"], []):
            h = home(c)
            if h:
                fams.add(h)
        fams |= set(MANUAL.get(m["name"], []))
        lines.append("  %s :> [kinds |-> {%s}, fam |-> {%s}]" % (q(m["name"]), ", ".join(q(k) for k in m["kinds"]),
                                                               ", ".join(q(f) for f in sorted(fams))))
    out.append(" @@\n".join(lines))
    out.append("")
    out.append("(* Exported methods/fields that are deliberately NOT in the alphabet.  The driver reports every exported      *)")
    out.append("(* method that is neither a mutator of its table nor declared read-only as Uncovered{type, method}; the      *)")
    out.append("(* trace specification accepts such an event only for the pairs listed here.                                  *)")
    out.append("Excluded ==")
    ex = [
        ("RequestContext", "Reset", "internal: also drops the connection the server loop is using; documented 'You should not use it'"),
        ("RequestContext", "SetConn", "connection plumbing used by the server; the connection is Kept"),
        ("RequestContext", "SetEnableTrace", "documented 'biz handler must not modify this value'; set by the server per connection"),
        ("RequestContext", "SetBinder", "no getter; the engine overwrites it at the start of every request (ServeHTTP)"),
        ("RequestContext", "SetValidator", "no getter; the engine overwrites it at the start of every request (ServeHTTP)"),
        ("RequestContext", "SaveUploadedFile", "writes a file on disk, does not touch the context"),
        ("RequestContext", "field:HTMLRender", "server option copied in at the start of every connection; Kept"),
        ("Request", "SetMaxKeepBodySize", "retention policy of the body buffer (capacity), deliberately unconstrained"),
        ("Response", "SetMaxKeepBodySize", "retention policy of the body buffer (capacity), deliberately unconstrained"),
    ]
    for i, (t, m, why) in enumerate(ex):
        out.append("  %s <<%s, %s>>   \\* %s" % ("{" if i == 0 else ",", q(t), q(m), why))
    out.append("  }")
    out.append("=============================================================================")
    print("\n".join(out))


main()
