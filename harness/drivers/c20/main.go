// Driver for C20: compiles every generated validation expression afresh (run-time struct type with the tag
// vd:"<expr>") and runs the REAL validator (pkg/app/server/binding -> internal/tagexpr/validator) on the field
// value named in the case.  Records, per case:  Case{...echo of the case...}, Validated{expr, kind, outcome
// ok|invalid|error|panic, msg}, End.  The driver knows nothing about operator precedence, typing or expected
// verdicts: expression strings come from spec/TagExprGen.tla, outcomes are judged by spec/TagExprTrace.tla.
//
// Process layout: the parent splits the cases into -chunks slices and runs each slice in a child process
// (-worker).  A panic is recovered in the child and logged as outcome "panic".  What cannot be recovered (stack
// overflow of a runaway recursion in the expression engine, a hang) kills the child only: the parent logs
// Crashed{msg} for the case that was in flight (no spec action => the trace is rejected there) and restarts a
// child behind it.  Children write whole case blocks unbuffered (own tiny writer instead of vtrace.Writer, whose
// 1 MiB buffer would be lost with the process); the line format is the same.
package main

import (
	"bufio"
	"bytes"
	"encoding/json"
	"flag"
	"fmt"
	"io"
	"os"
	"os/exec"
	"path/filepath"
	"reflect"
	"runtime/debug"
	"strconv"
	"sync"
	"time"

	"github.com/cloudwego/hertz/pkg/app/server/binding"
)

// Val is the field value of a case: kind int|float|ptrint (number n/64), str, bool, nilptr (nil *int), slice ([]int of length n).
type Val struct {
	Kind string `json:"kind"`
	N    int    `json:"n"`
	S    string `json:"s"`
	B    bool   `json:"b"`
}

type Case struct {
	ID   int    `json:"id"`
	Expr string `json:"expr"`
	Val  Val    `json:"val"`
	raw  map[string]interface{}
}

// invalidErr is what the validator's error factory returns when an expression evaluated to "not valid";
// every other error (syntax error while compiling the tag, ...) is classified "error".
type invalidErr struct{ path, msg string }

func (e *invalidErr) Error() string { return "invalid: " + e.path + " " + e.msg }

const scale = 64

func fieldValue(v Val) (reflect.Type, reflect.Value, bool) {
	switch v.Kind {
	case "int":
		return reflect.TypeOf(int(0)), reflect.ValueOf(v.N / scale), true
	case "float":
		return reflect.TypeOf(float64(0)), reflect.ValueOf(float64(v.N) / scale), true
	case "ptrint":
		p := new(int)
		*p = v.N / scale
		return reflect.TypeOf(p), reflect.ValueOf(p), true
	case "str":
		return reflect.TypeOf(""), reflect.ValueOf(v.S), true
	case "bool":
		return reflect.TypeOf(false), reflect.ValueOf(v.B), true
	case "nilptr":
		return reflect.TypeOf((*int)(nil)), reflect.Value{}, true
	case "slice":
		s := make([]int, v.N)
		for i := range s {
			s[i] = i + 1
		}
		return reflect.TypeOf(s), reflect.ValueOf(s), true
	}
	return nil, reflect.Value{}, false
}

func line(buf *bytes.Buffer, ev string, rec map[string]interface{}) {
	if rec == nil {
		rec = map[string]interface{}{}
	}
	rec["ev"] = ev
	b, err := json.Marshal(rec)
	if err != nil {
		panic(err)
	}
	buf.Write(b)
	buf.WriteByte('\n')
}

func caseLine(buf *bytes.Buffer, c *Case) {
	rec := map[string]interface{}{}
	for k, v := range c.raw {
		rec[k] = v
	}
	line(buf, "Case", rec)
}

func runCase(w io.Writer, vd binding.StructValidator, c *Case, uniq string) {
	var buf bytes.Buffer
	caseLine(&buf, c)
	ft, fv, ok := fieldValue(c.Val)
	if !ok {
		fmt.Fprintln(os.Stderr, "unknown value kind", c.Val.Kind)
		os.Exit(3)
	}
	// a fresh struct type per case: the inert tag `u` makes the type unique, so the expression is compiled afresh
	st := reflect.StructOf([]reflect.StructField{
		{Name: "F", Type: ft, Tag: reflect.StructTag("vd:" + strconv.Quote(c.Expr))},
		{Name: "U", Type: reflect.TypeOf(0), Tag: reflect.StructTag(`u:"` + uniq + `"`)},
	})
	p := reflect.New(st)
	if fv.IsValid() {
		p.Elem().Field(0).Set(fv)
	}
	outcome, msg := "ok", ""
	func() {
		defer func() {
			if r := recover(); r != nil {
				outcome, msg = "panic", fmt.Sprint(r)
			}
		}()
		err := vd.ValidateStruct(p.Interface())
		if err != nil {
			if _, isInvalid := err.(*invalidErr); isInvalid {
				outcome = "invalid"
			} else {
				outcome, msg = "error", err.Error()
			}
		}
	}()
	line(&buf, "Validated", map[string]interface{}{"expr": c.Expr, "kind": c.Val.Kind, "outcome": outcome, "msg": msg})
	line(&buf, "End", nil)
	w.Write(buf.Bytes()) // one write per completed case
}

// readCases reads the case file; only lines [from,to) are decoded (to < 0: all), the others stay nil.
func readCases(path string, from, to int) []*Case {
	f, err := os.Open(path)
	if err != nil {
		fmt.Fprintln(os.Stderr, err)
		os.Exit(2)
	}
	defer f.Close()
	var all []*Case
	sc := bufio.NewScanner(f)
	sc.Buffer(make([]byte, 1<<20), 1<<26)
	for i := 0; sc.Scan(); i++ {
		if to >= 0 && (i < from || i >= to) {
			all = append(all, nil)
			continue
		}
		c := &Case{}
		if err := json.Unmarshal(sc.Bytes(), c); err != nil {
			fmt.Fprintln(os.Stderr, "bad case line:", err)
			os.Exit(2)
		}
		if err := json.Unmarshal(sc.Bytes(), &c.raw); err != nil {
			fmt.Fprintln(os.Stderr, "bad case line:", err)
			os.Exit(2)
		}
		all = append(all, c)
	}
	return all
}

func worker(all []*Case, from, to int, seg, uniq string) {
	debug.SetMaxStack(32 << 20) // expression trees are a few levels deep; a runaway recursion dies quickly
	f, err := os.Create(seg)
	if err != nil {
		fmt.Fprintln(os.Stderr, err)
		os.Exit(3)
	}
	// the public constructor of the engine's validator (same code as binding.DefaultValidator()), with an
	// error factory that lets the driver tell "value rejected" from every other error
	vd := binding.NewValidator(&binding.ValidateConfig{ErrFactory: func(path, msg string) error { return &invalidErr{path, msg} }})
	for i := from; i < to; i++ {
		runCase(f, vd, all[i], fmt.Sprintf("%s_%d", uniq, i))
	}
	f.Close()
}

// runSlice runs cases [lo,hi) in child processes and writes the trace file of the chunk.
func runSlice(self, casesPath string, all []*Case, k, lo, hi int, outDir string, stall time.Duration) error {
	out, err := os.Create(filepath.Join(outDir, fmt.Sprintf("trace_%03d.ndjson", k)))
	if err != nil {
		return err
	}
	defer out.Close()
	from := lo
	for from < hi {
		seg := filepath.Join(outDir, fmt.Sprintf("seg_%03d_%d.tmp", k, from))
		cmd := exec.Command(self, "-worker", "-cases", casesPath, "-from", strconv.Itoa(from), "-to", strconv.Itoa(hi),
			"-seg", seg, "-uniq", fmt.Sprintf("%d_%d", k, from))
		var stderr bytes.Buffer
		cmd.Stderr = &limitWriter{w: &stderr, left: 2000}
		if err := cmd.Start(); err != nil {
			return err
		}
		done := make(chan error, 1)
		go func() { done <- cmd.Wait() }()
		var werr error
		killed := false
		lastSize, lastChange := int64(-1), time.Now()
	wait:
		for {
			select {
			case werr = <-done:
				break wait
			case <-time.After(time.Second):
				if st, e := os.Stat(seg); e == nil && st.Size() != lastSize {
					lastSize, lastChange = st.Size(), time.Now()
				} else if time.Since(lastChange) > stall {
					killed = true
					cmd.Process.Kill()
				}
			}
		}
		data, _ := os.ReadFile(seg)
		os.Remove(seg)
		completed := bytes.Count(data, []byte("{\"ev\":\"End\"}\n"))
		// keep only whole case blocks
		if idx := bytes.LastIndex(data, []byte("{\"ev\":\"End\"}\n")); idx >= 0 {
			data = data[:idx+len("{\"ev\":\"End\"}\n")]
		} else {
			data = nil
		}
		out.Write(data)
		from += completed
		if werr == nil && from == hi {
			break
		}
		if from >= hi {
			return fmt.Errorf("worker for chunk %d failed after its last case: %v %s", k, werr, stderr.String())
		}
		if ee, ok := werr.(*exec.ExitError); ok && ee.ExitCode() == 3 {
			return fmt.Errorf("worker for chunk %d: %s", k, stderr.String())
		}
		// the case in flight took the process down
		var buf bytes.Buffer
		caseLine(&buf, all[from])
		msg := firstLine(stderr.String())
		if killed {
			msg = "no progress for " + stall.String() + " (killed)"
		}
		line(&buf, "Crashed", map[string]interface{}{"expr": all[from].Expr, "kind": all[from].Val.Kind, "msg": msg})
		line(&buf, "End", nil)
		out.Write(buf.Bytes())
		from++
	}
	return nil
}

type limitWriter struct {
	w    io.Writer
	left int
}

func (l *limitWriter) Write(p []byte) (int, error) {
	if l.left > 0 {
		n := len(p)
		if n > l.left {
			n = l.left
		}
		l.w.Write(p[:n])
		l.left -= n
	}
	return len(p), nil
}

func firstLine(s string) string {
	for i := 0; i < len(s); i++ {
		if s[i] == '\n' {
			return s[:i]
		}
	}
	return s
}

func main() {
	cases := flag.String("cases", "", "ndjson case file written by TLC")
	out := flag.String("out", "", "output directory for trace chunks")
	chunks := flag.Int("chunks", 16, "number of trace files")
	isWorker := flag.Bool("worker", false, "internal: run cases [from,to) and write the segment file")
	from := flag.Int("from", 0, "internal")
	to := flag.Int("to", 0, "internal")
	seg := flag.String("seg", "", "internal")
	uniq := flag.String("uniq", "", "internal")
	stall := flag.Duration("stall", 45*time.Second, "kill a child that completes no case for this long")
	flag.Parse()
	if *isWorker {
		worker(readCases(*cases, *from, *to), *from, *to, *seg, *uniq)
		return
	}
	all := readCases(*cases, 0, -1)
	self, err := os.Executable()
	if err != nil {
		fmt.Fprintln(os.Stderr, err)
		os.Exit(2)
	}
	n := *chunks
	if n > len(all) {
		n = len(all)
	}
	if n < 1 {
		n = 1
	}
	var wg sync.WaitGroup
	errs := make([]error, n)
	for k := 0; k < n; k++ {
		wg.Add(1)
		go func(k int) {
			defer wg.Done()
			errs[k] = runSlice(self, *cases, all, k, len(all)*k/n, len(all)*(k+1)/n, *out, *stall)
		}(k)
	}
	wg.Wait()
	for _, e := range errs {
		if e != nil {
			fmt.Fprintln(os.Stderr, e)
			os.Exit(2)
		}
	}
	fmt.Printf("{\"cases\":%d,\"chunks\":%d}\n", len(all), n)
}
