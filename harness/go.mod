module verif/harness

go 1.19

require github.com/cloudwego/hertz v0.0.0

require (
	github.com/bytedance/gopkg v0.1.0 // indirect
	github.com/bytedance/sonic v1.13.2 // indirect
	github.com/bytedance/sonic/loader v0.2.4 // indirect
	github.com/cloudwego/base64x v0.1.5 // indirect
	github.com/cloudwego/netpoll v0.6.4 // indirect
	github.com/fsnotify/fsnotify v1.5.4 // indirect
	github.com/golang/protobuf v1.5.0 // indirect
	github.com/klauspost/cpuid/v2 v2.0.9 // indirect
	github.com/nyaruka/phonenumbers v1.0.55 // indirect
	github.com/twitchyliquid64/golang-asm v0.15.1 // indirect
	golang.org/x/arch v0.0.0-20210923205945-b76863e36670 // indirect
	golang.org/x/sys v0.24.0 // indirect
	google.golang.org/protobuf v1.27.1 // indirect
)

replace github.com/cloudwego/hertz => /repo
