package vnet

import "bytes"

const alpha = "ABCDEFGHIJKLMNOPQRSTUVWXYZabcdefghijklmnopqrstuvwxyz0123456789-_"

// Pat returns byte k of the body of request (or file, or response) i: bodies are a fixed printable pattern in
// which every aligned 4-byte block encodes a scrambled (i, k/4), so any window of 8 bytes identifies its origin.
func Pat(i, k int) byte {
	q := k / 4
	v := uint32((i&0x3f)<<18 | (q & 0x3ffff))
	// scramble the 24-bit block value (multiplication by an odd constant is a bijection mod 2^24), so that all four
	// bytes of a block depend on the offset: bytes a multiple of the block size apart differ almost always, and a
	// stale or misplaced block is visible even when only a single byte of it is observed
	v = (v * 0x9E3779B1) & 0xffffff
	v ^= v >> 11
	v = (v * 0x85EBCA6B) & 0xffffff
	return alpha[(v>>(uint(k%4)*6))&0x3f]
}

// Fill writes Pat(i, a..b-1) into a new slice.
func Fill(i, a, b int) []byte {
	out := make([]byte, b-a)
	for k := a; k < b; k++ {
		out[k-a] = Pat(i, k)
	}
	return out
}

// Run is a maximal stretch of observed bytes equal to body bytes [A,B) of origin I (I = 0: foreign bytes).
type Run struct{ I, A, B int }

// Origin describes one body that observed bytes may come from.
type Origin struct {
	I, Len int
	Lit    []byte // literal content instead of the pattern (bodies that imitate framing)
}

func (o Origin) bytes() []byte {
	if o.Lit != nil {
		return o.Lit
	}
	return Fill(o.I, 0, o.Len)
}

// Runs maps observed bytes back to runs over the given origins. Bytes that match no origin are reported as
// foreign runs {0, 0, count}.
func Runs(obs []byte, origins []Origin) []Run { return RunsHint(obs, origins, 0, 0) }

// RunsHint is Runs with a hint: the bytes are first compared with origin hintI from offset hintA on (the
// position a sequential reader is at); short windows are ambiguous in the pattern, and bytes equal to the
// bytes at the hinted position are, as an observation, indistinguishable from them.
func RunsHint(obs []byte, origins []Origin, hintI, hintA int) []Run {
	var out []Run
	pats := make([][]byte, len(origins))
	p := 0
	for p < len(obs) {
		bestI, bestA, bestL := 0, 0, 0
		for oi, o := range origins {
			if o.I != hintI || hintI == 0 || o.Len == 0 {
				continue
			}
			if pats[oi] == nil {
				pats[oi] = o.bytes()
			}
			l := 0
			for p+l < len(obs) && hintA+l < o.Len && obs[p+l] == pats[oi][hintA+l] {
				l++
			}
			if l > 0 {
				bestI, bestA, bestL = o.I, hintA, l
			}
		}
		for oi, o := range origins {
			if bestL > 0 {
				break
			}
			if o.Len == 0 {
				continue
			}
			if pats[oi] == nil {
				pats[oi] = o.bytes()
			}
			w := 8
			if len(obs)-p < w {
				w = len(obs) - p
			}
			// every occurrence of the window; take the one that extends furthest
			start := 0
			for tries := 0; tries < 64; tries++ {
				idx := bytes.Index(pats[oi][start:], obs[p:p+w])
				if idx < 0 {
					break
				}
				a := start + idx
				l := 0
				for p+l < len(obs) && a+l < o.Len && obs[p+l] == pats[oi][a+l] {
					l++
				}
				if l > bestL {
					bestI, bestA, bestL = o.I, a, l
				}
				start = a + 1
				if w >= 8 {
					break
				}
			}
		}
		if bestL == 0 {
			// foreign byte: extend previous foreign run
			if n := len(out); n > 0 && out[n-1].I == 0 {
				out[n-1].B++
			} else {
				out = append(out, Run{0, 0, 1})
			}
			p++
			continue
		}
		// merge with previous run when contiguous
		if n := len(out); n > 0 && out[n-1].I == bestI && out[n-1].B == bestA {
			out[n-1].B += bestL
		} else {
			out = append(out, Run{bestI, bestA, bestA + bestL})
		}
		p += bestL
		hintI, hintA = bestI, bestA+bestL
	}
	return out
}

// RunsJSON converts runs to [[i,a,b],...] for the trace.
func RunsJSON(rs []Run) [][]int {
	out := make([][]int, 0, len(rs))
	for _, r := range rs {
		out = append(out, []int{r.I, r.A, r.B})
	}
	return out
}
