package vnet

import (
	"bufio"
	"bytes"
	"io"
	"net/http"
	"strings"
)

// Resp is one response decoded from the server's output by net/http (an independent HTTP implementation).
type Resp struct {
	Status  int
	Proto   string
	Header  http.Header
	Body    []byte
	Chunked bool
	CL      int64 // declared Content-Length, -1 if none
	Close   bool  // carries "Connection: close"
	KeepAl  bool  // carries "Connection: keep-alive"
	NCL     int   // number of Content-Length lines in the header block
	Trailer http.Header
	Raw     int // bytes of output this message occupies
}

// RespStream incrementally decodes the bytes a server writes on one connection.
type RespStream struct {
	buf    []byte
	parsed int
	// Method returns the method of the request the next final response answers (HEAD has no body).
	Method func() string
}

func (s *RespStream) Feed(p []byte) { s.buf = append(s.buf, p...) }

// Next returns the next complete response, or nil if the buffered output does not (yet) contain one.
// untilClose tells whether the connection is finished (a read-until-close body is then complete).
func (s *RespStream) Next(untilClose bool) (*Resp, error) {
	rest := s.buf[s.parsed:]
	if len(rest) == 0 {
		return nil, nil
	}
	src := bytes.NewReader(rest)
	br := bufio.NewReader(src)
	m := "GET"
	if s.Method != nil {
		m = s.Method()
	}
	r, err := http.ReadResponse(br, &http.Request{Method: m})
	if err != nil {
		if err == io.ErrUnexpectedEOF || err == io.EOF || !untilClose {
			return nil, nil // incomplete head (while the connection is open any error may be due to missing bytes)
		}
		return nil, err
	}
	if r.ContentLength == -1 && !isChunked(r) && !untilClose && bodyAllowed(m, r.StatusCode) {
		return nil, nil // body delimited by close: wait for the end of the connection
	}
	body, err := io.ReadAll(r.Body)
	if err != nil {
		if err == io.ErrUnexpectedEOF || !untilClose {
			return nil, nil // incomplete body
		}
		return nil, err
	}
	used := len(rest) - src.Len() - br.Buffered()
	s.parsed += used
	// net/http removes "Connection: close" from the header map; read the raw header block instead
	conn := ""
	head := rest[:used]
	if i := bytes.Index(head, []byte("\r\n\r\n")); i >= 0 {
		head = head[:i]
	}
	ncl := 0 // Content-Length lines in the raw header block (the decoder's ContentLength is 0 for 1xx/204 whatever they say)
	for _, ln := range strings.Split(string(head), "\r\n") {
		if c := strings.IndexByte(ln, ':'); c > 0 && strings.EqualFold(strings.TrimSpace(ln[:c]), "connection") {
			conn += "," + strings.ToLower(ln[c+1:])
		}
		if c := strings.IndexByte(ln, ':'); c > 0 && strings.EqualFold(strings.TrimSpace(ln[:c]), "content-length") {
			ncl++
		}
	}
	return &Resp{Status: r.StatusCode, Proto: r.Proto, Header: r.Header, Body: body, Chunked: isChunked(r),
		CL: r.ContentLength, Close: strings.Contains(conn, "close"), KeepAl: strings.Contains(conn, "keep-alive"),
		Trailer: r.Trailer, Raw: used, NCL: ncl}, nil
}

// Leftover returns the number of output bytes not consumed by complete responses.
func (s *RespStream) Leftover() int { return len(s.buf) - s.parsed }

func isChunked(r *http.Response) bool {
	for _, te := range r.TransferEncoding {
		if te == "chunked" {
			return true
		}
	}
	return false
}

func bodyAllowed(method string, status int) bool {
	if method == "HEAD" || status/100 == 1 || status == 204 || status == 304 {
		return false
	}
	return true
}
