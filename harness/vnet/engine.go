package vnet

import (
	"context"
	"io"
	"time"

	"github.com/cloudwego/hertz/pkg/common/config"
	"github.com/cloudwego/hertz/pkg/common/hlog"
	"github.com/cloudwego/hertz/pkg/network"
	"github.com/cloudwego/hertz/pkg/network/standard"
	"github.com/cloudwego/hertz/pkg/route"
)

// Transporter is the harness transport: it never listens; connections are fed to Engine.Serve directly.
// It has no Listener() method, so Engine.IsRunning() reports the engine status alone.
type Transporter struct{ stop chan struct{} }

func (t *Transporter) ListenAndServe(onData network.OnData) error { <-t.stop; return nil }
func (t *Transporter) Close() error                               { return nil }
func (t *Transporter) Shutdown(ctx context.Context) error         { return nil }

// EngineConfig selects the server configuration of a case.
type EngineConfig struct {
	Streaming bool
	Idle      string // "inloop": keep-alive idle wait inside Serve (standard transport); "poller": Serve returns after each request (netpoll)
	MaxBody   int    // 0: default
	Trace     bool
	NoKeep    bool // option DisableKeepalive
	Opts      []config.Option
}

// NewEngine builds a real route.Engine (production Serve path) wired to the harness transport.
func init() {
	hlog.SetOutput(io.Discard)
	hlog.SetLevel(hlog.LevelFatal)
}

func NewEngine(c EngineConfig) *route.Engine {
	opt := config.NewOptions(c.Opts)
	opt.DisablePrintRoute = true
	opt.StreamRequestBody = c.Streaming
	if c.MaxBody > 0 {
		opt.MaxRequestBodySize = c.MaxBody
	}
	opt.DisableKeepalive = c.NoKeep
	if c.Idle == "poller" {
		opt.IdleTimeout = 0
	} else {
		opt.IdleTimeout = time.Minute
	}
	opt.TransporterNewer = func(*config.Options) network.Transporter { return &Transporter{stop: make(chan struct{})} }
	e := route.NewEngine(opt)
	return e
}

// Start initialises the engine and marks it running (what Engine.Run does before listening).
func Start(e *route.Engine) error {
	if err := e.Init(); err != nil {
		return err
	}
	return e.MarkAsRunning()
}

// ServeConn serves one scripted connection through Engine.Serve with the production buffered connection.
// In "poller" mode Serve returns after every request and is called again while unread or undelivered
// bytes remain (what netpoll's OnRequest does); when the peer is at EOF the poller closes the connection.
func ServeConn(e *route.Engine, c *Conn, idle string, readBuf int) (errs []error) {
	if readBuf == 0 {
		readBuf = 4096
	}
	nc := standard.NewConnForVerif(c, readBuf)
	for {
		err := e.Serve(context.Background(), nc)
		errs = append(errs, err)
		if idle != "poller" || c.Closed() || err != nil {
			break
		}
		if nc.Len() == 0 && c.Remaining() == 0 {
			c.PeerClosed()
			break
		}
	}
	if !c.Closed() {
		c.Close()
	}
	return errs
}
