// Package vnet provides a scripted in-memory net.Conn: the peer's bytes are delivered in a chosen
// fragmentation (one fragment per Read at most), with optional gates (bytes withheld until released),
// end-of-input behaviour (EOF or stall), write capture and write faults.  All hooks are called on the
// goroutine that performs the Read/Write/Close, so event order is program order.
package vnet

import (
	"errors"
	"io"
	"net"
	"os"
	"sync"
	"time"
)

type timeoutErr struct{}

func (timeoutErr) Error() string   { return "vnet: i/o timeout" }
func (timeoutErr) Timeout() bool   { return true }
func (timeoutErr) Temporary() bool { return true }
func (timeoutErr) Unwrap() error   { return os.ErrDeadlineExceeded }

// ErrTimeout is returned by a stalled Read when a read deadline is set.
var ErrTimeout net.Error = timeoutErr{}

type addr string

func (a addr) Network() string { return "tcp" }
func (a addr) String() string  { return string(a) }

// Conn is a scripted connection.
type Conn struct {
	mu   sync.Mutex
	cond *sync.Cond

	in      []byte // bytes the peer sends
	cuts    []int  // fragment sizes; when exhausted the rest is one fragment
	ci      int    // index into cuts
	fragRem int    // bytes left in the current fragment
	pos     int    // bytes delivered so far
	End     string // "eof" (default) or "stall": what a Read sees after the last byte
	gates   map[int]bool
	tmoAt   map[int]bool // offsets at which the next Read fails once with a time-out (when a read deadline is set)

	Out            []byte // everything the server wrote
	WriteFailAfter int    // fail writes once this many bytes were written (-1: never)
	closed         bool
	deadline       time.Time
	AfterClose     int // bytes written after Close

	OnRead      func(n int)    // after n bytes were handed to the reader
	OnEOF       func()         // when the reader is given EOF
	OnTimeout   func()         // when a stalled read times out
	OnBlocked   func(pos int)  // when a Read blocks on a gate at offset pos
	OnWrite     func(p []byte) // after bytes were appended to Out
	OnWriteFail func()         // first injected write failure
	wfailed     bool
	OnClose     func() // first Close
	eofSeen     bool
}

// New returns a connection that will deliver in, cut into fragments of the given sizes.
func New(in []byte, cuts []int) *Conn {
	c := &Conn{in: in, cuts: cuts, End: "eof", WriteFailAfter: -1, gates: map[int]bool{}}
	c.cond = sync.NewCond(&c.mu)
	return c
}

// Gate withholds the bytes from offset off on until Release(off).
func (c *Conn) Gate(off int) { c.mu.Lock(); c.gates[off] = true; c.mu.Unlock() }

// TimeoutAt makes the Read that would deliver the byte at offset off fail once with ErrTimeout, provided a read
// deadline is set at that moment (the peer was too slow); the following Read carries on.
func (c *Conn) TimeoutAt(off int) {
	c.mu.Lock()
	if c.tmoAt == nil {
		c.tmoAt = map[int]bool{}
	}
	c.tmoAt[off] = true
	c.mu.Unlock()
}

// Release opens the gate at off.
func (c *Conn) Release(off int) {
	c.mu.Lock()
	delete(c.gates, off)
	c.cond.Broadcast()
	c.mu.Unlock()
}

// ReleaseAll opens every gate.
func (c *Conn) ReleaseAll() {
	c.mu.Lock()
	c.gates = map[int]bool{}
	c.cond.Broadcast()
	c.mu.Unlock()
}

// Append adds more peer bytes (delivered as one further fragment unless cuts remain).
func (c *Conn) Append(p []byte) {
	c.mu.Lock()
	c.in = append(c.in, p...)
	c.cond.Broadcast()
	c.mu.Unlock()
}

// PeerClosed tells the connection's observer that the peer's FIN was seen by the poller (used when the
// server side is not blocked in a Read, as with netpoll).
func (c *Conn) PeerClosed() {
	c.mu.Lock()
	first := !c.eofSeen && c.pos == len(c.in)
	if first {
		c.eofSeen = true
	}
	stall := c.End == "stall"
	c.mu.Unlock()
	if !first {
		return
	}
	if stall { // the peer stays silent: the poller's idle time-out ends the connection
		if c.OnTimeout != nil {
			c.OnTimeout()
		}
	} else if c.OnEOF != nil {
		c.OnEOF()
	}
}

// Delivered returns the number of bytes handed to the reader so far.
func (c *Conn) Delivered() int { c.mu.Lock(); defer c.mu.Unlock(); return c.pos }

// Written returns the number of bytes the server has written so far.
func (c *Conn) Written() int { c.mu.Lock(); defer c.mu.Unlock(); return len(c.Out) }

// Remaining returns the number of scripted bytes not yet delivered.
func (c *Conn) Remaining() int { c.mu.Lock(); defer c.mu.Unlock(); return len(c.in) - c.pos }

// Closed reports whether Close was called.
func (c *Conn) Closed() bool { c.mu.Lock(); defer c.mu.Unlock(); return c.closed }

func (c *Conn) Read(p []byte) (int, error) {
	c.mu.Lock()
	for {
		if c.closed {
			c.mu.Unlock()
			return 0, net.ErrClosed
		}
		if len(p) == 0 {
			c.mu.Unlock()
			return 0, nil
		}
		if c.pos < len(c.in) {
			if c.tmoAt[c.pos] && !c.deadline.IsZero() {
				delete(c.tmoAt, c.pos)
				c.mu.Unlock()
				if c.OnTimeout != nil {
					c.OnTimeout()
				}
				return 0, ErrTimeout
			}
			if c.gates[c.pos] {
				if c.OnBlocked != nil {
					// the callback may release the gate (it runs without the lock)
					pos := c.pos
					c.mu.Unlock()
					c.OnBlocked(pos)
					c.mu.Lock()
				}
				for c.gates[c.pos] && !c.closed {
					c.cond.Wait()
				}
				continue
			}
			break
		}
		// no more scripted bytes
		if c.End == "eof" {
			first := !c.eofSeen
			c.eofSeen = true
			c.mu.Unlock()
			if first && c.OnEOF != nil {
				c.OnEOF()
			}
			return 0, io.EOF
		}
		// stall: a deadline turns into a timeout at once (no real waiting), otherwise wait for Close/Append
		if !c.deadline.IsZero() {
			c.mu.Unlock()
			if c.OnTimeout != nil {
				c.OnTimeout()
			}
			return 0, ErrTimeout
		}
		c.cond.Wait()
	}
	if c.fragRem == 0 {
		if c.ci < len(c.cuts) {
			c.fragRem = c.cuts[c.ci]
			c.ci++
		} else {
			c.fragRem = len(c.in) - c.pos
		}
		if c.fragRem <= 0 {
			c.fragRem = len(c.in) - c.pos
		}
	}
	n := len(p)
	if n > c.fragRem {
		n = c.fragRem
	}
	if n > len(c.in)-c.pos {
		n = len(c.in) - c.pos
	}
	// never cross a gate
	for g := range c.gates {
		if g > c.pos && g < c.pos+n {
			n = g - c.pos
		}
	}
	for g := range c.tmoAt {
		if g > c.pos && g < c.pos+n {
			n = g - c.pos
		}
	}
	copy(p, c.in[c.pos:c.pos+n])
	c.pos += n
	c.fragRem -= n
	c.mu.Unlock()
	if c.OnRead != nil {
		c.OnRead(n)
	}
	return n, nil
}

func (c *Conn) Write(p []byte) (int, error) {
	c.mu.Lock()
	if c.closed {
		c.AfterClose += len(p)
		c.mu.Unlock()
		return 0, net.ErrClosed
	}
	if c.WriteFailAfter >= 0 && len(c.Out)+len(p) > c.WriteFailAfter {
		first := !c.wfailed
		c.wfailed = true
		c.mu.Unlock()
		if first && c.OnWriteFail != nil {
			c.OnWriteFail()
		}
		return 0, errors.New("vnet: write failed (injected)")
	}
	c.Out = append(c.Out, p...)
	c.mu.Unlock()
	if c.OnWrite != nil {
		c.OnWrite(p)
	}
	return len(p), nil
}

func (c *Conn) Close() error {
	c.mu.Lock()
	if c.closed {
		c.mu.Unlock()
		return nil
	}
	c.closed = true
	c.cond.Broadcast()
	c.mu.Unlock()
	if c.OnClose != nil {
		c.OnClose()
	}
	return nil
}

func (c *Conn) LocalAddr() net.Addr  { return addr("127.0.0.1:8888") }
func (c *Conn) RemoteAddr() net.Addr { return addr("127.0.0.1:50000") }

func (c *Conn) SetDeadline(t time.Time) error {
	c.mu.Lock()
	c.deadline = t
	c.cond.Broadcast()
	c.mu.Unlock()
	return nil
}
func (c *Conn) SetReadDeadline(t time.Time) error  { return c.SetDeadline(t) }
func (c *Conn) SetWriteDeadline(t time.Time) error { return nil }
