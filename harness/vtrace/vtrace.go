// Package vtrace records ndjson traces for TLC trace validation.
package vtrace

import (
	"bufio"
	"encoding/json"
	"fmt"
	"os"
	"strconv"
	"sync"
)

// capBytes bounds one trace file (VERIF_TRACE_CAP_MB, default 768): a driver that runs away (a loop in the code
// under test that keeps producing events) must not fill the disk; it stops with exit status 3, which the check
// reports as an infrastructure error, never as a verdict.
var capBytes = func() int64 {
	if v, err := strconv.Atoi(os.Getenv("VERIF_TRACE_CAP_MB")); err == nil && v > 0 {
		return int64(v) << 20
	}
	return 768 << 20
}()

// Rec is one event; keys become fields of the TLA+ record.
type Rec map[string]interface{}

type Writer struct {
	mu sync.Mutex
	f  *os.File
	w  *bufio.Writer
	n  int
	sz int64
}

func Create(path string) (*Writer, error) {
	f, err := os.Create(path)
	if err != nil {
		return nil, err
	}
	return &Writer{f: f, w: bufio.NewWriterSize(f, 1<<20)}, nil
}

// Discard returns a writer that drops every event (used for reference runs).
func Discard() *Writer { return &Writer{} }

// Emit writes one event line. "ev" is the event name.
func (t *Writer) Emit(ev string, r Rec) {
	if t.w == nil {
		return
	}
	if r == nil {
		r = Rec{}
	}
	r["ev"] = ev
	b, err := json.Marshal(r)
	if err != nil {
		panic(err)
	}
	t.mu.Lock()
	t.w.Write(b)
	t.w.WriteByte('\n')
	t.n++
	t.sz += int64(len(b)) + 1
	if t.sz > capBytes {
		t.w.Flush()
		fmt.Fprintf(os.Stderr, "vtrace: trace file %s exceeds %d MiB after %d events: giving up\n", t.f.Name(), capBytes>>20, t.n)
		os.Exit(3)
	}
	t.mu.Unlock()
}

func (t *Writer) Lines() int { t.mu.Lock(); defer t.mu.Unlock(); return t.n }

func (t *Writer) Close() error {
	t.mu.Lock()
	defer t.mu.Unlock()
	if t.w == nil {
		return nil
	}
	if err := t.w.Flush(); err != nil {
		return err
	}
	return t.f.Close()
}
