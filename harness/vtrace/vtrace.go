// Package vtrace records ndjson traces for TLC trace validation.
package vtrace

import (
	"bufio"
	"encoding/json"
	"os"
	"sync"
)

// Rec is one event; keys become fields of the TLA+ record.
type Rec map[string]interface{}

type Writer struct {
	mu sync.Mutex
	f  *os.File
	w  *bufio.Writer
	n  int
}

func Create(path string) (*Writer, error) {
	f, err := os.Create(path)
	if err != nil {
		return nil, err
	}
	return &Writer{f: f, w: bufio.NewWriterSize(f, 1<<20)}, nil
}

// Discard returns a writer that drops every event (used for reference runs).
func Discard() *Writer { return &Writer{} }

// Emit writes one event line. "ev" is the event name.
func (t *Writer) Emit(ev string, r Rec) {
	if t.w == nil {
		return
	}
	if r == nil {
		r = Rec{}
	}
	r["ev"] = ev
	b, err := json.Marshal(r)
	if err != nil {
		panic(err)
	}
	t.mu.Lock()
	t.w.Write(b)
	t.w.WriteByte('\n')
	t.n++
	t.mu.Unlock()
}

func (t *Writer) Lines() int { t.mu.Lock(); defer t.mu.Unlock(); return t.n }

func (t *Writer) Close() error {
	t.mu.Lock()
	defer t.mu.Unlock()
	if t.w == nil {
		return nil
	}
	if err := t.w.Flush(); err != nil {
		return err
	}
	return t.f.Close()
}
