// Driver for C16 (translation validation of the hz router generator).
//
//	c16 -cases cases.ndjson -out DIR -scratch DIR -repo /repo [-chunks N] [-batch B] [-j W] [-keep]
//
// For every case (a declared method set + generator options, written by TLC from spec/HzRouterGenGen.tla):
//  1. the real generator.HttpPackageGenerator is run in a FRESH child process (c16 -gen, see gen.go);
//  2. the generated router/middleware/register files are written as packages of ONE scratch Go module per batch
//     (outside /repo and /verif; go.mod replaces github.com/cloudwego/hertz => the repository under test); the
//     bodies of the generated ...Mw() functions are replaced (go/parser) by a recording middleware that logs the
//     function's own name; stub handler packages record "<pkg>.<Name>";
//  3. ONE go build + ONE go vet per batch; packages that do not compile are attributed to their case (vet
//     diagnostics are recorded, the compiler decides);
//  4. the batch binary registers every generated router on a server.Hertz, dumps Engine.Routes() and serves one
//     request per route in-process (and does the same on a reference engine that registers the declared set directly);
//  5. everything observed is written as an ndjson trace: Case, Direct, Generated, Compiled, Registered, Route*, End.
//
// The driver never decides pass/fail and contains no expected values.
package main

import (
	"bufio"
	"bytes"
	_ "embed"
	"encoding/json"
	"flag"
	"fmt"
	"go/ast"
	"go/parser"
	"go/printer"
	"go/token"
	"os"
	"os/exec"
	"path/filepath"
	"regexp"
	"sort"
	"strconv"
	"strings"
	"sync"
	"time"
)

//go:embed batchsrc/rec.go.txt
var recSrc string

//go:embed batchsrc/runner.go.txt
var runnerSrc string

const modName = "c16batch"

type Rec map[string]interface{}

func goEnv() []string {
	return append(os.Environ(), "GOFLAGS=-mod=mod", "GOPROXY=off", "GOSUMDB=off", "GOTOOLCHAIN=local")
}

func caseDir(id int) string { return fmt.Sprintf("c%06d", id) }

// ---------------------------------------------------------------- generation (child process per case)

type caseState struct {
	c        *Case
	raw      json.RawMessage
	gen      GenResult
	files    []string // router files written (relative to the module)
	compiled bool
	compMsg  string
	vetNotes string
	res      *batchResult
}

type batchResult struct {
	ID         int    `json:"id"`
	Direct     string `json:"direct"`
	DirectMsg  string `json:"directMsg"`
	Compiled   bool   `json:"compiled"`
	Registered string `json:"registered"`
	RegMsg     string `json:"regMsg"`
	Routes     []Rec  `json:"routes"`
}

func runChild(self string, cs *caseState, work string) {
	cwd, err := os.MkdirTemp(work, "gen")
	if err != nil {
		cs.gen = GenResult{Outcome: "infra", Msg: err.Error()}
		return
	}
	defer os.RemoveAll(cwd)
	resFile := filepath.Join(cwd, "result.json")
	genCwd := filepath.Join(cwd, "cwd") // empty directory: the generator checks for existing files relative to cwd
	os.Mkdir(genCwd, 0o755)
	cmd := exec.Command(self, "-gen", "-proj", modName, "-routerdir", caseDir(cs.c.ID)+"/router", "-o", resFile)
	cmd.Dir = genCwd
	cmd.Stdin = bytes.NewReader(cs.raw)
	var stderr bytes.Buffer
	cmd.Stdout = &stderr
	cmd.Stderr = &stderr
	if err := cmd.Run(); err != nil {
		cs.gen = GenResult{Outcome: "infra", Msg: fmt.Sprintf("child: %v: %s", err, tail(stderr.String(), 400))}
		return
	}
	b, err := os.ReadFile(resFile)
	if err != nil {
		cs.gen = GenResult{Outcome: "infra", Msg: err.Error()}
		return
	}
	if err := json.Unmarshal(b, &cs.gen); err != nil {
		cs.gen = GenResult{Outcome: "infra", Msg: err.Error()}
	}
}

func tail(s string, n int) string {
	if len(s) > n {
		return s[len(s)-n:]
	}
	return s
}

// rewriteMw replaces the body of every top-level niladic function with exactly one result in the generated
// middleware file by `return rec.Mw("<function name>")`.  Names are taken from the generated source, whatever they are.
// A file that does not parse is returned unchanged (the compile step reports it).
func rewriteMw(src string) (string, int) {
	fset := token.NewFileSet()
	f, err := parser.ParseFile(fset, "middleware.go", src, parser.ParseComments)
	if err != nil {
		return src, 0
	}
	n := 0
	for _, d := range f.Decls {
		fd, ok := d.(*ast.FuncDecl)
		if !ok || fd.Recv != nil || fd.Body == nil || fd.Type.Params.NumFields() != 0 ||
			fd.Type.Results == nil || fd.Type.Results.NumFields() != 1 {
			continue
		}
		fd.Body = &ast.BlockStmt{List: []ast.Stmt{&ast.ReturnStmt{Results: []ast.Expr{
			&ast.CallExpr{
				Fun:  &ast.SelectorExpr{X: ast.NewIdent("verifrec"), Sel: ast.NewIdent("Mw")},
				Args: []ast.Expr{&ast.BasicLit{Kind: token.STRING, Value: strconv.Quote(fd.Name.Name)}},
			}}}}}
		n++
	}
	if n == 0 {
		return src, 0
	}
	f.Comments = nil
	var buf bytes.Buffer
	if err := printer.Fprint(&buf, fset, f); err != nil {
		return src, 0
	}
	out := buf.String()
	// a second import declaration right after the package clause
	re := regexp.MustCompile(`(?m)^package\s+\S+\s*$`)
	loc := re.FindStringIndex(out)
	if loc == nil {
		return src, 0
	}
	out = out[:loc[1]] + "\n\nimport verifrec \"" + modName + "/rec\"\n" + out[loc[1]:]
	return out, n
}

// ---------------------------------------------------------------- scratch module

func writeFile(path, content string) error {
	if err := os.MkdirAll(filepath.Dir(path), 0o755); err != nil {
		return err
	}
	return os.WriteFile(path, []byte(content), 0o644)
}

// handler package (import path below biz/handler) of a declared method, as laid out by hz:
// handler-by-service: biz/handler/<idl package>; handler-by-method: biz/handler/<api.handler_path>.
// This only decides WHERE stubs are written (every stub package defines every name of the batch); what a route
// must be bound to is decided by the specification.
func stubPkgs(cases []*caseState) (pkgs map[string]bool, names map[string]bool) {
	pkgs, names = map[string]bool{idlPackage: true, "": true}, map[string]bool{}
	for _, cs := range cases {
		for _, m := range cs.c.Methods {
			pkgs[m.Dir] = true
			names[m.Name] = true
		}
	}
	return
}

func writeStubs(mod string, cases []*caseState) error {
	pkgs, names := stubPkgs(cases)
	var ns []string
	for n := range names {
		ns = append(ns, n)
	}
	sort.Strings(ns)
	for p := range pkgs {
		pkgName := "handler"
		if p != "" {
			pkgName = filepath.Base(p)
		}
		pkgName = regexp.MustCompile(`[^A-Za-z0-9_]`).ReplaceAllString(pkgName, "_")
		var b strings.Builder
		fmt.Fprintf(&b, "// stub handlers (harness): every handler records \"<package below biz/handler>.<Name>\"\npackage %s\n\nimport (\n\t\"context\"\n\n\t\"%s/rec\"\n\n\t\"github.com/cloudwego/hertz/pkg/app\"\n)\n", pkgName, modName)
		for _, n := range ns {
			fmt.Fprintf(&b, "\nfunc %s(ctx context.Context, c *app.RequestContext) { rec.Handler(c, %q) }\n", n, p+"."+n)
		}
		if err := writeFile(filepath.Join(mod, handlerDir, filepath.FromSlash(p), "stub.go"), b.String()); err != nil {
			return err
		}
	}
	return nil
}

var caseRe = regexp.MustCompile(`\bc(\d{6})/router`)

// attribute reads go build / go vet output and returns the message lines per case id: every line that names a
// file below a case directory (the "# package" header lines are skipped).
func attribute(out string) map[int][]string {
	res := map[int][]string{}
	for _, line := range strings.Split(out, "\n") {
		m := caseRe.FindStringSubmatch(line)
		if m == nil || strings.HasPrefix(line, "#") {
			continue
		}
		id, _ := strconv.Atoi(m[1])
		res[id] = append(res[id], strings.TrimSpace(line))
	}
	return res
}

func runGo(mod string, args ...string) (string, error) {
	cmd := exec.Command("go", args...)
	cmd.Dir = mod
	cmd.Env = goEnv()
	var buf bytes.Buffer
	cmd.Stdout = &buf
	cmd.Stderr = &buf
	err := cmd.Run()
	return buf.String(), err
}

func logf(format string, a ...interface{}) {
	fmt.Fprintf(os.Stderr, "[c16] "+format+"\n", a...)
}

func runBatch(self, scratch, repo string, bi int, cases []*caseState, workers int, keep bool, skipVet bool) error {
	t0 := time.Now()
	root := filepath.Join(scratch, fmt.Sprintf("batch%03d", bi))
	mod := filepath.Join(root, modName)
	if err := os.MkdirAll(mod, 0o755); err != nil {
		return err
	}
	if !keep {
		defer os.RemoveAll(root)
	}
	// 1. generate (fresh process per case)
	var wg sync.WaitGroup
	sem := make(chan struct{}, workers)
	for _, cs := range cases {
		wg.Add(1)
		sem <- struct{}{}
		go func(cs *caseState) {
			defer wg.Done()
			runChild(self, cs, root)
			<-sem
		}(cs)
	}
	wg.Wait()
	tGen := time.Since(t0)
	// 2. scratch module
	sum, err := os.ReadFile(filepath.Join(repo, "go.sum"))
	if err != nil {
		return err
	}
	gomod := "module " + modName + "\n\ngo 1.19\n\nrequire github.com/cloudwego/hertz v0.0.0\n\nreplace github.com/cloudwego/hertz => " + repo + "\n"
	if err := writeFile(filepath.Join(mod, "go.mod"), gomod); err != nil {
		return err
	}
	if err := writeFile(filepath.Join(mod, "go.sum"), string(sum)); err != nil {
		return err
	}
	if err := writeFile(filepath.Join(mod, "rec", "rec.go"), recSrc); err != nil {
		return err
	}
	if err := writeStubs(mod, cases); err != nil {
		return err
	}
	for _, cs := range cases {
		if cs.gen.Outcome == "infra" {
			return fmt.Errorf("case %d: generator child failed: %s", cs.c.ID, cs.gen.Msg)
		}
		if cs.gen.Outcome != "ok" {
			continue
		}
		prefix := caseDir(cs.c.ID) + "/router/"
		for _, f := range cs.gen.Files {
			p := filepath.ToSlash(f.Path)
			if !strings.HasPrefix(p, prefix) {
				continue // handler files: replaced by the stubs
			}
			content := f.Content
			if filepath.Base(p) == "middleware.go" {
				content, _ = rewriteMw(content)
			}
			if err := writeFile(filepath.Join(mod, filepath.FromSlash(p)), content); err != nil {
				return err
			}
			cs.files = append(cs.files, p)
		}
		cs.compiled = len(cs.files) > 0
		if !cs.compiled {
			cs.compMsg = "no router files generated"
		}
	}
	// 3. ONE go build of all generated packages: a package that does not compile is attributed to its case
	//    (go build reports every failing package of the pattern, not only the first)
	note := func(bad map[int][]string, failed bool) {
		for _, cs := range cases {
			if msgs, ok := bad[cs.c.ID]; ok {
				if failed {
					cs.compiled = false
					cs.compMsg = strings.Join(msgs, "\n")
				} else {
					cs.vetNotes = strings.Join(msgs, "\n")
				}
			}
		}
	}
	t1 := time.Now()
	out, err := runGo(mod, "build", "./...")
	tBuild := time.Since(t1)
	if err != nil {
		bad := attribute(out)
		if len(bad) == 0 {
			return fmt.Errorf("go build failed outside the generated packages:\n%s", tail(out, 3000))
		}
		note(bad, true)
	}
	// 4. ONE go vet for the batch.  Its diagnostics are recorded with the case (field "vet" of Compiled) but only the
	//    compiler decides "valid Go": vet prints analyzer findings in the same format as type errors.
	tVet := time.Duration(0)
	if !skipVet {
		t1 = time.Now()
		out, err = runGo(mod, "vet", "./...")
		tVet = time.Since(t1)
		if err != nil {
			note(attribute(out), false)
		}
	}
	// 5. the runner with every case that compiled (retry if the final build finds more)
	for attempt := 0; ; attempt++ {
		var tb strings.Builder
		tb.WriteString("package main\n\nimport (\n\t\"github.com/cloudwego/hertz/pkg/app/server\"\n")
		for _, cs := range cases {
			if cs.compiled {
				fmt.Fprintf(&tb, "\tr%06d \"%s/%s/router\"\n", cs.c.ID, modName, caseDir(cs.c.ID))
			}
		}
		tb.WriteString(")\n\nvar registry = map[int]func(*server.Hertz){\n")
		for _, cs := range cases {
			if cs.compiled {
				fmt.Fprintf(&tb, "\t%d: r%06d.GeneratedRegister,\n", cs.c.ID, cs.c.ID)
			}
		}
		tb.WriteString("}\n")
		if err := writeFile(filepath.Join(mod, "table.go"), tb.String()); err != nil {
			return err
		}
		if err := writeFile(filepath.Join(mod, "main.go"), runnerSrc); err != nil {
			return err
		}
		t1 = time.Now()
		out, err = runGo(mod, "build", "-o", "batch.bin", ".")
		tBuild += time.Since(t1)
		if err == nil {
			break
		}
		bad := attribute(out)
		if len(bad) == 0 || attempt >= 2 {
			return fmt.Errorf("go build of the batch runner failed:\n%s", tail(out, 3000))
		}
		note(bad, true)
	}
	// 6. run
	cf := filepath.Join(root, "cases.ndjson")
	var cb bytes.Buffer
	for _, cs := range cases {
		cb.Write(cs.raw)
		cb.WriteByte('\n')
	}
	if err := os.WriteFile(cf, cb.Bytes(), 0o644); err != nil {
		return err
	}
	rf := filepath.Join(root, "results.ndjson")
	t1 = time.Now()
	cmd := exec.Command(filepath.Join(mod, "batch.bin"), cf, rf)
	cmd.Dir = root
	var rb bytes.Buffer
	cmd.Stdout = &rb
	cmd.Stderr = &rb
	if err := cmd.Run(); err != nil {
		return fmt.Errorf("batch binary failed: %v\n%s", err, tail(rb.String(), 3000))
	}
	tRun := time.Since(t1)
	f, err := os.Open(rf)
	if err != nil {
		return err
	}
	defer f.Close()
	byID := map[int]*caseState{}
	for _, cs := range cases {
		byID[cs.c.ID] = cs
	}
	sc := bufio.NewScanner(f)
	sc.Buffer(make([]byte, 1<<20), 1<<26)
	for sc.Scan() {
		r := &batchResult{}
		if err := json.Unmarshal(sc.Bytes(), r); err != nil {
			return err
		}
		if cs := byID[r.ID]; cs != nil {
			cs.res = r
		}
	}
	for _, cs := range cases {
		if cs.res == nil {
			return fmt.Errorf("no result for case %d", cs.c.ID)
		}
	}
	logf("batch %d: %d cases; generate %.1fs, vet %.1fs, build %.1fs, run %.1fs", bi, len(cases),
		tGen.Seconds(), tVet.Seconds(), tBuild.Seconds(), tRun.Seconds())
	return nil
}

// ---------------------------------------------------------------- trace

func emit(w *bufio.Writer, ev string, r Rec) {
	if r == nil {
		r = Rec{}
	}
	r["ev"] = ev
	b, err := json.Marshal(r)
	if err != nil {
		panic(err)
	}
	w.Write(b)
	w.WriteByte('\n')
}

func short(s string) string {
	s = strings.ReplaceAll(s, "\t", " ")
	if len(s) > 600 {
		s = s[:600] + "..."
	}
	return s
}

func writeCase(w *bufio.Writer, cs *caseState) {
	var c Rec
	json.Unmarshal(cs.raw, &c)
	emit(w, "Case", c)
	emit(w, "Direct", Rec{"outcome": cs.res.Direct, "msg": short(cs.res.DirectMsg)})
	emit(w, "Generated", Rec{"outcome": cs.gen.Outcome, "msg": short(cs.gen.Msg), "nfiles": len(cs.files)})
	if cs.gen.Outcome == "ok" {
		if cs.compiled {
			emit(w, "Compiled", Rec{"outcome": "ok", "msg": "", "vet": short(cs.vetNotes)})
			emit(w, "Registered", Rec{"outcome": cs.res.Registered, "msg": short(cs.res.RegMsg)})
			if cs.res.Registered == "ok" {
				for _, r := range cs.res.Routes {
					emit(w, "Route", r)
				}
			}
		} else {
			emit(w, "Compiled", Rec{"outcome": "errors", "msg": short(cs.compMsg), "vet": short(cs.vetNotes)})
		}
	}
	emit(w, "End", nil)
}

func main() {
	gen := flag.Bool("gen", false, "child mode: generate one case read from stdin")
	proj := flag.String("proj", modName, "child mode: go package path of the generated project")
	rdir := flag.String("routerdir", "biz/router", "child mode: router_dir")
	res := flag.String("o", "", "child mode: result file")
	casesF := flag.String("cases", "", "ndjson case file written by TLC")
	out := flag.String("out", "", "output directory for trace chunks")
	scratch := flag.String("scratch", "", "scratch directory (outside /repo and /verif) for the generated Go modules")
	repo := flag.String("repo", "/repo", "repository under test")
	chunks := flag.Int("chunks", 4, "number of trace files")
	batch := flag.Int("batch", 40, "cases per scratch module / go build")
	workers := flag.Int("j", 4, "parallel generator child processes")
	keep := flag.Bool("keep", false, "keep the scratch modules")
	noVet := flag.Bool("novet", false, "skip go vet (go build still type-checks)")
	flag.Parse()
	if *gen {
		genMain(*proj, *rdir, *res)
		return
	}
	if *casesF == "" || *out == "" || *scratch == "" {
		fmt.Fprintln(os.Stderr, "need -cases, -out and -scratch")
		os.Exit(2)
	}
	abs, _ := filepath.Abs(*scratch)
	for _, forbidden := range []string{"/repo", "/verif"} {
		if abs == forbidden || strings.HasPrefix(abs, forbidden+"/") {
			fmt.Fprintln(os.Stderr, "scratch directory must be outside /repo and /verif")
			os.Exit(2)
		}
	}
	self, err := os.Executable()
	if err != nil {
		fmt.Fprintln(os.Stderr, err)
		os.Exit(2)
	}
	f, err := os.Open(*casesF)
	if err != nil {
		fmt.Fprintln(os.Stderr, err)
		os.Exit(2)
	}
	var all []*caseState
	sc := bufio.NewScanner(f)
	sc.Buffer(make([]byte, 1<<20), 1<<26)
	ids := map[int]bool{}
	for sc.Scan() {
		if len(bytes.TrimSpace(sc.Bytes())) == 0 {
			continue
		}
		c := &Case{}
		raw := append([]byte(nil), sc.Bytes()...)
		if err := json.Unmarshal(raw, c); err != nil {
			fmt.Fprintln(os.Stderr, "bad case line:", err)
			os.Exit(2)
		}
		if ids[c.ID] || c.ID < 0 || c.ID > 999999 {
			fmt.Fprintln(os.Stderr, "case ids must be unique and in 0..999999:", c.ID)
			os.Exit(2)
		}
		ids[c.ID] = true
		all = append(all, &caseState{c: c, raw: raw})
	}
	nb := 0
	for lo := 0; lo < len(all); lo += *batch {
		hi := lo + *batch
		if hi > len(all) {
			hi = len(all)
		}
		if err := runBatch(self, abs, *repo, nb, all[lo:hi], *workers, *keep, *noVet); err != nil {
			fmt.Fprintln(os.Stderr, "batch failed:", err)
			os.Exit(2)
		}
		nb++
	}
	n := *chunks
	if n > len(all) {
		n = len(all)
	}
	if n < 1 {
		n = 1
	}
	for k := 0; k < n; k++ {
		fp, err := os.Create(filepath.Join(*out, fmt.Sprintf("trace_%03d.ndjson", k)))
		if err != nil {
			fmt.Fprintln(os.Stderr, err)
			os.Exit(2)
		}
		w := bufio.NewWriterSize(fp, 1<<20)
		lo, hi := len(all)*k/n, len(all)*(k+1)/n
		for _, cs := range all[lo:hi] {
			writeCase(w, cs)
		}
		w.Flush()
		fp.Close()
	}
	fmt.Printf("{\"cases\":%d,\"chunks\":%d,\"batches\":%d}\n", len(all), n, nb)
}
