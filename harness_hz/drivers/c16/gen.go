package main

// Child mode (-gen): ONE case per process, because the hz generator keeps process-global name tables
// (util.uniqueMiddlewareName, util.uniqueHandlerPackageName, generator.handlerPkgMap).
// Reads a case (JSON) from stdin, drives the real generator.HttpPackageGenerator exactly as the thrift/protobuf
// plugins do (cmd/hz/thrift/plugin.go), and prints the produced files as JSON.  No expected values here.

import (
	"encoding/json"
	"fmt"
	"io"
	"os"
	"strings"

	"github.com/cloudwego/hertz/cmd/hz/generator"
	"github.com/cloudwego/hertz/cmd/hz/meta"
)

// Method is one declared HTTP method: api.<verb>="<path>" on IDL function <name>; dir = api.handler_path
// (only meaningful with handler-by-method).
type Method struct {
	Verb string   `json:"verb"`
	Path []string `json:"path"` // segments; "" as last segment = root / trailing slash
	Name string   `json:"name"`
	Dir  string   `json:"dir"`
}

type Opts struct {
	Sort     bool `json:"sort"`
	Snake    bool `json:"snake"`
	ByMethod bool `json:"byMethod"`
}

type Case struct {
	ID      int                    `json:"id"`
	Opts    Opts                   `json:"opts"`
	Methods []Method               `json:"methods"`
	Feat    map[string]interface{} `json:"feat,omitempty"`
}

type GenFile struct {
	Path    string `json:"path"`
	Content string `json:"content"`
}

type GenResult struct {
	Outcome string    `json:"outcome"` // ok | err | panic
	Msg     string    `json:"msg"`
	Files   []GenFile `json:"files"`
}

func pathStr(segs []string) string { return "/" + strings.Join(segs, "/") }

// layout of one generated project inside the scratch module (module path = projPackage)
// (router_dir is per case: "<case dir>/router"; the handler packages are shared stubs)
const (
	handlerDir = "biz/handler"
	modelDir   = "biz/model"
	idlPackage = "api" // go namespace of the IDL
	idlName    = "api.thrift"
	svcName    = "ApiService"
)

func generate(c *Case, projPackage, routerDir string) (res GenResult) {
	defer func() {
		if r := recover(); r != nil {
			res = GenResult{Outcome: "panic", Msg: fmt.Sprint(r)}
		}
	}()
	sg := generator.HttpPackageGenerator{
		CmdType:              meta.CmdNew,
		ProjPackage:          projPackage,
		HandlerDir:           handlerDir,
		RouterDir:            routerDir,
		ModelDir:             modelDir,
		HandlerByMethod:      c.Opts.ByMethod,
		SnakeStyleMiddleware: c.Opts.Snake,
		SortRouter:           c.Opts.Sort,
	}
	generator.SetDefaultTemplateConfig()
	if err := sg.Init(); err != nil {
		return GenResult{Outcome: "err", Msg: "init: " + err.Error()}
	}
	// The IDL plugins emit one HttpMethod per (function, annotation); a function carrying several api.<verb>
	// annotations yields several HttpMethods with the same Name, only the first with GenHandler=true.
	seen := map[string]bool{}
	svc := &generator.Service{Name: svcName}
	for _, m := range c.Methods {
		hm := &generator.HttpMethod{
			Name:           m.Name,
			HTTPMethod:     m.Verb,
			Path:           pathStr(m.Path),
			ReturnTypeName: "struct{}",
			OutputDir:      m.Dir,
			GenHandler:     !seen[m.Dir+"/"+m.Name],
		}
		seen[m.Dir+"/"+m.Name] = true
		svc.Methods = append(svc.Methods, hm)
	}
	pkg := &generator.HttpPackage{IdlName: idlName, Package: idlPackage, Services: []*generator.Service{svc}}
	if err := sg.Generate(pkg); err != nil {
		return GenResult{Outcome: "err", Msg: err.Error()}
	}
	files, err := sg.GetFormatAndExcludedFiles()
	if err != nil {
		return GenResult{Outcome: "err", Msg: "format: " + err.Error()}
	}
	res.Outcome = "ok"
	for _, f := range files {
		res.Files = append(res.Files, GenFile{Path: f.Path, Content: f.Content})
	}
	return res
}

func genMain(projPackage, routerDir, outPath string) {
	in, err := io.ReadAll(os.Stdin)
	if err != nil {
		fmt.Fprintln(os.Stderr, err)
		os.Exit(2)
	}
	c := &Case{}
	if err := json.Unmarshal(in, c); err != nil {
		fmt.Fprintln(os.Stderr, "bad case:", err)
		os.Exit(2)
	}
	// the generator logs through its own logger (stderr); the result goes to -o
	res := generate(c, projPackage, routerDir)
	b, _ := json.Marshal(res)
	if outPath == "" {
		os.Stdout.Write(append(b, '\n'))
		return
	}
	if err := os.WriteFile(outPath, b, 0o644); err != nil {
		fmt.Fprintln(os.Stderr, err)
		os.Exit(2)
	}
}
