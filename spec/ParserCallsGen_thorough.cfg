CONSTANTS
  MaxLenOf <- ThoroughLen
  RandMax = 16
INIT GenInit
NEXT GenNext
