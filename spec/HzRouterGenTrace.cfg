CONSTANTS
  McInner = {"a"}
  McLast = {"a"}
  McVerbs = {"GET"}
  McMaxDepth = 1
  McMaxMethods = 1
INIT TraceInit
NEXT TraceNext
INVARIANTS Report
