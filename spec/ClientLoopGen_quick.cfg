CONSTANTS AsWritten = FALSE
  MCMaxScript = 0
  MCEntries = {}
  MCApis = {}
  MCRetryIfs = {}
  MCWarms = {}
  MCMethods = {}
  GMethods = {"GET", "PUT", "POST"}
  GRetryIfs = {"default", "always", "never", "err", "s5xx", "cancel"}
  GWarms = {"none", "live", "stale"}
  GFailLen = 2
  GRedirCodes = {301, 302, 303, 307, 308}
  GBases = {1, 3}
  GChainLen = 2
  GDelayKs = {0, 1, 3, 10}
  GDelayDs = {0, 3, 100}
  GFull = FALSE
INIT GenInit
NEXT GenNext
