CONSTANTS Mode = "ref"
Profile = "single-q"
SPECIFICATION Spec
INVARIANTS TypeOK Safe
