\* corrected; one key, 2 callers x 2 calls (removal, re-creation, cleaner restart), MaxConns 1, 2 ticks, 1 retry
CONSTANTS
  Keys = {"a"}
  TLSKeys = {}
  Callers = {1, 2}
  MaxCalls = 2
  NH = 4
  MaxConns = 1
  MaxTicks = 2
  MaxCI = 1
  MaxReap = 1
  Retries = 1
  HoldCounted = TRUE
  CIAll = TRUE
SPECIFICATION Spec
VIEW View
INVARIANTS TypeOK IdsSuffice MapSound OnePerKey OrphanFree BoundedPerKey CleanerCount LockExcludes
PROPERTIES RemoveOnlyIdle CloseIdleAll CloseIdleKeepsBusy
