CONSTANTS
  Sizes = {0}
  EofAts = {0}
  MaxSteps = 0
  MaxK = 3
  MaxDeliver = 3
  MaxPeeks = 0
  Parts = {}
INIT TraceInit
NEXT TraceNext
INVARIANTS Report TypeOK NoLossNoDup ResultIsNext LenExact PeekStable CopiesValid FlushComplete ShortOnlyAtError SinkPrefix CallerIntact
