--------------------------- MODULE LinkBufferTrace ---------------------------
(***************************************************************************)
(* C13 stage 2: is LinkBuffer.tla a faithful transcription?  The driver    *)
(* (-geo) logs the node geometry of the real input link buffer after every *)
(* operation (Conn.VerifInputNodes: cap, off, malloc, readOnly, which node *)
(* is read / write).  This module replays the recorded operations on the   *)
(* LinkBuffer model (real constants: block1k = 1024, block4k = 4096,       *)
(* mallocMax = 512 KiB) and requires the model's geometry, results and     *)
(* Len() to equal the recorded ones after every operation.                 *)
(*                                                                         *)
(* NOT part of the verdict on the property: allocation strategy is         *)
(* deliberately unconstrained by C13, so a harmless refactoring may change *)
(* the geometry.  It tells whether what TLC proved about LinkBuffer        *)
(* (refinement of ByteQueue, no slice into recycled memory) is a statement *)
(* about the code as it is.                                                *)
(*                                                                         *)
(* Lines per operation: [SrcRead] [Sink] Op Geo.  The model's internal     *)
(* steps (Call, LoopExit) are taken silently; whether a terminal error     *)
(* came with the last data or from the next read is not recorded, both are *)
(* tried.  Acceptance: some path consumes every line.                      *)
(***************************************************************************)
EXTENDS LinkBuffer, Json, IOUtils

Trace == ndJsonDeserialize(IOEnv.VERIF_TRACE)

VARIABLES l
tvars == <<lvars, l>>

Line == Trace[l]
Has(j) == j <= Len(Trace)
ReaderKinds == {"Peek", "Skip", "ReadByte", "ReadBinary", "Read", "Release", "Len"}

\* the Op line the current position belongs to (behind an optional SrcRead and an optional Sink line)
OpAt == IF Has(l) /\ Line.ev = "Op" THEN l
        ELSE IF Has(l + 1) /\ Line.ev \in {"SrcRead", "Sink"} /\ Trace[l + 1].ev = "Op" THEN l + 1
        ELSE IF Has(l + 2) /\ Line.ev = "SrcRead" /\ Trace[l + 1].ev = "Sink" /\ Trace[l + 2].ev = "Op" THEN l + 2
        ELSE 0
OpLine == Trace[OpAt]

TraceInit == InitP(0, 0) /\ l = 1

TCase == /\ Has(l) /\ Line.ev = "Case" /\ pc.st = "idle"
         /\ src' = [eofAt |-> Line.eofAt, rcvd |-> 0, term |-> FALSE]
         /\ LET m == Max2(B4, Line.size) IN
            buf' = [nodes |-> <<[cap |-> CapOf(m), off |-> 0, mal |-> 0, ro |-> FALSE, base |-> 0, blk |-> 1]>>,
                    rdIx |-> 1, len |-> 0, maxSize |-> m, cerr |-> "none", caches |-> << >>, freed |-> {},
                    nblk |-> 2, bgen |-> <<0>>]
         /\ pc' = Idle
         /\ abs' = [perr |-> "none", peeks |-> << >>, pmem |-> << >>, rel |-> 0, copies |-> << >>, res |-> NoRes,
                    hEnd |-> 0, hOK |-> TRUE, steps |-> 0]
         /\ l' = l + 1

NeedsCall(k) == k \in {"Peek", "ReadByte", "ReadBinary"} \/ (k = "Read" /\ buf.len = 0)

\* silent: the call starts (fill's preamble)
TCall == /\ pc.st = "idle" /\ OpAt > 0 /\ OpLine.k \in ReaderKinds /\ NeedsCall(OpLine.k)
         /\ CallP(OpLine.k, OpLine.n) /\ UNCHANGED l

\* the socket reads of this operation: first the data (silent), then the line is consumed with the error, if any
TSrcData == /\ Has(l) /\ Line.ev = "SrcRead" /\ Line.n > 0 /\ pc.lastN = 0 /\ pc.direct = 0
            /\ (SrcDeliverP(Line.n) \/ DirectDeliverP(Line.n))
            /\ UNCHANGED l
TSrcDone == /\ Has(l) /\ Line.ev = "SrcRead" /\ pc.st \in {"loop", "ddone", "dloop"}
            /\ (Line.n > 0 => (pc.lastN = Line.n \/ pc.direct = Line.n))
            /\ \/ Line.cls = "none" /\ UNCHANGED lvars
               \/ Line.cls # "none" /\ Line.n > 0 /\ (SrcFailSameP(Line.cls) \/ DirectFailSameP(Line.cls))
               \/ Line.cls # "none" /\ (SrcFailNextP(Line.cls) \/ DirectFailNextP(Line.cls))
            /\ l' = l + 1

TSkipLine == /\ Has(l)
             /\ \/ Line.ev = "Sink"
                \/ Line.ev = "Op" /\ Line.k \notin ReaderKinds /\ pc.st = "idle"
                \/ Line.ev = "Geo" /\ Trace[l - 1].ev = "Op" /\ Trace[l - 1].k \notin ReaderKinds
                \/ Line.ev = "End" /\ pc.st = "idle"
                \/ Line.ev \in {"Panic", "Crash"} /\ pc.st = "idle"      \* (writer side, e.g. a known finding): not judged here
             /\ l' = l + 1 /\ UNCHANGED lvars

TLoopExit == Has(l) /\ Line.ev = "Op" /\ LoopExit /\ UNCHANGED l

Matches == /\ abs'.res.k = Line.k /\ abs'.res.n = Line.n /\ abs'.res.cnt = Line.cnt
           /\ abs'.res.cls = Line.cls /\ buf'.len = Line.len
           /\ abs'.res.run = [f |-> Line.f, t |-> Line.t, nr |-> Line.nr]

TOp == /\ Has(l) /\ Line.ev = "Op" /\ Line.k \in ReaderKinds
       /\ \/ pc.st = "idle" /\ ~NeedsCall(Line.k) /\ SimpleP(Line.k, Line.n)
          \/ pc.st \in {"done", "ddone"} /\ Finish
       /\ Matches
       /\ l' = l + 1

GeoOf(b) == [j \in 1 .. Len(b.nodes) |->
               [cap |-> b.nodes[j].cap, off |-> b.nodes[j].off, mal |-> b.nodes[j].mal,
                ro |-> IF b.nodes[j].ro THEN 1 ELSE 0, r |-> IF j = b.rdIx THEN 1 ELSE 0,
                w |-> IF j = Len(b.nodes) THEN 1 ELSE 0]]

TGeo == /\ Has(l) /\ Line.ev = "Geo" /\ pc.st = "idle" /\ Trace[l - 1].ev = "Op" /\ Trace[l - 1].k \in ReaderKinds
        /\ Line.in = GeoOf(buf)
        /\ l' = l + 1 /\ UNCHANGED lvars

TraceNext == TCase \/ TCall \/ TSrcData \/ TSrcDone \/ TSkipLine \/ TLoopExit \/ TOp \/ TGeo

Report == (l = Len(Trace) + 1) => PrintT(<<"@@BAD", << >>, l - 1, Len(Trace)>>)
Mark == (l % 2000 = 0) => PrintT(<<"@@AT", l>>)
=============================================================================
