---------------------------- MODULE RouterTrace ----------------------------
(***************************************************************************)
(* Trace validation for C06.  Lines recorded by harness/drivers/c06 from   *)
(* the real route.Engine:                                                  *)
(*   Case{id, fam, raw, unesc, esc, routes, orders, modes, lookups}        *)
(*        raw / unesc = engine options UseRawPath / UnescapePathValues     *)
(*   then for every order of the case, on a fresh engine:                  *)
(*     Order{o, perm, mode}             mode = engine set-up: "plain" |    *)
(*                                      "use3" (three separate Use(noop))  *)
(*                                      | "group" (two Use(noop), routes   *)
(*                                      on Group("", noop))                *)
(*     Register{r, m, pat, outcome}     one per route, in perm order; the  *)
(*                                      driver abandons the order after a  *)
(*                                      "panic" (a program whose           *)
(*                                      registration panics does not       *)
(*                                      serve)                             *)
(*     Lookup{i, m, path, ran, mw, params, byName, fullPath, status, prev} *)
(*                                      (the handler first overwrites the  *)
(*                                      URI path with junk; prev = params  *)
(*                                      kept from the previous request,    *)
(*                                      read again after this one)         *)
(*                                      one per lookup of the case, in     *)
(*                                      order; ran = ids of the route      *)
(*                                      handlers that ran, mw = number of  *)
(*                                      middleware runs, params =          *)
(*                                      ctx.Params, byName = ctx.Param(n)  *)
(*                                      for the route's names, fullPath =  *)
(*                                      ctx.FullPath() (all as seen by the *)
(*                                      handler; empty when none ran)      *)
(*   End                                                                   *)
(* Judged: Register.outcome against AcceptsAdd (Router!Register), Lookup   *)
(* against Match (Router!Lookup): which handler ran, parameter names and   *)
(* values, full path.  Completeness: the orders, registrations and lookups *)
(* must be exactly those of the case, in sequence.  Not judged: status,    *)
(* anything about paths/patterns outside InScopePath/InScopePat.           *)
(*                                                                         *)
(* The expected results of all lookups of a case are computed once per     *)
(* case (table Exp) -- by the property they are a function of the set, so  *)
(* every registration order is compared with the same values.  During the  *)
(* first order `last` carries the expected result and                      *)
(* the recorded handler list, so Router's PriorityRule, ParamsAreSubstrings*)
(* and NoMatchNoHandler are evaluated on the route sets of the generated   *)
(* cases too (a failure there is a defect of the specification: exit 2).   *)
(***************************************************************************)
EXTENDS Router, Json, IOUtils

Trace == ndJsonDeserialize(IOEnv.VERIF_TRACE)
\* "1": also evaluate Router's PriorityRule / ParamsAreSubstrings / NoMatchNoHandler on the recorded first-order lookups
\* (costs as much as the validation itself; the quick tier switches it on for a quarter, the thorough tier for half of the trace files)
SpecInv == IOEnv.VERIF_SPECINV = "1"

VARIABLES l,        \* next line to consume
          bad,      \* lines at which a case was rejected
          ci,       \* line of the current Case (0: none)
          ord,      \* index of the current order (0: none yet)
          regn,     \* Register events seen in this order
          stopped,  \* a registration of this order panicked
          lk        \* next lookup index
tvars == <<vars, l, bad, ci, ord, regn, stopped, lk>>

(* Constant-level table, evaluated once when the trace is loaded (TLC caches it): for every case the parsed routes   *)
(* (with validity and scope) and, when the whole route set is acceptable, the expected result of each lookup.  By the *)
(* property the result is a function of the SET, so the same entry judges every registration order.                  *)
CaseLines == {c \in 1 .. Len(Trace) : Trace[c].ev = "Case"}
CaseTab ==
  [c \in CaseLines |->
     LET C  == Trace[c]
         rt == [i \in 1 .. Len(C.routes) |->
                  LET p == C.routes[i].pat  v == Valid(p) IN
                  [in |-> InScopePat(p), valid |-> v, r |-> IF v THEN MkRoute(i, C.routes[i].m, p, i) ELSE NoRoute]]
         R  == {rt[i].r : i \in {i \in 1 .. Len(rt) : rt[i].valid}}
     IN [rt |-> rt,
         ex |-> IF (\A i \in 1 .. Len(rt) : rt[i].valid) /\ Accepts(R)
                THEN [i \in 1 .. Len(C.lookups) |->
                        LET in == InScopeSent(C.raw, C.unesc, C.lookups[i].path)
                            rp == IF in THEN Routed(C.raw, C.lookups[i].path) ELSE ""
                        IN [in |-> in, rp |-> rp, res |-> IF in THEN Match(R, C.lookups[i].m, rp) ELSE Miss]]
                ELSE << >>]]

IdleVars == /\ regd' = << >> /\ tried' = {} /\ outcome' = "none" /\ last' = NoLookup
            /\ ci' = 0 /\ ord' = 0 /\ regn' = 0 /\ stopped' = FALSE /\ lk' = 1

TraceInit == /\ regd = << >> /\ tried = {} /\ outcome = "none" /\ last = NoLookup
             /\ ci = 0 /\ ord = 0 /\ regn = 0 /\ stopped = FALSE /\ lk = 1
             /\ l = 1 /\ bad = << >>

Line == Trace[l]
Cs == Trace[ci]
K == Len(Cs.routes)
N == Len(Cs.lookups)
Idle == ci = 0
\* the current order has run to its end (or there is none yet)
OrderDone == ord = 0 \/ stopped \/ (regn = K /\ lk = N + 1)

TraceCase ==
  /\ l <= Len(Trace) /\ Line.ev = "Case" /\ Idle
  /\ Line.id > 0 /\ Len(Line.orders) >= 1 /\ Len(Line.modes) = Len(Line.orders)
  /\ Line.raw \in BOOLEAN /\ Line.unesc \in BOOLEAN
  /\ ci' = l
  /\ regd' = << >> /\ tried' = {} /\ outcome' = "none" /\ last' = NoLookup
  /\ ord' = 0 /\ regn' = 0 /\ stopped' = FALSE /\ lk' = 1
  /\ l' = l + 1 /\ UNCHANGED bad

\* a fresh engine
TraceOrder ==
  /\ l <= Len(Trace) /\ Line.ev = "Order" /\ ~Idle /\ OrderDone
  /\ ord < Len(Cs.orders) /\ Line.o = ord + 1 /\ Line.perm = Cs.orders[ord + 1]
  /\ Line.mode = Cs.modes[ord + 1] /\ Line.mode \in {"plain", "use3", "group"}
  /\ Len(Line.perm) = K /\ {Line.perm[i] : i \in 1 .. K} = 1 .. K
  /\ ord' = ord + 1 /\ regn' = 0 /\ stopped' = FALSE /\ lk' = 1
  /\ regd' = << >> /\ tried' = {} /\ outcome' = "none" /\ last' = NoLookup
  /\ l' = l + 1 /\ UNCHANGED <<bad, ci>>

\* Router!Register with the logged outcome (AcceptsAdd, with the pattern parsed once per case)
TraceRegister ==
  /\ l <= Len(Trace) /\ Line.ev = "Register" /\ ~Idle /\ ord >= 1 /\ ~stopped /\ regn < K
  /\ LET idx == Cs.orders[ord][regn + 1]
         rt  == Cs.routes[idx]
         e   == CaseTab[ci].rt[idx]
         ok  == Line.outcome = "ok"
     IN /\ Line.r = idx /\ Line.m = rt.m /\ Line.pat = rt.pat
        /\ Line.outcome \in {"ok", "panic"}
        /\ e.in => (ok = (e.valid /\ NoTwin(Regd, e.r)))
        /\ regd' = IF ~ok THEN regd
                   ELSE IF e.valid THEN Append(regd, [e.r EXCEPT !.pos = Len(regd) + 1])
                   ELSE Append(regd, MkRoute(idx, rt.m, rt.pat, Len(regd) + 1))
        /\ tried' = tried \cup {<<rt.m, rt.pat>>}
        /\ outcome' = Line.outcome
        /\ stopped' = ~ok
  /\ regn' = regn + 1 /\ last' = NoLookup
  /\ l' = l + 1 /\ UNCHANGED <<bad, ci, ord, lk>>

\* middleware in front of every route of the engine set-up `mode` (see RouterGen!ModeSeq)
MwCount(mode) == IF mode = "plain" THEN 0 ELSE 3

ByNameList(r, pl) == [k \in 1 .. Len(r.names) |->
                        pl[CHOOSE j \in 1 .. Len(r.names) : r.names[j] = r.names[k] /\ \A h \in 1 .. j - 1 : r.names[h] # r.names[k]].v]

\* Router!Lookup with the logged observation.  All K routes are registered here (regn = K, none panicked), so the
\* accepted set is the case's whole set; should the table have no entry for it (the specification considers the set
\* unacceptable although every registration was judged "ok" -- impossible unless a pattern is out of scope) the
\* result is computed from the registered routes directly.
TraceLookup ==
  /\ l <= Len(Trace) /\ Line.ev = "Lookup" /\ ~Idle /\ ord >= 1 /\ ~stopped /\ regn = K /\ lk <= N
  /\ Line.i = lk /\ Line.m = Cs.lookups[lk].m /\ Line.path = Cs.lookups[lk].path
  /\ LET ex  == CaseTab[ci].ex
         in  == IF Len(ex) = N THEN ex[lk].in ELSE InScopeSent(Cs.raw, Cs.unesc, Line.path)
         rp  == IF ~in THEN "" ELSE IF Len(ex) = N THEN ex[lk].rp ELSE Routed(Cs.raw, Line.path)   \* path the tree walks
         res == IF ~in THEN Miss
                ELSE IF Len(ex) = N THEN ex[lk].res ELSE Match(Regd, Line.m, rp)
     IN
       /\ in => IF res.found
                THEN LET pl == ParamList(res.r, res.vals, Cs.raw /\ Cs.unesc) IN
                     /\ Line.ran = <<res.r.id>>
                     /\ Line.mw = MwCount(Cs.modes[ord])        \* the route's chain = the group's middleware + its handler
                     /\ Line.fullPath = res.r.pat
                     /\ Line.params = pl
                     /\ Line.byName = ByNameList(res.r, pl)
                ELSE Line.ran = << >>
       \* the parameter strings kept from the previous request still hold the values matched then
       /\ lk = 1 => Line.prev = << >>
       /\ (lk > 1 /\ Len(ex) = N /\ ex[lk - 1].in) =>
            Line.prev = IF ex[lk - 1].res.found
                        THEN ParamList(ex[lk - 1].res.r, ex[lk - 1].res.vals, Cs.raw /\ Cs.unesc) ELSE << >>
       /\ last' = IF SpecInv /\ ord = 1 /\ in
                  THEN [m |-> Line.m, path |-> rp, res |-> res, ran |-> Line.ran] ELSE NoLookup
  /\ lk' = lk + 1 /\ outcome' = "none"
  /\ l' = l + 1 /\ UNCHANGED <<bad, ci, ord, regn, stopped, regd, tried>>

TraceEnd ==
  /\ l <= Len(Trace) /\ Line.ev = "End" /\ ~Idle /\ ord = Len(Cs.orders) /\ OrderDone
  /\ IdleVars /\ l' = l + 1 /\ UNCHANGED bad

Normal == TraceCase \/ TraceOrder \/ TraceRegister \/ TraceLookup \/ TraceEnd

NextCase(k) == IF \E j \in k + 1 .. Len(Trace) : Trace[j].ev = "Case"
               THEN CHOOSE j \in k + 1 .. Len(Trace) : Trace[j].ev = "Case" /\ \A i \in k + 1 .. j - 1 : Trace[i].ev # "Case"
               ELSE Len(Trace) + 1

Mismatch == /\ l <= Len(Trace) /\ ~ENABLED Normal
            /\ bad' = Append(bad, l)
            /\ l' = IF Len(bad) >= 1000 THEN Len(Trace) + 1 ELSE NextCase(l)
            /\ IdleVars

\* the trace ends inside a case
MismatchEOF == /\ l = Len(Trace) + 1 /\ ~Idle
               /\ bad' = Append(bad, l) /\ l' = l /\ IdleVars

TraceNext == Normal \/ Mismatch \/ MismatchEOF

Report == (l = Len(Trace) + 1 /\ Idle) => PrintT(<<"@@BAD", bad, l - 1, Len(Trace)>>)
=============================================================================
