--------------------------- MODULE ConnPoolTrace ---------------------------
(***************************************************************************************************************)
(* Trace validation for C10: the merged trace of the real http1.HostClient (hook H2 events taken inside the    *)
(* critical sections of client.go, observations of the scripted connections, what each call returned) must be  *)
(* a behaviour of ConnPool (Strict = FALSE, AsWritten = FALSE).                                                *)
(*                                                                                                             *)
(* Lines (driver c10):                                                                                         *)
(*   Case{maxConns, wait, ...}                                                                                 *)
(*   hook events {ev, k, p, c, w, cc, ni, nq}: k/p = process (c = caller p, d = background dialer of waiter p, *)
(*     s = system closer p), c = connection, w = waiter, cc/ni/nq = connsCount, len(conns), connsWait.len()    *)
(*     read under connsLock (-1 outside it): do.enter do.ctxdone do.retry do.exit acq.pop acq.create acq.none  *)
(*     dial.ok dial.fail wait.queue wait.ready wait.timeout want.cancel want.deliver rel.deliver rel.idle      *)
(*     close dec.handoff dec.count bg.dial.ok bg.dial.fail clean.sweep closeidle                               *)
(*   observations of the scripted peer, taken on the goroutine doing the I/O: x.sent{c, req} (a complete       *)
(*     request arrived), x.full{c, rid, keep, dead} (the last byte of a complete response was handed to the    *)
(*     reader), x.eof{c, at}, x.timeout{c}, x.closed{c}                                                        *)
(*   Call{p, req, idem, qt, rt}, ctx.cancel{p}, Return{p, req, resp, err, ms, qt, rt, slack}                   *)
(*   Quiescent{total, idle, nq, open}, Gauge{pending, ...}, End                                                *)
(*   Panic / Hang / Stuck have no action: the case is rejected.                                                *)
(*                                                                                                             *)
(* Every event is the ConnPool action of the same name with the logged ids; the counters logged under          *)
(* connsLock must equal connsCount, Len(idle), Len(waitq) after the step; all invariants of ConnPool are       *)
(* required of the state after every step (a step into a state violating one is not a step of the             *)
(* specification => Mismatch).  The scan parameter k of queueForIdle/releaseConn/decConnsCount is computed     *)
(* from the logged queue length, so every line has at most one successor (deterministic).                      *)
(*                                                                                                             *)
(* Not judged: the number of stale entries in the wait queue (only that it equals what the specification       *)
(* computes from the logged scans), error values (only err = ok is interpreted), which idle connection is      *)
(* taken, whether an error is retried (AtMostOnce is judged where the request reaches the peer).               *)
(***************************************************************************************************************)
EXTENDS ConnPool, Json, IOUtils

Trace == ndJsonDeserialize(IOEnv.VERIF_TRACE)

VARIABLES l, bad,
          active,   \* a case is in progress
          callp,    \* callp[g] = [req, idem]: parameters of the call g is about to make / is making
          lastDel   \* the delivery made inside releaseConn whose rel.deliver line is still to come
tvars == <<vars, l, bad, active, callp, lastDel>>

\* connection / waiter ids are fresh per case; the runner passes the largest id of the trace file
EnvNat(name, dflt) == IF name \in DOMAIN IOEnv THEN atoi(IOEnv[name]) ELSE dflt
TraceNC == EnvNat("VERIF_NC", 48)
TraceNW == EnvNat("VERIF_NW", 48)

Line == Trace[l]
HasLine == l <= Len(Trace)
Ev(e) == HasLine /\ active /\ Line.ev = e
Consume == l' = l + 1 /\ UNCHANGED <<bad, active>>
NoDel == <<"-", 0, 0, 0>>
NoCall == [req |-> 0, idem |-> TRUE]

BlankRest ==
    /\ connsCount' = 0 /\ idle' = << >> /\ waitq' = << >>
    /\ want' = [w \in W |-> NoWant] /\ conn' = [c \in C |-> NoConn] /\ pending' = 0
    /\ pc' = [g \in Callers |-> IdlePc] /\ sent' = [g \in Callers |-> 0]
    /\ cancelled' = [g \in Callers |-> FALSE] /\ idem' = [g \in Callers |-> TRUE]
    /\ cur' = [g \in Callers |-> 0] /\ got' = [g \in Callers |-> 0]
    /\ left' = [g \in Callers |-> MaxReqs]
    /\ dl' = [w \in W |-> NoDl] /\ sys' = [s \in Sys |-> [todo |-> << >>, dec |-> FALSE]]
    /\ budget' = MaxFaults
    /\ callp' = [g \in Callers |-> NoCall] /\ lastDel' = NoDel

\* all properties of ConnPool, required of every state a recorded step leads to
Inv == /\ Exclusive /\ Bounded /\ CountConservation /\ CleanReuse /\ ResponseMatches /\ AtMostOnce /\ QuiescentOK

BlankVars == cf' = [max |-> 1, wait |-> FALSE] /\ BlankRest

TraceInit ==
    /\ cf = [max |-> 1, wait |-> FALSE]
    /\ connsCount = 0 /\ idle = << >> /\ waitq = << >>
    /\ want = [w \in W |-> NoWant] /\ conn = [c \in C |-> NoConn] /\ pending = 0
    /\ pc = [g \in Callers |-> IdlePc] /\ sent = [g \in Callers |-> 0]
    /\ cancelled = [g \in Callers |-> FALSE] /\ idem = [g \in Callers |-> TRUE]
    /\ cur = [g \in Callers |-> 0] /\ got = [g \in Callers |-> 0]
    /\ left = [g \in Callers |-> MaxReqs]
    /\ dl = [w \in W |-> NoDl] /\ sys = [s \in Sys |-> [todo |-> << >>, dec |-> FALSE]]
    /\ budget = MaxFaults
    /\ callp = [g \in Callers |-> NoCall] /\ lastDel = NoDel
    /\ l = 1 /\ bad = << >> /\ active = FALSE

TraceCase ==
    /\ HasLine /\ ~active /\ Line.ev = "Case"
    /\ Line.maxConns >= 1 /\ Line.n \in 1 .. Cardinality(Callers)
    /\ BlankRest
    /\ cf' = [max |-> Line.maxConns, wait |-> Line.wait]
    /\ active' = TRUE /\ l' = l + 1 /\ UNCHANGED bad

--------------------------------------------------------------------------------------------------------------
IsCaller == Line.k = "c" /\ Line.p \in Callers
IsDialer == Line.k = "d" /\ Line.p \in W
IsSys    == Line.k = "s" /\ Line.p \in Sys
ConnOK   == Line.c \in C
WaitOK   == Line.w \in W
KeepAux  == UNCHANGED <<callp, lastDel>>

\* the counters read under connsLock are those of the specification after the step
Counters == Line.cc = connsCount' /\ Line.ni = Len(idle') /\ Line.nq = Len(waitq')

IndexOf(q, w) == IF \E i \in DOMAIN q : q[i] = w THEN CHOOSE i \in DOMAIN q : q[i] = w ELSE 0

TCall == /\ Ev("Call") /\ IsCaller /\ At(Line.p, "idle")
         /\ callp' = [callp EXCEPT ![Line.p] = [req |-> Line.req, idem |-> Line.idem]]
         /\ UNCHANGED <<vars, lastDel>> /\ Consume

TCtxCancel == /\ Ev("ctx.cancel") /\ IsCaller /\ CtxCancel(Line.p) /\ KeepAux /\ Consume

TEnter == /\ Ev("do.enter") /\ IsCaller /\ callp[Line.p].req # 0
          /\ DoEnter(Line.p, callp[Line.p].req, callp[Line.p].idem) /\ KeepAux /\ Consume

TCtxDone == /\ Ev("do.ctxdone") /\ IsCaller /\ CtxDone(Line.p) /\ KeepAux /\ Consume

TAcqPop == /\ Ev("acq.pop") /\ IsCaller /\ ConnOK /\ AcquirePopIdle(Line.p, Line.c) /\ Counters /\ KeepAux /\ Consume
TAcqCreate == /\ Ev("acq.create") /\ IsCaller /\ AcquireCreate(Line.p) /\ Counters /\ KeepAux /\ Consume
TAcqNone == /\ Ev("acq.none") /\ IsCaller /\ AcquireNone(Line.p) /\ Counters /\ KeepAux /\ Consume

TDialOk == /\ Ev("dial.ok") /\ IsCaller /\ ConnOK /\ DialOk(Line.p, Line.c) /\ KeepAux /\ Consume
TDialFail == /\ Ev("dial.fail") /\ IsCaller /\ DialFail(Line.p) /\ KeepAux /\ Consume

TQueue == /\ Ev("wait.queue") /\ IsCaller /\ WaitOK
          /\ LET k == Len(waitq) + 1 - Line.nq IN k \in 0 .. Len(waitq) /\ QueueForIdle(Line.p, Line.w, k)
          /\ Counters /\ KeepAux /\ Consume

TWaitReady == /\ Ev("wait.ready") /\ IsCaller /\ WaitOK /\ pc[Line.p].w = Line.w
              /\ Line.c = want[Line.w].conn
              /\ WaitReady(Line.p) /\ KeepAux /\ Consume

TWaitTimeout == /\ Ev("wait.timeout") /\ IsCaller /\ WaitOK /\ pc[Line.p].w = Line.w
                /\ WaitTimeout(Line.p) /\ KeepAux /\ Consume

TCancel == /\ Ev("want.cancel") /\ IsCaller /\ WaitOK /\ pc[Line.p].w = Line.w
           /\ Line.c = (IF want[Line.w].st = "delivered" THEN want[Line.w].conn ELSE 0)
           /\ Cancel(Line.p) /\ KeepAux /\ Consume

TSent == /\ Ev("x.sent") /\ IsCaller /\ ConnOK /\ WriteOk(Line.p, Line.c, Line.req) /\ KeepAux /\ Consume

TFull == /\ Ev("x.full") /\ IsCaller /\ ConnOK
         /\ Line.rid = conn[Line.c].req                 \* the response on the wire answers the request on that wire
         /\ BodyOk(Line.p, Line.c, Line.keep, Line.dead) /\ KeepAux /\ Consume

TEof == /\ Ev("x.eof") /\ IsCaller /\ ConnOK /\ Line.at \in {"first", "header", "body"}
        /\ ReadFail(Line.p, Line.c, Line.at) /\ KeepAux /\ Consume

TTimeout == /\ Ev("x.timeout") /\ IsCaller /\ ConnOK /\ ReadFail(Line.p, Line.c, "timeout") /\ KeepAux /\ Consume

\* the network connection is closed only after closeConn has given it up
TClosed == /\ Ev("x.closed") /\ ConnOK /\ conn[Line.c].st = "free" /\ UNCHANGED <<vars, callp, lastDel>> /\ Consume

TClose == /\ Ev("close") /\ ConnOK
          /\ \/ IsCaller /\ CloseConn(Line.p, Line.c)
             \/ IsSys /\ SysClose(Line.p, Line.c)
          /\ KeepAux /\ Consume

THandOff == /\ Ev("dec.handoff") /\ WaitOK
            /\ LET k == IndexOf(waitq, Line.w) IN
               /\ k >= 1
               /\ \/ IsCaller /\ DecHandOff(Line.p, Line.w, k)
                  \/ IsDialer /\ BgDecHandOff(Line.p, Line.w, k)
                  \/ IsSys /\ SysDecHandOff(Line.p, Line.w, k)
            /\ Counters /\ KeepAux /\ Consume

TDecCount == /\ Ev("dec.count")
             /\ LET k == Len(waitq) - Line.nq IN
                /\ k \in 0 .. Len(waitq)
                /\ \/ IsCaller /\ DecCount(Line.p, k)
                   \/ IsDialer /\ BgDecCount(Line.p, k)
                   \/ IsSys /\ SysDecCount(Line.p, k)
             /\ Counters /\ KeepAux /\ Consume

\* tryDeliver succeeds (under w.mu, logged before the ready channel is closed): inside releaseConn it is the
\* ReleaseDeliver step (the rel.deliver line that follows under connsLock only re-checks the counters); in
\* dialConnFor it is the delivery of the dialed connection or of the dial error to the dialer's own waiter
TDeliver ==
    /\ Ev("want.deliver") /\ WaitOK
    /\ \/ /\ IsCaller /\ ConnOK
          /\ LET k == IndexOf(waitq, Line.w) IN k >= 1 /\ ReleaseDeliver(Line.p, Line.c, Line.w, k)
          /\ lastDel' = <<Line.k, Line.p, Line.c, Line.w>>
       \/ /\ IsDialer /\ Line.w # Line.p /\ ConnOK
          /\ LET k == IndexOf(waitq, Line.w) IN k >= 1 /\ BgReleaseDeliver(Line.p, Line.c, Line.w, k)
          /\ lastDel' = <<Line.k, Line.p, Line.c, Line.w>>
       \/ /\ IsDialer /\ Line.w = Line.p /\ ConnOK /\ BgDeliver(Line.p, Line.c) /\ UNCHANGED lastDel
       \/ /\ IsDialer /\ Line.w = Line.p /\ Line.c = 0 /\ BgDeliverErr(Line.p) /\ UNCHANGED lastDel
    /\ UNCHANGED callp /\ Consume

TRelDeliver == /\ Ev("rel.deliver") /\ lastDel = <<Line.k, Line.p, Line.c, Line.w>>
               /\ Line.cc = connsCount /\ Line.ni = Len(idle) /\ Line.nq = Len(waitq)
               /\ lastDel' = NoDel /\ UNCHANGED <<vars, callp>> /\ Consume

TRelIdle == /\ Ev("rel.idle") /\ ConnOK
            /\ LET k == Len(waitq) - Line.nq IN
               /\ k \in 0 .. Len(waitq)
               /\ \/ IsCaller /\ ReleasePushIdle(Line.p, Line.c, k)
                  \/ IsDialer /\ BgReleasePushIdle(Line.p, Line.c, k)
            /\ Counters /\ KeepAux /\ Consume

TBgDialOk == /\ Ev("bg.dial.ok") /\ IsDialer /\ ConnOK /\ Line.w = Line.p /\ BgDialOk(Line.p, Line.c) /\ KeepAux /\ Consume
TBgDialFail == /\ Ev("bg.dial.fail") /\ IsDialer /\ Line.w = Line.p /\ BgDialFail(Line.p) /\ KeepAux /\ Consume

TSweep == /\ Ev("clean.sweep") /\ IsSys /\ Line.p = 1
          /\ LET k == Len(idle) - Line.ni IN k \in 1 .. Len(idle) /\ CleanerSweep(k)
          /\ Counters /\ KeepAux /\ Consume

TCloseIdle == /\ Ev("closeidle") /\ IsSys /\ Line.p = 2
              /\ IF Len(idle) = 0
                 THEN /\ Line.cc = connsCount /\ Line.ni = 0 /\ Line.nq = Len(waitq) /\ UNCHANGED vars
                 ELSE CloseIdle(Len(idle)) /\ Counters
              /\ KeepAux /\ Consume

TRetry == /\ Ev("do.retry") /\ IsCaller /\ Retry(Line.p) /\ KeepAux /\ Consume
TExit  == /\ Ev("do.exit") /\ IsCaller /\ DoExit(Line.p) /\ KeepAux /\ Consume

Max(a, b) == IF a > b THEN a ELSE b
\* a call given a request timeout (qt) or else a read timeout (rt) returns within it plus the scheduling slack
\* (ms is measured from the START of the call).  The slack is max(1 s, 10 t) unless the case declares its own
\* (real-time cases: the injected delays are known, so the slack is chosen well below them)
InTime == LET t == IF Line.qt > 0 THEN Line.qt ELSE Line.rt
              s == IF Line.slack >= 0 THEN Line.slack ELSE Max(1000, 10 * t) IN
          t > 0 => Line.ms <= t + s

TReturn == /\ Ev("Return") /\ IsCaller /\ Line.req = cur[Line.p] /\ Line.req = callp[Line.p].req
           /\ Return(Line.p, Line.err = "ok")
           /\ Line.err = "ok" => Line.resp = Line.req                     \* ResponseMatches
           /\ InTime
           /\ callp' = [callp EXCEPT ![Line.p] = NoCall]
           /\ UNCHANGED lastDel /\ Consume

\* all calls have returned and no background step is outstanding: every connection is idle in the pool or closed
\* (counted by the client AND seen open by the peer), no live waiter, nothing counted outside the idle list
TQuiescent == /\ Ev("Quiescent")
              /\ \A g \in Callers : pc[g].at = "idle"
              /\ Quiescent                 \* the driver waited (<= 1.5 s) for background dialers and closers to finish
              /\ QuiescentOK
              /\ Line.total = connsCount /\ Line.idle = Len(idle) /\ Line.total = Line.idle
              /\ Line.open = Len(idle) /\ Line.nq = Len(waitq)
              /\ UNCHANGED <<vars, callp, lastDel>> /\ Consume

\* the pending-request gauge
TGauge == /\ Ev("Gauge")
          /\ \A g \in Callers : pc[g].at = "idle"
          /\ Line.pending = pending
          /\ UNCHANGED <<vars, callp, lastDel>> /\ Consume

TEnd == /\ Ev("End") /\ BlankVars /\ active' = FALSE /\ l' = l + 1 /\ UNCHANGED bad

Step == \/ TCall \/ TCtxCancel \/ TEnter \/ TCtxDone \/ TAcqPop \/ TAcqCreate \/ TAcqNone \/ TDialOk \/ TDialFail
        \/ TQueue \/ TWaitReady \/ TWaitTimeout \/ TCancel \/ TSent \/ TFull \/ TEof \/ TTimeout \/ TClosed \/ TClose
        \/ THandOff \/ TDecCount \/ TDeliver \/ TRelDeliver \/ TRelIdle \/ TBgDialOk \/ TBgDialFail \/ TSweep
        \/ TCloseIdle \/ TRetry \/ TExit \/ TReturn \/ TQuiescent \/ TGauge

Normal == TraceCase \/ TEnd \/ (Step /\ Inv')

NextCase(k) == IF \E j \in k + 1 .. Len(Trace) : Trace[j].ev = "Case"
               THEN CHOOSE j \in k + 1 .. Len(Trace) : Trace[j].ev = "Case" /\ \A i \in k + 1 .. j - 1 : Trace[i].ev # "Case"
               ELSE Len(Trace) + 1

Mismatch == /\ HasLine /\ ~ENABLED Normal
            /\ bad' = Append(bad, l)
            /\ l' = NextCase(l)
            /\ BlankVars /\ active' = FALSE

MismatchEOF == /\ l = Len(Trace) + 1 /\ active
               /\ bad' = Append(bad, l) /\ l' = l /\ BlankVars /\ active' = FALSE

TraceNext == Normal \/ Mismatch \/ MismatchEOF

Report == (l = Len(Trace) + 1 /\ ~active) => PrintT(<<"@@BAD", bad, l - 1, Len(Trace)>>)
=============================================================================
