---------------------------- MODULE CtxCopyGen ----------------------------
(***************************************************************************)
(* Case generator for X06.  Cases, as ndjson lines for the driver:         *)
(*   states   every lifecycle state at Copy time (mid-handler, after       *)
(*            Abort, after a response body stream was set, after Hijack,   *)
(*            request body still a stream) x request shape x way of        *)
(*            recycling (same keep-alive connection, next connection,      *)
(*            other open connection) x ending (return, abort, panic under  *)
(*            recovery) x lazy getters run before Copy or not; "rich":     *)
(*            the handler has filled keys, an error and the response       *)
(*            before (rotating, like tracing)                              *)
(*   pre      every mutator of the alphabet applied to the original        *)
(*            before Copy                                                  *)
(*   step     every mutator applied after Copy to the original / to the    *)
(*            copy, inside the first handler / inside the handler of the   *)
(*            request that is served with the recycled original            *)
(*   pairs    ordered pairs (the 1/PairMod seeded sample) in six placements*)
(*   triples  NTriple seeded (pre, h-step, s-step) triples                 *)
(*   fresh    contexts that never saw a server (app.NewContext): states    *)
(*            and the 1/FreshMod sample of the alphabet as pre / step      *)
(*   bg       copies handed to goroutines while NBg x {in-loop, poller}    *)
(*            engines keep serving (race detector)                         *)
(*   keys     concurrent Set / Get / Value / ForEachKey / Copy             *)
(* Shape, mode, ending, predump and tracing rotate with the index and the  *)
(* seed (IOEnv.VERIF_SEED).                                                *)
(***************************************************************************)
EXTENDS CtxCopy, Json, IOUtils, SequencesExt

CONSTANTS PairMod, NTriple, FreshMod, NBg, BgConns, BgRounds, KeysReaders, KeysRounds

Seed == atoi(IOEnv.VERIF_SEED)

Modes   == <<"same", "next", "other">>
Endings == <<"return", "abort", "panic">>
Shapes  == <<"get", "form", "multipart", "chunked">>
States  == <<"mid", "abort", "stream", "hijack", "reqstream">>

MSeq == SetToSeq(Alphabet)
N    == Len(MSeq)
WatchSeq == SetToSeq(Watch)

Blank == [id |-> 0, kind |-> "copy", shape |-> "get", state |-> "mid", predump |-> FALSE, rich |-> FALSE, pre |-> << >>, steps |-> << >>,
          ending |-> "return", mode |-> "same", trace |-> FALSE, watch |-> WatchSeq, conns |-> 0, rounds |-> 0]

St(at, side, m) == [at |-> at, side |-> side, m |-> m]

\* small integer hash (every intermediate < 2^31)
H(x) == (x * 75 + 74) % 65537

\* the rotating parameters: x runs through all 4*3*3*2*2 combinations as it grows
Rot(c, x) == [c EXCEPT !.shape = Shapes[(x % 4) + 1], !.mode = Modes[((x \div 4) % 3) + 1], !.ending = Endings[((x \div 12) % 3) + 1],
                       !.predump = ((x \div 36) % 2) = 1, !.trace = ((x \div 72) % 2) = 1, !.rich = ((x \div 144) % 2) = 1]

StatePre(s) == CASE s = "abort" -> <<"Ctx.Abort">> [] s = "stream" -> <<"Ctx.SetBodyStream">> [] s = "hijack" -> <<"Ctx.Hijack">>
                 [] OTHER -> << >>
StateCases ==
  SetToSeq({Rot([Blank EXCEPT !.state = States[s], !.pre = StatePre(States[s])], x + 72 * ((s + Seed) % 4)) : s \in 1 .. 5, x \in 0 .. 71})

SinglesPre  == [i \in 1 .. N |-> Rot([Blank EXCEPT !.pre = <<MSeq[i]>>], H(i * 5 + Seed))]
Places == <<<<"h", "O">>, <<"h", "C">>, <<"s", "O">>, <<"s", "C">>>>
SinglesStep == [j \in 1 .. 4 * N |->
                  LET i == ((j - 1) \div 4) + 1  p == Places[((j - 1) % 4) + 1]
                  IN  Rot([Blank EXCEPT !.steps = <<St(p[1], p[2], MSeq[i])>>], H(j * 7 + Seed))]

PairIdx == {p \in (1 .. N) \X (1 .. N) : (p[1] * 31 + p[2] * 17 + Seed * 7) % PairMod = 0}
PairCase(p) ==
  LET a == MSeq[p[1]]  b == MSeq[p[2]]  k == (p[1] + p[2] * 3 + Seed) % 6
      c == CASE k = 0 -> [Blank EXCEPT !.pre = <<a>>, !.steps = <<St("h", "C", b)>>]
             [] k = 1 -> [Blank EXCEPT !.pre = <<a>>, !.steps = <<St("h", "O", b)>>]
             [] k = 2 -> [Blank EXCEPT !.steps = <<St("h", "O", a), St("h", "C", b)>>]
             [] k = 3 -> [Blank EXCEPT !.steps = <<St("h", "C", a), St("s", "C", b)>>]
             [] k = 4 -> [Blank EXCEPT !.pre = <<a>>, !.steps = <<St("s", "O", b)>>]
             [] OTHER -> [Blank EXCEPT !.steps = <<St("h", "C", a), St("s", "O", b)>>]
  IN  Rot(c, H(p[1] * 353 + p[2] + Seed))
Pairs == SetToSeq({PairCase(p) : p \in PairIdx})

Side(x) == IF x % 2 = 0 THEN "O" ELSE "C"
Triples ==
  [t \in 1 .. NTriple |->
     LET a == H(t + Seed * 131)  b == H(a + t)  c == H(b + 3 * t)
     IN  Rot([Blank EXCEPT !.pre = <<MSeq[(a % N) + 1]>>,
                           !.steps = <<St("h", Side(a), MSeq[(b % N) + 1]), St("s", Side(b \div 2), MSeq[(c % N) + 1])>>], a + b + c)]

FreshBlank == [Blank EXCEPT !.kind = "fresh", !.state = "fresh"]
FreshIdx == {i \in 1 .. N : (i + Seed) % FreshMod = 0}
FreshCases ==
  SetToSeq({[FreshBlank EXCEPT !.pre = StatePre(States[s]), !.predump = pd, !.rich = ri] : s \in 1 .. 4, pd \in BOOLEAN, ri \in BOOLEAN})
  \o SetToSeq({[FreshBlank EXCEPT !.pre = <<MSeq[i]>>, !.predump = (i % 2 = 0), !.rich = (i % 4 < 2)] : i \in FreshIdx})
  \o SetToSeq({[FreshBlank EXCEPT !.steps = <<St(Places[((i + Seed) % 4) + 1][1], Places[((i + Seed) % 4) + 1][2], MSeq[i])>>] : i \in FreshIdx})

BgCases == [c \in 1 .. 2 * NBg |->
              [Blank EXCEPT !.kind = "bg", !.mode = IF c % 2 = 1 THEN "same" ELSE "other", !.trace = (c \div 2) % 2 = 1,
                            !.watch = << >>, !.conns = BgConns, !.rounds = BgRounds]]
KeysCases == << [Blank EXCEPT !.kind = "keys", !.watch = << >>, !.conns = KeysReaders, !.rounds = KeysRounds] >>

All == StateCases \o SinglesPre \o SinglesStep \o Pairs \o Triples \o FreshCases \o BgCases \o KeysCases

ASSUME ndJsonSerialize(IOEnv.VERIF_OUT, [i \in 1 .. Len(All) |-> [All[i] EXCEPT !.id = i]])

GenInit == /\ phase = "pre" /\ pre = FALSE /\ orig = Const("first") /\ copy = Const("none") /\ link = {}
           /\ snapC = Const("none") /\ snapO = Const("first") /\ tC = {} /\ tO = {} /\ atCopy = {} /\ nstep = 0 /\ nrec = 0
GenNext == UNCHANGED vars
=============================================================================
