CONSTANTS Mode = "ref"
Profile = "single"
SPECIFICATION Spec
INVARIANTS TypeOK Safe
