--------------------------- MODULE ParserCallsTrace ---------------------------
(* Trace validation for C03 part (b).  Every line recorded by harness/drivers/c03p from the real code must be      *)
(* admitted by ParserCalls:                                                                                          *)
(*   Chunk{parser, mode, rank, n}  mode "enum": the n cases that follow are the inputs of shortlex rank              *)
(*                                 rank .. rank+n-1 of the parser's space, in order (first: Rank(input) = rank,      *)
(*                                 then input = Succ(previous)); the runner checks that the chunks of all files      *)
(*                                 tile 0 .. Total-1 of every parser.                                                 *)
(*                                 mode "free": token strings <= RandMaxOf[parser] over the same alphabet (random / re-run)    *)
(*   Case{parser, input}           = Advance . Call : the next input is handed to the real parser                     *)
(*   ParserCall{parser, class}     = Return(class), class \in {"ok","err"}                                            *)
(*   End                           the chunk had exactly n cases                                                      *)
(* ParserCalls has no action for a panic, so a Panic{parser,input,msg,site} line (or any other line) is not          *)
(* admitted => the case is rejected.  Rejections are localised (Reject records the line and goes on with the next    *)
(* Case/Chunk/End line; the enumeration position still advances) so one pass reports every rejected call.            *)
(* Deterministic: exactly one successor per state (distinct states = lines + 1).                                     *)
EXTENDS ParserCalls, Json, IOUtils

Trace == ndJsonDeserialize(IOEnv.VERIF_TRACE)

VARIABLES l,        \* next line to consume
          bad,      \* lines at which a case was rejected
          mode,     \* "none" | "enum" | "free" | "skip" (rest of a chunk whose header was rejected)
          hdr,      \* [rank, n] of the current chunk
          k         \* cases consumed in this chunk
tvars == <<vars, l, bad, mode, hdr, k>>

NoHdr == [rank |-> 0, n |-> 0]

TraceInit == /\ parser = (CHOOSE p \in Parsers : TRUE) /\ cur = << >> /\ phase = "done" /\ class = "none"
             /\ l = 1 /\ bad = << >> /\ mode = "none" /\ hdr = NoHdr /\ k = 0

Line == Trace[l]
Fam == FamilyOf[parser]

\* ---- admission of the next line (state predicates; each is the enabling condition of one spec action + logged fields)
ChunkOK == /\ Line.ev = "Chunk" /\ mode = "none"
           /\ Line.parser \in Parsers /\ Line.mode \in {"enum", "free"} /\ Line.n >= 0 /\ Line.rank >= 0
           /\ Line.mode = "enum" => Line.rank + Line.n <= TotalOf(Line.parser)

\* Call(parser, input): enabled when the previous call has returned (or none was made); the input is the next one
CaseOK == /\ Line.ev = "Case" /\ mode \in {"enum", "free"} /\ phase \in {"ready", "returned"}
          /\ Line.parser = parser
          /\ \A i \in 1 .. Len(Line.input) : Line.input[i] \in Tokens[Fam]
          /\ IF mode = "enum"
             THEN /\ Len(Line.input) <= MaxLenOf[parser]
                  /\ IF k = 0 THEN Rank(Fam, Line.input) = hdr.rank
                     ELSE ~IsLast(parser, cur) /\ Line.input = Succ(Fam, cur)          \* complete, in order
             ELSE Len(Line.input) <= RandMaxOf[parser]

\* Return(class)
ReturnOK == /\ Line.ev = "ParserCall" /\ mode \in {"enum", "free"} /\ phase = "called"
            /\ Line.parser = parser /\ Line.class \in Classes

EndOK == Line.ev = "End" /\ mode \in {"enum", "free"} /\ phase \in {"ready", "returned"} /\ k = hdr.n

Admitted == ChunkOK \/ CaseOK \/ ReturnOK \/ EndOK

\* ---- effect of an admitted line
Apply == /\ l' = l + 1 /\ UNCHANGED bad
         /\ CASE Line.ev = "Chunk" -> /\ mode' = Line.mode /\ k' = 0 /\ hdr' = [rank |-> Line.rank, n |-> Line.n]
                                      /\ parser' = Line.parser /\ cur' = << >> /\ phase' = "ready" /\ class' = "none"
              [] Line.ev = "Case"  -> /\ cur' = Line.input /\ phase' = "called" /\ class' = "none" /\ k' = k + 1
                                      /\ UNCHANGED <<parser, mode, hdr>>
              [] Line.ev = "ParserCall" -> /\ phase' = "returned" /\ class' = Line.class
                                           /\ UNCHANGED <<parser, cur, mode, hdr, k>>
              [] Line.ev = "End"   -> /\ mode' = "none" /\ phase' = "done" /\ class' = "none"
                                      /\ UNCHANGED <<parser, cur, hdr, k>>

Stops == {"Case", "Chunk", "End"}
RECURSIVE NextStop(_)
NextStop(j) == IF j > Len(Trace) THEN j ELSE IF Trace[j].ev \in Stops THEN j ELSE NextStop(j + 1)
RECURSIVE NextChunk(_)
NextChunk(j) == IF j > Len(Trace) THEN j ELSE IF Trace[j].ev = "Chunk" THEN j ELSE NextChunk(j + 1)

\* ---- a line that is not admitted: remember it and go on.
\*  Panic / unknown event / bad class after a Case : the call is abandoned (phase "returned" without a class), next stop
\*  Case out of order or with a foreign token     : position advances with it, its result line is skipped
\*  Chunk header                                  : the whole chunk is skipped
\*  End with a wrong count                        : chunk closed
Reject == /\ bad' = Append(bad, l)
          /\ IF Line.ev = "Chunk" \/ mode \in {"none", "skip"}
             THEN /\ l' = NextChunk(l + 1) /\ mode' = "none" /\ phase' = "done" /\ class' = "none"
                  /\ UNCHANGED <<parser, cur, hdr, k>>
             ELSE IF Line.ev = "End"
             THEN /\ l' = l + 1 /\ mode' = "none" /\ phase' = "done" /\ class' = "none"
                  /\ UNCHANGED <<parser, cur, hdr, k>>
             ELSE IF Line.ev = "Case"
             THEN /\ l' = NextStop(l + 1) /\ phase' = "returned" /\ class' = "none" /\ k' = k + 1
                  /\ cur' = IF \A i \in 1 .. Len(Line.input) : Line.input[i] \in Tokens[Fam] THEN Line.input ELSE cur
                  /\ UNCHANGED <<parser, mode, hdr>>
             ELSE /\ l' = NextStop(l + 1) /\ phase' = "returned" /\ class' = "none"
                  /\ UNCHANGED <<parser, cur, mode, hdr, k>>

Step == l <= Len(Trace) /\ IF Admitted THEN Apply ELSE Reject

\* the file ends inside a chunk
MismatchEOF == /\ l = Len(Trace) + 1 /\ mode # "none"
               /\ bad' = Append(bad, l) /\ mode' = "none" /\ phase' = "done" /\ class' = "none"
               /\ UNCHANGED <<parser, cur, l, hdr, k>>

TraceNext == Step \/ MismatchEOF

\* TypeOK of ParserCalls is evaluated on every recorded state; phase "returned" with class "none" marks an abandoned call
TraceTypeOK == /\ parser \in Parsers /\ phase \in {"ready", "called", "returned", "done"}
               /\ class \in Classes \cup {"none"}
               /\ \A i \in 1 .. Len(cur) : cur[i] \in Tokens[Fam]

Report == (l = Len(Trace) + 1 /\ mode = "none") => PrintT(<<"@@BAD", bad, l - 1, Len(Trace)>>)
=============================================================================
