CONSTANTS
  MaxLenOf <- QuickLen
  RandMax = 12
INIT GenInit
NEXT GenNext
