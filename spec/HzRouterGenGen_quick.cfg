CONSTANTS
  McInner = {"a"}
  McLast = {"a"}
  McVerbs = {"GET"}
  McMaxDepth = 1
  McMaxMethods = 1
  MaxMethods = 4
  MaxDepth = 3
  SingleDepth = 1
  NSample = 300
  WithPairs = FALSE
INIT GenInit
NEXT GenNext
