--------------------------- MODULE ClientLoopGen ---------------------------
(* Case generator for X02.  Writes one ndjson line per case: a client configuration + call + peer script       *)
(* (kind "loop", families retry / deadline / redirect / chain) or a question to the delay functions (kind     *)
(* "delay").  `sig` marks, structurally, the cases in which a recorded finding of known/X02.json can show:    *)
(*   dr   the default RetryIf would have to retry (RetryIfFunc nil, attempts left, repeatable request, a      *)
(*        failing exchange in the script);                                                                    *)
(*   p303 a 303 answers a method other than GET/HEAD;   ss  a relative Location contains "//" after its start;*)
(*   sb   a stream body meets an idle connection the peer has closed (idempotent method);                     *)
(*   dd   a retry delay longer than the request timeout;  bo  Delay << k leaves int64.                        *)
EXTENDS ClientLoop, Json, IOUtils, SequencesExt

CONSTANTS GMethods,      \* methods of the retry family
          GRetryIfs, GWarms, GFailLen,
          GRedirCodes, GBases, GChainLen, GDelayKs, GDelayDs, GFull

QSS == "n=http://a.test/d"
D0 == [pol |-> << >>, comb |-> FALSE, via |-> "delay", unit |-> "ns", delay |-> 0, maxDelay |-> 0, maxJitter |-> 0, k |-> 0, n |-> 1]
Sig0 == [dr |-> FALSE, sb |-> FALSE, p303 |-> FALSE, ss |-> FALSE, dd |-> FALSE, bo |-> FALSE]
Base == [kind |-> "loop", fam |-> "", api |-> "do", method |-> "GET", body |-> "none", u |-> U0, rc |-> TRUE, maxAttempts |-> 1,
         policy |-> "rec", retryIf |-> "default", ctx |-> "live", maxRedirects |-> 0, timeoutMs |-> 0, readTimeoutMs |-> 0,
         delayMs |-> 0, warm |-> "none", mw |-> 1, script |-> << >>, d |-> D0, sig |-> Sig0]

HasFail(s) == \E i \in 1 .. Len(s) : s[i].b # "resp"
Repeatable(m, b) == m \in Idem /\ b # "stream"
SigOf(c) ==
  LET s == c.script
      m == Meth0(c)
      redir == c.api \in {"redirects", "get", "post", "gettimeout", "getdeadline"}
  IN [dr   |-> c.retryIf = "default" /\ c.rc /\ c.maxAttempts >= 2 /\ Repeatable(m, Body0(c)) /\ HasFail(s),
      sb   |-> Body0(c) = "stream" /\ m \in Idem /\ c.warm # "none",
      p303 |-> redir /\ m \notin {"GET", "HEAD"} /\ \E i \in 1 .. Len(s) : s[i].b = "resp" /\ s[i].status = 303 /\ s[i].loc.k # "none",
      ss   |-> redir /\ \E i \in 1 .. Len(s) : s[i].b = "resp" /\ s[i].loc.k \in {"path", "rel", "query"} /\ s[i].loc.q = QSS,
      dd   |-> c.delayMs >= 1000 /\ c.timeoutMs > 0,
      bo   |-> FALSE]
Mk(c) == [c EXCEPT !.sig = SigOf(c)]

BodiesOf(m) == IF m \in {"GET", "HEAD", "DELETE", "OPTIONS", "TRACE"} THEN {"none"}
               ELSE IF m \in {"PUT", "POST"} THEN {"bytes", "stream"} ELSE {"bytes"}
Oks == <<E("ok"), E("ok"), E("ok")>>

\* ---------------------------------------------------------------- family retry: the attempt loop of one Do
FailEntries == {"dialerr", "closeBefore", "closePartial", "s502", "okStale"}
FailSeqs == {[i \in 1 .. Len(s) |-> E(s[i])] : s \in SeqsUpTo(FailEntries, GFailLen)}
RetryCases ==
  {Mk([Base EXCEPT !.fam = "retry", !.method = m, !.body = b, !.retryIf = rif, !.maxAttempts = ma, !.rc = ma > 0, !.warm = w,
       !.mw = (IF ma = 3 THEN 1 ELSE IF ma = 2 THEN 2 ELSE 3), !.policy = (IF w = "live" /\ ma = 2 THEN "nil" ELSE "rec"),
       !.script = f \o Oks]) :
     m \in GMethods, b \in {"none", "bytes", "stream"}, rif \in GRetryIfs, ma \in 0 .. 3, w \in GWarms, f \in FailSeqs}
RetryOK(c) == /\ c.body \in BodiesOf(c.method)
              /\ (c.body = "stream" => c.retryIf \in {"default", "never"})      \* a consumed stream cannot be re-sent: user's business
              /\ (c.script[1].b = "dialerr" => c.warm # "live")                  \* a dial is refused only when the client dials
              /\ \A i \in 1 .. Len(c.script) - 1 : (c.script[i + 1].b = "dialerr" => c.script[i].ka # "live")
PreCancelled == {Mk([Base EXCEPT !.fam = "retry", !.ctx = "pre", !.retryIf = rif, !.maxAttempts = 3, !.warm = w, !.script = Oks]) :
                   rif \in {"default", "always"}, w \in {"none", "live"}}

\* ---------------------------------------------------------------- family deadline: request timeout against attempts
StallScripts == {<<B("stall")>> \o Oks, <<B("closePartial"), B("stall")>> \o Oks, <<B("stall"), B("stall")>> \o Oks,
                 <<R(502, "close", NoLoc), B("stall")>> \o Oks, <<B("stall"), B("dialerr")>> \o Oks}
DeadlineCases ==
  {Mk([Base EXCEPT !.fam = "deadline", !.api = api, !.method = m, !.body = (IF m = "GET" THEN "none" ELSE "bytes"), !.retryIf = rif,
       !.maxAttempts = ma, !.timeoutMs = 400, !.readTimeoutMs = rt, !.warm = w, !.mw = 2, !.script = s]) :
     api \in {"reqtimeout", "dotimeout", "dodeadline"}, m \in {"GET", "POST"}, rif \in {"default", "err", "always", "never"},
     ma \in 1 .. 3, rt \in {0, 25}, w \in {"none", "live"}, s \in StallScripts}
DeadlineOK(c) == GFull \/ (c.api = "reqtimeout" <=> c.maxAttempts = 2) \/ (c.api = "dodeadline" /\ c.maxAttempts = 3 /\ c.warm = "none")
ReadTimeoutOnly == {Mk([Base EXCEPT !.fam = "deadline", !.api = "do", !.retryIf = rif, !.maxAttempts = 3, !.readTimeoutMs = 25, !.script = s]) :
                      rif \in {"default", "err"}, s \in StallScripts}
ExpiredCases == {Mk([Base EXCEPT !.fam = "deadline", !.api = api, !.timeoutMs = -1, !.maxAttempts = 2, !.script = Oks]) :
                   api \in {"dotimeout", "dodeadline", "gettimeout", "getdeadline"}}
TimerCases == {Mk([Base EXCEPT !.fam = "deadline", !.api = api, !.timeoutMs = 400, !.script = s]) :
                 api \in {"gettimeout", "getdeadline"},
                 s \in {<<B("stall")>>, Oks, <<R(302, "close", L("path", "", "", "", <<"p">>, "", 0)), B("stall")>>}}
LongDelay == {Mk([Base EXCEPT !.fam = "deadline", !.api = api, !.retryIf = "err", !.maxAttempts = 2, !.timeoutMs = 400, !.delayMs = 2500,
                  !.script = f \o Oks]) : api \in {"reqtimeout", "dotimeout"}, f \in {<<B("stall")>>, <<B("closePartial")>>, <<B("dialerr")>>}}

\* ---------------------------------------------------------------- family redirect: one redirect, every Location form
Bases == <<U0, [U0 EXCEPT !.path = << >>, !.q = ""], [U0 EXCEPT !.path = <<"d", "">>, !.q = ""],
           [sch |-> "https", host |-> "a.test", port |-> "8443", path |-> <<"d", "e", "f">>, q |-> "x=1"]>>
Locs == {L("abs", "http", "b.test", "", <<"p">>, "q=2", 0), L("abs", "https", "b.test", "8443", << >>, "", 0),
         L("abs", "http", "a.test", "", <<"p", "">>, "", 0),
         L("schrel", "", "b.test", "", <<"p">>, "", 0), L("schrel", "", "a.test", "81", <<"p", "q">>, "z=3", 0),
         L("path", "", "", "", <<"p", "q">>, "z=3", 0), L("path", "", "", "", << >>, "", 0), L("path", "", "", "", <<"p">>, QSS, 0),
         L("rel", "", "", "", <<"r">>, "", 0), L("rel", "", "", "", <<"r", "s">>, "y=2", 0), L("rel", "", "", "", <<"r">>, "", 1),
         L("rel", "", "", "", <<"r">>, QSS, 0),
         L("query", "", "", "", << >>, "q=9", 0), L("query", "", "", "", << >>, QSS, 0), L("frag", "", "", "", << >>, "", 0), NoLoc}
RedirMethods == {<<"GET", "none">>, <<"POST", "bytes">>, <<"PUT", "bytes">>, <<"HEAD", "none">>, <<"DELETE", "none">>}
OneRedirect ==
  {Mk([Base EXCEPT !.fam = "redirect", !.api = "redirects", !.method = mb[1], !.body = mb[2], !.u = Bases[bi], !.maxRedirects = mr,
       !.mw = (IF mr = 0 THEN 3 ELSE 1), !.script = <<R(code, ka, lc)>> \o Oks]) :
     mb \in RedirMethods, bi \in GBases, mr \in {0, 1}, code \in GRedirCodes, ka \in {"close", "live", "stale"}, lc \in Locs}
OneRedirectOK(c) == GFull \/ c.script[1].ka = "close" \/ (c.method = "GET" /\ c.maxRedirects = 1 /\ c.script[1].loc.k \in {"path", "abs"})
                          \/ (c.method = "POST" /\ c.script[1].ka = "stale" /\ c.script[1].loc.k = "query")

\* ---------------------------------------------------------------- family chain: several hops, limits, retries inside hops
ChainLocs == {L("path", "", "", "", <<"p", "q">>, "", 0), L("rel", "", "", "", <<"r">>, "y=2", 0), L("rel", "", "", "", <<"s", "t">>, "", 1),
              L("abs", "https", "b.test", "", <<"p">>, "", 0), L("query", "", "", "", << >>, "q=9", 0)}
ChainHops == {R(code, ka, lc) : code \in {301, 302, 303, 307}, ka \in {"close", "stale"}, lc \in ChainLocs}
ChainSeqs == {s \in SeqsUpTo(ChainHops, 2) : Len(s) = 2}
\* three hops over a smaller alphabet (thorough tier)
ChainHops3 == {R(code, "close", lc) : code \in {302, 303, 307}, lc \in ChainLocs \ {L("rel", "", "", "", <<"s", "t">>, "", 1)}}
ChainSeqs3 == IF GChainLen >= 3 THEN {s \in SeqsUpTo(ChainHops3, 3) : Len(s) = 3} ELSE {}
Chains ==
  {Mk([Base EXCEPT !.fam = "chain", !.api = "redirects", !.method = mb[1], !.body = mb[2], !.maxRedirects = mr, !.mw = 2,
       !.script = s \o Oks]) : mb \in {<<"GET", "none">>, <<"POST", "bytes">>}, mr \in {1, 2, 3}, s \in ChainSeqs}
  \cup {Mk([Base EXCEPT !.fam = "chain", !.api = "redirects", !.method = mb[1], !.body = mb[2], !.maxRedirects = mr, !.mw = 1,
            !.script = s \o Oks]) : mb \in {<<"GET", "none">>, <<"PUT", "bytes">>}, mr \in {2, 3}, s \in ChainSeqs3}
ChainOK(c) == GFull \/ (\A i \in 1 .. 2 : c.script[i].ka = "close") \/ (c.method = "GET" /\ c.script[1].status = 302 /\ c.maxRedirects = 2)
\* a hop that fails and is retried (custom RetryIf), a hop on a connection the peer closed, the limit of Get/Post (16)
Hop(code, ka) == R(code, ka, L("rel", "", "", "", <<"n">>, "", 0))
HopRetry ==
  {Mk([Base EXCEPT !.fam = "chain", !.api = "redirects", !.method = mb[1], !.body = mb[2], !.maxRedirects = 2, !.retryIf = rif, !.maxAttempts = ma,
       !.script = <<Hop(302, ka)>> \o f \o <<Hop(307, "close")>> \o Oks]) :
     mb \in {<<"GET", "none">>, <<"POST", "bytes">>}, rif \in {"default", "err", "s5xx"}, ma \in {1, 3}, ka \in {"close", "live", "stale"},
     f \in {<<B("closePartial")>>, <<B("closeBefore")>>, <<R(502, "close", NoLoc)>>, <<B("closePartial"), B("closePartial")>>, << >>}}
Repeat(e, n) == [i \in 1 .. n |-> e]
ApiChains ==
  {Mk([Base EXCEPT !.fam = "chain", !.api = api, !.script = Repeat(Hop(code, ka), n) \o Oks]) :
     api \in {"get", "post"}, code \in {302, 307}, ka \in {"close", "live"}, n \in {1, 15, 16, 17}}
  \cup {Mk([Base EXCEPT !.fam = "chain", !.api = api, !.script = <<R(code, "close", NoLoc)>> \o Oks]) : api \in {"get", "post", "redirects"}, code \in GRedirCodes}
  \cup {Mk([Base EXCEPT !.fam = "chain", !.api = "do", !.script = <<R(code, "close", L("path", "", "", "", <<"p">>, "", 0))>> \o Oks]) : code \in GRedirCodes}

\* ---------------------------------------------------------------- kind delay: retry.Delay and the policies as functions
PolSeqs == {<<"fixed">>, <<"backoff">>, <<"random">>, <<"default">>, <<"fixed", "backoff">>, <<"backoff", "fixed">>,
            <<"fixed", "random">>, <<"backoff", "random">>, <<"random", "backoff", "fixed">>, <<"fixed", "backoff", "random">>,
            <<"default", "fixed">>, <<"fixed", "fixed">>, <<"random", "random">>, << >>}
DelayQs ==
  {[pol |-> ps, comb |-> cb, via |-> via, unit |-> "ns", delay |-> dl, maxDelay |-> md, maxJitter |-> mj, k |-> k,
    n |-> IF \E i \in 1 .. Len(ps) : ps[i] = "random" THEN 64 ELSE 2] :
     ps \in PolSeqs, cb \in BOOLEAN, via \in {"delay", "policy"}, dl \in GDelayDs, md \in {0, 5, 1000}, mj \in {0, 1, 1000}, k \in GDelayKs}
DelayQOK(q) == /\ (q.comb \/ Len(q.pol) = 1)                 \* several policies only through CombineDelay
               /\ (Len(q.pol) # 1 => q.comb)
               /\ (q.pol = << >> => q.via = "delay" /\ q.comb)
               /\ (q.via = "policy" => q.maxDelay = 0)        \* MaxDelay is applied by retry.Delay only
\* Delay << k for large k (whole milliseconds; capped by MaxDelay: "limit the upper limit of waiting time")
BigKs == {20, 30, 40, 43, 44, 45, 50, 54, 61, 62, 63, 64, 100}
BigQs == {[pol |-> ps, comb |-> Len(ps) > 1, via |-> "delay", unit |-> "ms", delay |-> dl, maxDelay |-> md, maxJitter |-> 0, k |-> k, n |-> 2] :
            ps \in {<<"backoff">>, <<"fixed", "backoff">>}, dl \in {1, 100, 1000}, md \in {1000, 100000}, k \in BigKs}
Overflows(q) == q.unit = "ms" /\ q.k >= (IF q.delay = 1 THEN 44 ELSE IF q.delay = 100 THEN 37 ELSE 34)   \* Delay << k leaves int64
DelayCases == {[Base EXCEPT !.kind = "delay", !.fam = "delay", !.d = q, !.sig = [Sig0 EXCEPT !.bo = Overflows(q)]] :
                 q \in {x \in DelayQs : DelayQOK(x)} \cup BigQs}

\* ---------------------------------------------------------------- all cases, numbered
LoopCases == {c \in RetryCases : RetryOK(c)} \cup PreCancelled
             \cup {c \in DeadlineCases : DeadlineOK(c)} \cup ReadTimeoutOnly \cup ExpiredCases \cup TimerCases \cup LongDelay
             \cup {c \in OneRedirect : OneRedirectOK(c)} \cup {c \in Chains : ChainOK(c)} \cup HopRetry \cup ApiChains
AllCases == SetToSeq(LoopCases \cup DelayCases)
ASSUME ndJsonSerialize(IOEnv.VERIF_OUT, [i \in 1 .. Len(AllCases) |-> [id |-> i] @@ AllCases[i]])
ASSUME PrintT(<<"cases", Len(AllCases)>>)

GenInit == StartWith(Base)
GenNext == UNCHANGED vars
=============================================================================
