CONSTANTS PairSamples = 500
INIT GenInit
NEXT GenNext
