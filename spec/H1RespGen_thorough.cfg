CONSTANTS Sizes = {0, 1, 17, 4095, 4096, 4097, 8192, 8193, 65537}
Statuses = {100, 200, 201, 204, 206, 301, 304, 400, 404, 500, 503}
SeqStride = 2
INIT GenInit
NEXT GenNext
