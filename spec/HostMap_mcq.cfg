\* corrected; one http and one https key (two maps, two cleaners), 2 callers x 1 call, MaxConns 1, 2 ticks, CloseIdleConnections, reaper, retry window; all interleavings
CONSTANTS
  Keys = {"a", "b"}
  TLSKeys = {"b"}
  Callers = {1, 2}
  MaxCalls = 1
  NH = 2
  MaxConns = 1
  MaxTicks = 2
  MaxCI = 1
  MaxReap = 1
  Retries = 1
  HoldCounted = TRUE
  CIAll = TRUE
SPECIFICATION Spec
VIEW View
INVARIANTS TypeOK IdsSuffice MapSound OnePerKey OrphanFree BoundedPerKey CleanerCount LockExcludes
PROPERTIES RemoveOnlyIdle CloseIdleAll CloseIdleKeepsBusy
