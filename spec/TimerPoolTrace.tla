--------------------------- MODULE TimerPoolTrace ---------------------------
(* Trace validation for X03 part B.  harness/drivers/x03 -part timer replays a scenario of TimerPoolGen (one       *)
(* goroutine, GOMAXPROCS 1, pool emptied between cases) against the real AcquireTimer / ReleaseTimer and records     *)
(*   Acq{u, d_us, tid, peek, el_us}   AcquireTimer returned timer object tid (numbered by first appearance in the     *)
(*                                    case); peek = len(t.C) right afterwards; el_us = microseconds since the call    *)
(*   AcqPanic{u}                      AcquireTimer panicked                                                          *)
(*   Wait{u, fired, el_us}            polled len(t.C) = 1 for at most 2 s           (el_us: since that user's Acquire) *)
(*   Recv{u, got, el_us}              blocking receive from t.C, at most 2 s                                          *)
(*   Try{u, got, el_us}               non-blocking receive                                                           *)
(*   Rel{u, left} / RelAgain{u, left} ReleaseTimer returned; left = len(t.C) afterwards                               *)
(*   Done                             end of the scenario;    Storm{iters, stale, panics, hung}: see the driver        *)
(*   Skip{u, op}                      a step of a user that holds no timer (its AcquireTimer panicked): not executed   *)
(*   Hang{u, op, skipped}             a call did not return within 2 s: no action, the case is rejected               *)
(* The state is the timer record of TimerPool and every event is replayed with TimerPool's own step functions        *)
(* (DoNew, DoGet, DoReset, DoFire, DoRecv, DoRelease).  Firing is silent: the replay inserts DoFire only where an     *)
(* observation forces it (a tick was seen / received) and only if the recorded clock allows it -- the one real-time   *)
(* axiom: an arming with duration d does not fire before d has elapsed (el_us >= d_us).  A tick seen earlier than     *)
(* that is a stale tick of an earlier arming or an early tick: B1 is violated and the line is rejected.               *)
(* One-sided generous bounds only: a 2 ms timer must have fired after 2 s; "never" is 1000 s.                         *)
(* Unconstrained: which object the pool hands out (a fresh one is always possible: sync.Pool may drop its content).   *)
EXTENDS TimerPool, Json, IOUtils

Trace == ndJsonDeserialize(IOEnv.VERIF_TRACE)

VARIABLES l, bad, cs, k, known, hold, dur, last
\* cs: the Case record (or NoCase), k: steps consumed, known: timer objects seen, hold/dur/last: per user
tvars == <<s, made, pc, tm, act, left, rcv, again, l, bad, cs, k, known, hold, dur, last>>
Z2 == <<0, 0>>
NoCase == [kind |-> "none"]
Frozen == UNCHANGED <<made, pc, tm, act, left, rcv, again>>
TraceInit == /\ Init /\ l = 1 /\ bad = << >> /\ cs = NoCase /\ k = 0 /\ known = 0 /\ hold = Z2 /\ dur = Z2 /\ last = Z2

Ln == Trace[l]
InCase == cs.kind # "none"
DUS(d) == IF d = "s" THEN 2000 ELSE 1000000000
StepIs(op) == InCase /\ cs.kind = "scn" /\ k < Len(cs.steps) /\ cs.steps[k + 1].op = op /\ cs.steps[k + 1].u = Ln.u

\* the state after the tick of t's current arming was observed at clock el (of the user whose arming it is): it is in
\* the channel already, or the timer fires now -- allowed only if d has elapsed.  << >> when impossible.
Seen(st, t, el, d) == IF st.ch[t] # 0 THEN (IF st.ch[t] = st.ep[t] THEN <<st>> ELSE << >>)
                      ELSE IF st.armed[t] /\ el >= d THEN <<DoFire(st, t)>> ELSE << >>

\* ---- per event: the successor timer record as a sequence of length 0 (not admitted) or 1
AcqNext ==
  IF ~(StepIs("A") /\ Ln.d_us = DUS(cs.steps[k + 1].d) /\ Ln.tid \in 1 .. NT /\ hold[Ln.u] = 0) THEN << >>
  ELSE LET t == Ln.tid
           s1 == IF t = known + 1 THEN <<DoNew(s, t)>>
                 ELSE IF t <= known /\ s.cnt[t] > 0 /\ ~WasActive(s, t) THEN <<DoReset(DoGet(s, t), t)>>   \* B3/B4
                 ELSE << >>
       IN IF s1 = << >> THEN << >>
          ELSE IF Ln.peek = 0 THEN (IF s1[1].ch[t] = 0 THEN s1 ELSE << >>)
          ELSE Seen(s1[1], t, Ln.el_us, Ln.d_us)                                                          \* B1
\* a pooled timer that is still armed (only after a double release) makes initTimer panic; Reset has re-armed it
Trapped == {t \in 1 .. known : s.cnt[t] > 0 /\ s.armed[t]}
AcqPanicNext == IF StepIs("A") /\ Trapped # {} THEN LET t == CHOOSE x \in Trapped : TRUE IN <<DoReset(DoGet(s, t), t)>>
                ELSE << >>
Held == hold[Ln.u]
WaitNext == IF StepIs("W") /\ Held # 0 /\ Ln.fired THEN Seen(s, Held, Ln.el_us, dur[Ln.u]) ELSE << >>
GotNext == LET x == Seen(s, Held, Ln.el_us, dur[Ln.u]) IN IF x = << >> THEN << >> ELSE <<DoRecv(x[1], Held)>>
\* a receive that gives up after 2 s is admitted only when nothing can arrive any more
RecvNext == IF ~(StepIs("R") /\ Held # 0) THEN << >>
            ELSE IF Ln.got THEN GotNext
            ELSE IF s.ch[Held] = 0 /\ ~s.armed[Held] THEN <<s>> ELSE << >>
TryNext == IF ~(StepIs("T") /\ Held # 0) THEN << >>
           ELSE IF Ln.got THEN GotNext
           ELSE IF s.ch[Held] = 0 THEN <<s>> ELSE << >>
RelNext == IF StepIs("X") /\ Held # 0 /\ Ln.left = 0 THEN <<DoRelease(s, Held)>> ELSE << >>            \* B2
RelAgainNext == IF StepIs("Y") /\ last[Ln.u] # 0 /\ Ln.left = 0 THEN <<DoRelease(s, last[Ln.u])>> ELSE << >>

\* a step of a user that holds nothing because its AcquireTimer panicked: not executed
SkipNext == IF StepIs(Ln.op) /\ ((Ln.op \in {"W", "R", "T", "X"} /\ Held = 0) \/ (Ln.op = "Y" /\ last[Ln.u] = 0)) THEN <<s>> ELSE << >>
EvNext == CASE Ln.ev = "Skip" -> SkipNext [] Ln.ev = "Acq" -> AcqNext [] Ln.ev = "AcqPanic" -> AcqPanicNext [] Ln.ev = "Wait" -> WaitNext
            [] Ln.ev = "Recv" -> RecvNext [] Ln.ev = "Try" -> TryNext [] Ln.ev = "Rel" -> RelNext
            [] Ln.ev = "RelAgain" -> RelAgainNext [] OTHER -> << >>
CaseOK == Ln.ev = "Case" /\ ~InCase /\ Ln.kind \in {"scn", "storm"}
DoneOK == Ln.ev = "Done" /\ InCase /\ cs.kind = "scn" /\ k = Len(cs.steps)
StormOK == Ln.ev = "Storm" /\ InCase /\ cs.kind = "storm" /\ Ln.iters > 0 /\ Ln.stale = 0 /\ Ln.panics = 0 /\ Ln.hung = 0   \* B1, B3
EndOK == Ln.ev = "End" /\ ~InCase

Fresh == s' = S0 /\ k' = 0 /\ known' = 0 /\ hold' = Z2 /\ dur' = Z2 /\ last' = Z2
Step ==
  /\ l <= Len(Trace) /\ Frozen
  /\ IF CaseOK THEN l' = l + 1 /\ cs' = Ln /\ Fresh /\ UNCHANGED bad
     ELSE IF DoneOK \/ StormOK THEN l' = l + 1 /\ cs' = NoCase /\ Fresh /\ UNCHANGED bad
     ELSE IF EndOK THEN l' = l + 1 /\ UNCHANGED <<bad, cs, s, k, known, hold, dur, last>>
     ELSE \E nx \in {EvNext} :
          IF nx # << >>
          THEN /\ s' = nx[1] /\ l' = l + 1 /\ k' = k + 1 /\ UNCHANGED <<bad, cs>>
               /\ known' = IF Ln.ev = "Acq" /\ Ln.tid > known THEN Ln.tid ELSE known
               /\ hold' = CASE Ln.ev = "Acq" -> [hold EXCEPT ![Ln.u] = Ln.tid] [] Ln.ev = "Rel" -> [hold EXCEPT ![Ln.u] = 0]
                            [] OTHER -> hold
               /\ dur' = IF Ln.ev = "Acq" THEN [dur EXCEPT ![Ln.u] = Ln.d_us] ELSE dur
               /\ last' = IF Ln.ev = "Rel" THEN [last EXCEPT ![Ln.u] = hold[Ln.u]] ELSE last
          ELSE /\ bad' = Append(bad, l) /\ cs' = NoCase /\ Fresh                       \* rejected: go on with the next case
               /\ l' = IF \E i \in l + 1 .. Len(Trace) : Trace[i].ev \in {"Case", "End"}
                       THEN CHOOSE i \in l + 1 .. Len(Trace) : Trace[i].ev \in {"Case", "End"} /\ \A m \in l + 1 .. i - 1 : Trace[m].ev \notin {"Case", "End"}
                       ELSE Len(Trace) + 1
MismatchEOF == /\ l = Len(Trace) + 1 /\ InCase /\ bad' = Append(bad, l) /\ cs' = NoCase
               /\ UNCHANGED <<s, l, k, known, hold, dur, last>> /\ Frozen
TraceNext == Step \/ MismatchEOF
Report == (l = Len(Trace) + 1 /\ ~InCase) => PrintT(<<"@@BAD", bad, l - 1, Len(Trace)>>)
=============================================================================
