-------------------------- MODULE CtxLifecycleGen --------------------------
(***************************************************************************)
(* Case generator for C09.  Histories, as ndjson lines for the driver:     *)
(*   cover   one case: the driver reports its mutator table (Known) and    *)
(*           the exported API it does not cover (Uncovered)                *)
(*   touch   every mutator on every kind it applies to: which components   *)
(*           it really changes (checked against the Touch table)           *)
(*   Ctx     every single mutator x {same keep-alive connection, next      *)
(*           connection, other concurrently open connection} x {handler    *)
(*           returns, aborts, panics under the recovery middleware};       *)
(*           ordered pairs (all of them when PairMod = 1, else the seeded  *)
(*           1/PairMod sample; on all three reuse modes when PairAllModes, *)
(*           else on one); NTriple seeded triples.  Probe request,         *)
(*           shape of the mutating request and tracing on/off rotate with  *)
(*           the index and the seed.                                       *)
(*   Request/Response/URI/Cookie/Args  every single mutator (x the three   *)
(*           setter programs), ordered pairs (1/SPairMod sample), then     *)
(*           Release / Acquire / look / apply the setter program / look    *)
(*   conc    NConc cases per idle mode: Conns goroutines x Rounds          *)
(*           connections [mutate, probe, mutate, probe] on one engine      *)
(* Seed = IOEnv.VERIF_SEED.                                                *)
(***************************************************************************)
EXTENDS CtxLifecycle, Json, IOUtils, SequencesExt

CONSTANTS PairMod, PairAllModes, SPairMod, NTriple, NConc, Conns, Rounds, TouchShapes

Seed == atoi(IOEnv.VERIF_SEED)

Modes   == <<"same", "next", "other">>
Endings == <<"return", "abort", "panic">>
Probes  == <<"min", "rich">>
Shapes  == <<"get", "form", "multipart", "chunked">>
\* setter program the probe applies (reuse.go): after its first look, or ("!") instead of it, before any getter ran
Setvs   == <<"bytes", "string", "copy", "bytes!", "string!", "copy!">>

MSeq == [k \in Kinds |-> SetToSeq(MutsOf(k))]
N(k) == Len(MSeq[k])

Blank == [id |-> 0, kind |-> "", obj |-> "", muts |-> << >>, mode |-> "", ending |-> "", probe |-> "", shape |-> "",
          trace |-> FALSE, conns |-> 0, rounds |-> 0, idle |-> "", setv |-> ""]

\* rotating parameters of a context history: x runs through all 3*3*2*4*2 combinations as it grows
CtxCase(muts, mode, ending, x) ==
  [Blank EXCEPT !.kind = "Ctx", !.muts = muts, !.mode = mode, !.ending = ending,
                !.probe = Probes[(x % 2) + 1], !.shape = Shapes[((x \div 2) % 4) + 1], !.trace = ((x \div 8) % 2) = 1,
                !.setv = Setvs[((x + (x \div 16)) % 6) + 1]]
CtxCaseX(muts, x) == CtxCase(muts, Modes[(x % 3) + 1], Endings[((x \div 3) % 3) + 1], x \div 9)

Cover == << [Blank EXCEPT !.kind = "cover"] >>

TouchCases ==
  LET ctx == {<<i, s>> : i \in 1 .. N("Ctx"), s \in 1 .. TouchShapes}
      oth == {<<k, i>> : k \in Kinds \ {"Ctx"}, i \in 1 .. 400}
  IN  SetToSeq({[Blank EXCEPT !.kind = "touch", !.obj = "Ctx", !.muts = <<MSeq["Ctx"][p[1]]>>,
                              !.shape = Shapes[((p[1] + p[2] + Seed) % 4) + 1], !.trace = TRUE] : p \in ctx})
      \o SetToSeq({[Blank EXCEPT !.kind = "touch", !.obj = p[1], !.muts = <<MSeq[p[1]][p[2]]>>] :
                   p \in {q \in oth : q[2] <= N(q[1])}})

CtxSingles ==
  SetToSeq({CtxCase(<<MSeq["Ctx"][i]>>, Modes[mo], Endings[en], i + mo + en + Seed) :
            i \in 1 .. N("Ctx"), mo \in 1 .. 3, en \in 1 .. 3})

PairIdx(n, mod) == {p \in (1 .. n) \X (1 .. n) : (p[1] * 31 + p[2] * 17 + Seed * 7) % mod = 0}
\* every selected ordered pair on one reuse mode (rotating), or on all three when PairAllModes
PairX(p) == p[1] * 5 + p[2] * 3 + Seed
PairCase(p, mo) == CtxCase(<<MSeq["Ctx"][p[1]], MSeq["Ctx"][p[2]]>>, Modes[mo], Endings[((PairX(p) + mo) % 3) + 1], (PairX(p) \div 3) + mo)
CtxPairs == SetToSeq({PairCase(q[1], q[2]) :
                      q \in {r \in PairIdx(N("Ctx"), PairMod) \X (1 .. 3) : PairAllModes \/ r[2] = (PairX(r[1]) % 3) + 1}})

\* small integer hash (every intermediate < 2^31)
H(x) == (x * 75 + 74) % 65537
CtxTriples ==
  LET n == N("Ctx") IN
  [t \in 1 .. NTriple |->
     LET a == H(t + Seed * 131) b == H(a + t) c == H(b + 3 * t)
     IN  CtxCaseX(<<MSeq["Ctx"][(a % n) + 1], MSeq["Ctx"][(b % n) + 1], MSeq["Ctx"][(c % n) + 1]>>, a + b + c)]

Standalone(k) ==
  SetToSeq({[Blank EXCEPT !.kind = k, !.muts = <<MSeq[k][i]>>, !.setv = Setvs[v]] : i \in 1 .. N(k), v \in 1 .. 6})
  \o SetToSeq({[Blank EXCEPT !.kind = k, !.muts = <<MSeq[k][p[1]], MSeq[k][p[2]]>>, !.setv = Setvs[((p[1] + p[2] + Seed) % 6) + 1]] :
               p \in PairIdx(N(k), IF N(k) <= 40 THEN 1 ELSE SPairMod)})

Rotate(s, r) == [i \in 1 .. Len(s) |-> s[((i + r - 1) % Len(s)) + 1]]
ConcCases ==
  [c \in 1 .. 2 * NConc |->
     [Blank EXCEPT !.kind = "conc", !.muts = Rotate(MSeq["Ctx"], Seed * 37 + c * 11), !.conns = Conns, !.rounds = Rounds,
                   !.idle = IF c % 2 = 1 THEN "inloop" ELSE "poller", !.trace = (c \div 2) % 2 = 0]]

All == Cover \o TouchCases \o CtxSingles \o CtxPairs \o CtxTriples
       \o Standalone("Request") \o Standalone("Response") \o Standalone("URI") \o Standalone("Cookie") \o Standalone("Args")
       \o ConcCases

ASSUME ndJsonSerialize(IOEnv.VERIF_OUT, [i \in 1 .. Len(All) |-> [All[i] EXCEPT !.id = i]])

GenInit == /\ kind = "Ctx" /\ obj = [o \in Objs |-> FreshObj] /\ slot = [s \in Slots |-> IdleSlot] /\ nmut = 0 /\ seen = {}
GenNext == UNCHANGED vars
=============================================================================
