CONSTANTS
  Procs = {p1}
  MaxBinds = 1
  MaxTagSet = 6
  NKindsSingle = 26
  Bounds = TRUE
  NRand = 3
  NMulti = 8000
  NReqMulti = 10
  NOrder = 4000
  NConc = 0
INIT GenInit
NEXT GenNext
